"""
Import shim (harness side only, never in /repo): scikit-fem 3.2.0 declares
dataclass fields with an ndarray default, which Python 3.12's dataclasses
rejects ("mutable default ... use default_factory").  We let the class
definition proceed by handing dataclasses a hashable *view* of the same array.
Import this module before `srlife.structural`.
"""
import dataclasses
import numpy as np

_orig = dataclasses._get_field
_subs = {}


def _hashable_view(default):
    base = type(default)
    sub = _subs.get(base)
    if sub is None:
        sub = type("Hashable" + base.__name__, (base,), {"__hash__": object.__hash__})
        _subs[base] = sub
    return default.view(sub)


def _get_field(cls, a_name, a_type, default_kw_only):
    try:
        return _orig(cls, a_name, a_type, default_kw_only)
    except ValueError as e:
        if "mutable default" not in str(e):
            raise
        default = getattr(cls, a_name)
        if isinstance(default, np.ndarray):
            setattr(cls, a_name, _hashable_view(default))
            return _orig(cls, a_name, a_type, default_kw_only)
        raise


dataclasses._get_field = _get_field
