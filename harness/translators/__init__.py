"""Translators from /repo's source to Coq (G-models).  Each entry of
REGISTRY maps a generated file name (coq/gen/<name>.v) to a function returning
its text; every function is fail-closed (raises on anything it does not
understand)."""
import os
import traceback

from harness.core import GEN, write_if_changed

REGISTRY = {}


def register(name):
    def deco(fn):
        REGISTRY[name] = fn
        return fn
    return deco


def generate(name):
    text = REGISTRY[name]()
    write_if_changed(os.path.join(GEN, name + ".v"), text)
    return text


def generate_all(verbose=False):
    import_all()
    ok = True
    for name in sorted(REGISTRY):
        try:
            generate(name)
            if verbose:
                print("generated coq/gen/%s.v" % name)
        except Exception:
            ok = False
            traceback.print_exc()
            write_if_changed(os.path.join(GEN, name + ".v"),
                             "(* GENERATION FAILED: the translator rejected the source; nothing is defined here *)\n")
    return ok


def import_all():
    """import every translator module so that it registers itself"""
    import importlib
    import pkgutil
    for m in pkgutil.iter_modules(__path__):
        importlib.import_module(__name__ + "." + m.name)
