"""
Translator for C14 / C07 (G-model): reads the link classes of
srlife/thermohydraulics/flowpath.py with `ast` and emits coq/gen/FlowLinks.v: the
link equations as they stand in the source, as Gallina expressions over Q for one
tube (the numpy expressions are elementwise over the tubes of a panel; broadcasting
subscripts such as [:, None, None] and the transpose are dropped, jnp.sum over the
wall grid becomes the double sum over the metal-temperature table).

  gen_tmean, gen_velocity, gen_fluid_temp_at, gen_fluid_temps, gen_dz, gen_dtheta,
  gen_q_mass, gen_q_conv, gen_panel_residual, gen_manifold_residual, gen_start_residual,
  gen_ntube, gen_zs_source

proofs/FlowLinksProofs.v shows that each equals the hand-written model of
model/FlowPath.v.  Fail-closed: any construct outside this small language raises.
"""
import ast
import os

from harness.core import REPO
from harness.translators import register
from harness.translators.plumbing import find_func
from harness.translators.strainbook import Untranslatable


def dotted(node):
    if isinstance(node, ast.Name):
        return node.id
    if isinstance(node, ast.Attribute):
        return dotted(node.value) + "." + node.attr
    raise Untranslatable("not a dotted name: %s" % ast.unparse(node)[:60])


def broadcast_only(sl):
    """a subscript made of ':' and None only (numpy broadcasting), which an elementwise reading drops"""
    elts = sl.elts if isinstance(sl, ast.Tuple) else [sl]
    for e in elts:
        if isinstance(e, ast.Slice) and e.lower is None and e.upper is None and e.step is None:
            continue
        if isinstance(e, ast.Constant) and e.value is None:
            continue
        return False
    return True


class Tr:
    def __init__(self, names, calls):
        self.names = dict(names)
        self.calls = dict(calls)

    def ex(self, node):
        if isinstance(node, ast.BinOp):
            if isinstance(node.op, ast.Pow):
                if isinstance(node.right, ast.Constant) and float(node.right.value) == 2.0:
                    b = self.ex(node.left)
                    return "(%s * %s)" % (b, b)
                raise Untranslatable("power other than a square: %s" % ast.unparse(node))
            op = {ast.Add: "+", ast.Sub: "-", ast.Mult: "*", ast.Div: "/"}.get(type(node.op))
            if op is None:
                raise Untranslatable("operator %s" % type(node.op).__name__)
            return "(%s %s %s)" % (self.ex(node.left), op, self.ex(node.right))
        if isinstance(node, ast.UnaryOp) and isinstance(node.op, ast.USub):
            return "(- %s)" % self.ex(node.operand)
        if isinstance(node, ast.Constant) and isinstance(node.value, (int, float)) and not isinstance(node.value, bool) \
                and float(node.value) == int(node.value):
            return "%d" % int(node.value)
        src = ast.unparse(node)
        if src in self.names:
            return self.names[src]
        if isinstance(node, ast.Subscript) and broadcast_only(node.slice):
            return self.ex(node.value)
        if isinstance(node, ast.Attribute) and node.attr == "T":
            return self.ex(node.value)
        if isinstance(node, ast.Call):
            d = dotted(node.func)
            if d not in self.calls:
                raise Untranslatable("unknown call %s" % d)
            return self.calls[d](self, node)
        raise Untranslatable("unknown expression %s" % src[:80])

    def body(self, fn):
        """straight-line function: assignments to fresh local names, then one return"""
        stmts = list(fn.body)
        if stmts and isinstance(stmts[0], ast.Expr) and isinstance(stmts[0].value, ast.Constant) and isinstance(stmts[0].value.value, str):
            stmts = stmts[1:]
        for st in stmts[:-1]:
            if not (isinstance(st, ast.Assign) and len(st.targets) == 1 and isinstance(st.targets[0], ast.Name)):
                raise Untranslatable("%s: unexpected statement %s" % (fn.name, ast.unparse(st)[:60]))
            if st.targets[0].id in self.names:
                raise Untranslatable("%s: %s assigned twice or shadows an input" % (fn.name, st.targets[0].id))
            self.names[st.targets[0].id] = self.ex(st.value)
        if not isinstance(stmts[-1], ast.Return):
            raise Untranslatable("%s does not end in a return" % fn.name)
        return self.ex(stmts[-1].value)


def args_of(fn):
    return [a.arg for a in fn.args.args if a.arg != "self"]


def plain(*terms):
    """a call translated positionally: every argument is translated and handed to the builder"""
    def deco(build):
        def f(tr, node):
            if node.keywords:
                raise Untranslatable("keyword arguments in %s" % ast.unparse(node)[:60])
            return build(*[tr.ex(a) for a in node.args])
        return f
    return deco


@register("FlowLinks")
def generate():
    with open(os.path.join(REPO, "srlife/thermohydraulics/flowpath.py")) as f:
        tree = ast.parse(f.read())
    out = ["(* GENERATED by harness/translators/flowlinks.py from srlife/thermohydraulics/flowpath.py -- do not edit *)",
           "From Coq Require Import QArith List String.", "From SV Require Import model.FlowPath.", "Import ListNotations.",
           "Open Scope Q_scope.", ""]

    def need_args(fn, want):
        if args_of(fn) != want:
            raise Untranslatable("%s has arguments %s, expected %s" % (fn.name, args_of(fn), want))

    # ---- PanelLink.ntube
    nt = find_func(tree, "PanelLink", "ntube")
    if ast.unparse(nt.body[-1]) != "return jnp.sum(self.weights)":
        raise Untranslatable("PanelLink.ntube is not the sum of the weights: %s" % ast.unparse(nt.body[-1]))
    out.append("Definition gen_ntube (p : panel) : Q := sumQ (weights p).")
    mf = find_func(tree, "PanelLink", "mass_flow_rate")
    if ast.unparse(mf.body[-1]) != "return jnp.asarray(self.mass_ifn(t))":
        raise Untranslatable("PanelLink.mass_flow_rate is not the interpolated mass flow")
    # ---- SimplePanelLink.__init__: axial stations and cell sizes
    init = find_func(tree, "SimplePanelLink", "__init__")
    asg = {ast.unparse(s.targets[0]): s.value for s in init.body if isinstance(s, ast.Assign) and len(s.targets) == 1}
    for k in ("self.zs", "self.dtheta", "self.dz", "self.ri", "self.h", "self.metal_temp", "self.material"):
        if k not in asg:
            raise Untranslatable("SimplePanelLink.__init__ does not set %s" % k)
    for k, v in (("self.ri", "ri"), ("self.h", "h"), ("self.metal_temp", "metal_temp"), ("self.material", "material")):
        if ast.unparse(asg[k]) != v:
            raise Untranslatable("SimplePanelLink.__init__: %s = %s" % (k, ast.unparse(asg[k])))
    out.append('Definition gen_zs_source : string := "%s"%%string.' % ast.unparse(asg["self.zs"]).replace('"', "'"))
    shape = {"self.metal_temp.shape[2]": "(qnat (ntheta p))", "self.metal_temp.shape[3]": "(qnat (nzs p))",
             "self.h": "(ht p)", "np.pi": "pi"}
    out.append("Definition gen_dtheta (pi : Q) (p : panel) : Q := %s." % Tr(shape, {}).ex(asg["self.dtheta"]))
    out.append("Definition gen_dz (p : panel) : Q := %s." % Tr(shape, {}).ex(asg["self.dz"]))

    # ---- mean temperature
    mt = find_func(tree, "SimplePanelLink", "mean_temperature")
    need_args(mt, ["T_start", "T_tube"])
    out.append("Definition gen_tmean (tin tout : Q) : Q := %s." % Tr({"T_start": "tin", "T_tube": "tout"}, {}).body(mt))

    base_names = {"T_start": "tin", "T_tube": "tout", "t": "t", "self.ntube": "(gen_ntube p)", "np.pi": "pi", "self.ri": "(ri p)",
                  "self.h": "(ht p)", "self.weights": "w", "self.dz": "(gen_dz p)", "self.dtheta": "(gen_dtheta pi p)"}
    base_calls = {
        "self.mass_flow_rate": plain()(lambda t: "mdot"),
        "self.mean_temperature": plain()(lambda a, b: "(gen_tmean %s %s)" % (a, b)),
        "self.material.rho": plain()(lambda x: "(rho f %s)" % x),
        "self.material.cp": plain()(lambda x: "(cp f %s)" % x),
        "self.material.film_coefficient": plain()(lambda a, b, c: "(film f %s %s %s)" % (a, b, c)),
    }
    # ---- flow_rates
    fr = find_func(tree, "SimplePanelLink", "flow_rates")
    need_args(fr, ["T_start", "T_tube", "t"])
    out.append("Definition gen_velocity (pi : Q) (f : fluid) (p : panel) (mdot tin tout : Q) : Q := %s."
               % Tr(base_names, base_calls).body(fr))
    # ---- fluid_temperatures (elementwise in the axial station z)
    ft = find_func(tree, "SimplePanelLink", "fluid_temperatures")
    need_args(ft, ["T_start", "T_tube", "t"])
    out.append("Definition gen_fluid_temp_at (p : panel) (tin tout z : Q) : Q := %s."
               % Tr(dict(base_names, **{"self.zs": "z"}), base_calls).body(ft))
    out.append("Definition gen_fluid_temps (p : panel) (tin tout : Q) : list Q := map (gen_fluid_temp_at p tin tout) (zs p).")
    # ---- Q_mass
    qm = find_func(tree, "SimplePanelLink", "Q_mass")
    need_args(qm, ["T_start", "T_tube", "t"])
    out.append("Definition gen_q_mass (f : fluid) (p : panel) (mdot tin : Q) (w tout : Q) : Q := %s." % Tr(base_names, base_calls).body(qm))
    # ---- Q_conv
    qc = find_func(tree, "SimplePanelLink", "Q_conv")
    need_args(qc, ["T_start", "T_tube", "t"])

    def wall_sum(tr, node):
        # jnp.sum(flux, axis=(1, 2)): the sum over the (theta, z) wall grid of one tube
        if len(node.args) != 1 or not isinstance(node.args[0], ast.Name) or node.args[0].id != "flux":
            raise Untranslatable("Q_conv sums something other than the flux array")
        kw = {k.arg: ast.unparse(k.value) for k in node.keywords}
        if kw != {"axis": "(1, 2)"}:
            raise Untranslatable("Q_conv: the flux is summed over %s, not over the wall grid (axis=(1, 2))" % kw)
        return "(sumQ (map (fun row => sumQ (map (fun mt : Q * Q => %s) (combine row (gen_fluid_temps p tin tout)))) tm))" % tr.names["flux"]
    calls = dict(base_calls)
    calls["self.flow_rates"] = plain()(lambda a, b, t: "(gen_velocity pi f p mdot %s %s)" % (a, b))
    calls["self.fluid_temperatures"] = plain()(lambda a, b, t: _same(a, b, "(snd mt)"))
    calls["self.metal_temperature"] = plain()(lambda t: "(fst mt)")
    calls["jnp.sum"] = wall_sum
    out.append("Definition gen_q_conv (pi : Q) (f : fluid) (p : panel) (mdot tin : Q) (w tout : Q) (tm : list (list Q)) : Q := %s."
               % Tr(base_names, calls).body(qc))
    mtf = find_func(tree, "SimplePanelLink", "metal_temperature")
    if ast.unparse(mtf.body[-1]) != "return jnp.asarray(self.metal_ifn(t))":
        raise Untranslatable("metal_temperature is not the interpolated metal temperature")
    # ---- residuals
    pr = find_func(tree, "SimplePanelLink", "residual")
    need_args(pr, ["T_in", "T_out", "t"])
    rcalls = {"self.Q_mass": plain()(lambda a, b, t: "(gen_q_mass f p mdot %s w %s)" % (a, b)),
              "self.Q_conv": plain()(lambda a, b, t: "(gen_q_conv pi f p mdot %s w %s tm)" % (a, b))}
    out.append("Definition gen_panel_residual (pi : Q) (f : fluid) (p : panel) (mdot tin : Q) (w tout : Q) (tm : list (list Q)) : Q := %s."
               % Tr({"T_in": "tin", "T_out": "tout", "t": "t"}, rcalls).body(pr))
    mr = find_func(tree, "ManifoldLink", "residual")
    need_args(mr, ["T_in", "T_out", "t"])

    def tube_sum(tr, node):
        if node.keywords or len(node.args) != 1 or ast.unparse(node.args[0]) != "self.weights * T_in":
            raise Untranslatable("ManifoldLink.residual does not sum weights * inlet temperatures: %s" % ast.unparse(node)[:60])
        return "(sumQ (map (fun wt : Q * Q => fst wt * snd wt) (combine (weights p) touts)))"
    out.append("Definition gen_manifold_residual (p : panel) (touts : list Q) (tman : Q) : Q := %s."
               % Tr({"T_out": "tman", "self.ntube": "(gen_ntube p)"}, {"jnp.sum": tube_sum}).body(mr))
    sr = find_func(tree, "StartLink", "residual")
    need_args(sr, ["T_start", "T_end", "t"])
    out.append("Definition gen_start_residual (inlet t0 : Q) : Q := %s."
               % Tr({"T_end": "t0", "t": "t"}, {"self.T_inlet": plain()(lambda t: "inlet")}).body(sr))
    ti = find_func(tree, "StartLink", "T_inlet")
    if ast.unparse(ti.body[-1]) != "return jnp.asarray(self.inlet_ifn(t))":
        raise Untranslatable("StartLink.T_inlet is not the interpolated inlet temperature")
    # ---- add_panel_from_object: which entries of the solid's ghosted temperature field the flow path reads
    ap = find_func(tree, "FlowPath", "add_panel_from_object")
    loops = [n for n in ap.body if isinstance(n, ast.For)]
    if len(loops) != 1 or ast.unparse(loops[0].iter) != "panel.tubes.values()" or len(loops[0].body) != 1 or not isinstance(loops[0].body[0], ast.If):
        raise Untranslatable("add_panel_from_object: expected one loop over the panel's tubes selecting by abstraction")
    rows, node = [], loops[0].body[0]
    while isinstance(node, ast.If):
        t = node.test
        if not (isinstance(t, ast.Compare) and ast.unparse(t.left) == "tube.abstraction" and len(t.ops) == 1 and isinstance(t.ops[0], ast.Eq)
                and isinstance(t.comparators[0], ast.Constant)):
            raise Untranslatable("add_panel_from_object: unexpected test %s" % ast.unparse(t))
        subs = [n for n in ast.walk(node.body[0]) if isinstance(n, ast.Subscript)
                and ast.unparse(n.value) == "tube.quadrature_results['ghost_temperature']"]
        if len(node.body) != 1 or len(subs) != 1:
            raise Untranslatable("add_panel_from_object: the %s branch does not read the ghosted temperature field once" % t.comparators[0].value)
        sl = subs[0].slice
        elts = sl.elts if isinstance(sl, ast.Tuple) else [sl]
        rows.append((t.comparators[0].value, [ast.unparse(e) for e in elts]))
        bc = [n for n in ast.walk(node.body[0]) if isinstance(n, ast.Call) and dotted(n.func) == "np.broadcast_to"]
        if t.comparators[0].value != "3D" and (len(bc) != 1 or ast.unparse(bc[0].args[1]) != "(tube.ntime, tube.nt, tube.nz)"):
            raise Untranslatable("add_panel_from_object: the %s branch is not broadcast to (ntime, nt, nz)" % t.comparators[0].value)
        node = node.orelse[0] if len(node.orelse) == 1 else None
        if node is not None and not isinstance(node, ast.If):
            if not isinstance(node, ast.Raise):
                raise Untranslatable("add_panel_from_object: unexpected final branch")
            node = None
    out.append("Definition gen_metal_slices : list (string * list string) := [%s]%%string."
               % "; ".join('("%s", [%s])' % (a, "; ".join('"%s"' % x for x in sl)) for a, sl in rows))
    first = {ast.unparse(s.targets[0]): ast.unparse(s.value) for s in ap.body if isinstance(s, ast.Assign) and len(s.targets) == 1}
    out.append('Definition gen_panel_inputs : list (string * string) := [%s]%%string.'
               % "; ".join('("%s", "%s")' % (k, first.get(k, "<missing>").replace('"', "'")) for k in ("weights", "ri", "h", "metal_temps")))
    return "\n".join(out) + "\n"


def _same(a, b, term):
    if (a, b) != ("tin", "tout"):
        raise Untranslatable("fluid temperatures evaluated at other arguments than the link's own: %s %s" % (a, b))
    return term
