"""
Translator for C02 / C06 / C12 / C13 (G-model): reads FiniteDifferenceImplicitThermalProblem of
srlife/thermal.py with `ast` and emits coq/gen/ThermalStencil.v:

  gen_{rad,circ,ax}_{sub,diag,sup}   the three diagonals that radial(), circumfrential() and axial() hand to
                                    scipy.sparse.diags, read at the row's own ghosted index (i, j, k): slices `1:` / `:-1`
                                    shift the index by one, np.pad(..., mode="edge") by minus one, flatten()[n:] with
                                    offset -n (and [:-n] with offset +n) place the value in the row it was computed for
  gen_{radial,circ,axial}_row       the rows of A T they produce
  gen_node_row                      row of M T - R for a real node from solve_step (steady and transient)
  gen_{inner,outer}_<kind>          the ghost rows: matrix entries of _ID_BC/_OD_BC minus the right-hand sides of
                                    _ID_BC_R/_OD_BC_R, per wall-condition kind
  gen_step_sources                  remaining one-line facts (coefficient tables, sub-steps, stride of each direction)

proofs/ThermalStencilProofs.v shows that these are the equations of model/Thermal.v.  Trusted reading: numpy slicing /
padding / C-order flattening and scipy.sparse.diags / coo_matrix placement, as stated above.  Fail-closed.
"""
import ast
import os

from harness.core import REPO
from harness.translators import register
from harness.translators.plumbing import find_func
from harness.translators.strainbook import Untranslatable

CLS = "FiniteDifferenceImplicitThermalProblem"
AX = ("i", "j", "k")


def norm(n):
    return ast.unparse(n).replace("\n", "").replace(" ", "").replace('"', "'")


def idx(name, off):
    return name if off == 0 else ("(S %s)" % name if off == 1 else ("(pred %s)" % name if off == -1 else None))


class At:
    """value of a numpy array expression at the ghosted index (i+di, j+dj, k+dk)"""

    def __init__(self, local):
        self.local = local          # name -> ast node (assignments of the function, evaluated lazily)

    def ix(self, off):
        t = [idx(a, o) for a, o in zip(AX, off)]
        if None in t:
            raise Untranslatable("index offset beyond one: %s" % (off,))
        return t

    def ev(self, node, off=(0, 0, 0)):
        if isinstance(node, ast.BinOp):
            if isinstance(node.op, ast.Pow):
                if isinstance(node.right, ast.Constant) and float(node.right.value) == 2.0:
                    b = self.ev(node.left, off)
                    return "(%s * %s)" % (b, b)
                raise Untranslatable("power other than a square")
            op = {ast.Add: "+", ast.Sub: "-", ast.Mult: "*", ast.Div: "/"}.get(type(node.op))
            if op is None:
                raise Untranslatable("operator %s" % type(node.op).__name__)
            return "(%s %s %s)" % (self.ev(node.left, off), op, self.ev(node.right, off))
        if isinstance(node, ast.UnaryOp) and isinstance(node.op, ast.USub):
            return "(- %s)" % self.ev(node.operand, off)
        if isinstance(node, ast.Constant) and isinstance(node.value, (int, float)) and float(node.value) == int(node.value):
            return "%d" % int(node.value)
        src = norm(node)
        i, j, k = self.ix(off)
        if src == "self.r":
            return "(rad c %s)" % i
        if src == "self.c":
            return "(cc c %s %s %s)" % (i, j, k)
        if src == "self.act":
            return "act"
        if src in ("self.dr", "self.dt", "self.dz"):
            return {"self.dr": "(dr c)", "self.dt": "(dth c)", "self.dz": "(dz c)"}[src]
        if isinstance(node, ast.Name) and node.id in self.local:
            return self.ev(self.local[node.id], off)
        if isinstance(node, ast.Subscript):
            sl = node.slice.elts if isinstance(node.slice, ast.Tuple) else [node.slice]
            shift = [0, 0, 0]
            for a, s in enumerate(sl):
                t = norm(s)
                if t == ":" or t == ":-1":
                    continue
                if t == "1:":
                    shift[a] = 1
                    continue
                raise Untranslatable("slice %s" % t)
            return self.ev(node.value, tuple(o + s for o, s in zip(off, shift)))
        if isinstance(node, ast.Call) and norm(node.func) == "np.pad":
            kw = {k.arg: norm(k.value) for k in node.keywords}
            if kw != {"mode": "'edge'"} or len(node.args) != 2:
                raise Untranslatable("np.pad other than edge padding: %s" % kw)
            pads = ast.literal_eval(node.args[1])
            shift = [0, 0, 0]
            for a, p in enumerate(pads):
                if tuple(p) == (1, 1):
                    shift[a] = -1
                elif tuple(p) != (0, 0):
                    raise Untranslatable("padding %s" % (p,))
            return self.ev(node.args[0], tuple(o + s for o, s in zip(off, shift)))
        raise Untranslatable("array expression %s" % src[:80])


def assigns(fn):
    return {s.targets[0].id: s.value for s in fn.body if isinstance(s, ast.Assign) and len(s.targets) == 1 and isinstance(s.targets[0], ast.Name)}


def strip_flat(node):
    """(array expression, outer slice text) of  <expr>.flatten()[slice]  or  <expr>.flatten()"""
    sl = None
    if isinstance(node, ast.UnaryOp) and isinstance(node.op, ast.USub):
        arr, sl = strip_flat(node.operand)
        return ast.UnaryOp(op=ast.USub(), operand=arr), sl
    if isinstance(node, ast.Subscript):
        sl = norm(node.slice)
        node = node.value
    if not (isinstance(node, ast.Call) and isinstance(node.func, ast.Attribute) and node.func.attr == "flatten" and not node.args):
        raise Untranslatable("a diagonal is not a flattened array: %s" % norm(node)[:60])
    return node.func.value, sl


def stencil(tree, fname, stride, axis):
    fn = find_func(tree, CLS, fname)
    loc = assigns(fn)
    at = At(loc)
    ret = [s for s in fn.body if isinstance(s, ast.Return)]
    if len(ret) != 1 or not (isinstance(ret[0].value, ast.Call) and norm(ret[0].value.func) == "sp.diags"):
        raise Untranslatable("%s does not return sp.diags" % fname)
    call = ret[0].value
    kw = {k.arg: norm(k.value) for k in call.keywords}
    if norm(call.args[0]) not in ("(D1,D2,D3)", "[D1,D2,D3]"):
        raise Untranslatable("%s: diagonals %s" % (fname, norm(call.args[0])))
    want_off = "(-%s,0,%s)" % (stride, stride)
    if kw.get("offsets") != want_off or kw.get("shape") != "(self.ndof,self.ndof)":
        raise Untranslatable("%s: offsets %s (expected %s: C-order stride of the direction)" % (fname, kw.get("offsets"), want_off))
    terms = []
    for name, want_sl in (("D1", "%s:" % stride), ("D2", None), ("D3", ":-%s" % stride)):
        arr, sl = strip_flat(loc[name])
        if sl != want_sl:
            raise Untranslatable("%s: %s is cut by [%s], its offset needs [%s]" % (fname, name, sl, want_sl))
        terms.append(at.ev(arr))
    return terms


KINDS = [("ins", "self.tube.%s_bc is None"), ("fixed", "isinstance(self.tube.%s_bc, receiver.FixedTempBC)"),
         ("flux", "isinstance(self.tube.%s_bc, receiver.HeatFluxBC)")]


def branches(fn):
    """the if / elif chain inside the double loop over the wall nodes: list of (test text, body statements)"""
    loops = [n for n in fn.body if isinstance(n, ast.For)]
    if len(loops) != 1 or norm(loops[0].iter) != "self.loop_t()" or not isinstance(loops[0].body[0], ast.For) \
            or norm(loops[0].body[0].iter) != "self.loop_z()":
        raise Untranslatable("%s: not a loop over the real (theta, z) wall nodes" % fn.name)
    node = loops[0].body[0].body[0]
    out = []
    while isinstance(node, ast.If):
        out.append((norm(node.test), node.body))
        node = node.orelse[0] if len(node.orelse) == 1 else None
    return out


def bc_rows(tree, side):
    """per wall kind: Gallina term of (matrix row applied to T) - (right-hand side)"""
    mat = find_func(tree, CLS, "_%s_BC" % ("ID" if side == "inner" else "OD"))
    rhs = find_func(tree, CLS, "_%s_BC_R" % ("ID" if side == "inner" else "OD"))
    ghost_row = {"inner": "0", "outer": "self.nr-1"}[side]
    row_i = [s for s in mat.body if isinstance(s, ast.Assign) and norm(s.targets[0]) == "i"]
    rhs_i = [s for s in rhs.body if isinstance(s, ast.Assign) and norm(s.targets[0]) == "i"]
    if len(row_i) != 1 or len(rhs_i) != 1 or norm(row_i[0].value) != ghost_row or norm(rhs_i[0].value) != ghost_row:
        raise Untranslatable("%s wall: the equations are not written into the ghost row" % side)

    def radial(txt):
        table = {"inner": {"0": "0%nat", "1": "1%nat", "i": "0%nat"},
                 "outer": {"self.nr-2": "(nr c)", "self.nr-1": "(S (nr c))", "i": "(S (nr c))"}}[side]
        if txt not in table:
            raise Untranslatable("%s wall: radial index %s" % (side, txt))
        return table[txt]
    mb = dict(branches(mat))
    rb = dict(branches(rhs))
    out = {}
    conv_tests = {"inner": ["isinstance(self.tube.inner_bc,(receiver.ConvectiveBC,receiver.FilmCoefficientConvectiveBC))"],
                  "outer": ["isinstance(self.tube.outer_bc,receiver.ConvectiveBC)"]}[side]
    kinds = [(k, (t % side).replace(" ", "")) for k, t in KINDS] + [("conv", conv_tests[0])]
    for kind, test in kinds:
        if test not in mb:
            raise Untranslatable("%s wall: no matrix branch for %s" % (side, test))
        # matrix entries: triples of I.append / J.append / D.append
        body = mb[test]
        if len(body) % 3:
            raise Untranslatable("%s wall, %s: matrix entries are not (I, J, D) triples" % (side, kind))
        entries = []
        for a in range(0, len(body), 3):
            t = [norm(s.value) for s in body[a:a + 3]]
            if not (t[0].startswith("I.append(self.dof(i,j,k))") and t[1].startswith("J.append(self.dof(") and t[2].startswith("D.append(")):
                raise Untranslatable("%s wall, %s: unexpected matrix entry %s" % (side, kind, t))
            col = body[a + 1].value.args[0].args
            if norm(col[1]) != "j" or norm(col[2]) != "k":
                raise Untranslatable("%s wall, %s: an entry couples other (theta, z) nodes" % (side, kind))
            coef = float(ast.literal_eval(body[a + 2].value.args[0]))
            if coef not in (1.0, -1.0):
                raise Untranslatable("%s wall, %s: coefficient %r" % (side, kind, coef))
            entries.append("(%s * T %s j k)" % ("1" if coef > 0 else "(- 1)", radial(norm(col[0]))))
        lhs = "(" + " + ".join(entries) + ")"
        # right-hand side
        rtests = [test] if kind != "conv" else {"inner": ["isinstance(self.tube.inner_bc,receiver.ConvectiveBC)",
                                                          "isinstance(self.tube.inner_bc,receiver.FilmCoefficientConvectiveBC)"],
                                                "outer": conv_tests}[side]
        rterms = []
        for rt in rtests:
            if rt not in rb:
                raise Untranslatable("%s wall: no right-hand-side branch for %s" % (side, rt))
            stm = rb[rt]
            asg = {norm(s.targets[0]): s.value for s in stm if isinstance(s, ast.Assign)}
            target = [k for k in asg if k.startswith("R[self.dof(i,j,k)]")]
            if len(target) != 1:
                raise Untranslatable("%s wall: right-hand side of %s" % (side, rt))
            rterms.append(rhs_term(asg[target[0]], asg, side, radial))
        if len(set(rterms)) != 1:
            raise Untranslatable("%s wall: the two convective right-hand sides differ: %s" % (side, rterms))
        out[kind] = "(%s - %s)" % (lhs, rterms[0])
    return out


def rhs_term(node, asg, side, radial):
    bc = "self.tube.%s_bc" % side
    real = "1" if side == "inner" else "self.nr-2"

    def ev(n):
        if isinstance(n, ast.BinOp):
            op = {ast.Add: "+", ast.Sub: "-", ast.Mult: "*", ast.Div: "/"}.get(type(n.op))
            if op is None:
                raise Untranslatable("operator in a wall right-hand side")
            return "(%s %s %s)" % (ev(n.left), op, ev(n.right))
        if isinstance(n, ast.UnaryOp) and isinstance(n.op, ast.USub):
            return "(- %s)" % ev(n.operand)
        if isinstance(n, ast.Constant) and float(n.value) == int(n.value):
            return "%d" % int(n.value)
        t = norm(n)
        if t == "self.dr":
            return "(dr c)"
        if t == "self.k[%s,j,k]" % real:
            return "(kk c %s j k)" % radial(real)
        if t == "T[%s,j,k]" % real:
            return "(T %s j k)" % radial(real)
        if t == "%s.temperature(time,self.theta[%s,j,k],self.z[%s,j,k])" % (bc, real, real):
            return "(g j k)"
        if t == "%s.flux(time,self.theta[%s,j,k],self.z[%s,j,k])" % (bc, real, real):
            return "(q j k)"
        if t == "fluid_T":
            if norm(asg.get("fluid_T")) != "%s.fluid_temperature(time,self.z[%s,j,k])" % (bc, real):
                raise Untranslatable("%s wall: fluid temperature is %s" % (side, norm(asg.get("fluid_T"))))
            return "(tf j k)"
        if t == "self.fluid.coefficient(self.material.name,fluid_T)":
            return "(h j k)"
        if t == "h":
            if norm(asg.get("h")) != "%s.film_coefficient(time,self.z[%s,j,k])" % (bc, real):
                raise Untranslatable("%s wall: film coefficient is %s" % (side, norm(asg.get("h"))))
            return "(h j k)"
        raise Untranslatable("%s wall right-hand side: %s" % (side, t[:80]))
    return ev(node)


@register("ThermalStencil")
def generate():
    with open(os.path.join(REPO, "srlife/thermal.py")) as f:
        tree = ast.parse(f.read())
    out = ["(* GENERATED by harness/translators/thermalstencil.py from srlife/thermal.py -- do not edit *)",
           "From Coq Require Import QArith List String.", "From SV Require Import model.Thermal.", "Import ListNotations.",
           "Open Scope Q_scope.", ""]
    for short, fname, stride, mv in (("rad", "radial", "self.nt*self.nz", 0), ("circ", "circumfrential", "self.nz", 1), ("ax", "axial", "1", 2)):
        sub, dia, sup = stencil(tree, fname, stride, mv)
        for nm, t in (("sub", sub), ("diag", dia), ("sup", sup)):
            out.append("Definition gen_%s_%s (c : cfg) (act : Q) (i j k : nat) : Q := %s." % (short, nm, t))
        lo = ["i", "j", "k"]; hi = ["i", "j", "k"]
        lo[mv] = "(pred %s)" % AX[mv]; hi[mv] = "(S %s)" % AX[mv]
        out.append("Definition gen_%s_row (c : cfg) (act : Q) (T : field) (i j k : nat) : Q :=\n"
                   "  gen_%s_sub c act i j k * T %s + gen_%s_diag c act i j k * T i j k + gen_%s_sup c act i j k * T %s."
                   % ({"rad": "radial", "circ": "circ", "ax": "axial"}[short], short, " ".join(lo), short, short, " ".join(hi)))
    # ---- which operators enter, by dimension
    ga = find_func(tree, CLS, "_generate_A")
    if [norm(s) for s in ga.body if not isinstance(s, ast.Expr)] != ["A=self.radial()", "ifself.ndim>1:A+=self.circumfrential()",
                                                                       "ifself.ndim>2:A+=self.axial()", "returnA"]:
        raise Untranslatable("_generate_A: %s" % [norm(s) for s in ga.body if not isinstance(s, ast.Expr)])
    out.append("Definition gen_A_row (c : cfg) (act : Q) (T : field) (i j k : nat) : Q :=\n"
               "  gen_radial_row c act T i j k + (if has_t c then gen_circ_row c act T i j k else 0) + (if has_z c then gen_axial_row c act T i j k else 0).")
    # ---- the system of solve_step at a real node (no volumetric source)
    ss = find_func(tree, CLS, "solve_step")
    sys_if = [n for n in ss.body if isinstance(n, ast.If) and norm(n.test) == "self.steady"]
    if len(sys_if) != 1:
        raise Untranslatable("solve_step: no steady / transient selection")
    st = {norm(s.targets[0]): norm(s.value) for s in sys_if[0].body if isinstance(s, ast.Assign)}
    tr = {norm(s.targets[0]): norm(s.value) for s in sys_if[0].orelse if isinstance(s, ast.Assign)}
    if st != {"M": "-A", "R": "S"} or tr != {"M": "ID-A*dt", "R": "S*dt+Tn"}:
        raise Untranslatable("solve_step: system %s / %s" % (st, tr))
    gid, gpt = find_func(tree, CLS, "_generate_id"), find_func(tree, CLS, "_generate_prev_temp")
    if "[self.act.flatten()]" not in norm(gid.body[-1]) or norm(gpt.body[-1]) != "return(T_n*self.act).flatten()":
        raise Untranslatable("solve_step: identity / previous-temperature terms changed")
    res = [s for s in ast.walk(ss) if isinstance(s, ast.Assign) and norm(s.targets[0]) == "res"]
    if len(res) != 1 or norm(res[0].value) != "M.dot(T.flatten())-Ri":
        raise Untranslatable("solve_step: residual is %s" % (norm(res[0].value) if res else None))
    out.append("Definition gen_node_row (c : cfg) (act : Q) (T0 T : field) (i j k : nat) : Q :=\n"
               "  if steady c then (- gen_A_row c act T i j k) - 0\n"
               "  else (act * T i j k - gen_A_row c act T i j k * dt c) - (0 * dt c + T0 i j k * act).")
    # ---- ghost rows of the two walls
    for side in ("inner", "outer"):
        rows = bc_rows(tree, side)
        out.append("Definition gen_%s_ins (c : cfg) (T : field) (j k : nat) : Q := %s." % (side, rows["ins"].replace(" - 0)", " - 0)")))
        out.append("Definition gen_%s_fixed (c : cfg) (T : field) (g : wdata) (j k : nat) : Q := %s." % (side, rows["fixed"]))
        out.append("Definition gen_%s_flux (c : cfg) (T : field) (q : wdata) (j k : nat) : Q := %s." % (side, rows["flux"]))
        out.append("Definition gen_%s_conv (c : cfg) (T : field) (h tf : wdata) (j k : nat) : Q := %s." % (side, rows["conv"]))
    # ---- periodic and axial ghost rows
    for name, fn_name, fixed, fixed_val, loops_want in (("left", "_left_BC", "j", "0", ("self.loop_r()", "self.loop_z()")),
                                                        ("right", "_right_BC", "j", "self.nt-1", ("self.loop_r()", "self.loop_z()")),
                                                        ("top", "_top_BC", "k", "0", ("self.loop_r()", "self.loop_t()")),
                                                        ("bot", "_bot_BC", "k", "self.nz-1", ("self.loop_r()", "self.loop_t()"))):
        fn = find_func(tree, CLS, fn_name)
        fx = [s for s in fn.body if isinstance(s, ast.Assign) and norm(s.targets[0]) == fixed]
        lp = [n for n in fn.body if isinstance(n, ast.For)]
        if len(fx) != 1 or norm(fx[0].value) != fixed_val or len(lp) != 1 or norm(lp[0].iter) != loops_want[0] \
                or not isinstance(lp[0].body[0], ast.For) or norm(lp[0].body[0].iter) != loops_want[1]:
            raise Untranslatable("%s: not the ghost row %s = %s over the real nodes" % (fn_name, fixed, fixed_val))
        body = lp[0].body[0].body
        if len(body) == 1 and isinstance(body[0], ast.If):
            if norm(body[0].test) != "self.fix_edge":
                raise Untranslatable("%s: unexpected test %s" % (fn_name, norm(body[0].test)))
            body = body[0].orelse            # fix_edge (a debugging aid) unset
        if len(body) != 6:
            raise Untranslatable("%s: expected two matrix entries" % fn_name)
        tab_j = {"0": "0%nat", "1": "1%nat", "self.nt-2": "(nt c)", "self.nt-1": "(S (nt c))"}
        tab_k = {"0": "0%nat", "1": "1%nat", "self.nz-2": "(nz c)", "self.nz-1": "(S (nz c))"}
        ents = []
        for a in (0, 3):
            if norm(body[a].value) != "I.append(self.dof(i,j,k))":
                raise Untranslatable("%s: an entry is not in the ghost row" % fn_name)
            col = [norm(x) for x in body[a + 1].value.args[0].args]
            coef = float(ast.literal_eval(body[a + 2].value.args[0]))
            jj = tab_j[fixed_val] if (fixed == "j" and col[1] == "j") else (tab_j.get(col[1]) if fixed == "j" else "j")
            kk_ = tab_k[fixed_val] if (fixed == "k" and col[2] == "k") else (tab_k.get(col[2]) if fixed == "k" else "k")
            if col[0] != "i" or jj is None or kk_ is None or (fixed == "j" and col[2] != "k") or (fixed == "k" and col[1] != "j") or coef not in (1.0, -1.0):
                raise Untranslatable("%s: entry %s" % (fn_name, col))
            ents.append("(%s * T i %s %s)" % ("1" if coef > 0 else "(- 1)", jj, kk_))
        free = "i k" if fixed == "j" else "i j"
        out.append("Definition gen_%s_row (c : cfg) (T : field) (%s : nat) : Q := (%s + %s)." % (name, free, ents[0], ents[1]))
    df = find_func(tree, CLS, "dof")
    gbm = find_func(tree, CLS, "_generate_bc_matrix")
    # ---- remaining one-line facts
    su = find_func(tree, CLS, "setup_step")
    sel = [n for n in su.body if isinstance(n, ast.If) and norm(n.test) == "self.steady"]
    facts = [("coefficient_steady", norm(sel[0].body[0]) if sel else "<missing>"), ("coefficient_transient", norm(sel[0].orelse[0]) if sel else "<missing>"),
             ("conductivity", norm([s for s in su.body if isinstance(s, ast.Assign) and norm(s.targets[0]) == "self.k"][0].value))]
    sub = find_func(tree, CLS, "solve_step_substep")
    sa = {norm(s.targets[0]): norm(s.value) for s in ast.walk(sub) if isinstance(s, ast.Assign)}
    facts += [("substep_start", sa.get("t_n", "<missing>")), ("substep_length", sa.get("dti", "<missing>")), ("substep_time", sa.get("t", "<missing>")),
              ("substep_chain", sa.get("T", "<missing>"))]
    loop = [n for n in sub.body if isinstance(n, ast.For)]
    facts.append(("substep_range", norm(loop[0].iter) if loop else "<missing>"))
    facts.append(("dof", norm(df.body[-1].value)))
    facts.append(("ghost_rows", ";".join(norm(x) for x in gbm.body if not isinstance(x, ast.Expr))))
    facts.append(("axial_rhs", norm([x for x in find_func(tree, CLS, "_generate_fixed_bc_RHS").body if isinstance(x, ast.If)][0].test)))
    out.append("Definition gen_step_sources : list (string * string) := [%s]%%string." % ";\n  ".join('("%s", "%s")' % kv for kv in facts))
    return "\n".join(out) + "\n"
