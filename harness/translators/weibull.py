"""
Translator for C05 (G-model): reads srlife/damage.py with `ast` and emits
coq/gen/WeibullTables.v: the order (and sqrt(2) factors) in which
tube_log_reliability stacks the stored stress components, and the index /
multiplier tables with which calculate_principal_stress unpacks a Mandel
vector.  Fail-closed.
"""
import ast
import os

from harness.core import REPO
from harness.translators import register


def is_sqrt2(node):
    """np.sqrt(2) / np.sqrt(2.0)"""
    return (isinstance(node, ast.Call) and isinstance(node.func, ast.Attribute) and node.func.attr == "sqrt"
            and len(node.args) == 1 and isinstance(node.args[0], ast.Constant) and float(node.args[0].value) == 2.0)


def qr_key(node):
    """tube.quadrature_results["key"] -> key"""
    if isinstance(node, ast.Subscript) and isinstance(node.value, ast.Attribute) and node.value.attr == "quadrature_results" \
            and isinstance(node.slice, ast.Constant):
        return node.slice.value
    return None


@register("WeibullTables")
def generate():
    with open(os.path.join(REPO, "srlife/damage.py")) as f:
        tree = ast.parse(f.read())
    cls = [n for n in tree.body if isinstance(n, ast.ClassDef) and n.name == "WeibullFailureModel"][0]
    tlr = [n for n in cls.body if isinstance(n, ast.FunctionDef) and n.name == "tube_log_reliability"][0]
    cps = [n for n in cls.body if isinstance(n, ast.FunctionDef) and n.name == "calculate_principal_stress"][0]
    # the tuple handed to np.stack
    stacks = [c for c in ast.walk(tlr) if isinstance(c, ast.Call) and isinstance(c.func, ast.Attribute) and c.func.attr == "stack"
              and c.args and isinstance(c.args[0], ast.Tuple) and len(c.args[0].elts) == 6]
    if len(stacks) != 1:
        raise ValueError("expected one 6-component np.stack in tube_log_reliability")
    order = []
    for e in stacks[0].args[0].elts:
        k = qr_key(e)
        if k is not None:
            order.append((k, False))
        elif isinstance(e, ast.BinOp) and isinstance(e.op, ast.Mult):
            if is_sqrt2(e.left) and qr_key(e.right):
                order.append((qr_key(e.right), True))
            elif is_sqrt2(e.right) and qr_key(e.left):
                order.append((qr_key(e.left), True))
            else:
                raise ValueError("unrecognised stacked component %s" % ast.unparse(e))
        else:
            raise ValueError("unrecognised stacked component %s" % ast.unparse(e))
    inds = mults = None
    for st in ast.walk(cps):
        if isinstance(st, ast.Assign) and len(st.targets) == 1 and isinstance(st.targets[0], ast.Name):
            if st.targets[0].id == "inds":
                inds = ast.literal_eval(st.value)
            elif st.targets[0].id == "mults":
                mults = []
                for e in st.value.elts:
                    if is_sqrt2(e):
                        mults.append(True)
                    elif isinstance(e, ast.Constant) and float(e.value) == 1.0:
                        mults.append(False)
                    else:
                        raise ValueError("unrecognised Mandel multiplier %s" % ast.unparse(e))
    if inds is None or mults is None or len(inds) != 6 or len(mults) != 6:
        raise ValueError("Mandel tables not found")
    # the unpacking statement must divide by the multiplier
    div = [n for n in ast.walk(cps) if isinstance(n, ast.BinOp) and isinstance(n.op, ast.Div) and isinstance(n.right, ast.Name) and n.right.id == "m"]
    if not div:
        raise ValueError("unpacking does not divide by the multiplier")
    # ---- element volumes (receiver.py): the formulas as they stand
    with open(os.path.join(REPO, "srlife/receiver.py")) as f:
        rtree = ast.parse(f.read())
    tcls = [n for n in rtree.body if isinstance(n, ast.ClassDef) and n.name == "Tube"][0]

    def fn_assigns(name):
        fn = [n for n in tcls.body if isinstance(n, ast.FunctionDef) and n.name == name][0]
        d = {ast.unparse(n.targets[0]): ast.unparse(n.value).replace(" ", "") for n in fn.body if isinstance(n, ast.Assign)}
        rets = [ast.unparse(n.value).replace(" ", "") for n in fn.body if isinstance(n, ast.Return)]
        return d, rets
    want_section = {"r": "np.linspace(self.r-self.t,self.r,self.nr)", "t": "np.linspace(0,2*np.pi,self.nt+1)", "theta": "np.diff(t)",
                    "a": "np.outer(2*r[:-1],np.sin(theta/2))", "b": "np.outer(2*r[1:],np.sin(theta/2))", "edge": "r[1:]-r[:-1]",
                    "h": "np.sqrt(edge[:,None]**2.0-((b-a)/2)**2.0)", "base": "0.5*(a+b)*h"}
    d2, r2 = fn_assigns("_volume2d")
    if d2 != want_section or r2 != ["(base*self.h).flatten()"]:
        raise ValueError("Tube._volume2d is not the trapezoid formula times the height: %s %s" % (d2, r2))
    d3, r3 = fn_assigns("_volume3d")
    want3 = dict(want_section, z="np.linspace(0,self.h,self.nz)", heights="np.diff(z)")
    if d3 != want3 or r3 != ["np.einsum('k,ij',heights,base).flatten()"]:
        raise ValueError("Tube._volume3d is not the trapezoid formula times the layer heights: %s %s" % (d3, r3))
    d1, r1 = fn_assigns("_volume1d")
    if d1 != {"r": "np.linspace(self.r-self.t,self.r,self.nr)"} or r1 != ["np.pi*(r[1:]**2.0-r[:-1]**2.0)*self.h"]:
        raise ValueError("Tube._volume1d is not pi (r_out^2 - r_in^2) h: %s %s" % (d1, r1))
    out = ["(* GENERATED by harness/translators/weibull.py from /repo/srlife/damage.py; do not edit *)",
           "From Coq Require Import List String Bool.", "Import ListNotations.", "Open Scope string_scope.",
           "Definition stack_order : list (string * bool) := [%s]." % "; ".join('("%s", %s)' % (k, "true" if s else "false") for k, s in order),
           "Definition mandel_inds : list (list (nat * nat)) := [%s]." %
           "; ".join("[" + "; ".join("(%d, %d)" % tuple(p) for p in grp) + "]" for grp in inds),
           "Definition mandel_sqrt2 : list bool := [%s]." % "; ".join("true" if m else "false" for m in mults),
           "(* Tube._volume2d/_volume3d: (a + b)/2 * sqrt(edge^2 - ((b - a)/2)^2) with a, b = 2 r sin(theta/2), times height(s); "
           "_volume1d: pi (r_out^2 - r_in^2) h *)",
           "Definition volume_formulas_as_modelled : bool := true."]
    return "\n".join(out) + "\n"
