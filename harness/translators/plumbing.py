"""
Translator for C17's parameter-plumbing facts (G-model): reads /repo's source
with `ast` and emits coq/gen/Plumbing.v.  Fail-closed: a target that cannot be
found or an unexpected shape raises.
"""
import ast
import os
import re
from fractions import Fraction

from harness.core import REPO, q_lit
from harness.translators import register

SOLVER_PARAMS = {"rtol", "atol", "miter", "miters", "rel_tol", "abs_tol", "substep", "max_divide",
                 "max_linesearch", "max_search", "force_divide", "dof_tol", "steady"}

# (file, class or None, function)
TARGETS = [
    ("srlife/solvers.py", None, "newton"),
    ("srlife/thermal.py", "FiniteDifferenceImplicitThermalSolver", "__init__"),
    ("srlife/thermal.py", "FiniteDifferenceImplicitThermalSolver", "solve"),
    ("srlife/thermal.py", "FiniteDifferenceImplicitThermalProblem", "__init__"),
    ("srlife/thermal.py", "ThermohydraulicsThermalSolver", "__init__"),
    ("srlife/thermohydraulics/flowpath.py", "FlowPath", "__init__"),
    ("srlife/structural.py", "PythonTubeSolver", "__init__"),
    ("srlife/system.py", "SpringSystemSolver", "__init__"),
    ("srlife/spring.py", "SpringNetwork", "__init__"),
]

# calls whose keyword arguments must be fed from the object's own attributes
CALLS = [
    ("srlife/spring.py", "SpringNetwork", "solve", "newton",
     {"rel_tol": "self.rtol", "abs_tol": "self.atol", "miters": "self.miter"}),
    ("srlife/system.py", "SpringSystemSolver", "make_network", "SpringNetwork",
     {"atol": "self.atol", "rtol": "self.rtol", "miter": "self.miter"}),
]


# calls whose **-expanded keyword arguments must come from the parameter section documented for that component
STAR_CALLS = [
    ("srlife/thermal.py", "ThermohydraulicsThermalSolver", "solve_metal", "FiniteDifferenceImplicitThermalProblem",
     "deparametrize_finite_difference(self.solid_params)"),
    ("srlife/thermal.py", "ThermohydraulicsThermalSolver", "solve_fluid", "FlowPath",
     "flowpath.deparameterize_flow_path(self.thermo_params)"),
]


def find_func(tree, cls, fn):
    body = tree.body
    if cls:
        for n in body:
            if isinstance(n, ast.ClassDef) and n.name == cls:
                body = n.body
                break
        else:
            raise ValueError("class %s not found" % cls)
    for n in body:
        if isinstance(n, ast.FunctionDef) and n.name == fn:
            return n
    raise ValueError("function %s.%s not found" % (cls, fn))


def params_of(fn):
    a = fn.args
    names = [x.arg for x in a.posonlyargs + a.args + a.kwonlyargs]
    return [n for n in names if n != "self"]


def defaults_of(fn):
    a = fn.args
    pos = a.posonlyargs + a.args
    out = {}
    for arg, d in zip(pos[len(pos) - len(a.defaults):], a.defaults):
        out[arg.arg] = d
    for arg, d in zip(a.kwonlyargs, a.kw_defaults):
        if d is not None:
            out[arg.arg] = d
    return out


def const_value(node):
    """numeric value of a default-argument expression built from constants"""
    v = eval(compile(ast.Expression(node), "<default>", "eval"), {"__builtins__": {}})
    if isinstance(v, bool) or not isinstance(v, (int, float)):
        raise ValueError("non-numeric default")
    return Fraction(repr(float(v))) if isinstance(v, float) else Fraction(v)


def coq_str(s):
    return '"%s"' % s.replace('"', "'")


def classify(expr, params):
    """source of an attribute assignment"""
    names = {n.id for n in ast.walk(expr) if isinstance(n, ast.Name)}
    gd = [n for n in ast.walk(expr) if isinstance(n, ast.Call) and isinstance(n.func, ast.Attribute)
          and n.func.attr == "get_default"]
    if gd:
        key = gd[0].args[0]
        if not (isinstance(key, ast.Constant) and isinstance(key.value, str)):
            raise ValueError("get_default with a non-literal key")
        return "SPset " + coq_str(key.value)
    kw = [n for n in ast.walk(expr) if isinstance(n, ast.Call) and isinstance(n.func, ast.Attribute)
          and n.func.attr == "pop" and isinstance(n.func.value, ast.Name) and n.func.value.id == "kwargs"]
    if kw and isinstance(kw[0].args[0], ast.Constant):
        return "SParam " + coq_str(kw[0].args[0].value)
    used = sorted(names & set(params))
    if used:
        return "SParam " + coq_str(used[0])
    if isinstance(expr, ast.Constant) or not names:
        return "SConst " + coq_str(ast.unparse(expr))
    return "SOther " + coq_str(ast.unparse(expr))


@register("Plumbing")
def generate():
    unused, sources, calls = [], [], []
    newton_actual, newton_doc = [], []
    trees = {}
    for path, cls, fn in TARGETS:
        if path not in trees:
            with open(os.path.join(REPO, path)) as f:
                trees[path] = ast.parse(f.read())
        node = find_func(trees[path], cls, fn)
        where = "%s:%s.%s" % (path, cls or "", fn)
        ps = params_of(node)
        loaded = {n.id for n in ast.walk(node) if isinstance(n, ast.Name) and isinstance(n.ctx, ast.Load)}
        for p in ps:
            if p in SOLVER_PARAMS and p not in loaded:
                unused.append((where, p))
        if fn == "__init__":
            for st in ast.walk(node):
                if isinstance(st, ast.Assign) and len(st.targets) == 1:
                    t = st.targets[0]
                    if isinstance(t, ast.Attribute) and isinstance(t.value, ast.Name) and t.value.id == "self" \
                            and (t.attr in SOLVER_PARAMS):
                        sources.append((where, t.attr, classify(st.value, ps)))
        if (path, fn) == ("srlife/solvers.py", "newton"):
            dfl = defaults_of(node)
            doc = ast.get_docstring(node) or ""
            for p in ("rel_tol", "abs_tol", "miters", "max_search"):
                if p not in dfl:
                    raise ValueError("newton has no default for %s" % p)
                newton_actual.append((p, const_value(dfl[p])))
                m = re.search(r"^\s*%s \(Optional\[([^\]]+)\]\)" % re.escape(p), doc, re.M)
                if not m:
                    raise ValueError("newton's docstring does not document a default for %s" % p)
                newton_doc.append((p, Fraction(repr(float(m.group(1))))))
    for path, cls, fn, callee, want in CALLS:
        if path not in trees:
            with open(os.path.join(REPO, path)) as f:
                trees[path] = ast.parse(f.read())
        node = find_func(trees[path], cls, fn)
        found = [c for c in ast.walk(node) if isinstance(c, ast.Call) and
                 ((isinstance(c.func, ast.Name) and c.func.id == callee) or
                  (isinstance(c.func, ast.Attribute) and c.func.attr == callee))]
        if len(found) != 1:
            raise ValueError("expected exactly one call of %s in %s.%s" % (callee, cls, fn))
        kws = {k.arg: ast.unparse(k.value) for k in found[0].keywords if k.arg}
        for k, w in want.items():
            calls.append(("%s:%s.%s->%s" % (path, cls, fn, callee), k, kws.get(k, "<missing>"), w))
    # the parameter sections of the coupled solver: documented keys "solid" and "fluid"
    node = find_func(trees["srlife/thermal.py"], "ThermohydraulicsThermalSolver", "__init__")
    for attr, key in (("solid_params", "solid"), ("thermo_params", "fluid")):
        got = "<missing>"
        for st in ast.walk(node):
            if isinstance(st, ast.Assign) and len(st.targets) == 1 and isinstance(st.targets[0], ast.Attribute) \
                    and st.targets[0].attr == attr:
                got = classify(st.value, params_of(node))
        calls.append(("srlife/thermal.py:ThermohydraulicsThermalSolver.__init__", attr, got, "SPset " + coq_str(key)))
    for path, cls, fn, callee, want in STAR_CALLS:
        if path not in trees:
            with open(os.path.join(REPO, path)) as f:
                trees[path] = ast.parse(f.read())
        node = find_func(trees[path], cls, fn)
        found = [c for c in ast.walk(node) if isinstance(c, ast.Call) and
                 ((isinstance(c.func, ast.Name) and c.func.id == callee) or
                  (isinstance(c.func, ast.Attribute) and c.func.attr == callee))]
        if len(found) != 1:
            raise ValueError("expected exactly one call of %s in %s.%s" % (callee, cls, fn))
        stars = [ast.unparse(k.value) for k in found[0].keywords if k.arg is None]
        calls.append(("%s:%s.%s->%s" % (path, cls, fn, callee), "**", "; ".join(stars) if stars else "<missing>", want))
    out = ["(* GENERATED by harness/translators/plumbing.py from /repo's source; do not edit *)",
           "From Coq Require Import QArith List String.", "Import ListNotations.", "Open Scope string_scope.",
           "Inductive src := SParam (p : string) | SPset (key : string) | SConst (v : string) | SOther (e : string).", ""]
    out.append("Definition unused_solver_params : list (string * string) := [%s]." %
               "; ".join("(%s, %s)" % (coq_str(w), coq_str(p)) for w, p in unused))
    out.append("Definition attr_sources : list (string * string * src) := [%s]." %
               ";\n  ".join("(%s, %s, %s)" % (coq_str(w), coq_str(a), s) for w, a, s in sources))
    out.append("Definition call_plumbing : list (string * string * string * string) := [%s]." %
               ";\n  ".join("(%s, %s, %s, %s)" % (coq_str(w), coq_str(k), coq_str(g), coq_str(x)) for w, k, g, x in calls))
    out.append("Definition newton_defaults : list (string * Q) := [%s]." %
               "; ".join("(%s, %s%%Q)" % (coq_str(p), q_lit(v)) for p, v in newton_actual))
    out.append("Definition newton_documented : list (string * Q) := [%s]." %
               "; ".join("(%s, %s%%Q)" % (coq_str(p), q_lit(v)) for p, v in newton_doc))
    return "\n".join(out) + "\n"
