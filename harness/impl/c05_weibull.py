"""
Implementation driver for C05: ceramic reliability of synthetic stress
histories through the real srlife.damage Weibull models.
"""
import json
import signal
import sys

import numpy as np

from srlife import damage, library, materials, receiver, solverparams

MODELS = {"PIA": damage.PIAModel, "WNTSA": damage.WNTSAModel, "MTS_GF": damage.MTSModelGriffithFlaw,
          "MTS_PSF": damage.MTSModelPennyShapedFlaw, "CSE_GF": damage.CSEModelGriffithFlaw,
          "CSE_PSF": damage.CSEModelPennyShapedFlaw, "SMM_GF": damage.SMMModelGriffithFlaw,
          "SMM_PSF": damage.SMMModelPennyShapedFlaw}
COMPS = ["_xx", "_yy", "_zz", "_yz", "_xz", "_xy"]


def fl(x):
    return float.fromhex(x) if isinstance(x, str) else float(x)


def conv(o):
    if isinstance(o, list):
        return [conv(x) for x in o]
    return fl(o)


def get_material(m):
    if m["kind"] == "shipped":
        return library.load_damage("SiC", m["variant"])
    T = np.array([0.0, 3000.0])
    c = lambda k: np.array([fl(m[k]), fl(m[k])])
    if m.get("tab"):
        # temperature-dependent strength and modulus: three-point tables with a knot at 1000
        T3 = np.array([fl(x) for x in m["tab"]["T"]])
        return materials.StandardCeramicMaterial(T3, np.array([fl(x) for x in m["tab"]["s0"]]), T3, np.array([fl(x) for x in m["tab"]["m"]]),
                                                 fl(m["c_bar"]), fl(m["nu"]), T, c("Nv"), T, c("Bv"))
    return materials.StandardCeramicMaterial(T, c("s0"), T, c("m"), fl(m["c_bar"]), fl(m["nu"]), T, c("Nv"), T, c("Bv"))


def run(case):
    out = {"id": case["id"]}
    try:
        mat = get_material(case["material"])
        rec = receiver.Receiver(fl(case["period"]), 1, "rigid")
        times = np.array(conv(case["times"]))
        names = case.get("panel_names") or [None] * len(case["panels"])
        for pspec, pname in zip(case["panels"], names):
            panel = receiver.Panel("rigid")
            for t in pspec:
                tube = receiver.Tube(fl(t["r"]), fl(t["t"]), fl(t["h"]), t["nr"], t["nt"], t["nz"], T0=0.0, multiplier=t["mult"])
                tube.set_times(times)
                if t["dim"] == 2:
                    tube.make_2D(fl(t["h"]) / 2)
                elif t["dim"] == 1:
                    tube.make_1D(fl(t["h"]) / 2, 0.0)
                for name, a in t["quad"].items():
                    tube.add_quadrature_results(name, np.array(conv(a)))
                panel.add_tube(tube)
            rec.add_panel(panel, name=pname)
        res = {}
        for name in case["models"]:
            model = MODELS[name](solverparams.ParameterSet())
            if HUNG:
                res[name] = {"error": "TimeoutError: skipped after an earlier evaluation hung"}
                continue
            try:
                signal.alarm(int(case.get("limit", 60)))
                r = model.determine_reliability(rec, mat, fl(case["time"]), nthreads=1)
                signal.alarm(0)
                res[name] = {"tube": [float(x).hex() for x in np.ravel(r["tube_reliability"])],
                             "panel": [float(x).hex() for x in np.ravel(r["panel_reliability"])],
                             "overall": float(r["overall_reliability"]).hex()}
            except Exception as e:
                signal.alarm(0)
                res[name] = {"error": "%s: %s" % (type(e).__name__, str(e)[:150])}
        out["res"] = res
        out["volumes"] = [[float(np.sum(tube.element_volumes())) for tube in p.tubes.values()] for p in rec.panels.values()]
    except Exception as e:
        out["error"] = "%s: %s" % (type(e).__name__, str(e)[:200])
    return out


HUNG = []


def on_alarm(signum, frame):
    HUNG.append(1)
    raise TimeoutError("determine_reliability did not return within the time limit")


def main():
    signal.signal(signal.SIGALRM, on_alarm)
    req = json.load(sys.stdin)
    print("@@RESULT@@" + json.dumps({"results": [run(c) for c in req["cases"]]}))


if __name__ == "__main__":
    main()
