"""
Implementation driver for C04: the real SpringSystemSolver (make_network,
reduce_graph, SpringNetwork.solve_all, copy-back) driven by a scripted affine
tube solver: force = kt * d + f0[i].
"""
import json
import sys

import numpy as np

from srlife import receiver, solverparams, system


def fl(x):
    return float.fromhex(x) if isinstance(x, str) else float(x)


class State:
    def __init__(self):
        self.d = 0.0
        self.force = 0.0
        self.stiffness = 0.0


class AffineTubeSolver:
    """duck-typed TubeSolver: the tube is an affine spring in its top displacement"""

    def __init__(self, laws):
        self.laws = laws          # tube key -> (kt, [f0 per step])

    def setup_tube(self, tube):
        tube.results["verif_d"] = np.full((tube.ntime,), np.nan)
        tube.results["verif_f"] = np.full((tube.ntime,), np.nan)

    def init_state(self, tube, mat, i=None):
        return State()

    def dump_state(self, tube, i, state):
        tube.results["verif_d"][i] = state.d
        tube.results["verif_f"][i] = state.force

    def solve(self, tube, i, state_n, dtop):
        kt, f0 = self.laws[tube.verif_key]
        s = State()
        s.d = dtop
        s.force = kt * dtop + f0[i]
        s.stiffness = kt
        return s


def opt(o):
    return o if isinstance(o, str) and o in ("rigid", "disconnect") else (int(o[1]) if isinstance(o, list) and o[0] == "int" else fl(o))


def run(case):
    out = {"id": case["id"]}
    try:
        times = np.array([fl(t) for t in case["times"]])
        rec = receiver.Receiver(24.0, 1, opt(case["ropt"]))
        laws = {}
        for p, pspec in enumerate(case["panels"]):
            panel = receiver.Panel(opt(pspec["popt"]))
            for q, t in enumerate(pspec["tubes"]):
                tube = receiver.Tube(10.0, 1.0, 100.0, 3, 4, 3, T0=0.0)
                tube.set_times(times)
                tube.verif_key = "%d/%d" % (p, q)
                laws[tube.verif_key] = (fl(t["kt"]), [fl(x) for x in t["f0"]])
                panel.add_tube(tube)
            rec.add_panel(panel)
        ps = solverparams.ParameterSet()
        ps["atol"] = 1.0e-10
        ps["rtol"] = 1.0e-12
        ps["miter"] = 50
        solver = system.SpringSystemSolver(ps)
        try:
            solver.solve(rec, None, AffineTubeSolver(laws), nthreads=case.get("nthreads", 1))
        except (RuntimeError, ValueError, KeyError) as e:
            out["outcome"] = "raise"
            out["msg"] = "%s: %s" % (type(e).__name__, str(e)[:100])
            return out
        out["outcome"] = "ok"
        out["d"] = [[[float(x).hex() for x in tube.results["verif_d"]] for tube in panel.tubes.values()]
                    for panel in rec.panels.values()]
        out["f"] = [[[float(x).hex() for x in tube.results["verif_f"]] for tube in panel.tubes.values()]
                    for panel in rec.panels.values()]
    except Exception as e:
        out["outcome"] = "error"
        out["msg"] = "%s: %s" % (type(e).__name__, str(e)[:200])
    return out


def main():
    req = json.load(sys.stdin)
    print("@@RESULT@@" + json.dumps({"results": [run(c) for c in req["cases"]]}))


if __name__ == "__main__":
    main()
