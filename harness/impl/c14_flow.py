"""
Implementation driver for C14 (and C07's flow-path part): builds a real
FlowPath with a rational stub fluid and returns residual vectors, recovered
tube velocities / temperature profiles and solutions.
"""
import json
import sys

import numpy as np

from srlife.thermohydraulics import flowpath


def fl(x):
    return float.fromhex(x) if isinstance(x, str) else float(x)


def conv(o):
    if isinstance(o, list):
        return [conv(x) for x in o]
    return fl(o)


def hexl(a):
    return [float(x).hex() for x in np.asarray(a, dtype=float).ravel()]


class StubFluid:
    """cp = c0 + c1 T, rho = r0 + r1 T, film = f0 + f1 u / r + f2 T (all positive on the ranges used)"""

    def __init__(self, p):
        self.p = p

    def cp(self, T):
        return self.p["c0"] + self.p["c1"] * T

    def rho(self, T):
        return self.p["r0"] + self.p["r1"] * T

    def film_coefficient(self, T, u, r):
        return self.p["f0"] + self.p["f1"] * u / r + self.p["f2"] * T


def build(case):
    fluid = StubFluid({k: fl(v) for k, v in case["fluid"].items()})
    fp = flowpath.FlowPath(np.array(conv(case["times"])), np.array(conv(case["mass_flow"])), np.array(conv(case["inlet"])),
                           **{k: (case[k] if k == "miter" else fl(case[k])) for k in ("rtol", "atol", "miter") if k in case})
    for p in case["panels"]:
        fp.add_panel(np.array(conv(p["weights"])), fl(p["ri"]), fl(p["h"]), np.array(conv(p["metal"])), fluid)
    return fp


def recovered(fp, T, t):
    fr, tt = fp.recover_tube_results(T, t)
    return {"flow": [hexl(x) for x in fr], "temps": [[hexl(row) for row in np.asarray(x)] for x in tt]}


def run(case):
    out = {"id": case["id"]}
    try:
        fp = build(case)
        t = fl(case["t"])
        fp._setup()
        fp.t = t
        out["dof_map"] = [list(map(int, d)) for d in fp.dof_map]
        if "T" in case:
            T = np.array(conv(case["T"]))
            R, J = fp.RJ(T)
            out["R"] = hexl(R)
            out["rec"] = recovered(fp, T, t)
        if case.get("solve"):
            try:
                Ts = fp.solve(t)
                out["Ts"] = hexl(Ts)
                R, J = fp.RJ(Ts)
                out["Rs"] = hexl(R)
                out["rec_s"] = recovered(fp, Ts, t)
            except RuntimeError as e:
                out["solve_error"] = str(e)[:100]
        if "t2" in case and "T" in case:
            # the same object asked again at another time (as the coupled solver does step after step)
            t2 = fl(case["t2"])
            fp.t = t2
            R2, _ = fp.RJ(T)
            out["R2"] = hexl(R2)
            out["rec2"] = recovered(fp, T, t2)
            # ... and the results of the first time recovered afterwards (the thermal solver recovers after all times are solved)
            out["rec_back"] = recovered(fp, T, t)
        if "late" in case:
            # a panel added to the same object after it has been evaluated
            fluid = StubFluid({k: fl(v) for k, v in case["fluid"].items()})
            p = case["late"]["panel"]
            fp.add_panel(np.array(conv(p["weights"])), fl(p["ri"]), fl(p["h"]), np.array(conv(p["metal"])), fluid)
            fp._setup()
            fp.t = t
            TL = np.array(conv(case["late"]["T"]))
            RL, _ = fp.RJ(TL)
            out["R_late"] = hexl(RL)
            out["rec_late"] = recovered(fp, TL, t)
    except Exception as e:
        out["error"] = "%s: %s" % (type(e).__name__, str(e)[:200])
    return out


def main():
    req = json.load(sys.stdin)
    print("@@RESULT@@" + json.dumps({"results": [run(c) for c in req["cases"]]}))


if __name__ == "__main__":
    main()
