"""
Implementation driver for C07: coupled fluid-solid thermal solves on small
receivers through the real ThermohydraulicsThermalSolver, with a rational stub
fluid; also the cycle-reset trigger and the flow-path validation.
"""
import json
import sys

import numpy as np

from srlife import managers, materials, receiver, solverparams, thermal


def fl(x):
    return float.fromhex(x) if isinstance(x, str) else float(x)


def conv(o):
    if isinstance(o, list):
        return [conv(x) for x in o]
    return fl(o)


def hexl(a):
    return [float(x).hex() for x in np.asarray(a, dtype=float).ravel()]


class StubFluid:
    def __init__(self, p):
        self.p = p

    def cp(self, T):
        return self.p["c0"] + self.p["c1"] * T

    def rho(self, T):
        return self.p["r0"] + self.p["r1"] * T

    def film_coefficient(self, T, u, r):
        return self.p["f0"] + self.p["f1"] * u / r + self.p["f2"] * T


def build(case):
    times = np.array(conv(case["times"]))
    rec = receiver.Receiver(fl(case["period"]), case["days"], "rigid")
    for pname, pspec in case["panels"]:
        panel = receiver.Panel("rigid")
        for tspec in pspec:
            tube = receiver.Tube(fl(tspec["r"]), fl(tspec["t"]), fl(tspec["h"]), tspec["nr"], tspec["nt"], tspec["nz"],
                                 T0=fl(tspec["T0"]), multiplier=tspec["mult"])
            tube.set_times(times)
            if tspec["dim"] == 2:
                tube.make_2D(fl(tspec["plane"]))
            elif tspec["dim"] == 1:
                tube.make_1D(fl(tspec["plane"]), fl(tspec["angle"]))
            flux = np.array(conv(tspec["flux"]))
            tube.set_bc(receiver.HeatFluxBC(fl(tspec["r"]), fl(tspec["h"]), tspec["nt"], tspec["nz"], times, flux), "outer")
            panel.add_tube(tube, tspec.get("name"))
        rec.add_panel(panel, pname)
    for fname, fspec in case["flowpaths"]:
        ftimes = times
        if case.get("fp_jitter"):
            # the flow path's own time array equals the tubes' up to round-off (later times an ulp above)
            ftimes = np.array(times, dtype=float)
            ftimes[1:] = ftimes[1:] * (1.0 + 2.0 ** -52)
        rec.add_flowpath(fspec["panels"], ftimes, np.array(conv(fspec["mass_flow"])), np.array(conv(fspec["inlet"])), name=fname)
    return rec


def run(case):
    import os, shutil
    home = os.getcwd()
    try:
        return run_in(case)
    finally:
        here = os.getcwd()
        if here != home:           # a paged run works in its own scratch directory
            os.chdir(home)
            shutil.rmtree(here, ignore_errors=True)


def run_in(case):
    out = {"id": case["id"]}
    try:
        if case["what"] == "trigger":
            rec = receiver.Receiver(fl(case["period"]), 1, "rigid")
            h = managers.CycleResetHeuristic()
            res = h.args_for_thermohydraulic_solver(rec)["resetters"][0]
            out["fires"] = [bool(res.trigger(fl(t))) for t in case["ts"]]
            return out
        try:
            rec = build(case)
        except ValueError as e:
            out["setup"] = "reject"
            out["msg"] = "at construction: " + str(e)[:80]
            return out
        pset = solverparams.ParameterSet()
        for k, v in case.get("pset", {}).items():
            pset[k] = v
        solid = solverparams.ParameterSet()
        solid["steady"] = case.get("steady", True)
        for k, v in (case.get("solid_pset") or {}).items():
            solid[k] = v
        pset["solid"] = solid
        if case.get("fluid_pset"):
            fsec = solverparams.ParameterSet()
            for k, v in case["fluid_pset"].items():
                fsec[k] = v
            pset["fluid"] = fsec
        solver = thermal.ThermohydraulicsThermalSolver(pset)
        mat = materials.ConstantThermalMaterial("m", fl(case["k"]), fl(case["a"]))
        fluid = StubFluid({k: fl(v) for k, v in case["fluid"].items()})
        resetters = None
        if case.get("reset"):
            resetters = managers.CycleResetHeuristic().args_for_thermohydraulic_solver(rec)["resetters"]
        try:
            if case.get("page"):
                import os, tempfile
                os.chdir(tempfile.mkdtemp(prefix="c07_", dir=os.getcwd()))
                rec.set_paging(True)
            solver.solve_receiver(rec, mat, fluid, decorator=lambda x, n: x, nthreads=case.get("nthreads", 1), resetters=resetters)
        except ValueError as e:
            import traceback
            tb = traceback.extract_tb(e.__traceback__)
            out["setup"] = "reject" if tb[-1].name == "_setup" else "error-after-setup"
            out["msg"] = str(e)[:120]
            out["where"] = "%s:%d %s" % (tb[-1].filename.split("/")[-1], tb[-1].lineno, tb[-1].name)
            return out
        except RuntimeError as e:
            out["setup"] = "accept"
            out["solve_error"] = str(e)[:100]
            return out
        out["setup"] = "accept"
        out["tubes"] = []
        for pname, panel in rec.panels.items():
            for tname, tube in panel.tubes.items():
                out["tubes"].append({
                    "panel": pname, "tube": tname,
                    "temperature": hexl(tube.results["temperature"]), "tshape": list(tube.results["temperature"].shape),
                    "ghost": hexl(tube.quadrature_results["ghost_temperature"]),
                    "gshape": list(tube.quadrature_results["ghost_temperature"].shape),
                    "fluid_T": hexl(tube.axial_results["fluid_temperature"]),
                    "fshape": list(tube.axial_results["fluid_temperature"].shape),
                    "fluid_u": hexl(tube.axial_results["fluid_velocity"]),
                })
    except Exception as e:
        out["error"] = "%s: %s" % (type(e).__name__, str(e)[:200])
    return out


def main():
    req = json.load(sys.stdin)
    print("@@RESULT@@" + json.dumps({"results": [run(c) for c in req["cases"]]}))


if __name__ == "__main__":
    main()
