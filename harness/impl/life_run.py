"""
Implementation driver for C01 / C09: metallic life from synthetic result
histories, through the real srlife.damage.TimeFractionInteractionDamage and
srlife.materials.StructuralMaterial.
"""
import json
import sys

import numpy as np

from srlife import damage, library, materials, receiver, solverparams


def fl(x):
    return float.fromhex(x) if isinstance(x, str) else float(x)


def conv(o):
    if isinstance(o, list):
        return [conv(x) for x in o]
    return fl(o)


def hx(x):
    x = float(x)
    if x == float("inf"):
        return "inf"
    return x.hex()


class StubMaterial:
    """Rational laws: tR = a / (1 + b*vm^2 + c*T),  Nf = A / (1 + B*range^2 + C*T);
    envelope through (xk, yk) by the real StructuralMaterial."""

    def __init__(self, p):
        self.p = p
        self.env = materials.StructuralMaterial({"cfinteraction": "%r %r" % (p["xk"], p["yk"])})

    def time_to_rupture(self, pname, temp, stress):
        assert pname == "averageRupture"
        return self.p["a"] / (1.0 + self.p["b"] * stress ** 2.0 + self.p["c"] * temp)

    def cycles_to_fail(self, pname, temp, erange):
        assert pname == "nominalFatigue"
        return self.p["A"] / (1.0 + self.p["B"] * erange ** 2.0 + self.p["C"] * temp)

    def inside_envelope(self, pname, df, dc):
        return self.env.inside_envelope(pname, df, dc)


FIELDS = ["stress", "mechanical_strain"]
COMPS = ["_xx", "_yy", "_zz", "_yz", "_xz", "_xy"]


def build_receiver(spec):
    rec = receiver.Receiver(fl(spec["period"]), spec["days"], "rigid")
    times = np.array(conv(spec["times"]))
    for pspec in spec["panels"]:
        panel = receiver.Panel("rigid")
        for tspec in pspec:
            tube = receiver.Tube(10.0, 1.0, 100.0, 3, 4, 3, T0=0.0)
            tube.set_times(times)
            for name, arr in tspec["quad"].items():
                tube.add_quadrature_results(name, np.array(conv(arr)))
            panel.add_tube(tube)
        rec.add_panel(panel)
    return rec


def get_material(m):
    if m["kind"] == "stub":
        return StubMaterial({k: fl(v) for k, v in m["p"].items()})
    if m["kind"] == "shipped":
        return library.load_damage(m["name"], m.get("variant", "base"))
    if m["kind"] == "envelope":
        return materials.StructuralMaterial({"cfinteraction": "%r %r" % (fl(m["xk"]), fl(m["yk"]))})
    raise ValueError(m["kind"])


def run_case(case):
    out = {"id": case["id"]}
    what = case["what"]
    try:
        mat = get_material(case["material"])
        if what == "envelope":
            out["inside"] = []
            for f, c in case["points"]:
                try:
                    out["inside"].append(bool(mat.inside_envelope("cfinteraction", fl(f), fl(c))))
                except ValueError:
                    out["inside"].append("error")
            return out
        pset = solverparams.ParameterSet()
        pset["extrapolate"] = case.get("extrapolate", "lump")
        calc = damage.TimeFractionInteractionDamage(pset)
        if what == "points":
            # per-tube damages supplied directly: arrays (days, nelem, nq)
            rec = receiver.Receiver(24.0, case["days"], "rigid")
            panel = receiver.Panel("rigid")
            lookup = {}
            for k, tspec in enumerate(case["tubes"]):
                tube = receiver.Tube(10.0, 1.0, 100.0, 3, 4, 3, T0=0.0)
                tube.verif_idx = k       # survives the pickling of the worker pool
                panel.add_tube(tube)
                lookup[k] = (np.array(conv(tspec["Dc"])), np.array(conv(tspec["Df"])))
            rec.add_panel(panel)
            calc.creep_damage = lambda tube, material, receiver_: lookup[tube.verif_idx][0]
            calc.fatigue_damage = lambda tube, material, receiver_: lookup[tube.verif_idx][1]
            life = calc.determine_life(rec, mat, nthreads=1)
            out["life"] = hx(life)
            return out
        if what == "histories":
            rec = build_receiver(case["receiver"])
            tubes = list(rec.tubes)
            out["Dc"], out["Df"], out["inds"] = [], [], []
            for tube in tubes:
                try:
                    out["inds"].append([int(i) for i in calc.id_cycles(tube, rec)])
                except ValueError as e:
                    out["inds"].append("error")
                    continue
                Dc = calc.creep_damage(tube, mat, rec)
                Df = calc.fatigue_damage(tube, mat, rec)
                out["Dc"].append([hx(v) for v in np.asarray(Dc).ravel()])
                out["Df"].append([hx(v) for v in np.asarray(Df).ravel()])
                out["dshape"] = list(np.asarray(Dc).shape)
            if "error" not in out["inds"]:
                life = calc.determine_life(rec, mat, nthreads=case.get("nthreads", 1))
                out["life"] = hx(life)
                # the property's own oracle: envelope membership of every point at chosen repetition
                # counts, with srlife's own extrapolation and envelope functions
                Ns = [1.0, 1.0e6]
                if np.isfinite(life) and life > 0:
                    Ns += [life * (1 - 1e-6), life * (1 + 1e-6)]
                probes = {}
                nc = rec.days
                for N in Ns:
                    flags = []
                    for tube in tubes:
                        Dc = calc.creep_damage(tube, mat, rec).reshape(nc, -1).T
                        Df = calc.fatigue_damage(tube, mat, rec).reshape(nc, -1).T
                        flags.append([bool(mat.inside_envelope("cfinteraction", calc.make_extrapolate(f)(N),
                                                                calc.make_extrapolate(c)(N))) for c, f in zip(Dc, Df)])
                    probes[hx(N)] = flags
                out["probes"] = probes
            else:
                out["life"] = "raised"
            return out
        raise ValueError(what)
    except Exception as e:
        out["error"] = "%s: %s" % (type(e).__name__, str(e)[:200])
        return out


def main():
    req = json.load(sys.stdin)
    res = [run_case(c) for c in req["cases"]]
    print("@@RESULT@@" + json.dumps({"results": res}))


if __name__ == "__main__":
    main()
