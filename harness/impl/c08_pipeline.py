"""
Implementation driver for C08: one small receiver through the real
managers.SolutionManager (thermal solve per tube, spring-system structural solve
with the scikit-fem tube solver, creep-fatigue life, and a ceramic reliability
evaluation of the same stored fields), once per configuration (nthreads, paging,
progress bars).  Reports a digest and the raw bytes-exact values of every result
array so that configurations can be compared exactly.
"""
import hashlib
import io
import json
import os
import sys
import tempfile
import contextlib

import numpy as np

import harness.shim.skfem_shim  # noqa: F401
from srlife import damage, library, managers, receiver, solverparams, structural, system, thermal


def fl(x):
    return float.fromhex(x) if isinstance(x, str) else float(x)


def build(spec):
    period = fl(spec["period"])
    times = np.array([fl(t) for t in spec["times"]])
    rs = spec["rstiff"]
    rec = receiver.Receiver(period, spec["days"], rs if rs in ("disconnect", "rigid") else fl(rs))
    for pspec in spec["panels"]:
        ps = pspec["stiff"]
        panel = receiver.Panel(ps if ps in ("disconnect", "rigid") else fl(ps))
        for t in pspec["tubes"]:
            tube = receiver.Tube(fl(t["r"]), fl(t["t"]), fl(t["h"]), t["nr"], t["nt"], t["nz"], T0=fl(t["T0"]), multiplier=t.get("mult", 1))
            tube.set_times(times)
            if t["dim"] == 2:
                tube.make_2D(fl(t["h"]) / 2)
            elif t["dim"] == 1:
                tube.make_1D(fl(t["h"]) / 2, 0.0)
            nt, nz = t["nt"], t["nz"]
            flux = np.array([[[fl(t["flux"][k]) * (1.0 + 0.5 * np.cos(2 * np.pi * j / nt)) * (0.6 + 0.4 * (z + 1) / nz) if np.cos(2 * np.pi * j / nt) > -0.5 else 0.0
                               for z in range(nz)] for j in range(nt)] for k in range(len(times))])
            tube.set_bc(receiver.HeatFluxBC(fl(t["r"]), fl(t["h"]), nt, nz, times, flux), "outer")
            Tin = np.array([[fl(t["Tfluid"][k]) + 10.0 * z / nz for z in range(nz)] for k in range(len(times))])
            tube.set_bc(receiver.ConvectiveBC(fl(t["r"]) - fl(t["t"]), fl(t["h"]), nz, times, Tin), "inner")
            tube.set_pressure_bc(receiver.PressureBC(times, np.array([fl(p) for p in t["pressure"]])))
            panel.add_tube(tube)
        rec.add_panel(panel)
    return rec


def digest(rec):
    """every stored array of every tube, in receiver order"""
    h = hashlib.sha256()
    detail = {}
    for pi, (pn, panel) in enumerate(rec.panels.items()):
        for ti, (tn, tube) in enumerate(panel.tubes.items()):
            for kind, d in (("node", tube.results), ("quad", tube.quadrature_results), ("axial", tube.axial_results)):
                for name in sorted(d):
                    a = np.ascontiguousarray(np.asarray(d[name], dtype=np.float64))
                    hh = hashlib.sha256(a.tobytes()).hexdigest()
                    detail["%d/%d/%s/%s" % (pi, ti, kind, name)] = [hh[:16], list(a.shape), float(np.nanmax(np.abs(a))) if a.size else 0.0]
                    h.update(hh.encode())
    return h.hexdigest(), detail


def run(case):
    out = {"id": case["id"]}
    cwd = os.getcwd()
    tmp = tempfile.mkdtemp(prefix="c08_", dir=cwd)
    os.chdir(tmp)
    try:
        rec = build(case["receiver"])
        pset = solverparams.ParameterSet()
        pset["nthreads"] = case["nthreads"]
        pset["progress_bars"] = case["progress"]
        pset["page_results"] = case["page"]
        mat = case["material"]
        thermal_mat, deformation_mat = library.load_thermal(mat, "base"), library.load_deformation(mat, case.get("deformation", "base"))
        fluid_mat = library.load_fluid("salt", "base")
        damage_mat = library.load_damage(mat, "base")
        if case.get("force_cutback"):
            # make the full-length attempt of the second stored step fail for every tube, in every process (the wrappers
            # are installed before any worker is forked), so that the adaptive loop has to cut that step
            tms = [fl(t) for t in case["receiver"]["times"]]
            for name in ("solve_python_1d", "solve_python_2d", "solve_python_3d"):
                def wrap(orig):
                    def f(state_n, t_n, p_n, state_np1, t_np1, p_np1, top, opts):
                        if abs(t_n - tms[1]) < 1e-12 and abs(t_np1 - tms[2]) < 1e-12:
                            raise RuntimeError("scripted non-convergence of the full step")
                        return orig(state_n, t_n, p_n, state_np1, t_np1, p_np1, top, opts)
                    return f
                setattr(structural, name, wrap(getattr(structural, name)))
        struct_pset = solverparams.ParameterSet()
        for k, v in (case.get("struct_params") or {}).items():
            struct_pset[k] = v
        solver = managers.SolutionManager(rec, thermal.FiniteDifferenceImplicitThermalSolver(), thermal_mat, fluid_mat,
                                          structural.PythonTubeSolver(struct_pset), deformation_mat, damage_mat,
                                          system.SpringSystemSolver(solverparams.ParameterSet()),
                                          damage.TimeFractionInteractionDamage(solverparams.ParameterSet()), pset=pset)
        sink = io.StringIO()
        with contextlib.redirect_stdout(sink), contextlib.redirect_stderr(sink):
            life = solver.solve_life()
            rel = None
            if case.get("reliability"):
                cer = library.load_damage("SiC", "cares")
                model = damage.PIAModel(solverparams.ParameterSet())
                r = model.determine_reliability(rec, cer, 1000.0, nthreads=case["nthreads"], decorator=solver.progress_decorator)
                rel = [float(x).hex() for x in np.ravel(r["tube_reliability"])] + [float(r["overall_reliability"]).hex()]
        out["life"] = float(life).hex()
        out["reliability"] = rel
        out["digest"], out["detail"] = digest(rec)
        out["progress_output"] = len(sink.getvalue()) > 0
        out["outcome"] = "ok"
    except Exception as e:
        import traceback
        out["outcome"] = "error"
        out["msg"] = "%s: %s | %s" % (type(e).__name__, str(e)[:200], traceback.format_exc()[-3000:])
    finally:
        os.chdir(cwd)
        import shutil
        shutil.rmtree(tmp, ignore_errors=True)
    return out


def main():
    req = json.load(sys.stdin)
    print("@@RESULT@@" + json.dumps({"results": [run(c) for c in req["cases"]]}))


if __name__ == "__main__":
    main()
