"""
Implementation driver for the structural properties (C03, C11, C15, C08): runs
the real PythonTubeSolver (scikit-fem + NEML) on one tube, step by step the way
spring.TubeSpring does (init_state, dump_state(0), solve, dump_state), and
reports what was stored.

case = {id, r, t, h, nr, nt, nz, dim, T0, times[], temps[time][flat nodes],
        pressure[time] | null, dtop[time], material{...}, params{...},
        trial: {step: [d, ...]}   extra trial solves from the same state_n before the real one,
        want: [names]             quadrature fields to report (default all),
        probe: [...]              extra observations}
All numbers are float.hex strings.
"""
import json
import sys

import numpy as np

import harness.shim.skfem_shim  # noqa: F401
from neml import elasticity, interpolate, models, surfaces, hardening, creep
from skfem import asm

from srlife import receiver, solverparams, structural

FIELDS = ["stress", "strain", "mechanical_strain", "thermal_strain"]
SUFF = ["_xx", "_yy", "_zz", "_yz", "_xz", "_xy"]


def fl(x):
    return float.fromhex(x) if isinstance(x, str) else float(x)


def hx(a):
    a = np.asarray(a, dtype=float)
    if a.ndim == 0:
        return float(a).hex()
    return [hx(x) for x in a]


def make_material(m):
    if m.get("kind") == "shipped":
        from srlife import library
        return library.load_deformation(m["name"], m["variant"]).get_neml_model()
    E, nu = fl(m["E"]), fl(m["nu"])
    if m.get("E_T"):
        # temperature-dependent Young's modulus (piecewise linear table)
        Ei = interpolate.PiecewiseLinearInterpolate([fl(x) for x in m["E_T"]], [fl(x) for x in m["E_v"]])
        emodel = elasticity.IsotropicLinearElasticModel(Ei, "youngs", interpolate.ConstantInterpolate(nu), "poissons")
    else:
        emodel = elasticity.IsotropicLinearElasticModel(E, "youngs", nu, "poissons")
    aT, av = [fl(x) for x in m["alpha_T"]], [fl(x) for x in m["alpha_v"]]
    if len(aT) == 1:
        alpha = interpolate.ConstantInterpolate(av[0])
    else:
        alpha = interpolate.PiecewiseLinearInterpolate(aT, av)
    kind = m.get("kind", "elastic")
    if kind == "elastic":
        return models.SmallStrainElasticity(emodel, alpha=alpha)
    if kind == "plastic":
        surf = surfaces.IsoJ2()
        hard = hardening.LinearIsotropicHardeningRule(fl(m["sy"]), fl(m["H"]))
        return models.SmallStrainRateIndependentPlasticity(emodel, surf, hard, alpha=alpha)
    if kind == "creep":
        surf = surfaces.IsoJ2()
        hard = hardening.LinearIsotropicHardeningRule(fl(m["sy"]), fl(m["H"]))
        base = models.SmallStrainRateIndependentPlasticity(emodel, surf, hard)
        cm = creep.J2CreepModel(creep.PowerLawCreep(fl(m["A"]), fl(m["n"])))
        return models.SmallStrainCreepPlasticity(emodel, base, cm, alpha=alpha)
    raise ValueError("unknown material kind %s" % kind)


ATTEMPTS = [0]


def _counted(fn):
    def f(*a, **k):
        ATTEMPTS[0] += 1
        return fn(*a, **k)
    return f


for _n in ("solve_python_1d", "solve_python_2d", "solve_python_3d"):
    setattr(structural, _n, _counted(getattr(structural, _n)))


def make_tube(c):
    tube = receiver.Tube(fl(c["r"]), fl(c["t"]), fl(c["h"]), c["nr"], c["nt"], c["nz"], T0=fl(c.get("T0", "0x0p+0")))
    times = np.array([fl(x) for x in c["times"]])
    tube.set_times(times)
    if c["dim"] == 2:
        tube.make_2D(fl(c.get("zslice", (fl(c["h"]) / 2).hex())))
    elif c["dim"] == 1:
        tube.make_1D(fl(c.get("zslice", (fl(c["h"]) / 2).hex())), fl(c.get("aslice", "0x0p+0")))
    shp = tube.dim[: tube.ndim]
    if c.get("temps") is not None:
        T = np.array([[fl(v) for v in row] for row in c["temps"]]).reshape((len(times),) + tuple(shp))
        tube.add_results("temperature", T)
    if c.get("pressure") is not None:
        tube.set_pressure_bc(receiver.PressureBC(times, np.array([fl(p) for p in c["pressure"]])))
    return tube


def make_solver(params):
    ps = solverparams.ParameterSet()
    for k, v in (params or {}).items():
        ps[k] = v if isinstance(v, (bool, int)) else fl(v)
    return structural.PythonTubeSolver(ps)


def asym(a):
    return float(np.max(np.abs(a - np.swapaxes(a, 0, 1)))) if a.size else 0.0


def pressure_probe(state, p=1.0):
    """assembled external force of a unit pressure, per node (ndim components) with node coordinates"""
    s = structural.PythonSolver(state, state, {"verbose": False})
    pv = state.pbasis.interpolate(state.pbasis.zeros() + p)
    F = asm(s.external, state.pbasis, pressure=pv)
    nd = state.ndim
    nodal = state.basis.nodal_dofs           # (ndim, nnodes)
    out = {"coords": hx(state.mesh.p.T), "force": hx(np.array([F[nodal[k]] for k in range(nd)]).T),
           "nfacets": int(len(state.mesh.boundaries["pressure"]))}
    return out


def run_network(case, out, tube, mat, solver):
    """the tube as the only spring of a SpringNetwork whose two ends both carry displacement conditions (no free network dof):
    bottom held, top following the prescribed history"""
    from srlife import spring
    times = np.array([fl(x) for x in case["times"]])
    dtop = np.array([fl(d) for d in case["dtop"]])
    net = spring.SpringNetwork()
    net.add_node(0)
    net.add_node(1)
    ts = spring.TubeSpring(tube, solver, mat)
    net.add_edge(0, 1, object=ts)
    if case.get("parallel"):
        # a second, different tube between the same two nodes (parallel edges of the multigraph)
        other = case["parallel"]
        tube_b = make_tube(other)
        net.add_edge(0, 1, object=spring.TubeSpring(tube_b, make_solver(other.get("params")), make_material(other["material"])))
    net.displacement_bc(0, lambda t: 0.0)
    # SpringNetwork.fj: the extension of the edge (0, 1) is u0 - u1
    net.displacement_bc(1, lambda t: -float(np.interp(t, times, dtop)))
    net.validate_setup()
    net.solve_all()
    last = len(times) - 1
    q = {}
    for f in FIELDS:
        for s in SUFF:
            q[f + s] = hx(tube.quadrature_results[f + s][: last + 1])
    q["temperature"] = hx(tube.quadrature_results["temperature"][: last + 1])
    out["quad"] = q
    out["force"] = [hx(0.0)] * len(times)
    out["stiffness"] = [hx(0.0)] * len(times)
    out["asym"] = [0.0] * len(times)         # six components are stored; the state tensors are checked in the direct runs
    out["outcome"] = "ok"
    return out


def run(case):
    out = {"id": case["id"]}
    try:
        tube = make_tube(case)
        mat = make_material(case["material"])
        solver = make_solver(case.get("params"))
        if case.get("network"):
            return run_network(case, out, tube, mat, solver)
        solver.setup_tube(tube)
        state = solver.init_state(tube, mat, i=0 if ("temperature" in tube.results and case.get("init") != "noindex") else None)
        solver.dump_state(tube, 0, state)
        dtop = [fl(d) for d in case["dtop"]]
        forces, stiffs, asyms, trials = [hx(state.force)], [hx(state.stiffness)], [0.0], {}
        trial_attempts, step_attempts = {}, [0]
        probe = case.get("probe", [])
        if "pressure_load" in probe:
            out["pressure_load"] = pressure_probe(state)
        if "mesh" in probe:
            out["mesh"] = {"p": hx(state.mesh.p.T), "t": state.mesh.t.T.tolist()}
        last = case.get("stop_at", len(dtop) - 1)
        for i in range(1, last + 1):
            for d in (case.get("trial") or {}).get(str(i), []):
                ATTEMPTS[0] = 0
                s2 = solver.solve(tube, i, state, fl(d))
                trials.setdefault(str(i), []).append([hx(s2.force), hx(s2.stiffness)])
                trial_attempts.setdefault(str(i), []).append(ATTEMPTS[0])
            ATTEMPTS[0] = 0
            new = solver.solve(tube, i, state, dtop[i])
            step_attempts.append(ATTEMPTS[0])
            solver.dump_state(tube, i, new)
            state = new
            forces.append(hx(state.force))
            stiffs.append(hx(state.stiffness))
            asyms.append(max(asym(state.stress), asym(state.strain), asym(state.mechanical_strain), asym(state.thermal_strain)))
        out["force"] = forces
        out["stiffness"] = stiffs
        out["asym"] = asyms
        out["trials"] = trials
        out["trial_attempts"] = trial_attempts      # per-increment solves each trial / accepted step needed (1 = no sub-increments)
        out["step_attempts"] = step_attempts
        want = case.get("want")
        q = {}
        for f in FIELDS:
            for s in SUFF:
                if want is None or f + s in want or f in want:
                    q[f + s] = hx(tube.quadrature_results[f + s][: last + 1])
        if want is None or "temperature" in want:
            q["temperature"] = hx(tube.quadrature_results["temperature"][: last + 1])
        out["quad"] = q
        if "disp" in probe:
            out["disp"] = {k: hx(tube.results[k][: last + 1]) for k in tube.results if k.startswith("disp")}
        if "volumes" in probe:
            out["element_volumes"] = hx(tube.element_volumes())
            out["dx"] = hx(state.basis.dx)
            if state.ndim == 1:
                out["rq"] = hx(state.basis.interpolate(state.mesh.p[0]).value[0])
        if "quadrature" in probe:
            X, W = state.basis.quadrature
            out["quadrature"] = {"points": hx(np.asarray(X)), "weights": hx(np.asarray(W))}
        if "qcoords" in probe:
            out["qcoords"] = hx(state.basis.global_coordinates().value)
        out["outcome"] = "ok"
    except RuntimeError as e:
        out["outcome"] = "raise"
        out["msg"] = str(e)[:120]
    except Exception as e:
        import traceback
        out["outcome"] = "error"
        out["msg"] = "%s: %s | %s" % (type(e).__name__, str(e)[:200], traceback.format_exc()[-400:])
    return out


def main():
    req = json.load(sys.stdin)
    print("@@RESULT@@" + json.dumps({"results": [run(c) for c in req["cases"]]}))


if __name__ == "__main__":
    main()
