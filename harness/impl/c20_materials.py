"""
Implementation driver for C20: loads every shipped material variant through
the documented loaders, evaluates its property models on sweeps, and saves /
reloads every property model through XML.
"""
import json
import os
import sys
import tempfile
import xml.etree.ElementTree as ET

import numpy as np

from srlife import library, materials
from srlife.thermohydraulics import thermalfluid


def hv(x):
    x = float(x)
    if x != x:
        return "nan"
    if x in (float("inf"), float("-inf")):
        return "inf" if x > 0 else "-inf"
    return x.hex()


def variants():
    out = []
    for sub in sorted(os.listdir(library.LIBRARY_DIR)):
        d = os.path.join(library.LIBRARY_DIR, sub)
        if not os.path.isdir(d):
            continue
        for fn in sorted(os.listdir(d)):
            if fn.endswith(".xml"):
                root = ET.parse(os.path.join(d, fn)).getroot()
                for child in root:
                    out.append([sub, fn[:-4], child.tag])
    return out


LOADERS = {"thermal": library.load_thermal, "fluid": library.load_fluid, "thermalfluid": library.load_thermal_fluid,
           "damage": library.load_damage, "deformation": library.load_deformation}


def evaluate(sub, obj, req):
    out = {}
    if sub == "thermal":
        Ts = [float.fromhex(t) for t in req["T"]]
        out["cond"] = [hv(obj.conductivity(T)) for T in Ts]
        out["diff"] = [hv(obj.diffusivity(T)) for T in Ts]
        out["dcond"] = [hv(obj.dconductivity(T)) for T in Ts]
        out["ddiff"] = [hv(obj.ddiffusivity(T)) for T in Ts]
    elif sub == "fluid":
        Ts = [float.fromhex(t) for t in req["T"]]
        out["coef"] = {m: [hv(obj.coefficient(m, T)) for T in Ts] for m in req["mats"]}
        out["dcoef"] = {m: [hv(obj.dcoefficient(m, T)) for T in Ts] for m in req["mats"]}
    elif sub == "thermalfluid":
        Ts = [float.fromhex(t) for t in req["T"]]
        out["film"] = [hv(obj.film_coefficient(T, 1.0e6, 10.0)) for T in Ts]
        out["polys"] = {k: [float(x).hex() for x in np.asarray(getattr(obj, k))] for k in ("cp_poly", "rho_poly", "mu_poly", "k_poly")}
    elif sub == "damage":
        if isinstance(obj, materials.StructuralMaterial):
            out["kind"] = "metallic"
            out["tR"] = []
            for T in req["T"]:
                S = np.array([float.fromhex(s) for s in req["stress"]])
                TT = np.full(S.shape, float.fromhex(T))
                out["tR"].append([[hv(v) for v in obj.time_to_rupture(p, TT, S)] for p in ("averageRupture", "lowerboundRupture")])
            # an unloaded point never ruptures
            out["tR0"] = [[hv(obj.time_to_rupture(p, np.array([float.fromhex(T)]), np.array([0.0]))[0]) for p in ("averageRupture", "lowerboundRupture")]
                          for T in req["T"]]
            out["Nf"] = []
            for T in req["Tf"]:
                row = []
                for e in req["erange"]:
                    try:
                        row.append(hv(obj.cycles_to_fail("nominalFatigue", float.fromhex(T), float.fromhex(e))))
                    except ValueError:
                        row.append("error")
                out["Nf"].append(row)
            out["env"] = [bool(obj.inside_envelope("cfinteraction", float.fromhex(f), float.fromhex(c))) for f, c in req["env"]]
        else:
            out["kind"] = "ceramic"
            Ts = np.array([float.fromhex(t) for t in req["Tc"]])
            for name in ("strength", "modulus", "fatigue_Nv", "fatigue_Bv"):
                out[name] = [hv(v) for v in np.atleast_1d(getattr(obj, name)(Ts))]
            out["c_bar"] = hv(np.atleast_1d(obj.c_bar(Ts))[0])
            out["nu"] = hv(np.atleast_1d(obj.nu(Ts))[0])
    elif sub == "deformation":
        out["neml"] = type(obj.get_neml_model()).__name__
    return out


def roundtrip(sub, name, variant, obj):
    """save the model to XML and load it back through the same class"""
    fd, fn = tempfile.mkstemp(suffix=".xml", dir=os.getcwd())
    os.close(fd)
    try:
        if sub == "thermal":
            obj.save(fn, "m")
            return materials.ThermalMaterial.load(fn, "m")
        if sub == "fluid":
            obj.save(fn, "m")
            return materials.FluidMaterial.load(fn, "m")
        if sub == "thermalfluid":
            obj.save(fn, "m")
            return thermalfluid.ThermalFluidMaterial.load(fn, "m")
        if sub == "damage":
            obj.save(fn, "m")
            if isinstance(obj, materials.StructuralMaterial):
                return materials.StructuralMaterial.load(fn, "m")
            return materials.StandardCeramicMaterial.load(materials.find_name(fn, "m")[0]) if False else materials.CeramicMaterial.load(fn, "m")
        return obj
    finally:
        if os.path.exists(fn):
            os.remove(fn)


def main():
    req = json.load(sys.stdin)
    if req.get("list"):
        print("@@RESULT@@" + json.dumps({"variants": variants()}))
        return
    res = []
    for c in req["cases"]:
        out = {"id": c["id"]}
        try:
            obj = LOADERS[c["sub"]](c["name"], c["variant"])
            out["loaded"] = type(obj).__name__
            out["eval"] = evaluate(c["sub"], obj, c)
            if c.get("roundtrip"):
                try:
                    obj2 = roundtrip(c["sub"], c["name"], c["variant"], obj)
                    out["eval2"] = evaluate(c["sub"], obj2, c)
                except Exception as e:
                    out["roundtrip_error"] = "%s: %s" % (type(e).__name__, str(e)[:150])
        except Exception as e:
            out["error"] = "%s: %s" % (type(e).__name__, str(e)[:200])
        res.append(out)
    # round trip of freshly constructed models with parameters that are not in the shipped files
    extra = []
    for spec in req.get("custom", []):
        o = {"id": spec["id"]}
        try:
            if spec["kind"] == "ceramic":
                f = lambda l: np.array([float.fromhex(x) for x in l])
                obj = materials.StandardCeramicMaterial(f(spec["sT"]), f(spec["s"]), f(spec["mT"]), f(spec["m"]), float.fromhex(spec["c_bar"]),
                                                        float.fromhex(spec["nu"]), f(spec["nT"]), f(spec["n"]), f(spec["bT"]), f(spec["b"]))
                o["eval"] = evaluate("damage", obj, spec)
                o["eval2"] = evaluate("damage", roundtrip("damage", "x", "m", obj), spec)
            elif spec["kind"] == "pwthermal":
                f = lambda l: [float.fromhex(x) for x in l]
                obj = materials.PiecewiseLinearThermalMaterial("m", f(spec["temps"]), f(spec["cond"]), f(spec["diffu"]))
                o["eval"] = evaluate("thermal", obj, spec)
                o["eval2"] = evaluate("thermal", roundtrip("thermal", "x", "m", obj), spec)
        except Exception as e:
            o["error"] = "%s: %s" % (type(e).__name__, str(e)[:200])
        extra.append(o)
    # the three-in-one loader against the three single loaders
    combos = []
    for (name, tv, dv, gv) in req.get("combos", []):
        o = {"combo": [name, tv, dv, gv]}
        try:
            th, de, da = library.load_material(name, tv, dv, gv)
            ref_th, ref_da = library.load_thermal(name, tv), library.load_damage(name, gv)
            Ts = [650.0, 900.0, 1100.0]
            o["thermal_same"] = type(th) is type(ref_th) and [float(th.conductivity(T)) for T in Ts] == [float(ref_th.conductivity(T)) for T in Ts] \
                and [float(th.diffusivity(T)) for T in Ts] == [float(ref_th.diffusivity(T)) for T in Ts]
            o["deformation_same"] = (de.modelname == dv) and os.path.basename(de.xmlfile) == name + ".xml"
            o["damage_same"] = type(da) is type(ref_da) and getattr(da, "data", None) == getattr(ref_da, "data", None)
        except Exception as e:
            o["error"] = "%s: %s" % (type(e).__name__, str(e)[:200])
        combos.append(o)
    print("@@RESULT@@" + json.dumps({"results": res, "custom": extra, "combos": combos}))


if __name__ == "__main__":
    main()
