"""
Implementation driver for C18: evaluates T_effective, reynolds, prandtl,
nusselt and film_coefficient of shipped and random polynomial fluids.
"""
import json
import sys
import xml.etree.ElementTree as ET
import os

import numpy as np

from srlife import library
from srlife.thermohydraulics import thermalfluid


def fl(x):
    return float.fromhex(x) if isinstance(x, str) else float(x)


def get_fluid(spec):
    if spec["kind"] == "shipped":
        return library.load_thermal_fluid(spec["name"], spec["variant"])
    kw = {k: fl(v) for k, v in spec.get("kwargs", {}).items()}
    return thermalfluid.PolynomialThermalFluidMaterial(
        np.array([fl(x) for x in spec["cp"]]), np.array([fl(x) for x in spec["rho"]]),
        np.array([fl(x) for x in spec["mu"]]), np.array([fl(x) for x in spec["k"]]), **kw)


def describe(f):
    return {"cp": [float(x).hex() for x in np.asarray(f.cp_poly)], "rho": [float(x).hex() for x in np.asarray(f.rho_poly)],
            "mu": [float(x).hex() for x in np.asarray(f.mu_poly)], "k": [float(x).hex() for x in np.asarray(f.k_poly)],
            "film_min": float(f.film_min).hex(), "T_max": float(f.T_max).hex(), "T_min": float(f.T_min).hex(),
            "laminar_cutoff": float(f.laminar_cutoff).hex(), "laminar_value": float(f.laminar_value).hex()}


def hv(x):
    x = float(x)
    if x != x:
        return "nan"
    if x in (float("inf"), float("-inf")):
        return "inf" if x > 0 else "-inf"
    return x.hex()


def run(case):
    out = {"id": case["id"]}
    try:
        f = get_fluid(case["fluid"])
        out["params"] = describe(f)
        if case["fluid"]["kind"] != "shipped":
            # the same fluid written to XML and read back through the documented loader
            import tempfile
            with tempfile.TemporaryDirectory() as d:
                fn = os.path.join(d, "fluid.xml")
                f.save(fn, "model")
                g = thermalfluid.ThermalFluidMaterial.load(fn, "model")
            out["reloaded"] = describe(g)
            T, u, r = [fl(x) for x in case["points"][0]]
            out["reloaded_film"] = hv(g.film_coefficient(T, u, r))
        rows = []
        for T, u, r in case["points"]:
            T, u, r = fl(T), fl(u), fl(r)
            rows.append({"Teff": hv(f.T_effective(T)), "re": hv(f.reynolds(f.T_effective(T), u, r)),
                         "pr": hv(f.prandtl(f.T_effective(T))), "nu": hv(f.nusselt(T, u, r)),
                         "film": hv(f.film_coefficient(T, u, r)), "kT": hv(f.k(T))})
        out["rows"] = rows
        if case.get("vector"):
            Ts = np.array([fl(p[0]) for p in case["points"]]); us = np.array([fl(p[1]) for p in case["points"]])
            out["vec_film"] = [hv(x) for x in np.asarray(f.film_coefficient(Ts, us, fl(case["points"][0][2])))]
    except Exception as e:
        out["error"] = "%s: %s" % (type(e).__name__, str(e)[:200])
    return out


def variants():
    d = os.path.join(library.LIBRARY_DIR, "thermalfluid")
    out = []
    for fn in sorted(os.listdir(d)):
        if fn.endswith(".xml"):
            root = ET.parse(os.path.join(d, fn)).getroot()
            for child in root:
                out.append([fn[:-4], child.tag])
    return out


def main():
    req = json.load(sys.stdin)
    if req.get("list"):
        print("@@RESULT@@" + json.dumps({"variants": variants()}))
        return
    print("@@RESULT@@" + json.dumps({"results": [run(c) for c in req["cases"]]}))


if __name__ == "__main__":
    main()
