"""
Implementation driver for C04 with real tubes: the SpringSystemSolver with the
scikit-fem tube solver and an elastic NEML material on small receivers of 1D/2D
tubes (wall temperature history, pressure).  After the system solve each tube's
history is replayed on its own with the top displacements the system found, and
its force law at every step is measured by two trial solves (an elastic tube is
an affine spring: force = kt * d + f0), so that the equilibrium certificate of
the affine model applies to the finite-element tubes.
"""
import json
import sys

import numpy as np

import harness.shim.skfem_shim  # noqa: F401
from neml import elasticity, interpolate, models

from srlife import receiver, solverparams, structural, system


def fl(x):
    return float.fromhex(x) if isinstance(x, str) else float(x)


def opt(o):
    return o if isinstance(o, str) and o in ("rigid", "disconnect") else (int(o[1]) if isinstance(o, list) and o[0] == "int" else fl(o))


def make_tube(t, times):
    if t.get("tjit"):
        # this tube's own time array equals the others' up to round-off (interior times moved by an ulp or two)
        times = np.array(times, dtype=float)
        times[1:-1] = times[1:-1] * (1.0 + fl(t["tjit"]))
    tube = receiver.Tube(fl(t["r"]), fl(t["t"]), fl(t["h"]), t["nr"], t["nt"], t["nz"], T0=fl(t["T0"]))
    tube.set_times(times)
    if t["dim"] == 2:
        tube.make_2D(fl(t["h"]) / 2)
    else:
        tube.make_1D(fl(t["h"]) / 2, 0.0)
    shp = tube.dim[: tube.ndim]
    T = np.zeros((len(times),) + tuple(shp))
    rs = np.linspace(0.0, 1.0, t["nr"]).reshape((t["nr"],) + (1,) * (tube.ndim - 1))
    for k in range(len(times)):
        T[k] = fl(t["T0"]) + fl(t["dT"][k]) * (0.5 + 0.5 * rs) + np.zeros(shp)
    tube.add_results("temperature", T)
    tube.set_pressure_bc(receiver.PressureBC(times, np.array([fl(p) for p in t["pressure"]])))
    return tube


def top_displacement(tube, i):
    return float(tube.quadrature_results["strain_zz"][i].ravel()[0]) * tube.h


def run(case):
    out = {"id": case["id"]}
    try:
        times = np.array([fl(t) for t in case["times"]])
        emodel = elasticity.IsotropicLinearElasticModel(fl(case["E"]), "youngs", fl(case["nu"]), "poissons")
        mat = models.SmallStrainElasticity(emodel, alpha=interpolate.ConstantInterpolate(fl(case["alpha"])))
        rec = receiver.Receiver(24.0, 1, opt(case["ropt"]))
        specs = []
        for pspec in case["panels"]:
            panel = receiver.Panel(opt(pspec["popt"]))
            for t in pspec["tubes"]:
                panel.add_tube(make_tube(t, times))
                specs.append(t)
            rec.add_panel(panel)
        ps = solverparams.ParameterSet()
        ps["atol"] = 1.0e-8
        ps["rtol"] = 1.0e-10
        ps["miter"] = 50
        tsolver = structural.PythonTubeSolver(solverparams.ParameterSet())
        try:
            system.SpringSystemSolver(ps).solve(rec, mat, tsolver, nthreads=1)
        except (RuntimeError, ValueError, KeyError) as e:
            out["outcome"] = "raise"
            out["msg"] = "%s: %s" % (type(e).__name__, str(e)[:100])
            return out
        out["outcome"] = "ok"
        out["d"], out["kt"], out["f0"], out["f"] = [], [], [], []
        it = iter(specs)
        for panel in rec.panels.values():
            pd, pk, pf0, pf = [], [], [], []
            for tube in panel.tubes.values():
                spec = next(it)
                ds = [0.0] + [top_displacement(tube, i) for i in range(1, len(times))]
                # replay this tube on its own with those displacements and measure its law at every step
                twin = make_tube(spec, times)
                tsolver.setup_tube(twin)
                state = tsolver.init_state(twin, mat, i=0)
                kts, f0s, fs = [0.0], [0.0], [0.0]
                for i in range(1, len(times)):
                    F0 = tsolver.solve(twin, i, state, 0.0).force
                    F1 = tsolver.solve(twin, i, state, 1.0).force
                    state = tsolver.solve(twin, i, state, ds[i])
                    kts.append(F1 - F0)
                    f0s.append(F0)
                    fs.append(state.force)
                pd.append([float(x).hex() for x in ds])
                pk.append([float(x).hex() for x in kts])
                pf0.append([float(x).hex() for x in f0s])
                pf.append([float(x).hex() for x in fs])
            out["d"].append(pd); out["kt"].append(pk); out["f0"].append(pf0); out["f"].append(pf)
    except Exception as e:
        import traceback
        out["outcome"] = "error"
        out["msg"] = "%s: %s | %s" % (type(e).__name__, str(e)[:200], traceback.format_exc()[-400:])
    return out


def main():
    req = json.load(sys.stdin)
    print("@@RESULT@@" + json.dumps({"results": [run(c) for c in req["cases"]]}))


if __name__ == "__main__":
    main()
