"""
Implementation driver for the solid heat-transfer group (C02, C06, C12, C13):
runs the real FiniteDifferenceImplicitThermalSolver on JSON-described tubes and
records, for every backward-Euler (sub)step, the ghosted fields before and
after the step and the coefficient tables the step used.
"""
import json
import sys

import numpy as np

from srlife import materials, receiver, thermal


def fl(x):
    return float.fromhex(x) if isinstance(x, str) else float(x)


def conv(o):
    if isinstance(o, list):
        return [conv(x) for x in o]
    return fl(o)


def hexarr(a):
    return [float(x).hex() for x in np.asarray(a, dtype=float).ravel()]


def make_bc(spec, radius, h):
    if spec is None:
        return None
    k = spec["kind"]
    times = np.array(conv(spec["times"]))
    if k == "flux":
        return receiver.HeatFluxBC(radius, h, spec["nt"], spec["nz"], times, np.array(conv(spec["data"])))
    if k == "fixed":
        return receiver.FixedTempBC(radius, h, spec["nt"], spec["nz"], times, np.array(conv(spec["data"])))
    if k == "conv":
        return receiver.ConvectiveBC(radius, h, spec["nz"], times, np.array(conv(spec["data"])))
    if k == "film":
        return receiver.FilmCoefficientConvectiveBC(radius, h, spec["nz"], np.array(conv(spec["fluid_T"])),
                                                    np.array(conv(spec["film"])))
    raise ValueError(k)


def make_material(spec):
    if spec["kind"] == "const":
        return materials.ConstantThermalMaterial("mat", fl(spec["k"]), fl(spec["a"]))
    return materials.PiecewiseLinearThermalMaterial("mat", conv(spec["T"]), conv(spec["k"]), conv(spec["a"]))


def make_fluid(spec):
    # the table also holds a "default" entry and another material with different values: the tube material's own
    # entry is the one that applies
    if spec["kind"] == "const":
        return materials.ConstantFluidMaterial({"default": 7.0 * fl(spec["h"]) + 1.0, "mat": fl(spec["h"]), "other": 0.5 * fl(spec["h"])})
    T, hv = np.array(conv(spec["T"])), np.array(conv(spec["h"]))
    return materials.PiecewiseLinearFluidMaterial({"default": (T, 3.0 * hv + 1.0), "mat": (T, hv), "other": (T, 0.25 * hv)})


def run_config(cfg):
    out = {"id": cfg["id"], "steps": []}
    r, t, h = fl(cfg["r"]), fl(cfg["t"]), fl(cfg["h"])
    tube = receiver.Tube(r, t, h, cfg["nr"], cfg["nt"], cfg["nz"], T0=fl(cfg.get("T0", 300.0)))
    tube.set_times(np.array(conv(cfg["times"])))
    if cfg["dim"] == 2:
        tube.make_2D(fl(cfg["plane"]))
    elif cfg["dim"] == 1:
        tube.make_1D(fl(cfg["plane"]), fl(cfg["angle"]))
    ibc = make_bc(cfg.get("inner"), r - t, h)
    obc = make_bc(cfg.get("outer"), r, h)
    if ibc is not None:
        tube.set_bc(ibc, "inner")
    if obc is not None:
        tube.set_bc(obc, "outer")
    mat = make_material(cfg["material"])
    fluid = make_fluid(cfg["fluid"])

    record = cfg.get("record", True)
    orig = thermal.FiniteDifferenceImplicitThermalProblem.solve_step

    def recording(self, T_n, time, dt):
        Tn_copy = np.copy(T_n)
        T = orig(self, T_n, time, dt)
        if record:
            out["steps"].append({
                "time": float(time).hex(), "dt": float(dt).hex(),
                "Tn": hexarr(Tn_copy), "T": hexarr(T),
                "c": hexarr(self.c), "k": hexarr(self.k),
                "dim": list(self.fdim), "dr": float(self.dr).hex(),
            })
        return T

    thermal.FiniteDifferenceImplicitThermalProblem.solve_step = recording
    try:
        opts = dict(substep=cfg.get("substep", 1), steady=cfg.get("steady", False),
                    rtol=cfg.get("rtol", 1.0e-6), atol=cfg.get("atol", 1.0e-2), miter=cfg.get("miter", 100))
        if cfg.get("via") == "pset":
            # the same options through a parameter set, as the managers pass them
            from srlife import solverparams
            ps = solverparams.ParameterSet()
            for k, v in opts.items():
                ps[k] = v
            solver = thermal.FiniteDifferenceImplicitThermalSolver(ps)
        else:
            solver = thermal.FiniteDifferenceImplicitThermalSolver(**opts)
        T0 = None
        if "T0_field" in cfg:
            arr = np.array(conv(cfg["T0_field"]))
            T0 = lambda *mesh: arr  # noqa: E731
        temps = solver.solve(tube, mat, fluid, T0=T0)
        out["status"] = "ok"
        out["temperatures"] = hexarr(temps)
        out["shape"] = list(np.asarray(temps).shape)
    except Exception as e:
        out["status"] = "error"
        out["error"] = "%s: %s" % (type(e).__name__, str(e)[:200])
    finally:
        thermal.FiniteDifferenceImplicitThermalProblem.solve_step = orig
    return out


def main():
    req = json.load(sys.stdin)
    res = []
    for cfg in req["configs"]:
        try:
            res.append(run_config(cfg))
        except Exception as e:
            res.append({"id": cfg["id"], "status": "error", "error": "setup %s: %s" % (type(e).__name__, str(e)[:200]), "steps": []})
    print("@@RESULT@@" + json.dumps({"results": res}))


if __name__ == "__main__":
    main()
