"""
Implementation driver for C17: runs the real iteration loops of srlife with
scripted residual norms (the k-th call of la.norm inside the module returns
the k-th scripted value) and reports return / raise and the number of norm
calls consumed.
"""
import json
import sys
import types

import numpy as np
import scipy.sparse as sp

import harness.shim.skfem_shim  # noqa: F401
from srlife import materials, receiver, solverparams, solvers, spring, structural, system, thermal
from srlife.thermohydraulics import flowpath


def val(s):
    if s == "nan":
        return float("nan")
    if s == "inf":
        return float("inf")
    return float.fromhex(s)


class ScriptExhausted(Exception):
    pass


class LaProxy:
    """stands in for the module-level name `la` of one srlife module"""

    def __init__(self, script, real):
        self.script = [val(s) for s in script]
        self.calls = 0
        self.real = real

    def norm(self, *a, **k):
        if self.calls >= len(self.script):
            raise ScriptExhausted()
        v = self.script[self.calls]
        self.calls += 1
        return np.float64(v)

    def __getattr__(self, name):
        return getattr(self.real, name)


def pset_of(d):
    p = solverparams.ParameterSet()
    for k, v in d.items():
        p[k] = v
    return p


def run_newton(case):
    proxy = LaProxy(case["script"], solvers.la)
    old = solvers.la
    solvers.la = proxy
    try:
        kw = {}
        for k in ("rel_tol", "abs_tol", "miters", "linesearch", "max_search"):
            if k in case:
                kw[k] = case[k] if k in ("miters", "linesearch", "max_search") else val(case[k])
        x = solvers.newton(lambda x: (np.array([1.0]), np.array([[1.0]])), np.zeros(1),
                           linear_solver=lambda J, R: R, verbose=False, **kw)
        return {"outcome": "return", "calls": proxy.calls, "x": float(np.ravel(x)[0]).hex()}
    except RuntimeError as e:
        return {"outcome": "raise", "calls": proxy.calls, "msg": str(e)[:60]}
    finally:
        solvers.la = old


def small_tube():
    tube = receiver.Tube(10.0, 1.0, 10.0, 3, 4, 3, T0=300.0)
    tube.set_times(np.array([0.0, 1.0]))
    tube.make_1D(5.0, 0.0)
    return tube


def run_thermal(case):
    proxy = LaProxy(case["script"], thermal.la)
    old = thermal.la
    thermal.la = proxy
    try:
        mat = materials.ConstantThermalMaterial("m", 10.0, 5.0)
        fluid = materials.ConstantFluidMaterial({"m": 1.0})
        via = case.get("via", "kwargs")
        params = {k: (case[k] if k == "miter" else val(case[k])) for k in ("rtol", "atol", "miter") if k in case}
        if via == "kwargs":
            solver = thermal.FiniteDifferenceImplicitThermalSolver(**params)
            solver.solve(small_tube(), mat, fluid)
        elif via == "pset":
            solver = thermal.FiniteDifferenceImplicitThermalSolver(pset_of(params))
            solver.solve(small_tube(), mat, fluid)
        else:   # arguments of solve()
            solver = thermal.FiniteDifferenceImplicitThermalSolver()
            solver.solve(small_tube(), mat, fluid, **params)
        return {"outcome": "return", "calls": proxy.calls}
    except RuntimeError as e:
        return {"outcome": "raise", "calls": proxy.calls, "msg": str(e)[:60]}
    finally:
        thermal.la = old


def run_flowpath(case):
    proxy = LaProxy(case["script"], flowpath.la)
    old = flowpath.la
    flowpath.la = proxy
    try:
        params = {k: (case[k] if k == "miter" else val(case[k])) for k in ("rtol", "atol", "miter") if k in case}
        times = np.array([0.0, 1.0])
        if case.get("via") == "pset":
            fp = flowpath.FlowPath(times, np.ones(2), np.ones(2) * 300.0, **flowpath.deparameterize_flow_path(pset_of(params)))
        else:
            fp = flowpath.FlowPath(times, np.ones(2), np.ones(2) * 300.0, **params)

        def setup():
            fp.nvals = 1
            fp.dof_map = [[0]]
        fp._setup = setup
        fp.RJ = lambda T: (np.array([1.0]), sp.identity(1, format="csc"))
        fp.solve(0.5)
        return {"outcome": "return", "calls": proxy.calls}
    except RuntimeError as e:
        return {"outcome": "raise", "calls": proxy.calls, "msg": str(e)[:60]}
    finally:
        flowpath.la = old


def run_fem(case):
    proxy = LaProxy(case["script"], structural.la)
    old = structural.la
    structural.la = proxy
    try:
        tsolver = structural.PythonTubeSolver(pset_of({k: (case[k] if k in ("miter", "max_linesearch") else val(case[k]))
                                                       for k in ("rtol", "atol", "miter", "max_linesearch") if k in case}))
        s = object.__new__(structural.PythonSolver)
        s.options = dict(tsolver.solver_options)
        s.state_n = types.SimpleNamespace(time=0.0, displacements=np.zeros(1), ndim=1)
        s.state_np1 = types.SimpleNamespace(time=0.0, displacements=np.zeros(1), ndim=1)
        s.kdofs = np.array([0])
        s.assemble_dirichlet = lambda: None
        s.update_state = lambda: None
        s.residual = lambda p: np.array([1.0])
        s.jacobian = lambda: sp.identity(1, format="csc")
        s.linear_solve = lambda J, R: np.array([1.0])
        s.calculate_axial_from_stress = lambda R, J: None
        s.calculate_axial_from_fea = lambda R, J: None
        s.solve(0.0, 1.0, 0.0)
        return {"outcome": "return", "calls": proxy.calls}
    except RuntimeError as e:
        return {"outcome": "raise", "calls": proxy.calls, "msg": str(e)[:60]}
    finally:
        structural.la = old


def run_picard(case):
    s = object.__new__(thermal.ThermohydraulicsThermalSolver)
    ps = pset_of({k: (case[k] if k == "miter" else val(case[k])) for k in ("rtol", "atol", "miter") if k in case})
    thermal.ThermohydraulicsThermalSolver.__init__(s, ps)
    tube = types.SimpleNamespace(
        quadrature_results={"ghost_temperature": np.array([[val(case["T0"])], [0.0]])},
        axial_results={"fluid_temperature": np.array([[val(case["F0"])], [0.0]]),
                       "fluid_velocity": np.array([[1.0], [0.0]])})
    panel = types.SimpleNamespace(tubes={"0": tube})
    s.receiver = types.SimpleNamespace(tubes=[tube], panels={"0": panel})
    dT = [val(x) for x in case["dT"]]
    dF = [val(x) for x in case["dF"]]
    it = {"m": 0, "f": 0}

    def solve_metal(i, time, dt):
        tube.quadrature_results["ghost_temperature"][i] = tube.quadrature_results["ghost_temperature"][i] + dT[it["m"]]
        it["m"] += 1

    def solve_fluid(i, time, dt):
        tube.axial_results["fluid_temperature"][i] = tube.axial_results["fluid_temperature"][i] + dF[it["f"]]
        it["f"] += 1
    s.solve_metal = solve_metal
    s.solve_fluid = solve_fluid
    try:
        s.solve_step(1, 1.0, 1.0)
        return {"outcome": "return", "calls": it["m"], "eps": float(s.eps).hex()}
    except RuntimeError as e:
        return {"outcome": "raise", "calls": it["m"], "msg": str(e)[:60], "eps": float(s.eps).hex()}


def run_spring(case):
    proxy = LaProxy(case["script"], solvers.la)
    old = solvers.la
    solvers.la = proxy
    try:
        params = {k: (case[k] if k == "miter" else val(case[k])) for k in ("rtol", "atol", "miter") if k in case}
        ssolver = system.SpringSystemSolver(pset_of(params))
        net = spring.SpringNetwork(atol=ssolver.atol, rtol=ssolver.rtol, miter=ssolver.miter, verbose=False)
        net.add_node(0)
        net.add_node(1)
        net.add_edge(0, 1, object=spring.LinearSpring(10.0))
        net.displacement_bc(1, lambda t: 0.0)
        net.force_bc(0, lambda t: 1.0)
        net.set_times([0.0, 1.0])
        if case.get("via") == "reduced":
            # the way the system solver runs it: reduce the graph first (here a rigid link is merged away) and
            # solve the sub-network that reduce_graph hands back
            net.add_node(2)
            net.add_edge(0, 2, object="rigid")
            subs = net.reduce_graph()
            subs[0].solve(1)
        else:
            net.solve(1)
        return {"outcome": "return", "calls": proxy.calls}
    except RuntimeError as e:
        return {"outcome": "raise", "calls": proxy.calls, "msg": str(e)[:60]}
    finally:
        solvers.la = old


RUN = {"newton": run_newton, "thermal": run_thermal, "flowpath": run_flowpath, "fem": run_fem,
       "picard": run_picard, "spring": run_spring}


def main():
    req = json.load(sys.stdin)
    out = []
    for c in req["cases"]:
        try:
            r = RUN[c["loop"]](c)
        except ScriptExhausted:
            r = {"outcome": "script-exhausted"}
        except Exception as e:
            r = {"outcome": "error", "msg": "%s: %s" % (type(e).__name__, str(e)[:160])}
        r["id"] = c["id"]
        out.append(r)
    print("@@RESULT@@" + json.dumps({"results": out}))


if __name__ == "__main__":
    main()
