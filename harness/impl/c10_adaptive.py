"""
Implementation driver for C10: drives the real PythonTubeSolver.solve with a
scripted per-increment solver and records the trace of attempts.
"""
import json
import sys

import numpy as np

import harness.shim.skfem_shim  # noqa: F401
from srlife import structural


class FakeInterp:
    def __init__(self, v):
        self.value = v


class FakeBasis:
    def interpolate(self, f):
        return FakeInterp(np.array(f, dtype=float))


class FakeState:
    """Duck-typed state: what solve/_setup_state touch is copy(), temperature, sbasis."""

    def __init__(self):
        self.tag = 0
        self.converged = True
        self.temperature = np.zeros((3,))
        self.sbasis = FakeBasis()

    def copy(self):
        c = FakeState()
        c.tag = self.tag
        c.converged = self.converged
        c.temperature = np.copy(self.temperature)
        return c


class FakePressure:
    def pressure(self, t):
        return 3.0 * t + 1.0


class FakeTube:
    def __init__(self, ndim, with_T, with_p):
        self.ndim = ndim
        self.times = np.array([0.0, 1.0])
        self.results = {}
        if with_T:
            self.results["temperature"] = np.array([[100.0, 200.0, 300.0], [164.0, 328.0, 556.0]])
        self.pressure_bc = FakePressure() if with_p else None


class Runaway(BaseException):
    """the loop made far more attempts than any admissible schedule has (not a RuntimeError, so the loop cannot swallow it)"""


def run_case(n, forced, ndim, failing, with_T=True, with_p=True, dtop=0.5):
    failing = set(failing)
    trace = []
    counter = [0]
    cap = 8 * 2 ** n + 64

    def stub(which):
        def f(state_n, t_n, p_n, state_np1, t_np1, p_np1, d, opts):
            k = counter[0]
            if k >= cap:
                raise Runaway()
            counter[0] += 1
            state_np1.tag = k + 1
            rec = {
                "idx": k,
                "from_state": int(state_n.tag),
                "from_converged": bool(state_n.converged),
                "t_n": float(t_n), "t_np1": float(t_np1),
                "p_n": float(p_n), "p_np1": float(p_np1),
                "disp": float(d),
                "T": [float(x) for x in np.asarray(state_np1.temperature).ravel()],
                "which": which,
                "ok": k not in failing,
            }
            trace.append(rec)
            if k in failing:
                state_np1.converged = False
                raise RuntimeError("scripted non-convergence")
            state_np1.converged = True
        return f

    structural.solve_python_1d = stub(1)
    structural.solve_python_2d = stub(2)
    structural.solve_python_3d = stub(3)
    solver = structural.PythonTubeSolver(max_divide=n, force_divide=forced, verbose=False)
    tube = FakeTube(ndim, with_T, with_p)
    s0 = FakeState()
    try:
        res = solver.solve(tube, 1, s0, dtop)
        out = {"outcome": "return", "final": int(res.tag), "final_converged": bool(res.converged)}
    except RuntimeError as e:
        out = {"outcome": "raise", "msg": str(e)[:80]}
    except Runaway:
        out = {"outcome": "runaway", "msg": "more than %d attempts" % cap}
        trace = trace[:64]
    except Exception as e:  # anything else is reported, not hidden
        out = {"outcome": "error", "msg": repr(e)[:200]}
    out["trace"] = trace
    out["n"] = n
    out["forced"] = forced
    out["ndim"] = ndim
    out["failing"] = sorted(failing)
    out["with_T"] = with_T
    out["with_p"] = with_p
    out["dtop"] = dtop
    return out


def enumerate_tree(n, forced, ndim, limit):
    """All distinct failure patterns the loop can observe (DFS over the
    decision tree: a pattern is extended only at attempts that are reached)."""
    results = []
    stack = [[]]
    attempts = 0
    # the admissible decision tree of max_divide = n has fewer than 4^(n+1) attempts in all; a loop that does
    # not stop where it should makes the tree explode, so the walk is cut there (and reported incomplete)
    budget = 40 * 4 ** (n + 1) + 10000
    while stack and len(results) < limit:
        failing = stack.pop()
        r = run_case(n, forced, ndim, failing)
        results.append(r)
        attempts += len(r["trace"])
        if r["outcome"] == "runaway" or attempts > budget:
            return results, False
        m = len(r["trace"])
        lo = (max(failing) + 1) if failing else 0
        for j in range(lo, m):
            stack.append(failing + [j])
    return results, (not stack)


def main():
    req = json.load(sys.stdin)
    out = {"cases": [], "complete": []}
    for job in req["jobs"]:
        if job["kind"] == "tree":
            res, complete = enumerate_tree(job["n"], job["forced"], job["ndim"], job.get("limit", 100000))
            out["cases"].extend(res)
            out["complete"].append(complete)
        else:
            out["cases"].append(run_case(job["n"], job["forced"], job["ndim"], job["failing"],
                                         job.get("with_T", True), job.get("with_p", True), job.get("dtop", 0.5)))
    print("@@RESULT@@" + json.dumps(out))


if __name__ == "__main__":
    main()
