"""
Implementation driver for C10: drives the real PythonTubeSolver.solve with a
scripted per-increment solver and records the trace of attempts.
"""
import json
import sys

import numpy as np

import harness.shim.skfem_shim  # noqa: F401
from srlife import structural


REAL = {d: getattr(structural, "solve_python_%dd" % d) for d in (1, 2, 3)}     # before any stub replaces them


class FakeInterp:
    def __init__(self, v):
        self.value = v


class FakeBasis:
    def interpolate(self, f):
        return FakeInterp(np.array(f, dtype=float))


class FakeState:
    """Duck-typed state: what solve/_setup_state touch is copy(), temperature, sbasis."""

    def __init__(self):
        self.tag = 0
        self.converged = True
        self.temperature = np.zeros((3,))
        self.sbasis = FakeBasis()

    def copy(self):
        c = FakeState()
        c.tag = self.tag
        c.converged = self.converged
        c.temperature = np.copy(self.temperature)
        return c


class FakePressure:
    def pressure(self, t):
        return 3.0 * t + 1.0


class FakeTube:
    def __init__(self, ndim, with_T, with_p):
        self.ndim = ndim
        self.times = np.array([0.0, 1.0])
        self.results = {}
        if with_T:
            self.results["temperature"] = np.array([[100.0, 200.0, 300.0], [164.0, 328.0, 556.0]])
        self.pressure_bc = FakePressure() if with_p else None


class Runaway(BaseException):
    """the loop made far more attempts than any admissible schedule has (not a RuntimeError, so the loop cannot swallow it)"""


def run_case(n, forced, ndim, failing, with_T=True, with_p=True, dtop=0.5):
    failing = set(failing)
    trace = []
    counter = [0]
    cap = 8 * 2 ** n + 64

    def stub(which):
        def f(state_n, t_n, p_n, state_np1, t_np1, p_np1, d, opts):
            k = counter[0]
            if k >= cap:
                raise Runaway()
            counter[0] += 1
            state_np1.tag = k + 1
            rec = {
                "idx": k,
                "from_state": int(state_n.tag),
                "from_converged": bool(state_n.converged),
                "t_n": float(t_n), "t_np1": float(t_np1),
                "p_n": float(p_n), "p_np1": float(p_np1),
                "disp": float(d),
                "T": [float(x) for x in np.asarray(state_np1.temperature).ravel()],
                "which": which,
                "ok": k not in failing,
            }
            trace.append(rec)
            if k in failing:
                state_np1.converged = False
                raise RuntimeError("scripted non-convergence")
            state_np1.converged = True
        return f

    structural.solve_python_1d = stub(1)
    structural.solve_python_2d = stub(2)
    structural.solve_python_3d = stub(3)
    solver = structural.PythonTubeSolver(max_divide=n, force_divide=forced, verbose=False)
    tube = FakeTube(ndim, with_T, with_p)
    s0 = FakeState()
    try:
        res = solver.solve(tube, 1, s0, dtop)
        out = {"outcome": "return", "final": int(res.tag), "final_converged": bool(res.converged)}
    except RuntimeError as e:
        out = {"outcome": "raise", "msg": str(e)[:80]}
    except Runaway:
        out = {"outcome": "runaway", "msg": "more than %d attempts" % cap}
        trace = trace[:64]
    except Exception as e:  # anything else is reported, not hidden
        out = {"outcome": "error", "msg": repr(e)[:200]}
    out["trace"] = trace
    out["n"] = n
    out["forced"] = forced
    out["ndim"] = ndim
    out["failing"] = sorted(failing)
    out["with_T"] = with_T
    out["with_p"] = with_p
    out["dtop"] = dtop
    return out


ARRAYS = ("stress", "strain", "mechanical_strain", "thermal_strain", "history", "temperature", "energy", "dissipation")


def content(state):
    """the numerical content of a state (what a later sub-increment can read)"""
    c = {k: np.copy(getattr(state, k)) for k in ARRAYS}
    c["displacements"] = np.copy(state.displacements)
    return c


def same_content(a, b, edofs):
    """equality of two state contents; displacements at the prescribed (Dirichlet) dofs are not compared, every attempt
    overwrites them with its own boundary values before reading them"""
    for k in ARRAYS:
        if not np.array_equal(a[k], b[k]):
            return False
    mask = np.ones(a["displacements"].shape, dtype=bool)
    mask[np.asarray(edofs, dtype=int)] = False
    return np.array_equal(a["displacements"][mask], b["displacements"][mask])


def run_real(n, forced, ndim, failing, with_T=True, dtop=0.01):
    """The real per-increment solver on a small real tube.  A scripted failure is a genuine non-converged Newton solve
    (unreachable tolerances, two iterations).  The state an attempt starts from is identified by its *content*: tag of the
    last accepted state when the content is the accepted one, tag of a failed attempt when it is what that attempt left
    behind, 9999 when it is neither."""
    from neml import elasticity, interpolate, models
    from srlife import receiver
    failing = set(failing)
    tube = receiver.Tube(5.0, 0.5, 2.5, 4, 6, 3, T0=0.0)
    times = np.array([0.0, 1.0])
    tube.set_times(times)
    if ndim == 1:
        tube.make_1D(tube.h / 2, 0.0)
    elif ndim == 2:
        tube.make_2D(tube.h / 2)
    if with_T:
        shp = tube.dim[: tube.ndim]
        rs = np.linspace(0.0, 1.0, tube.nr).reshape((tube.nr,) + (1,) * (tube.ndim - 1))
        tube.add_results("temperature", np.array([np.zeros(shp), 40.0 * rs + 10.0 + np.zeros(shp)]))
    tube.set_pressure_bc(receiver.PressureBC(times, np.array([1.0, 4.0])))
    mat = models.SmallStrainElasticity(elasticity.IsotropicLinearElasticModel(150000.0, "youngs", 0.3, "poissons"),
                                       alpha=interpolate.ConstantInterpolate(1.0e-5))
    solver = structural.PythonTubeSolver(max_divide=n, force_divide=forced, verbose=False)
    solver.setup_tube(tube)
    s0 = solver.init_state(tube, mat)
    name = "solve_python_%dd" % ndim
    real = REAL[ndim]
    real_ad = structural.PythonSolver.assemble_dirichlet
    edofs = [np.zeros((0,), dtype=int)]

    def assemble(self):
        real_ad(self)
        edofs[0] = np.copy(self.edofs)

    trace, ends, objs = [], {}, {}
    acc = {"tag": 0, "content": None, "obj": None}
    cap = 8 * 2 ** n + 64

    def wrapped(state_n, t_n, p_n, state_np1, t_np1, p_np1, d, opts):
        k = len(trace)
        if k >= cap:
            raise Runaway()
        start = content(state_n)
        if acc["content"] is None:          # the first attempt starts from the step-start state
            acc["content"], acc["obj"] = start, state_n
        rec = {"idx": k, "t_n": float(t_n), "t_np1": float(t_np1), "p_n": float(p_n), "p_np1": float(p_np1), "disp": float(d),
               "T": [], "which": ndim, "ok": k not in failing}
        trace.append(rec)
        pending.append((rec, start, state_n))
        try:
            if k in failing:
                real(state_n, t_n, p_n, state_np1, t_np1, p_np1, d, dict(opts, rtol=0.0, atol=0.0, miter=2))
                raise AssertionError("unreachable tolerances were met")
            real(state_n, t_n, p_n, state_np1, t_np1, p_np1, d, opts)
        finally:
            ends[k] = content(state_np1)
            objs[k] = state_np1
        if k not in failing:
            acc["tag"], acc["content"], acc["obj"] = k + 1, ends[k], state_np1

    pending = []

    def classify():
        """tags of the starting states, once the prescribed dofs are known"""
        accepted_tag, accepted = 0, None
        for rec, start, obj in pending:
            if accepted is None:
                accepted = start
            if same_content(start, accepted, edofs[0]):
                rec["from_state"], rec["from_converged"] = accepted_tag, True
            else:
                rec["from_converged"] = False
                rec["from_state"] = 9999
                for f in range(rec["idx"]):
                    if not trace[f]["ok"] and same_content(start, ends[f], edofs[0]):
                        rec["from_state"] = f + 1
            if rec["ok"]:
                accepted_tag, accepted = rec["idx"] + 1, ends[rec["idx"]]
        return accepted_tag, accepted

    setattr(structural, name, wrapped)
    structural.PythonSolver.assemble_dirichlet = assemble
    try:
        try:
            res = solver.solve(tube, 1, s0, dtop)
            out = {"outcome": "return"}
        except RuntimeError as e:
            res = None
            out = {"outcome": "raise", "msg": str(e)[:80]}
        except Runaway:
            res = None
            out = {"outcome": "runaway", "msg": "more than %d attempts" % cap}
        except Exception as e:
            res = None
            out = {"outcome": "error", "msg": repr(e)[:200]}
    finally:
        setattr(structural, name, real)
        structural.PythonSolver.assemble_dirichlet = real_ad
    tag, accepted = classify()
    if res is not None:
        out["final"] = next((k + 1 for k, o in objs.items() if o is res), 9999)
        k = out["final"] - 1
        out["final_converged"] = bool(k in ends and trace[k]["ok"] and same_content(content(res), ends[k], edofs[0]))
    if out["outcome"] == "runaway":
        trace = trace[:64]
    out.update({"trace": trace, "n": n, "forced": forced, "ndim": ndim, "failing": sorted(failing), "with_T": False, "with_p": True,
                "dtop": dtop, "real": True, "real_T": with_T})
    return out


def enumerate_tree(n, forced, ndim, limit, runner=None):
    """All distinct failure patterns the loop can observe (DFS over the
    decision tree: a pattern is extended only at attempts that are reached)."""
    results = []
    stack = [[]]
    attempts = 0
    # the admissible decision tree of max_divide = n has fewer than 4^(n+1) attempts in all; a loop that does
    # not stop where it should makes the tree explode, so the walk is cut there (and reported incomplete)
    budget = 40 * 4 ** (n + 1) + 10000
    while stack and len(results) < limit:
        failing = stack.pop()
        r = (runner or run_case)(n, forced, ndim, failing)
        results.append(r)
        attempts += len(r["trace"])
        if r["outcome"] == "runaway" or attempts > budget:
            return results, False
        m = len(r["trace"])
        lo = (max(failing) + 1) if failing else 0
        for j in range(lo, m):
            stack.append(failing + [j])
    return results, (not stack)


def main():
    req = json.load(sys.stdin)
    out = {"cases": [], "complete": []}
    for job in req["jobs"]:
        if job["kind"] == "realtree":
            res, complete = enumerate_tree(job["n"], job["forced"], job["ndim"], job.get("limit", 100000),
                                           runner=lambda n, f, d, fl: run_real(n, f, d, fl, job.get("with_T", True)))
            out["cases"].extend(res)
            out["complete"].append(complete)
        elif job["kind"] == "real":
            out["cases"].append(run_real(job["n"], job["forced"], job["ndim"], job["failing"], job.get("with_T", True), job.get("dtop", 0.01)))
        elif job["kind"] == "tree":
            res, complete = enumerate_tree(job["n"], job["forced"], job["ndim"], job.get("limit", 100000))
            out["cases"].extend(res)
            out["complete"].append(complete)
        else:
            out["cases"].append(run_case(job["n"], job["forced"], job["ndim"], job["failing"],
                                         job.get("with_T", True), job.get("with_p", True), job.get("dtop", 0.5)))
    print("@@RESULT@@" + json.dumps(out))


if __name__ == "__main__":
    main()
