"""
Implementation driver for C16: builds receivers from JSON, saves them to HDF5
with the real Receiver.save, reloads with Receiver.load and returns canonical
typed descriptions of both, plus downstream computations on both.
"""
import hashlib
import json
import os
import sys
import tempfile

import numpy as np

from srlife import damage, materials, receiver, solverparams, spring, system


def fl(x):
    return float.fromhex(x) if isinstance(x, str) else float(x)


def arr(spec):
    a = np.array([fl(v) for v in spec["v"]], dtype=float).reshape(spec["shape"])
    return a


def opt(o):
    if isinstance(o, list):
        return int(o[1]) if o[0] == "int" else fl(o[1])
    return o


def scalar(v):
    t = type(v).__name__
    if isinstance(v, (bool, np.bool_)):
        return [t, bool(v)]
    if isinstance(v, (int, np.integer)):
        return [t, int(v)]
    if isinstance(v, (float, np.floating)):
        return [t, float(v).hex()]
    if isinstance(v, (str, bytes)):
        return [t, v if isinstance(v, str) else v.decode()]
    return [t, repr(v)]


def darr(a):
    a = np.asarray(a)
    return ["array", str(a.dtype), list(a.shape), hashlib.sha1(np.ascontiguousarray(a, dtype=float).tobytes()).hexdigest()[:16]]


def describe_bc(bc):
    if bc is None:
        return None
    d = {"class": type(bc).__name__}
    for k in ("r", "h", "nt", "nz"):
        if hasattr(bc, k):
            d[k] = scalar(getattr(bc, k))
    for k in ("times", "data", "fluid_T", "film"):
        if hasattr(bc, k):
            d[k] = darr(getattr(bc, k))
    # evaluations
    try:
        if isinstance(bc, receiver.PressureBC):
            d["eval"] = [float(bc.pressure(t)).hex() for t in (bc.times[0], (bc.times[0] + bc.times[-1]) / 2)]
        elif isinstance(bc, receiver.HeatFluxBC):
            d["eval"] = [float(bc.flux(bc.times[0], 0.3, 0.25 * bc.h)).hex()]
        elif isinstance(bc, receiver.FixedTempBC):
            d["eval"] = [float(bc.temperature(bc.times[0], 0.3, 0.25 * bc.h)).hex()]
        elif isinstance(bc, receiver.ConvectiveBC):
            d["eval"] = [float(bc.fluid_temperature(bc.times[0], 0.25 * bc.h)).hex()]
        else:
            d["eval"] = [float(bc.fluid_temperature(0.0, 0.25 * bc.h)).hex(), float(bc.film_coefficient(0.0, 0.25 * bc.h)).hex()]
    except Exception as e:
        d["eval"] = "error %s" % type(e).__name__
    return d


def describe(rec):
    d = {"period": scalar(rec.period), "days": scalar(rec.days), "stiffness": scalar(rec.stiffness),
         "panel_order": list(rec.panels.keys()), "panels": {}, "flowpath_order": list(rec.flowpaths.keys()), "flowpaths": {}}
    for pn, panel in rec.panels.items():
        pd = {"stiffness": scalar(panel.stiffness), "tube_order": list(panel.tubes.keys()), "tubes": {}}
        for tn, tube in panel.tubes.items():
            td = {k: scalar(getattr(tube, k)) for k in ("r", "t", "h", "nr", "nt", "nz", "T0", "abstraction")}
            td["multiplier"] = scalar(tube.multiplier)
            if tube.abstraction in ("1D", "2D"):
                td["plane"] = scalar(tube.plane)
            if tube.abstraction == "1D":
                td["angle"] = scalar(tube.angle)
            td["times"] = darr(tube.times)
            for grp in ("results", "quadrature_results", "axial_results"):
                td[grp] = {k: darr(v) for k, v in getattr(tube, grp).items()}
                td[grp + "_order"] = sorted(getattr(tube, grp).keys())
            td["outer_bc"] = describe_bc(tube.outer_bc)
            td["inner_bc"] = describe_bc(tube.inner_bc)
            td["pressure_bc"] = describe_bc(tube.pressure_bc)
            pd["tubes"][tn] = td
        d["panels"][pn] = pd
    for fn, fp in rec.flowpaths.items():
        d["flowpaths"][fn] = {"panels": [str(x) for x in fp["panels"]], "times": darr(fp["times"]),
                              "mass_flow": darr(fp["mass_flow"]), "inlet_temp": darr(fp["inlet_temp"])}
    return d


class StubDamage:
    def __init__(self):
        self.env = materials.StructuralMaterial({"cfinteraction": "0.1 0.1"})

    def time_to_rupture(self, pname, temp, stress):
        return 1.0e5 / (1.0 + 0.01 * stress ** 2.0 + 0.001 * temp)

    def cycles_to_fail(self, pname, temp, erange):
        return 1.0e4 / (1.0 + 2.0 * erange ** 2.0 + 0.001 * temp)

    def inside_envelope(self, pname, df, dc):
        return self.env.inside_envelope(pname, df, dc)


def downstream(rec):
    out = {}
    try:
        s = system.convert_to_spring(rec.stiffness, None, None)
        out["receiver_spring"] = type(s).__name__ if not isinstance(s, str) else s
    except Exception as e:
        out["receiver_spring"] = "error %s" % type(e).__name__
    out["panel_springs"] = []
    for panel in rec.panels.values():
        try:
            s = system.convert_to_spring(panel.stiffness, None, None)
            out["panel_springs"].append(type(s).__name__ if not isinstance(s, str) else s)
        except Exception as e:
            out["panel_springs"].append("error %s" % type(e).__name__)
    tubes = list(rec.tubes)
    if tubes and "stress_xx" in tubes[0].quadrature_results:
        try:
            calc = damage.TimeFractionInteractionDamage(solverparams.ParameterSet())
            out["life"] = float(calc.determine_life(rec, StubDamage(), nthreads=1)).hex()
        except Exception as e:
            out["life"] = "error %s: %s" % (type(e).__name__, str(e)[:80])
    return out


def make_bc(spec, r, h):
    k = spec["kind"]
    if k == "flux":
        return receiver.HeatFluxBC(r, h, spec["nt"], spec["nz"], arr(spec["times"]), arr(spec["data"]))
    if k == "fixed":
        return receiver.FixedTempBC(r, h, spec["nt"], spec["nz"], arr(spec["times"]), arr(spec["data"]))
    if k == "conv":
        return receiver.ConvectiveBC(r, h, spec["nz"], arr(spec["times"]), arr(spec["data"]))
    return receiver.FilmCoefficientConvectiveBC(r, h, spec["nz"], arr(spec["fluid_T"]), arr(spec["film"]))


def build(case):
    rec = receiver.Receiver(opt(case["period"]), case["days"], opt(case["stiffness"]))
    for pspec in case["panels"]:
        panel = receiver.Panel(opt(pspec["stiffness"]))
        for tspec in pspec["tubes"]:
            tube = receiver.Tube(fl(tspec["r"]), fl(tspec["t"]), fl(tspec["h"]), tspec["nr"], tspec["nt"], tspec["nz"],
                                 T0=opt(tspec["T0"]), multiplier=tspec["mult"])
            tube.set_times(arr(tspec["times"]))
            if tspec["dim"] == 2:
                tube.make_2D(fl(tspec["plane"]))
            elif tspec["dim"] == 1:
                tube.make_1D(fl(tspec["plane"]), fl(tspec["angle"]))
            for name, a in tspec.get("results", {}).items():
                tube.add_results(name, arr(a))
            for name, a in tspec.get("quadrature_results", {}).items():
                tube.add_quadrature_results(name, arr(a))
            for name, a in tspec.get("axial_results", {}).items():
                tube.add_axial_results(name, arr(a))
            if tspec.get("outer_bc"):
                tube.set_bc(make_bc(tspec["outer_bc"], fl(tspec["r"]), fl(tspec["h"])), "outer")
            if tspec.get("inner_bc"):
                tube.set_bc(make_bc(tspec["inner_bc"], fl(tspec["r"]) - fl(tspec["t"]), fl(tspec["h"])), "inner")
            if tspec.get("pressure_bc"):
                tube.set_pressure_bc(receiver.PressureBC(arr(tspec["pressure_bc"]["times"]), arr(tspec["pressure_bc"]["data"])))
            panel.add_tube(tube, tspec.get("name"))
        rec.add_panel(panel, pspec.get("name"))
    for fspec in case.get("flowpaths", []):
        rec.add_flowpath(fspec["panels"], arr(fspec["times"]), arr(fspec["mass_flow"]), arr(fspec["inlet_temp"]), name=fspec.get("name"))
    return rec


def run(case):
    out = {"id": case["id"]}
    try:
        rec = build(case)
        fd, fn = tempfile.mkstemp(suffix=".h5", dir=os.getcwd())
        os.close(fd)
        os.remove(fn)
        try:
            rec.save(fn)
            rec2 = receiver.Receiver.load(fn)
            out["orig"] = describe(rec)
            out["reload"] = describe(rec2)
            out["down_orig"] = downstream(rec)
            out["down_reload"] = downstream(rec2)
            out["close"] = bool(rec.close(rec2)) if not isinstance(rec.stiffness, str) and all(
                not isinstance(p.stiffness, str) for p in rec.panels.values()) else None
        finally:
            if os.path.exists(fn):
                os.remove(fn)
    except Exception as e:
        out["error"] = "%s: %s" % (type(e).__name__, str(e)[:200])
    return out


def main():
    req = json.load(sys.stdin)
    print("@@RESULT@@" + json.dumps({"results": [run(c) for c in req["cases"]]}))


if __name__ == "__main__":
    main()
