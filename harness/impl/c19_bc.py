"""
Implementation driver for C19: builds boundary-condition objects of
srlife.receiver from JSON descriptions and evaluates queries on them.
All floats travel as hex strings so that nothing is lost in transit.
"""
import json
import sys

import numpy as np

from srlife import receiver


def fl(x):
    return float.fromhex(x) if isinstance(x, str) else float(x)


def arr(obj):
    """nested lists of hex floats -> ndarray"""
    return np.array(json.loads(json.dumps(obj), parse_constant=None) if False else _conv(obj), dtype=float)


def _conv(o):
    if isinstance(o, list):
        return [_conv(x) for x in o]
    return fl(o)


def out_value(v):
    """Describe what an evaluator returned: dynamic kind + values"""
    if isinstance(v, np.ndarray):
        if v.ndim == 0:
            return {"kind": "scalar", "pytype": "ndarray0", "values": [float(v).hex()]}
        return {"kind": "array", "pytype": "ndarray", "shape": list(v.shape),
                "dtype": str(v.dtype), "values": [float(x).hex() for x in v.ravel()]}
    if isinstance(v, (float, np.floating, int, np.integer)):
        return {"kind": "scalar", "pytype": type(v).__name__, "values": [float(v).hex()]}
    return {"kind": "other", "pytype": type(v).__name__, "values": []}


def build(spec):
    k = spec["kind"]
    if k in ("flux", "fixed"):
        cls = receiver.HeatFluxBC if k == "flux" else receiver.FixedTempBC
        return cls(fl(spec["r"]), fl(spec["h"]), spec["nt"], spec["nz"], arr(spec["times"]), arr(spec["data"]))
    if k == "conv":
        return receiver.ConvectiveBC(fl(spec["r"]), fl(spec["h"]), spec["nz"], arr(spec["times"]), arr(spec["data"]))
    if k == "film":
        return receiver.FilmCoefficientConvectiveBC(fl(spec["r"]), fl(spec["h"]), spec["nz"],
                                                    arr(spec["fluid_T"]), arr(spec["film"]))
    if k == "pressure":
        return receiver.PressureBC(arr(spec["times"]), arr(spec["data"]))
    raise ValueError(k)


def qarg(a):
    if isinstance(a, dict):  # {"arr": [...], "dtype": "float"|"int"}
        vals = [fl(x) for x in a["arr"]]
        if a.get("dtype") == "int":
            return np.array([int(v) for v in vals], dtype=int)
        return np.array(vals, dtype=float)
    if isinstance(a, list):  # ["int", n]
        return int(a[1])
    return fl(a)


def evaluate(bc, spec, q):
    args = [qarg(a) for a in q["args"]]
    if q.get("layout") == "fortran2d":
        # the same points as two-dimensional arrays that are not C-contiguous (transposed views);
        # the result is flattened back into the order of the argument lists
        args = [a.reshape(2, -1).T if isinstance(a, np.ndarray) else a for a in args]
        v = _evaluate(bc, spec, q, args)
        return np.ascontiguousarray(np.asarray(v).T).ravel() if isinstance(v, np.ndarray) and v.ndim == 2 else v
    return _evaluate(bc, spec, q, args)


def _evaluate(bc, spec, q, args):
    k = spec["kind"]
    fn = q.get("fn")
    if k == "flux":
        return bc.flux(*args)
    if k == "fixed":
        return bc.temperature(*args)
    if k == "conv":
        return bc.fluid_temperature(*args)
    if k == "film":
        return bc.film_coefficient(*args) if fn == "film" else bc.fluid_temperature(*args)
    if k == "pressure":
        return bc.pressure(*args)
    raise ValueError(k)


def main():
    req = json.load(sys.stdin)
    out = []
    for case in req["cases"]:
        res = {"id": case["id"]}
        try:
            if case["what"] == "setbc":
                tube = receiver.Tube(fl(case["r"]), fl(case["t"]), fl(case["h"]), 3, 4, 3, T0=300.0)
                bc = receiver.ConvectiveBC(fl(case["bc_r"]), fl(case["bc_h"]), 2, np.array([0.0, 1.0]), np.zeros((2, 2)))
                try:
                    tube.set_bc(bc, case["loc"])
                    attached = (tube.inner_bc if case["loc"] == "inner" else tube.outer_bc) is bc
                    res["ctor"] = "accept" if attached else "accept-not-attached"
                except ValueError as e:
                    res["ctor"] = "reject"
                out.append(res)
                continue
            try:
                bc = build(case["spec"])
                res["ctor"] = "accept"
            except ValueError as e:
                res["ctor"] = "reject"
                out.append(res)
                continue
            res["queries"] = []
            for q in case.get("queries", []):
                try:
                    res["queries"].append(out_value(evaluate(bc, case["spec"], q)))
                except Exception as e:
                    res["queries"].append({"kind": "error", "pytype": type(e).__name__, "values": [], "msg": str(e)[:100]})
        except Exception as e:
            res["ctor"] = "error:" + type(e).__name__ + ":" + str(e)[:100]
        out.append(res)
    print("@@RESULT@@" + json.dumps({"results": out}))


if __name__ == "__main__":
    main()
