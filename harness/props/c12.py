"""
C12 — the thermal solution is rotation-equivariant and consistent across
abstractions.

prove : coq/props/C12.v (proofs/ThermalEquivariance.v)
corr  : per-step certificate (shared model) on 1D and 2D abstractions whose
        boundary grids differ from the tube grid, so that the slice plane / ray
        coordinates at which boundary data are read are part of what is compared.
oracle: pairs of real solves: data rotated by whole cells, 2D vs 1D with
        axisymmetric data, 3D vs 2D with axially uniform data, superposition.
"""
import copy

import numpy as np

from harness import thermal_common as tc
from harness.core import coq_eval_cases
from harness.props.c02 import check_chain, step_iter


def set_data(spec, data_f, key="data"):
    spec[key + "_f"] = data_f
    spec[key] = tc.nested_hex(np.array(data_f))


def set_field(cfg, fld):
    cfg["T0_field"] = tc.nested_hex(fld)
    cfg["f"]["T0_field"] = fld
    cfg.pop("T0", None)
    cfg["f"].pop("T0", None)


def final_T(res):
    return tc.unhex(res["temperatures"]).reshape(res["shape"])


def gen_shift(rng, cid):
    dim = rng.choice([2, 3])
    if rng.random() < 0.4:
        # boundary grid coarser than the tube grid: rotate by whole boundary cells
        ratio = rng.choice([2, 3])
        bnt = rng.choice([2, 3])
        a = tc.gen_config(rng, cid, dim=dim, same_grid=True, rough=True, substep=rng.choice([1, 2]),
                          nt=bnt * ratio, bc_nt=bnt, inner=rng.choice(["flux", "fixed", None]),
                          outer=rng.choice(["flux", "fixed"]))
        m = rng.randint(1, bnt - 1)
        s, sb = m * ratio, m
    else:
        a = tc.gen_config(rng, cid, dim=dim, same_grid=True, rough=True, substep=rng.choice([1, 2]))
        s = sb = rng.randint(1, a["nt"] - 1)
    b = copy.deepcopy(a)
    b["id"] = cid + 1
    for side in ("inner", "outer"):
        sp = b[side]
        if sp and sp["kind"] in ("flux", "fixed"):
            set_data(sp, np.roll(np.array(sp["data_f"]), -sb, axis=1).tolist())
    set_field(b, tc.fix_ghosts(np.concatenate(
        (np.zeros_like(a["f"]["T0_field"][:, :1]),
         np.roll(a["f"]["T0_field"][:, 1:-1], -s, axis=1),
         np.zeros_like(a["f"]["T0_field"][:, :1])), axis=1), dim))
    return a, b, ("shift", s)


def axisym_bc(rng, spec):
    """make flux/fixed data independent of theta"""
    if spec and spec["kind"] in ("flux", "fixed"):
        d = np.array(spec["data_f"])
        d[:, :, :] = d[:, :1, :]
        set_data(spec, d.tolist())


def zuniform_bc(spec):
    if not spec:
        return
    if spec["kind"] in ("flux", "fixed"):
        d = np.array(spec["data_f"])
        d[:, :, :] = d[:, :, :1]
        set_data(spec, d.tolist())
    elif spec["kind"] == "conv":
        d = np.array(spec["data_f"])
        d[:, :] = d[:, :1]
        set_data(spec, d.tolist())
    elif spec["kind"] == "film":
        for key in ("fluid_T", "film"):
            d = np.array(spec[key + "_f"])
            d[:] = d[0]
            set_data(spec, d.tolist(), key)


def gen_2d1d(rng, cid):
    a = tc.gen_config(rng, cid, dim=2, rough=False)
    axisym_bc(rng, a["inner"])
    axisym_bc(rng, a["outer"])
    b = copy.deepcopy(a)
    b["id"] = cid + 1
    b["dim"] = 1
    u = rng.randrange(0, 64) / 64.0
    b["angle"] = tc.hx(tc.TWO_PI * u)
    b["f"]["angle"] = tc.TWO_PI * u
    return a, b, ("2d1d", None)


def gen_3d2d(rng, cid):
    a = tc.gen_config(rng, cid, dim=3, rough=False)
    zuniform_bc(a["inner"])
    zuniform_bc(a["outer"])
    b = copy.deepcopy(a)
    b["id"] = cid + 1
    b["dim"] = 2
    pl = rng.choice([0.0, a["f"]["h"], a["f"]["h"] * 0.375])
    b["plane"] = tc.hx(pl)
    b["f"]["plane"] = pl
    return a, b, ("3d2d", None)


def gen_super(rng, cid):
    dim = rng.choice([1, 2, 3])
    kinds = [None, "fixed", "flux", "conv"]
    a = tc.gen_config(rng, cid, dim=dim, inner=rng.choice(kinds), outer=rng.choice(kinds), varying=False,
                      rough=True, same_grid=True)
    a["fluid"] = tc.gen_fluid(rng, False)
    b = copy.deepcopy(a)
    b["id"] = cid + 1
    c = copy.deepcopy(a)
    c["id"] = cid + 2
    fb = tc.ghost_field(rng, a["nr"], a["nt"], a["nz"], dim)
    set_field(b, fb)
    set_field(c, a["f"]["T0_field"] + fb)
    for side in ("inner", "outer"):
        sp = a[side]
        if not sp:
            continue
        d = np.array(sp["data_f"])
        d2 = np.round((np.array([[rng.uniform(-1, 1)]]) if d.ndim == 2 else np.array([[[rng.uniform(-1, 1)]]])) * 8) / 8 + d * 0.5
        set_data(b[side], d2.tolist())
        set_data(c[side], (d + d2).tolist())
    return a, b, c


def close(x, y, tol):
    return np.max(np.abs(x - y)) <= tol * (1 + np.max(np.abs(y)))


def run(ctx):
    ctx.rule = ("paired real solves: (a) boundary data and initial field rotated by 1..nt-1 cells (2D/3D, constant and "
                "temperature-dependent materials), (b) 2D with axisymmetric data vs 1D at a random ray, (c) 3D with axially "
                "uniform data vs 2D at a random plane, (d) superposition of two data sets (constant material); plus the "
                "per-step certificate on reduced abstractions with BC grids different from the tube grid; (e) the coupled thermohydraulic solver on a 2D tube with axisymmetric flux vs the same tube in 1D. one case = one "
                "pair/triple or one certified step; all are non-trivial")
    ctx.trusted += ["scipy spsolve (outputs compared); harness reference for boundary data at the documented slice coordinates"]
    from harness import translators as _tr
    ctx.trusted += ["translator harness/translators/thermalstencil.py (Python ast -> Gallina; numpy slicing / edge padding / C-order flattening and "
                    "scipy.sparse.diags / coo_matrix placement read as index shifts)"]
    _tr.import_all()
    ctx.gen("ThermalStencil", _tr.REGISTRY["ThermalStencil"])
    ctx.prove("C12")
    ctx.prove("C02_stencil")
    if ctx.tier == "thorough":
        ctx.coqchk("C12")
    rng = ctx.rng
    groups = []
    cid = 0
    for _ in range(ctx.budget(12, 80)):
        groups.append(gen_shift(rng, cid)); cid += 3
    for _ in range(ctx.budget(8, 50)):
        groups.append(gen_2d1d(rng, cid)); cid += 3
    for _ in range(ctx.budget(8, 50)):
        groups.append(gen_3d2d(rng, cid)); cid += 3
    supers = []
    for _ in range(ctx.budget(10, 60)):
        supers.append(gen_super(rng, cid)); cid += 3
    cert = [tc.gen_config(rng, cid + i, dim=rng.choice([1, 2]), same_grid=False) for i in range(ctx.budget(20, 120))]
    flat = [c for g in groups for c in g[:2]] + [c for g in supers for c in g] + cert
    results = tc.run_configs(flat)
    rmap = {id(c): r for c, r in zip(flat, results)}
    findings = []

    def ok(c):
        r = rmap[id(c)]
        if r["status"] != "ok":
            err = r.get("error", "")
            if "Too many iterations" in err or "interpolation range" in err:
                ctx.count("solve-raised")
                return None
            findings.append((c, "solve raised " + err))
            return None
        return r

    for a, b, (kind, s) in groups:
        ra, rb = ok(a), ok(b)
        ctx.case((kind, a["id"]), True)
        ctx.count("pair:" + kind)
        if ra is None or rb is None:
            continue
        Ta, Tb = final_T(ra), final_T(rb)
        g = tc.Grid(a)
        tol = 50 * max(tc.roundoff_tol(a, g, tc.unhex(st["Tn"]), float.fromhex(st["dt"])) for st in ra["steps"])
        if kind == "shift":
            exp = np.roll(Ta, -s, axis=2)
            if not close(Tb, exp, tol):
                findings.append((b, "rotating the data by %d cells does not rotate the solution (max difference %.3g)"
                                 % (s, np.max(np.abs(Tb - exp))), a))
        elif kind == "2d1d":
            exp = np.repeat(Tb[:, :, None], a["nt"], axis=2)
            if not close(Ta, exp, tol):
                findings.append((a, "2D solution with axisymmetric data differs from the 1D solution (max %.3g)"
                                 % np.max(np.abs(Ta - exp)), b))
        else:
            exp = np.repeat(Tb[:, :, :, None], a["nz"], axis=3)
            if not close(Ta, exp, tol):
                findings.append((a, "3D solution with axially uniform data differs from the 2D solution (max %.3g)"
                                 % np.max(np.abs(Ta - exp)), b))
    for a, b, c in supers:
        ra, rb, rc = ok(a), ok(b), ok(c)
        ctx.case(("super", a["id"]), True)
        ctx.count("triple:superposition")
        if ra is None or rb is None or rc is None:
            continue
        g = tc.Grid(a)
        tol = 50 * max(tc.roundoff_tol(a, g, tc.unhex(st["Tn"]), float.fromhex(st["dt"])) for st in ra["steps"])
        if not close(final_T(rc), final_T(ra) + final_T(rb), tol):
            findings.append((c, "response to the sum of two data sets differs from the sum of the responses (max %.3g)"
                             % np.max(np.abs(final_T(rc) - final_T(ra) - final_T(rb))), a))
    # the coupled (thermohydraulic) solver: a 2D tube with axisymmetric flux against the same tube as a 1D model
    import copy as _copy
    from harness.props import c07
    from harness.core import run_impl_parallel
    cjobs = []
    for _ in range(ctx.budget(2, 8)):
        ctimes = [0.0, 1.0]
        s2 = c07.tube_spec(rng, ctimes, 2, mult=rng.choice([1, 2]), flux_level=rng.choice([1.0, 2.0, 3.0]))
        s1 = dict(_copy.deepcopy(s2), dim=1)
        fpth = [["f", {"panels": ["0"], "mass_flow": [rng.choice([60.0, 90.0])] * 2, "inlet": [500.0, 510.0]}]]
        cjobs.append((c07.base_case(0, ctimes, [["0", [s2]]], _copy.deepcopy(fpth)), c07.base_case(1, ctimes, [["0", [s1]]], _copy.deepcopy(fpth))))
    # ... and a 3D tube whose circumferentially varying flux is rotated by whole cells
    rjobs = []
    for _ in range(ctx.budget(1, 4)):
        ctimes = [0.0, 1.0]
        s3 = c07.tube_spec(rng, ctimes, 3, mult=1, flux_level=rng.choice([1.0, 2.0]))
        sh = rng.randint(1, s3["nt"] - 1)
        s3r = _copy.deepcopy(s3)
        s3r["flux"] = [pl[sh:] + pl[:sh] for pl in s3["flux"]]          # flux[time][theta][z] rolled by -sh along theta
        fpth = [["f", {"panels": ["0"], "mass_flow": [60.0] * 2, "inlet": [500.0, 510.0]}]]
        rjobs.append((c07.base_case(0, ctimes, [["0", [s3]]], _copy.deepcopy(fpth)), c07.base_case(1, ctimes, [["0", [s3r]]], _copy.deepcopy(fpth)), sh))
    rres = run_impl_parallel("c07_coupled", [c07.to_impl(x) for pr in rjobs for x in pr[:2]], workers=8, timeout=900)
    cres = run_impl_parallel("c07_coupled", [c07.to_impl(x) for pr in cjobs for x in pr], workers=8, timeout=900)
    coupled_findings = []
    for k, (a, b) in enumerate(cjobs):
        ra, rb = cres[2 * k], cres[2 * k + 1]
        ctx.case(("coupled-2d1d", k), True)
        ctx.count("pair:coupled-2d1d")
        if "tubes" not in ra or "tubes" not in rb:
            coupled_findings.append((a, b, "the coupled solve of a one-tube receiver did not complete: %s / %s"
                                     % ({x: y for x, y in ra.items() if x != "tubes"}, {x: y for x, y in rb.items() if x != "tubes"})))
            continue
        T2 = c07.unhex(ra["tubes"][0]["temperature"], ra["tubes"][0]["tshape"])
        T1 = c07.unhex(rb["tubes"][0]["temperature"], rb["tubes"][0]["tshape"])
        F2 = c07.unhex(ra["tubes"][0]["fluid_T"], ra["tubes"][0]["fshape"])
        F1 = c07.unhex(rb["tubes"][0]["fluid_T"], rb["tubes"][0]["fshape"])
        gap = float(np.max(np.abs(T2 - T1[:, :, None])))
        fgap = float(np.max(np.abs(F2 - F1)))
        if gap > 1e-6 * float(np.max(np.abs(T1))) or fgap > 1e-6 * float(np.max(np.abs(F1))):
            coupled_findings.append((a, b, "coupled solver: the 2D solution with axisymmetric flux differs from the 1D solution "
                                           "(wall temperatures by %.3g, fluid temperatures by %.3g)" % (gap, fgap)))
    for k, (a, b, sh) in enumerate(rjobs):
        ra, rb = rres[2 * k], rres[2 * k + 1]
        ctx.case(("coupled-rotation", k), True)
        ctx.count("pair:coupled-rotation")
        if "tubes" not in ra or "tubes" not in rb:
            coupled_findings.append((a, b, "the coupled solve of a one-tube 3D receiver did not complete: %s / %s"
                                     % ({x: y for x, y in ra.items() if x != "tubes"}, {x: y for x, y in rb.items() if x != "tubes"})))
            continue
        Ta = c07.unhex(ra["tubes"][0]["temperature"], ra["tubes"][0]["tshape"])      # (time, r, theta, z)
        Tb = c07.unhex(rb["tubes"][0]["temperature"], rb["tubes"][0]["tshape"])
        Fa = c07.unhex(ra["tubes"][0]["fluid_T"], ra["tubes"][0]["fshape"])
        Fb = c07.unhex(rb["tubes"][0]["fluid_T"], rb["tubes"][0]["fshape"])
        gap = float(np.max(np.abs(Tb - np.roll(Ta, -sh, axis=2))))
        fgap = float(np.max(np.abs(Fa - Fb)))
        if gap > 1e-6 * float(np.max(np.abs(Ta))) or fgap > 1e-6 * float(np.max(np.abs(Fa))):
            coupled_findings.append((a, b, "coupled solver: rotating the flux by %d cells does not rotate the wall temperatures (off by %.3g) "
                                           "or changes the fluid temperatures (by %.3g)" % (sh, gap, fgap)))
    if coupled_findings:
        a, b, msg = coupled_findings[0]
        ctx.violation("%s (%d failing comparisons)" % (msg, len(coupled_findings)),
                      {"coupled": [c07.to_impl(a), c07.to_impl(b)], "oracle": msg}, tag="C12:coupled:" + msg[:24])
    terms, info = [], []
    for cfg in cert:
        r = ok(cfg)
        if r is None:
            continue
        g = tc.Grid(cfg)
        if check_chain(cfg, r, g):
            continue
        for si, (Tn, T, t, dti) in enumerate(step_iter(cfg, r, g)):
            ctx.case(("cert", cfg["id"], si), True)
            if len(terms) < ctx.budget(60, 300):
                terms.append(tc.coq_step(cfg, g, Tn, T, t, dti))
                info.append((cfg, si))
    ctx.sample({"shift_pair": [tc.strip_cfg(groups[0][0])["inner"], groups[0][2]]})
    if findings:
        f = findings[0]
        ctx.violation("%s (%dD; %d failing comparisons)" % (f[1], f[0]["dim"], len(findings)),
                      {"config": tc.strip_cfg(f[0]), "partner": tc.strip_cfg(f[2]) if len(f) > 2 else None, "oracle": f[1]},
                      tag="C12:" + f[1][:30])
    failing = coq_eval_cases("c12", tc.HEADER, terms, shard=12)
    ctx.checker_cmds.append("coqc (vm_compute) certificate of %d recorded steps on reduced abstractions" % len(terms))
    ctx.oblige("corr/thermal-step-certificate-reduced (%d steps)" % len(terms), "corr", not failing,
               "%d steps disagree; first: %s" % (len(failing), (info[failing[0]][0]["id"], info[failing[0]][1]) if failing else ""))


def replay(rp):
    if rp.get("coupled"):
        from harness.core import run_impl
        res = run_impl("c07_coupled", {"cases": rp["coupled"]}, timeout=900)["results"]
        print("recorded:", rp.get("oracle"))
        for r in res:
            print("observed now:", {k: v for k, v in r.items() if k != "tubes"},
                  [t["fluid_T"][-2:] for t in r.get("tubes", [])])
        return 1
    cfg = rp.get("config")
    if not cfg:
        print("replay file names a broken obligation, not an input: %s" % rp.get("broken"))
        return 1
    print("recorded:", rp.get("oracle"))
    a = tc.rehydrate(cfg)
    cfgs = [a] + ([tc.rehydrate(rp["partner"])] if rp.get("partner") else [])
    res = tc.run_configs(cfgs)
    for r in res:
        print("status", r["status"], r.get("error", ""))
    print("compare the two `temperatures` arrays as described by the recorded oracle message; run ./check C12 for the verdict")
    return 1
