"""
C05 — ceramic reliability obeys the Weibull laws and is frame-indifferent.

gen   : coq/gen/WeibullTables.v regenerated from damage.py (stacking order and
        Mandel tables).
prove : coq/props/C05.v
oracle: metamorphic runs of determine_reliability for all eight models on
        synthetic stress histories: rotated axes, range (0,1], compressive
        states, stresses scaled up, longer service time, doubled volume,
        zero-service-time homogeneity, uniaxial reduction, aggregation over
        tubes (multipliers) and panels; custom and shipped ceramic materials.
"""
import copy
import math
import os

import numpy as np

from harness import translators
from harness.core import run_impl_parallel
from harness.props.c09 import rat_rotation

MODELS = ["PIA", "WNTSA", "MTS_GF", "MTS_PSF", "CSE_GF", "CSE_PSF", "SMM_GF", "SMM_PSF"]
COMPS = ["_xx", "_yy", "_zz", "_yz", "_xz", "_xy"]
IDX = {"_xx": (0, 0), "_yy": (1, 1), "_zz": (2, 2), "_yz": (1, 2), "_xz": (0, 2), "_xy": (0, 1)}


def hx(x):
    return float(x).hex()


def uv(s):
    return float.fromhex(s)


def nelem(t):
    if t["dim"] == 1:
        return t["nr"] - 1
    if t["dim"] == 2:
        return (t["nr"] - 1) * t["nt"]
    return (t["nr"] - 1) * t["nt"] * (t["nz"] - 1)


def gen_tube(rng, ntime, dim=None, mult=1, level=150.0, compressive=False, uniaxial=None, special=None, vary=False):
    dim = dim or rng.choice([1, 2, 3])
    t = {"r": 10.0, "t": 1.0, "h": rng.choice([10.0, 25.0]), "nr": rng.randint(2, 3), "nt": rng.randint(3, 4), "nz": rng.randint(2, 3),
         "mult": mult, "dim": dim}
    ne, nq = nelem(t), 2
    S = np.zeros((ntime, ne, nq, 3, 3))
    for e in range(ne):
        if uniaxial is not None:
            base = np.zeros((3, 3)); base[2, 2] = uniaxial
        elif special is not None:
            # states with repeated principal values, in the principal frame and in a rotated one
            d = {"equibiaxial": [level, level, 0.0], "hydrostatic": [level, level, level], "biaxial-compression": [level, -0.3 * level, -0.3 * level],
                 "uniaxial-x": [level, 0.0, 0.0]}[special]
            base = np.diag(d)
            if e % 2:
                a = np.array([[rng.uniform(-1, 1) for _ in range(3)] for _ in range(3)])
                qm, _ = np.linalg.qr(a)
                base = qm @ base @ qm.T
        else:
            a = np.array([[rng.uniform(-1, 1) for _ in range(3)] for _ in range(3)])
            base = (a + a.T) / 2 * level
            if compressive:
                w, v = np.linalg.eigh(base)
                base = v @ np.diag(-np.abs(w) - 1.0) @ v.T
        for ti in range(ntime):
            f = 1.0 if ti == ntime - 1 else 0.4 + 0.6 * ti / (ntime - 1)
            for q in range(nq):
                S[ti, e, q] = base * f
    t["S"] = S
    t["T"] = np.full((ntime, ne, nq), rng.choice([900.0, 1100.0]))
    if vary:
        # the temperature changes over the load cycle (across a knot of the material tables)
        hist = rng.choice([[600.0, 2400.0, 1200.0], [1800.0, 700.0, 700.0], [900.0, 1300.0, 2900.0]])
        for ti in range(ntime):
            t["T"][ti] = hist[ti % 3]
    return t


def tab_at(tab, key, T):
    return np.interp(T, [uv(x) for x in tab["T"]], [uv(x) for x in tab[key]])


def avg_params(mat, tube):
    """time-averaged Weibull parameters of a tube's (element-uniform) temperature history: (mean of s0^-m, mean of m)"""
    Ts = tube["T"][:, 0, 0]
    if mat.get("tab"):
        s0, mm = tab_at(mat["tab"], "s0", Ts), tab_at(mat["tab"], "m", Ts)
    else:
        s0, mm = np.full(len(Ts), uv(mat["s0"])), np.full(len(Ts), uv(mat["m"]))
    return float(np.mean(s0 ** (-mm))), float(np.mean(mm))


def to_impl_tube(t):
    quad = {"temperature": [[[hx(v) for v in r] for r in d] for d in t["T"]]}
    for c, (i, j) in IDX.items():
        quad["stress" + c] = [[[hx(v) for v in r] for r in d] for d in t["S"][..., i, j]]
    return {k: (hx(v) if k in ("r", "t", "h") else v) for k, v in t.items() if k not in ("S", "T")} | {"quad": quad}


def to_impl(c):
    return ({"panel_names": c["panel_names"]} if c.get("panel_names") else {}) | {"id": c["id"], "material": c["material"], "period": hx(c["times"][-1] if c["times"][-1] > 0 else 1.0),
            "times": [hx(t) for t in c["times"]], "time": hx(c["time"]), "models": c["models"],
            "panels": [[to_impl_tube(t) for t in p] for p in c["panels"]]}


def custom_material(rng, tab=False):
    m = constant_material(rng)
    if tab:
        s0, mm = uv(m["s0"]), uv(m["m"])
        m["tab"] = {"T": [hx(0.0), hx(1000.0), hx(3000.0)], "s0": [hx(s0), hx(s0), hx(0.75 * s0)], "m": [hx(mm), hx(mm), hx(mm + 6.0)]}
    return m


def constant_material(rng):
    return {"kind": "custom", "s0": hx(rng.choice([400.0, 550.0])), "m": hx(rng.choice([7.0, 8.0, 10.5])), "c_bar": hx(rng.choice([0.82, 1.5])),
            "nu": hx(rng.choice([0.16, 0.219])), "Nv": hx(rng.choice([20.0, 30.0])), "Bv": hx(rng.choice([300.0, 1000.0]))}


def transform(case, f):
    c = copy.deepcopy(case)
    for p in c["panels"]:
        for t in p:
            t["S"] = f(t["S"])
    return c


def run(ctx):
    ctx.rule = ("synthetic receivers (1-3 panels of 1-3 tubes each, equal and unequal tube counts, multipliers 1-3, 1D/2D/3D element layouts, "
                "random symmetric stress tensors per element (and equibiaxial, hydrostatic, mixed states with repeated principal values, in principal and rotated frames) ramping over 1-3 time points (one point = the static branch), custom constant-property ceramics and "
                "the shipped SiC variants, service times 0 .. 1e5); each base case with its transforms (rotation, scale 1.5, "
                "longer time, doubled height, compressive, uniaxial) for all eight models. one case = one receiver x 8 models; "
                "all non-trivial")
    ctx.trusted += ["numpy.linalg.eigvalsh; the orientation quadratures (21x31 / 121x121 grids): the uniaxial reduction of the six "
                    "shape-dependent models is compared at 2% in log-reliability",
                    "translator harness/translators/weibull.py"]
    translators.import_all()
    ctx.gen("WeibullTables", translators.REGISTRY["WeibullTables"])
    ctx.prove("C05")
    if ctx.tier == "thorough":
        ctx.coqchk("C05")
    rng = ctx.rng
    cases, jobs = [], []

    def add(c):
        c["id"] = len(cases)
        cases.append(c)
        return c["id"]

    for i in range(ctx.budget(8, 42)):
        ntime = rng.choice([1, 2, 2, 3])        # one time point = the time-independent (static) branch
        times = [0.0] + [float(k + 1) for k in range(ntime - 1)]
        counts = [[2, 2], [2], [3, 1], [1, 1], [2, 2, 2], [1], [1, 2, 3], [3, 3]][i % 8]       # tubes per panel
        special = [None, None, "equibiaxial", None, "hydrostatic", "biaxial-compression", "uniaxial-x"][i % 7]
        vary = i % 3 == 2
        panels = [[gen_tube(rng, ntime, mult=rng.randint(1, 3), special=special, level=rng.choice([120.0, 150.0, 180.0]), vary=vary)
                   for _ in range(ntub)] for ntub in counts]
        mat = custom_material(rng, tab=vary) if i % 3 else {"kind": "shipped", "variant": rng.choice(["base", "cares"])}
        base = {"material": mat, "times": times, "time": rng.choice([0.0, 100.0, 1.0e4]), "models": MODELS, "panels": panels}
        if i % 4 in (2, 3):
            # panels named by the user, added in an order that is not the sorted one
            base["panel_names"] = [["north", "east", "west"], ["p2", "p10", "p1"], ["b", "a", "c"]][(i // 2) % 3][:len(counts)]
        b = add(base)
        R = rat_rotation(rng)
        jobs.append(("rotation", b, add(transform(base, lambda S: np.einsum("ik,...kl,jl->...ij", R, S, R)))))
        jobs.append(("scale", b, add(transform(base, lambda S: 1.5 * S))))
        longer = copy.deepcopy(base); longer["time"] = base["time"] * 10 + 50.0
        jobs.append(("time", b, add(longer)))
        taller = copy.deepcopy(base)
        for p in taller["panels"]:
            for t in p:
                t["h"] = 2 * t["h"]
        jobs.append(("volume", b, add(taller)))
        z = copy.deepcopy(base); z["time"] = 0.0
        zb = add(z)
        jobs.append(("homogeneous", zb, add(transform(z, lambda S: 1.25 * S))))
    for i in range(ctx.budget(3, 12)):
        times = [[0.0], [0.0, 1.0], [0.0, 1.0, 2.0]][i % 3]
        vary = i % 3 > 0
        mat = custom_material(rng, tab=vary)
        if not vary:
            mat["m"] = hx([8.0, 10.0][(i // 3) % 2])      # static branch with an even integer modulus: (-x)^m is positive
        comp = {"material": mat, "times": times, "time": rng.choice([0.0, 1000.0]), "models": MODELS,
                "panels": [[gen_tube(rng, len(times), compressive=True)]]}
        jobs.append(("compressive", add(comp), None))
        sig = rng.choice([150.0, 250.0])
        tube = gen_tube(rng, len(times), uniaxial=sig, vary=vary)
        kavg, mavg = avg_params(mat, tube)
        while 4000.0 * kavg * sig ** mavg > 300.0:      # keep the reliabilities representable (volumes are below 4000)
            sig /= 2.0
            tube["S"] = tube["S"] / 2.0
        uni = {"material": mat, "times": times, "time": 0.0, "models": MODELS, "panels": [[tube]], "sigma": sig}
        jobs.append(("uniaxial", add(uni), None))
    results = run_impl_parallel("c05_weibull", [to_impl(c) for c in cases], workers=10, timeout=1500)
    findings = []

    def rel(i, m):
        r = results[i]
        if "error" in r:
            return None
        x = r["res"][m]
        if "error" in x:
            return None
        return {"tube": np.array([uv(v) for v in x["tube"]]), "panel": np.array([uv(v) for v in x["panel"]]), "overall": uv(x["overall"])}

    for i, (c, r) in enumerate(zip(cases, results)):
        ctx.case(("rec", i), True)
        if "error" in r:
            findings.append((c, "evaluation raised %s" % r["error"]))
            continue
        for m in MODELS:
            x = r["res"][m]
            if "error" in x:
                findings.append((c, "%s: determine_reliability raised %s" % (m, x["error"])))
                continue
            v = rel(i, m)
            allv = list(v["tube"]) + list(v["panel"]) + [v["overall"]]
            if not all(0.0 <= a <= 1.0 and math.isfinite(a) for a in allv):
                findings.append((c, "%s: a reliability outside [0, 1]: %s" % (m, allv)))
            # aggregation
            lt = np.log(np.maximum(v["tube"], 1e-300))
            if np.all(v["tube"] > 1e-250):
                pan, k0 = [], 0
                for p in c["panels"]:
                    ms = np.array([t["mult"] for t in p], dtype=float)
                    pan.append(math.exp(float(np.sum(lt[k0:k0 + len(p)] * ms))))
                    k0 += len(p)
                pan = np.array(pan)
                if not np.allclose(pan, v["panel"], rtol=1e-9, atol=1e-300) or abs(np.prod(v["panel"]) - v["overall"]) > 1e-9 * v["overall"] + 1e-300:
                    findings.append((c, "%s: panel/overall reliability is not the product of tube reliabilities raised to their multipliers" % m))
    for kind, a, b in jobs:
        ctx.count("pair:" + kind)
        for m in MODELS:
            ra = rel(a, m)
            rb = rel(b, m) if b is not None else None
            if ra is None or (b is not None and rb is None):
                continue
            la = np.log(np.maximum(ra["tube"], 1e-300))
            if kind == "compressive":
                if m in ("PIA", "WNTSA") and not np.all(ra["tube"] == 1.0):
                    findings.append((cases[a], "%s: purely compressive state gives reliability %s, not 1" % (m, ra["tube"])))
                continue
            if kind == "uniaxial":
                V = np.array(results[a]["volumes"]).ravel()
                mat = cases[a]["material"]
                # Weibull parameters averaged over the cycle's temperatures (constant temperature: -V (sigma/s0)^m)
                kavg, mavg = avg_params(mat, cases[a]["panels"][0][0])
                expect = -V * kavg * cases[a]["sigma"] ** mavg
                # the 121 x 121 Riemann sums of the orientation integrals are off by 1-6 % (growing with the modulus)
                tol = 1e-6 if m in ("PIA", "WNTSA") else 0.015 + 0.002 * mavg
                if not np.allclose(la, expect, rtol=tol):
                    findings.append((cases[a], "%s: uniaxial tension gives log-reliability %s, the uniaxial Weibull law %s" % (m, la, expect)))
                continue
            lb = np.log(np.maximum(rb["tube"], 1e-300))
            if np.any(ra["tube"] < 1e-250) or np.any(rb["tube"] < 1e-250):
                continue
            if kind == "rotation" and not np.allclose(la, lb, rtol=1e-6, atol=1e-12):
                findings.append((cases[b], "%s: the same stress history in rotated axes changes the tube reliabilities from %s to %s" % (m, ra["tube"], rb["tube"])))
            elif kind in ("scale", "time") and np.any(lb > la * (1 - 1e-9) + 1e-15):
                findings.append((cases[b], "%s: %s increases a reliability (%s -> %s)" % (m, "scaling the stresses up" if kind == "scale" else "a longer service time", ra["tube"], rb["tube"])))
            elif kind == "volume" and not np.allclose(lb, 2 * la, rtol=1e-9, atol=1e-15):     # a reliability near 1 carries its logarithm to about 1e-16 only
                findings.append((cases[b], "%s: doubling every element volume does not double the log-reliability (%s -> %s)" % (m, la, lb)))
            elif kind == "homogeneous":
                mm = cases[a]["material"]
                if mm["kind"] == "custom":
                    fac = np.array([1.25 ** avg_params(mm, t)[1] for p in cases[a]["panels"] for t in p])
                    if not np.allclose(lb, fac * la, rtol=1e-6, atol=1e-15):
                        findings.append((cases[b], "%s: at zero service time scaling stresses by 1.25 multiplies log-reliability by %s, expected %s"
                                         % (m, lb / la, fac)))
    ctx.sample({"models": MODELS, "pairs": sorted(set(j[0] for j in jobs))})
    ctx.oblige("validated/metamorphic-reliability (%d receivers x 8 models)" % len(cases), "validated", not findings, "%d failing checks" % len(findings))
    if findings and os.environ.get("VERIF_DEBUG"):
        for c, msg in findings:
            print("# finding case %d: %s" % (c["id"], msg))
    if findings:
        c, msg = findings[0]
        ctx.violation("%s (%d failing checks)" % (msg, len(findings)), {"case": to_impl(c), "oracle": msg}, tag="C05:" + msg[:30])


def replay(rp):
    from harness.core import run_impl
    c = rp.get("case")
    if not c:
        print("replay file names a broken obligation, not an input: %s" % rp.get("broken"))
        return 1
    r = run_impl("c05_weibull", {"cases": [c]}, timeout=900)["results"][0]
    print("recorded:", rp.get("oracle"))
    print("observed now:", {m: (x.get("overall"), x.get("error")) for m, x in r.get("res", {}).items()}, r.get("error"))
    return 1
