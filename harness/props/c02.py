"""
C02 — solid heat transfer conserves energy.

prove : coq/props/C02.v (model/Thermal.v; proofs/ThermalConservation.v)
corr  : the real FiniteDifferenceImplicitThermalSolver is run on random tubes
        (1D/2D/3D, every wall kind, constant and temperature-dependent
        materials, rough initial fields, sub-stepping); for every recorded
        backward-Euler (sub)step the model's equations are evaluated exactly at
        the implementation's output (certificate) inside coqc.
oracle: the discrete energy identity of theorem C02_step_conserves evaluated
        in floats on every step, the dr/(2r) bound against the continuous input
        and the sign of the response to positive flux.
"""
import numpy as np

from harness import thermal_common as tc
from harness.core import coq_eval_cases


def check_chain(cfg, res, g):
    """recorded steps are the documented sub-steps, chained"""
    exp = tc.expected_step_times(cfg)
    steps = res["steps"]
    if len(steps) != len(exp):
        return "expected %d backward-Euler sub-steps, the solver took %d" % (len(exp), len(steps))
    prev = None
    for s, (t, dti) in zip(steps, exp):
        if float.fromhex(s["dt"]) != dti:
            return "sub-step size %r, expected %r" % (float.fromhex(s["dt"]), dti)
        Tn = tc.unhex(s["Tn"])
        if prev is not None and not np.array_equal(prev, Tn):
            return "a sub-step does not start from the previous sub-step's result"
        prev = tc.unhex(s["T"])
    return None


def step_iter(cfg, res, g):
    exp = tc.expected_step_times(cfg)
    for s, (t, dti) in zip(res["steps"], exp):
        yield tc.unhex(s["Tn"]), tc.unhex(s["T"]), t, dti


def gen(ctx):
    rng = ctx.rng
    cfgs = []
    n = ctx.budget(60, 400)
    for i in range(n):
        inner = rng.choice([None, "flux", "conv", "film", "flux"])
        outer = rng.choice([None, "flux", "conv", "flux"])
        cfgs.append(tc.gen_config(rng, len(cfgs), inner=inner, outer=outer))
    # positive flux on one wall, other wall insulated, uniform start: must heat
    for i in range(ctx.budget(10, 60)):
        side = rng.choice(["inner", "outer"])
        c = tc.gen_config(rng, len(cfgs), inner="flux" if side == "inner" else None,
                          outer="flux" if side == "outer" else None, rough=False)
        spec = c[side]
        pos = [[[abs(v) + 0.125 for v in row] for row in pl] for pl in spec["data_f"]]
        spec["data_f"] = pos
        spec["data"] = [[[tc.hx(v) for v in row] for row in pl] for pl in pos]
        c["positive_flux"] = side
        cfgs.append(c)
    return cfgs


def run(ctx):
    ctx.rule = ("random tubes: 4 geometries, nr 3-5, nt 3-8, nz 2-4, 1D/2D/3D (random slice plane/ray), 1-3 steps with "
                "dt from 1e-3 to 1e6, sub-steps 1-3, walls from {insulated, flux, convective, film} with BC grids equal to "
                "or different from the tube grid and time-varying data, constant or piecewise-linear materials, uniform "
                "or rough ghost-consistent initial fields; one case = one backward-Euler (sub)step; non-trivial = a "
                "non-insulated wall or a non-uniform start; distinct by configuration and step")
    ctx.trusted += ["scipy.sparse.linalg.spsolve (its output is checked against the model's equations, not modelled)",
                    "harness-side reference for boundary data (multilinear, periodic) and piecewise-linear material tables",
                    "hypothesis H1 of the theorems: dr < 2*r_inner (inner half-node radius positive); generated geometries satisfy it"]
    from harness import translators as _tr
    ctx.trusted += ["translator harness/translators/thermalstencil.py (Python ast -> Gallina; numpy slicing / edge padding / C-order flattening and "
                    "scipy.sparse.diags / coo_matrix placement read as index shifts)"]
    _tr.import_all()
    ctx.gen("ThermalStencil", _tr.REGISTRY["ThermalStencil"])
    ctx.prove("C02")
    ctx.prove("C02_stencil")
    if ctx.tier == "thorough":
        ctx.coqchk("C02")
        ctx.coqchk("C02_stencil")
    cfgs = gen(ctx)
    results = tc.run_configs(cfgs)
    terms, term_info = [], []
    findings = []
    for cfg, res in zip(cfgs, results):
        g = tc.Grid(cfg)
        kinds = (cfg["inner"] or {}).get("kind"), (cfg["outer"] or {}).get("kind")
        ctx.count("dim=%d" % cfg["dim"])
        ctx.count("walls=%s/%s" % kinds)
        ctx.count("material=" + cfg["material"]["kind"])
        if res["status"] != "ok":
            # a loud failure is not a violation of this property (see C17); two kinds are expected for extreme
            # step sizes: the Newton loop's round-off floor and ghost temperatures leaving the material table
            err = res.get("error", "")
            if "Too many iterations" in err or "interpolation range" in err:
                ctx.count("solve-raised:" + err.split(":")[0])
                continue
            findings.append((cfg, "solve raised %s" % err, None))
            continue
        msg = check_chain(cfg, res, g)
        if msg:
            findings.append((cfg, msg, None))
            continue
        for msg2, si in step_findings(cfg, res, g):
            findings.append((cfg, msg2, si))
        for si, (Tn, T, t, dti) in enumerate(step_iter(cfg, res, g)):
            nontrivial = kinds != (None, None) or "T0_field" in cfg
            ctx.case((cfg["id"], si, str(kinds), cfg["dim"]), nontrivial)
            if len(terms) < ctx.budget(150, 600):
                terms.append(tc.coq_step(cfg, g, Tn, T, t, dti))
                term_info.append((cfg, si))
    for cfg in cfgs[:2]:
        ctx.sample({k: v for k, v in tc.strip_cfg(cfg).items() if k not in ("T0_field",)})
    if findings:
        findings.sort(key=lambda f: (f[0]["nr"] * f[0]["nt"] * f[0]["nz"], f[0]["id"]))
        cfg, msg, si = findings[0]
        ctx.violation("%s (%dD, walls %s/%s; %d failing checks in total)" % (
            msg, cfg["dim"], (cfg["inner"] or {}).get("kind"), (cfg["outer"] or {}).get("kind"), len(findings)),
            {"config": dict(tc.strip_cfg(cfg), positive_flux=cfg.get("positive_flux")), "step": si, "oracle": msg}, tag="C02:" + msg[:40])
    failing = coq_eval_cases("c02", tc.HEADER, terms, shard=12)
    ctx.checker_cmds.append("coqc (vm_compute) certificate of %d recorded steps" % len(terms))
    detail = ""
    if failing:
        cfg, si = term_info[failing[0]]
        detail = "first: config %d step %d (%dD, walls %s/%s)" % (cfg["id"], si, cfg["dim"], (cfg["inner"] or {}).get("kind"), (cfg["outer"] or {}).get("kind"))
    ctx.oblige("corr/thermal-step-certificate (%d steps)" % len(terms), "corr", not failing,
               "%d steps whose output does not satisfy the model's equations; %s" % (len(failing), detail))
    ctx.distribution["corr_disagreements"] = len(failing)


def step_findings(cfg, res, g):
    """C02 oracle on one configuration's recorded steps"""
    out = []
    first = True
    for si, (Tn, T, t, dti) in enumerate(step_iter(cfg, res, g)):
        eb = tc.energy_balance(cfg, g, Tn, T, t, dti)
        if eb is not None:
            stored, inp, scale = eb
            if abs(stored - inp) > tc.roundoff_tol(cfg, g, Tn, dti) * scale + 1e-12:
                out.append(("step %d: stored heat changes by %.12g but the walls put in %.12g (scale %.3g)"
                            % (si, stored, inp, scale), si))
            if cfg.get("positive_flux") and first and not stored > 0:
                out.append(("positive flux on the %s wall did not heat the wall (stored change %.6g)"
                            % (cfg["positive_flux"], stored), si))
        first = False
    return out


def replay_config(rp, which):
    cfg = rp.get("config")
    if not cfg:
        print("replay file names a broken obligation, not an input: %s" % rp.get("broken"))
        return 1
    cfg = tc.rehydrate(cfg)
    res = tc.run_configs([cfg])[0]
    g = tc.Grid(cfg)
    print("recorded:", rp.get("oracle"))
    if res["status"] != "ok":
        print("VIOLATION reproduced: solve raised", res.get("error"))
        return 1
    msg = check_chain(cfg, res, g)
    if msg:
        print("VIOLATION reproduced:", msg)
        return 1
    if which == "c02":
        bad = step_findings(cfg, res, g)
    else:
        import importlib
        bad = importlib.import_module("harness.props." + which).config_findings(cfg, res, g)
    if bad:
        print("VIOLATION reproduced:", bad[0][0])
        return 1
    print("property holds on this input")
    return 0


def replay(rp):
    return replay_config(rp, "c02")
