"""
C06 — solid temperatures obey the discrete maximum principle.

prove : coq/props/C06.v (proofs/ThermalMaxPrinciple.v, proofs/ThermalWitness.v)
corr  : per-step certificate of the model's equations at the implementation's
        output (shared with C02), on configurations biased to huge and tiny
        step sizes and rough initial fields.
oracle: the bounds of theorems C06_max_principle / C06_lower_bound /
        C06_uniform_stays_uniform evaluated on every recorded step.
"""
import numpy as np

from harness import thermal_common as tc
from harness.core import coq_eval_cases
from harness.props.c02 import check_chain, step_iter

H1_TAG = "C06:H1 thick tube on a coarse radial grid (dr >= 2*r_inner)"


def h1_config(cid):
    """r = 10, t = 9, nr = 3: dr = 4.5 >= 2 * r_inner = 2 (the witness of theorem C06_needs_H1_refuted)"""
    hx = tc.hx
    return {
        "id": cid, "r": hx(10.0), "t": hx(9.0), "h": hx(10.0), "nr": 3, "nt": 4, "nz": 2, "dim": 1,
        "times": [hx(0.0), hx(1000.0)], "plane": hx(5.0), "angle": hx(0.0),
        "inner": {"kind": "conv", "nt": 4, "nz": 2, "times": [hx(-1.0), hx(1001.0)], "times_f": [-1.0, 1001.0],
                  "data": [[hx(500.0)] * 2] * 2, "data_f": [[500.0, 500.0], [500.0, 500.0]]},
        "outer": None,
        "material": {"kind": "const", "k": hx(1.0), "a": hx(1.0), "k_f": 1.0, "a_f": 1.0},
        "fluid": {"kind": "const", "h": hx(1.0), "h_f": 1.0},
        "substep": 1, "steady": False, "T0": hx(300.0),
        "f": {"r": 10.0, "t": 9.0, "h": 10.0, "times": [0.0, 1000.0], "plane": 5.0, "angle": 0.0, "T0": 300.0},
        "h1": True,
    }


def gen(ctx):
    rng = ctx.rng
    cfgs = []
    for _ in range(ctx.budget(50, 350)):
        mode = rng.choice(["two-sided", "two-sided", "flux-lower", "uniform"])
        g = rng.choice([(10.0, 1.0, 10.0), (12.7, 2.0, 100.0), (25.4, 0.5, 7.5), (4.0, 2.5, 10.0)])
        nr_guess = 3
        # step sizes from 1e-6 to 1e9 times dr^2/a
        scale = (g[1] / 3.0) ** 2 / 5.0
        dts = tuple(scale * f for f in (1e-6, 1e-3, 1.0, 1e3, 1e6, 1e9))
        if mode == "two-sided":
            c = tc.gen_config(rng, len(cfgs), inner=rng.choice([None, "fixed", "conv", "film"]),
                              outer=rng.choice([None, "fixed", "conv"]), dt_choices=dts, rough=True, geom=g)
        elif mode == "flux-lower":
            c = tc.gen_config(rng, len(cfgs), inner=rng.choice([None, "flux", "conv", "fixed"]),
                              outer=rng.choice([None, "flux"]), dt_choices=dts, rough=True, geom=g)
            for side in ("inner", "outer"):
                sp = c[side]
                if sp and sp["kind"] == "flux":
                    pos = [[[abs(v) for v in row] for row in pl] for pl in sp["data_f"]]
                    sp["data_f"] = pos
                    sp["data"] = [[[tc.hx(v) for v in row] for row in pl] for pl in pos]
        else:
            c = tc.gen_config(rng, len(cfgs), inner=None, outer=None, dt_choices=dts, rough=False, geom=g,
                              nsteps=rng.randint(2, 4))
        c["mode"] = mode
        cfgs.append(c)
    # film-coefficient walls with stepped axial profiles on more points than the tube has planes, seen from slices between the data points
    for _ in range(ctx.budget(6, 30)):
        g = rng.choice([(10.0, 1.0, 10.0), (12.7, 2.0, 100.0), (25.4, 0.5, 7.5)])
        scale = (g[1] / 3.0) ** 2 / 5.0
        c = tc.gen_config(rng, len(cfgs), dim=rng.choice([1, 2]), inner="film", outer=rng.choice([None, None, "conv"]),
                          dt_choices=(scale * 1e3, scale * 1e6), rough=False, geom=g, varying=False)
        nzb = rng.choice([4, 5, 6, 8])
        cut = rng.randint(1, nzb - 2)
        lo_T, hi_T = rng.choice([(300.0, 900.0), (650.0, 700.0), (900.0, 350.0)])
        ft = [lo_T if k <= cut else hi_T for k in range(nzb)]
        fm = [rng.choice([4.0, 64.0]) if k <= cut else rng.choice([0.125, 4.0]) for k in range(nzb)]
        sp = c["inner"]
        sp.update({"nz": nzb, "fluid_T": [tc.hx(v) for v in ft], "film": [tc.hx(v) for v in fm], "fluid_T_f": ft, "film_f": fm})
        pl = g[2] * (rng.randint(0, nzb - 2) + rng.choice([0.5, 0.25, 0.8125])) / (nzb - 1)
        c["plane"] = tc.hx(pl)
        c["f"]["plane"] = pl
        T0 = rng.choice([lo_T, hi_T, (lo_T + hi_T) / 2])
        c["T0"] = tc.hx(T0)
        c["f"]["T0"] = T0
        c["mode"] = "two-sided"
        cfgs.append(c)
    cfgs.append(h1_config(len(cfgs)))
    return cfgs


def bounds(cfg, g, Tn, time):
    """(lo, hi, lower_only) from the previous real-node temperatures and the wall data"""
    Tn = Tn.reshape(g.fdim)
    vals = [Tn[i, j, k] for i in range(1, g.nr + 1) for j in g.jr() for k in g.kr()]
    lower_only = False
    for which in ("inner", "outer"):
        sp = cfg[which]
        if sp is None:
            continue
        wd = tc.wall_data(cfg, g, which, time)
        for j in g.jr():
            for k in g.kr():
                if sp["kind"] == "fixed":
                    vals.append(wd["g"][j, k])
                elif sp["kind"] in ("conv", "film"):
                    vals.append(wd["tf"][j, k])
                else:
                    if wd["q"][j, k] < 0:
                        return None
                    lower_only = True
    return min(vals), max(vals), lower_only


def config_findings(cfg, res, g):
    out = []
    for si, (Tn, T, t, dti) in enumerate(step_iter(cfg, res, g)):
        b = bounds(cfg, g, Tn, t)
        if b is None:
            continue
        lo, hi, lower_only = b
        Tr = T.reshape(g.fdim)
        real = np.array([Tr[i, j, k] for i in range(1, g.nr + 1) for j in g.jr() for k in g.kr()])
        eps = tc.roundoff_tol(cfg, g, Tn, dti) * (1 + max(abs(lo), abs(hi)))
        if real.min() < lo - eps:
            out.append(("step %d (dt=%g): a node cools to %.9g, below the minimum %.9g of the previous field and the wall data"
                        % (si, dti, real.min(), lo), si))
        if not lower_only and real.max() > hi + eps:
            out.append(("step %d (dt=%g): a node reaches %.9g, above the maximum %.9g of the previous field and the wall data"
                        % (si, dti, real.max(), hi), si))
    return out


def run(ctx):
    ctx.rule = ("random tubes as in C02 but with step sizes 1e-6..1e9 times dr^2/a, rough initial fields, walls from "
                "{insulated, fixed, convective, film} (two-sided bound), non-negative flux (lower bound), insulated+uniform "
                "(2-4 steps); one case = one backward-Euler (sub)step; non-trivial = rough field or a non-insulated wall; "
                "plus the fixed H1 witness geometry r=10, t=9, nr=3")
    ctx.trusted += ["scipy.sparse.linalg.spsolve (output checked against the model's equations)",
                    "hypothesis H1 (dr < 2 r_inner) is part of `good`; C06_needs_H1_refuted shows it cannot be dropped"]
    from harness import translators as _tr
    ctx.trusted += ["translator harness/translators/thermalstencil.py (Python ast -> Gallina; numpy slicing / edge padding / C-order flattening and "
                    "scipy.sparse.diags / coo_matrix placement read as index shifts)"]
    _tr.import_all()
    ctx.gen("ThermalStencil", _tr.REGISTRY["ThermalStencil"])
    ctx.prove("C06")
    ctx.prove("C02_stencil")
    if ctx.tier == "thorough":
        ctx.coqchk("C06")
    cfgs = gen(ctx)
    results = tc.run_configs(cfgs)
    terms, term_info, findings = [], [], []
    for cfg, res in zip(cfgs, results):
        g = tc.Grid(cfg)
        ctx.count("mode=" + cfg.get("mode", "h1"))
        ctx.count("dim=%d" % cfg["dim"])
        if res["status"] != "ok":
            # a loud failure is not a violation of this property (see C17); two kinds are expected for extreme
            # step sizes: the Newton loop's round-off floor and ghost temperatures leaving the material table
            err = res.get("error", "")
            if "Too many iterations" in err or "interpolation range" in err:
                ctx.count("solve-raised:" + err.split(":")[0])
                continue
            findings.append((cfg, "solve raised %s" % err, None))
            continue
        msg = check_chain(cfg, res, g)
        if msg:
            findings.append((cfg, msg, None))
            continue
        for msg2, si in config_findings(cfg, res, g):
            findings.append((cfg, msg2, si))
        for si, (Tn, T, t, dti) in enumerate(step_iter(cfg, res, g)):
            ctx.case((cfg["id"], si), True)
            if not cfg.get("h1") and len(terms) < ctx.budget(100, 500):
                terms.append(tc.coq_step(cfg, g, Tn, T, t, dti))
                term_info.append((cfg, si))
    for cfg in cfgs[:2]:
        ctx.sample({k: v for k, v in tc.strip_cfg(cfg).items() if k not in ("T0_field",)})
    h1 = [f for f in findings if f[0].get("h1")]
    other = [f for f in findings if not f[0].get("h1")]
    if h1:
        cfg, msg, si = h1[0]
        ctx.violation("H1 witness geometry r=10 t=9 nr=3: " + msg, {"config": tc.strip_cfg(cfg), "oracle": msg}, tag=H1_TAG)
    if other:
        other.sort(key=lambda f: (f[0]["nr"] * f[0]["nt"] * f[0]["nz"], f[0]["id"]))
        cfg, msg, si = other[0]
        ctx.violation("%s (%dD, walls %s/%s, %s; %d failing checks in total)" % (
            msg, cfg["dim"], (cfg["inner"] or {}).get("kind"), (cfg["outer"] or {}).get("kind"), cfg["material"]["kind"], len(other)),
            {"config": tc.strip_cfg(cfg), "step": si, "oracle": msg}, tag="C06:" + msg[:30])
    failing = coq_eval_cases("c06", tc.HEADER, terms, shard=12)
    ctx.checker_cmds.append("coqc (vm_compute) certificate of %d recorded steps" % len(terms))
    detail = ""
    if failing:
        cfg, si = term_info[failing[0]]
        detail = "first: config %d step %d (%dD)" % (cfg["id"], si, cfg["dim"])
    ctx.oblige("corr/thermal-step-certificate (%d steps)" % len(terms), "corr", not failing,
               "%d steps whose output does not satisfy the model's equations; %s" % (len(failing), detail))
    if (failing or ctx.broken) and not other:
        # search stage: the tie is broken but no bound was seen violated; look harder, biased to the
        # dimension / material / walls of the disagreeing steps
        bad_cfgs = [term_info[i][0] for i in failing] or cfgs
        rng = ctx.rng
        extra = []
        for n in range(ctx.budget(250, 1200)):
            b = rng.choice(bad_cfgs)
            scale = (tc.Grid(b).dr) ** 2 / 5.0
            extra.append(tc.gen_config(rng, 100000 + n, dim=b["dim"],
                                       inner=(b["inner"] or {}).get("kind"), outer=(b["outer"] or {}).get("kind"),
                                       varying=b["material"]["kind"] == "pw", rough=True,
                                       dt_choices=tuple(scale * f for f in (1e-3, 1.0, 30.0, 1e3, 1e6)),
                                       geom=(b["f"]["r"], b["f"]["t"], b["f"]["h"])))
        found = []
        for cfg, res in zip(extra, tc.run_configs(extra, record=True)):
            if res["status"] != "ok":
                continue
            g = tc.Grid(cfg)
            if check_chain(cfg, res, g):
                continue
            for msg2, si in config_findings(cfg, res, g):
                found.append((cfg, msg2, si))
        ctx.distribution["search_configs"] = len(extra)
        if found:
            found.sort(key=lambda f: (f[0]["nr"] * f[0]["nt"] * f[0]["nz"], f[0]["id"]))
            cfg, msg, si = found[0]
            ctx.violation("%s (%dD, walls %s/%s, %s; found by the search stage, %d failing checks)" % (
                msg, cfg["dim"], (cfg["inner"] or {}).get("kind"), (cfg["outer"] or {}).get("kind"),
                cfg["material"]["kind"], len(found)),
                {"config": tc.strip_cfg(cfg), "step": si, "oracle": msg}, tag="C06:" + msg[:30])


def replay(rp):
    from harness.props.c02 import replay_config
    return replay_config(rp, "c06")
