"""
C20 — shipped material data load and behave monotonically.

gen   : coq/gen/MaterialData.v regenerated from /repo/srlife/data.
prove : coq/props/C20.v
corr  : the fatigue-curve selection and cut-off clamp of
        StructuralMaterial.cycles_to_fail against model/Materials.v (the curve
        and clamp the implementation used are identified from its result), and
        tabulated models at their table points against the generated tables.
oracle: every (directory, file, variant) loads through the documented loader;
        positivity, monotonicity in stress / temperature / strain range on dense
        sweeps; envelope points; derivative = segment slope; XML round trip of
        every shipped model and of random custom models gives identical
        evaluations.
"""
import math
import os
import xml.etree.ElementTree as ET
from fractions import Fraction as F

import numpy as np

from harness import translators
from harness.core import safe_fraction, REPO, coq_eval_cases, coq_list, q_lit, run_impl

HEADER = ("From Coq Require Import QArith List Bool String.\nFrom SV Require Import model.Materials gen.MaterialData.\n"
          "Import ListNotations.\nOpen Scope Q_scope.\n")
DATA = os.path.join(REPO, "srlife", "data")


def hx(x):
    return float(x).hex()


def uv(s):
    if s in ("nan", "inf", "-inf"):
        return {"nan": float("nan"), "inf": float("inf"), "-inf": float("-inf")}[s]
    return float.fromhex(s)


def fq(x):
    return q_lit(safe_fraction(x))


def read_fatigue(name, variant):
    root = ET.parse(os.path.join(DATA, "damage", name + ".xml")).getroot()
    m = root.find(variant)
    curves = []
    for c in m.find("nominalFatigue"):
        curves.append({"T": float(c.find("T").text), "a": [float(x) for x in c.find("a").text.split()],
                       "n": [float(x) for x in c.find("n").text.split()], "cut": float(c.find("cutoff").text)})
    return curves


def read_table(sub, name, variant):
    root = ET.parse(os.path.join(DATA, sub, name + ".xml")).getroot()
    return root.find(variant)


def nf_value(curve, e):
    y = math.log10(e)
    ex = sum(a * y ** n for a, n in zip(curve["a"], curve["n"]))
    return 10.0 ** ex if ex < 300 else float("inf")


def run(ctx):
    ctx.rule = ("every (directory, file, variant) under srlife/data: load through the documented loader, evaluate on sweeps "
                "(temperatures at and between table points and outside-but-covered ranges, stresses 0.05-1000 MPa, strain ranges "
                "1e-4..5e-2 incl. values just below/above each cut-off, temperatures just below/above each fatigue curve), XML "
                "round trip; random custom piecewise / ceramic models with differing grids. one case = one variant or custom "
                "model; non-trivial = every damage / tabulated variant")
    ctx.trusted += ["log10 / 10**x are monotone (the theorems are about the exponent polynomials); scipy interp1d for tables; "
                    "float(repr(x)) == x for the XML round trip",
                    "translator harness/translators/matdata.py; Coq-Interval (native integer/float primitives) and Coquelicot"]
    translators.import_all()
    gen_ok = ctx.gen("MaterialData", translators.REGISTRY["MaterialData"])
    ctx.prove("C20")
    ctx.prove("C20_real")
    if ctx.tier == "thorough":
        ctx.coqchk("C20")
    rng = ctx.rng
    variants = run_impl("c20_materials", {"list": True})["variants"]
    cases = []
    for sub, name, var in variants:
        c = {"id": len(cases), "sub": sub, "name": name, "variant": var, "roundtrip": sub != "deformation"}
        if sub == "thermal":
            node = read_table(sub, name, var)
            if node.find("temps") is not None:
                ts = [float(x) for x in node.find("temps").text.split()]
                pts = ts[1:-1] + [(a + b) / 2 for a, b in zip(ts[:-1], ts[1:])] + [ts[0] + 1.0, ts[-1] - 1.0]
            else:
                pts = [300.0, 650.5, 1200.0]
            c["T"] = [hx(t) for t in pts]
        elif sub == "fluid":
            node = read_table(sub, name, var)
            c["mats"] = [m.tag for m in node] + ["a-material-the-file-does-not-list"]
            m0 = node[0]
            if m0.find("temp") is not None:
                ts = [float(x) for x in m0.find("temp").text.split()]
                pts = ts[1:-1] + [(a + b) / 2 for a, b in zip(ts[:-1], ts[1:])]
            else:
                pts = [600.0, 900.0]
            c["T"] = [hx(t) for t in pts]
        elif sub == "thermalfluid":
            c["T"] = [hx(t) for t in (650.0, 800.0, 1000.0)]
        elif sub == "damage":
            root = ET.parse(os.path.join(DATA, "damage", name + ".xml")).getroot()
            if root.attrib["type"] == "metallic":
                curves = read_fatigue(name, var)
                Tcs = sorted(cv["T"] for cv in curves)
                c["T"] = [hx(t) for t in np.linspace(700, 1200, 11)]
                c["stress"] = [hx(s) for s in np.exp(np.linspace(math.log(0.05), math.log(1000.0), 48))]
                Tf = []
                for T in Tcs:
                    Tf += [T, T - 1.0, T - 30.0]
                Tf += [Tcs[-1] + 1.0]
                c["Tf"] = [hx(t) for t in Tf]
                er = list(np.exp(np.linspace(math.log(1e-4), math.log(5e-2), 40)))
                for cv in curves:
                    er += [cv["cut"], cv["cut"] * (1 - 1e-6), cv["cut"] * (1 + 1e-6), cv["cut"] * 0.5]
                c["erange"] = [hx(e) for e in sorted(er)]
                xk, yk = [float(x) for x in root.find(var).find("cfinteraction").text.split()]
                c["env"] = [[hx(0.0), hx(1.0)], [hx(xk), hx(yk)], [hx(1.0), hx(0.0)], [hx(0.0), hx(1.0 + 1e-9)],
                            [hx(xk), hx(yk * (1 + 1e-6))], [hx(1.0), hx(1e-9)]]
                c["curves"] = curves
            else:
                c["Tc"] = [hx(t) for t in (298.15, 500.0, 811.15, 1000.0, 1273.15, 1366.15)]
        cases.append(c)
    custom = []
    for i in range(ctx.budget(10, 60)):
        def grid(n):
            g = sorted(rng.uniform(200, 1800) for _ in range(n))
            return [round(x, 2) for x in g]
        if i % 2 == 0:
            sT, mT, nT, bT = grid(rng.randint(2, 5)), grid(rng.randint(2, 4)), grid(rng.randint(2, 4)), grid(rng.randint(2, 5))
            lo, hi = max(sT[0], mT[0], nT[0], bT[0]), min(sT[-1], mT[-1], nT[-1], bT[-1])
            if lo >= hi:
                continue
            custom.append({"id": i, "kind": "ceramic", "sT": [hx(x) for x in sT], "s": [hx(rng.uniform(100, 600)) for _ in sT],
                           "mT": [hx(x) for x in mT], "m": [hx(rng.uniform(5, 15)) for _ in mT], "c_bar": hx(rng.uniform(0.5, 2)),
                           "nu": hx(rng.uniform(0.1, 0.3)), "nT": [hx(x) for x in nT], "n": [hx(rng.uniform(20, 60)) for _ in nT],
                           "bT": [hx(x) for x in bT], "b": [hx(rng.uniform(100, 2000)) for _ in bT],
                           "Tc": [hx(lo + (hi - lo) * w) for w in (0.0, 0.3, 0.7, 1.0)]})
        else:
            ts = grid(rng.randint(3, 6))
            custom.append({"id": i, "kind": "pwthermal", "temps": [hx(x) for x in ts], "cond": [hx(rng.uniform(0.01, 0.03)) for _ in ts],
                           "diffu": [hx(rng.uniform(1e4, 2e4)) for _ in ts],
                           "T": [hx(x) for x in ts[1:-1] + [(a + b) / 2 for a, b in zip(ts[:-1], ts[1:])] + [ts[0], ts[-1]]]})
    # every (thermal, deformation, damage) variant combination of every material through load_material
    byname = {}
    for sub, name, var in variants:
        byname.setdefault(name, {}).setdefault(sub, []).append(var)
    combos = [[name, tv, dv, gv] for name, d in sorted(byname.items()) if all(k in d for k in ("thermal", "deformation", "damage"))
              for tv in d["thermal"] for dv in d["deformation"] for gv in d["damage"]]
    out = run_impl("c20_materials", {"cases": [{k: v for k, v in c.items() if k != "curves"} for c in cases], "custom": custom,
                                     "combos": combos}, timeout=1500)
    results, cres = out["results"], out["custom"]
    findings = []
    for o in out["combos"]:
        ctx.case(("combo",) + tuple(o["combo"]), len(set(o["combo"][1:])) > 1)
        ctx.count("load_material combinations")
        what = "load_material(%r, %r, %r, %r)" % tuple(o["combo"])
        if "error" in o:
            findings.append(({"combo": o["combo"]}, "%s raised %s although the three single loaders accept these variants" % (what, o["error"])))
        else:
            for k in ("thermal", "deformation", "damage"):
                if not o[k + "_same"]:
                    findings.append(({"combo": o["combo"]}, "%s returns a %s model that differs from the single loader's" % (what, k)))
    terms = []
    for c, r in zip(cases, results):
        label = "%s/%s/%s" % (c["sub"], c["name"], c["variant"])
        ctx.case(("variant", label), c["sub"] in ("damage", "thermal", "fluid"))
        ctx.count("dir:" + c["sub"])
        if "error" in r:
            findings.append((c, "%s does not load through the documented loader: %s" % (label, r["error"])))
            continue
        ev = r["eval"]
        if "roundtrip_error" in r:
            findings.append((c, "%s: XML round trip raised %s" % (label, r["roundtrip_error"])))
        elif "eval2" in r and r["eval2"] != ev:
            diff = [k for k in ev if ev[k] != r["eval2"].get(k)]
            findings.append((c, "%s: evaluations differ after an XML round trip (%s)" % (label, diff)))
        if c["sub"] == "thermal":
            for key in ("cond", "diff"):
                vals = [uv(v) for v in ev[key]]
                if not all(v > 0 and math.isfinite(v) for v in vals):
                    findings.append((c, "%s: %s not positive over its tabulated range" % (label, key)))
            node = read_table(c["sub"], c["name"], c["variant"])
            if node.find("temps") is not None:
                ts = [float(x) for x in node.find("temps").text.split()]
                for key, dkey in (("cond", "dcond"), ("diff", "ddiff")):
                    tab = [float(x) for x in node.find(key).text.split()]
                    got = [uv(v) for v in ev[key]]
                    dgot = [uv(v) for v in ev[dkey]]
                    n = len(ts) - 2
                    for j in range(n):
                        if abs(got[j] - tab[j + 1]) > 1e-12 * abs(tab[j + 1]):
                            findings.append((c, "%s: %s at table point %g is %r, table says %r" % (label, key, ts[j + 1], got[j], tab[j + 1])))
                    for j in range(len(ts) - 1):
                        slope = (tab[j + 1] - tab[j]) / (ts[j + 1] - ts[j])
                        if abs(dgot[n + j] - slope) > 1e-9 * (abs(slope) + 1e-12):
                            findings.append((c, "%s: derivative of %s inside segment %d is %r, slope is %r" % (label, key, j, dgot[n + j], slope)))
                        mid = (tab[j] + tab[j + 1]) / 2
                        if abs(got[n + j] - mid) > 1e-12 * abs(mid):
                            findings.append((c, "%s: %s at the middle of segment %d is %r, linear interpolation gives %r" % (label, key, j, got[n + j], mid)))
        elif c["sub"] == "fluid":
            for m, vals in ev["coef"].items():
                if not all(uv(v) > 0 for v in vals):
                    findings.append((c, "%s: film coefficient for %s not positive" % (label, m)))
            node = read_table(c["sub"], c["name"], c["variant"])
            tabs = {m.tag: ([float(x) for x in m.find("temp").text.split()], [float(x) for x in m.find("values").text.split()])
                    for m in node if m.find("temp") is not None}
            pts = [float.fromhex(t) for t in c["T"]]
            for m in c["mats"]:
                src = m if m in tabs else "default"
                if src not in tabs:
                    continue
                ts, vs = tabs[src]
                for T, got, dgot in zip(pts, ev["coef"][m], ev["dcoef"][m]):
                    j = max(k for k in range(len(ts) - 1) if ts[k] <= T)
                    slope = (vs[j + 1] - vs[j]) / (ts[j + 1] - ts[j])
                    val = vs[j] + slope * (T - ts[j])
                    what = "material %s%s" % (m, "" if m in tabs else " (not listed: the default entry applies)")
                    if abs(uv(got) - val) > 1e-12 * abs(val):
                        findings.append((c, "%s: film coefficient for %s at %g K is %r, the table gives %r" % (label, what, T, uv(got), val)))
                    if T not in ts and abs(uv(dgot) - slope) > 1e-9 * (abs(slope) + 1e-15):
                        findings.append((c, "%s: derivative of the film coefficient for %s at %g K is %r, the table's slope is %r"
                                         % (label, what, T, uv(dgot), slope)))
        elif c["sub"] == "thermalfluid" and "polys" in ev:
            # the variant that was asked for is the variant that was loaded: its polynomials are the file's
            node = ET.parse(os.path.join(DATA, "thermalfluid", c["name"] + ".xml")).getroot().find(c["variant"])
            for key, got in ev["polys"].items():
                want = [float(x) for x in node.find(key).text.split()]
                if [uv(x) for x in got] != want:
                    findings.append((c, "%s: loaded %s is %s, the data file says %s" % (label, key, [uv(x) for x in got], want)))
        elif c["sub"] == "damage" and ev.get("kind") == "metallic":
            if any(v != "inf" for pair in ev.get("tR0", []) for v in pair):
                findings.append((c, "%s: rupture time at zero stress is %s, an unloaded point never ruptures (inf)"
                                 % (label, sorted(set(v for pair in ev["tR0"] for v in pair if v != "inf"))[:2])))
            S = [float.fromhex(s) for s in c["stress"]]
            Ts = [float.fromhex(t) for t in c["T"]]
            for ti, pair in enumerate(ev["tR"]):
                for pi_, row in enumerate(pair):
                    v = [uv(x) for x in row]
                    if not all(b < a for a, b in zip(v[:-1], v[1:])):
                        findings.append((c, "%s: rupture time does not decrease with stress at T=%g" % (label, Ts[ti])))
            for si in range(0, len(S), 7):
                for pi_ in range(2):
                    col = [uv(ev["tR"][ti][pi_][si]) for ti in range(len(Ts))]
                    if not all(b < a for a, b in zip(col[:-1], col[1:])):
                        findings.append((c, "%s: rupture time does not decrease with temperature at stress %g" % (label, S[si])))
            er = [float.fromhex(e) for e in c["erange"]]
            curves = sorted(c["curves"], key=lambda cv: cv["T"])
            Tf = [float.fromhex(t) for t in c["Tf"]]
            for ti, row in enumerate(ev["Nf"]):
                vals = [None if x == "error" else uv(x) for x in row]
                T = Tf[ti]
                if T > curves[-1]["T"]:
                    if any(v is not None for v in vals):
                        findings.append((c, "%s: cycles to failure returned above the hottest fatigue curve (T=%g)" % (label, T)))
                    continue
                if any(v is None for v in vals):
                    findings.append((c, "%s: cycles to failure raised inside the data range (T=%g)" % (label, T)))
                    continue
                if not all(b <= a * (1 + 1e-12) for a, b in zip(vals[:-1], vals[1:])):
                    k = [i for i, (a, b) in enumerate(zip(vals[:-1], vals[1:])) if b > a * (1 + 1e-12)][0]
                    findings.append((c, "%s: cycles to failure increase with strain range at T=%g between %g and %g (%r -> %r)"
                                     % (label, T, er[k], er[k + 1], vals[k], vals[k + 1])))
                # the documented look-up: first curve with T <= T_curve, strain range floored by that curve's cut-off
                sel = [cv for cv in curves if T <= cv["T"]][0]
                for e, v in zip(er, vals):
                    ref = nf_value(sel, max(e, sel["cut"]))
                    if abs(v - ref) > 1e-9 * ref:
                        findings.append((c, "%s: cycles to failure at T=%g, range %g is %r; the curve at %g K with cut-off %g gives %r"
                                         % (label, T, e, v, sel["T"], sel["cut"], ref)))
                        break
                # identify the curve and clamp the implementation used, compare with the model's selection
                for e, v in list(zip(er, vals))[::5]:
                    cands = []
                    for j, cv in enumerate(curves):
                        for clamped, ee in ((True, cv["cut"]), (False, e)):
                            if abs(nf_value(cv, ee) - v) <= 1e-9 * v:
                                cands.append((j, ee))
                    if len(set(cands)) == 1 and len(terms) < ctx.budget(600, 4000):
                        j, ee = cands[0]
                        terms.append("match cycles_selection %s %s %s with Some (j, e) => Nat.eqb j %d && Qeq_bool e %s | None => false end"
                                     % (coq_list(["(%s, %s)" % (fq(cv["T"]), fq(cv["cut"])) for cv in c["curves"]]), fq(T), fq(e), j, fq(ee)))
            want = [True, True, True, False, False, False]
            if ev["env"] != want:
                findings.append((c, "%s: interaction envelope does not pass through (0,1), the knee and (1,0): %s" % (label, ev["env"])))
        elif c["sub"] == "damage":
            for key in ("strength", "modulus", "fatigue_Nv", "fatigue_Bv"):
                if not all(uv(v) > 0 for v in ev[key]):
                    findings.append((c, "%s: %s not positive" % (label, key)))
            if not (uv(ev["c_bar"]) > 0 and uv(ev["nu"]) > 0):
                findings.append((c, "%s: c_bar / nu not positive" % label))
    for spec, r in zip(custom, cres):
        ctx.case(("custom", spec["id"], spec["kind"]), True)
        ctx.count("custom:" + spec["kind"])
        if "error" in r:
            findings.append((spec, "custom %s model: save/load raised %s" % (spec["kind"], r["error"])))
        elif r["eval"] != r["eval2"]:
            diff = [k for k in r["eval"] if r["eval"][k] != r["eval2"].get(k)]
            findings.append((spec, "custom %s model: evaluations differ after an XML round trip (%s)" % (spec["kind"], diff)))
        elif spec["kind"] == "pwthermal":
            # value = linear interpolation; derivative = slope of the segment that starts at or before the point
            # (of the last segment at the last table point)
            ts = [float.fromhex(x) for x in spec["temps"]]
            for key, dkey, tab in (("cond", "dcond", [float.fromhex(x) for x in spec["cond"]]), ("diff", "ddiff", [float.fromhex(x) for x in spec["diffu"]])):
                for Th, got, dgot in zip(spec["T"], r["eval"][key], r["eval"][dkey]):
                    T = float.fromhex(Th)
                    j = min(max(k for k in range(len(ts)) if ts[k] <= T), len(ts) - 2)
                    slope = (tab[j + 1] - tab[j]) / (ts[j + 1] - ts[j])
                    val = tab[j] + slope * (T - ts[j])
                    if abs(uv(got) - val) > 1e-12 * abs(val):
                        findings.append((spec, "custom piecewise thermal model: %s at %g is %r, the table gives %r" % (key, T, uv(got), val)))
                    if abs(uv(dgot) - slope) > 1e-9 * (abs(slope) + 1e-300):
                        findings.append((spec, "custom piecewise thermal model: derivative of %s at %g is %r, the slope of the table there is %r" % (key, T, uv(dgot), slope)))
    ctx.sample({"variants": variants[:6], "n_variants": len(variants)})
    if findings:
        c, msg = findings[0]
        ctx.violation("%s (%d failing checks)" % (msg, len(findings)), {"case": {k: v for k, v in c.items() if k != "curves"}, "oracle": msg},
                      tag="C20:" + msg[:30])
    # without the generated tables there is nothing to evaluate the loaders against (the gen obligation is already broken)
    failing = coq_eval_cases("c20", HEADER, terms, shard=200) if gen_ok else list(range(len(terms)))
    ctx.checker_cmds.append("coqc (vm_compute) on %d fatigue-curve selections" % len(terms))
    ctx.oblige("corr/fatigue-selection (%d evaluations)" % len(terms), "corr", not failing, "%d disagreements" % len(failing))


def replay(rp):
    c = rp.get("case")
    if not c:
        print("replay file names a broken obligation, not an input: %s" % rp.get("broken"))
        return 1
    print("recorded:", rp.get("oracle"))
    if "combo" in c:
        r = run_impl("c20_materials", {"cases": [], "combos": [c["combo"]]})["combos"][0]
    elif "sub" in c:
        r = run_impl("c20_materials", {"cases": [c]})["results"][0]
    else:
        r = run_impl("c20_materials", {"cases": [], "custom": [c]})["custom"][0]
    print("observed now:", {k: (v if k != "eval" and k != "eval2" else "...") for k, v in r.items()})
    return 1
