"""
C19 — boundary-condition objects interpolate their data faithfully and
validate shapes.

prove : coq/props/C19.v (model/Interp.v, proofs/InterpProofs.v)
corr  : random BC objects of every kind; every query evaluated by the real
        srlife.receiver evaluators and by the Gallina model (exact rationals of
        the same floats), compared with kind (scalar/array), shape and value.
oracle: the clauses of the property evaluated directly on the implementation's
        answers (grid exactness, bracketing, periodicity, scalar/array
        agreement, constructor and set_bc acceptance).
"""
import math
from fractions import Fraction

from harness.core import safe_fraction, coq_bool, coq_eval_cases, coq_list, q_lit, run_impl

HEADER = ("From Coq Require Import QArith Qabs List Bool ZArith.\nFrom SV Require Import model.Interp.\n"
          "Import ListNotations.\nOpen Scope Q_scope.\n")
TOL = Fraction(1, 10 ** 9)
TWO_PI = 2.0 * math.pi


def hx(x):
    return float(x).hex()


def fq(x):
    """exact rational of a float; NaN / inf (which no model value is close to) become 10^300 so that the comparison
    fails inside Coq instead of crashing the harness"""
    return q_lit(safe_fraction(x))


def linspace(a, b, n):
    import numpy as np
    return [float(v) for v in np.linspace(a, b, n)]


def rnd_val(rng, scale=1000.0):
    return round(rng.uniform(-scale, scale) * 8) / 8.0


def rnd_times(rng, n):
    t = 0.0
    out = []
    for _ in range(n):
        out.append(t)
        t += rng.choice([0.25, 0.5, 1.0, 2.5, 24.0, 0.125])
    return out


# --------------------------------------------------------------------------
# case generation
# --------------------------------------------------------------------------
def gen_object(rng, cid, kind):
    ntime = rng.randint(2, 4)
    nt = rng.randint(2, 6)
    nz = rng.randint(2, 5)
    r = rng.choice([1.0, 9.5, 12.7, 30.0])
    h = rng.choice([1.0, 10.0, 2500.0, 7.3])
    times = rnd_times(rng, ntime)
    zs = linspace(0, h, nz)
    spec = {"kind": kind, "r": hx(r), "h": hx(h), "nt": nt, "nz": nz, "times": [hx(t) for t in times]}
    if kind in ("flux", "fixed"):
        data = [[[rnd_val(rng) for _ in range(nz)] for _ in range(nt)] for _ in range(ntime)]
        spec["data"] = [[[hx(v) for v in row] for row in pl] for pl in data]
        axes = "tuz"
    elif kind == "conv":
        data = [[rnd_val(rng) for _ in range(nz)] for _ in range(ntime)]
        spec["data"] = [[hx(v) for v in row] for row in data]
        axes = "tz"
    elif kind == "film":
        data = {"fluid_T": [rnd_val(rng) for _ in range(nz)], "film": [abs(rnd_val(rng)) for _ in range(nz)]}
        spec["fluid_T"] = [hx(v) for v in data["fluid_T"]]
        spec["film"] = [hx(v) for v in data["film"]]
        axes = "tz"
    else:
        data = [rnd_val(rng) for _ in range(ntime)]
        spec["data"] = [hx(v) for v in data]
        axes = "t"
    meta = {"ntime": ntime, "nt": nt, "nz": nz, "times": times, "zs": zs, "data": data, "axes": axes, "h": h}
    queries = gen_queries(rng, kind, meta)
    return {"id": cid, "what": "object", "spec": spec, "queries": queries, "meta": meta}


def pick_t(rng, meta, mode):
    ts = meta["times"]
    if mode == "grid":
        a = rng.randrange(len(ts))
        return ts[a], a
    if mode == "inside":
        a = rng.randrange(len(ts) - 1)
        w = rng.choice([0.25, 0.5, 0.75, rng.random()])
        return ts[a] + (ts[a + 1] - ts[a]) * w, a
    return (ts[0] - rng.choice([0.5, 3.0]) if rng.random() < 0.5 else ts[-1] + rng.choice([0.5, 3.0])), None


def pick_z(rng, meta, mode):
    zs = meta["zs"]
    if mode == "grid":
        c = rng.randrange(len(zs))
        return zs[c], c
    if mode == "inside":
        c = rng.randrange(len(zs) - 1)
        w = rng.choice([0.25, 0.5, 0.75, rng.random()])
        return zs[c] + (zs[c + 1] - zs[c]) * w, c
    return (zs[0] - 0.37 * meta["h"] if rng.random() < 0.5 else zs[-1] + 0.21 * meta["h"]), None


def pick_u(rng, meta, mode):
    """angle as a fraction of a turn (exact rational) -> (u, column index)"""
    nt = meta["nt"]
    if mode == "grid":
        b = rng.randrange(nt)
        return Fraction(b, nt), b
    if mode == "seam":
        w = rng.choice([Fraction(1, 4), Fraction(1, 2), Fraction(3, 4), Fraction(rng.randrange(1, 64), 64)])
        return Fraction(nt - 1, nt) + w / nt, nt - 1
    b = rng.randrange(nt)
    w = rng.choice([Fraction(1, 4), Fraction(1, 2), Fraction(3, 4), Fraction(rng.randrange(1, 64), 64)])
    return Fraction(b, nt) + w / nt, b


def theta_of(u):
    return TWO_PI * float(u)


def gen_queries(rng, kind, meta):
    qs = []
    axes = meta["axes"]
    fns = ["fluid", "film"] if kind == "film" else [None]

    def add(t, u, z, tag, info=None, fn=None, arrays=None, intq=False):
        args = []
        us = None
        if "t" in axes:
            args.append(t)
        if "u" in axes:
            args.append(u)
        if "z" in axes:
            args.append(z)
        qs.append({"t": t, "u": u, "z": z, "tag": tag, "info": info, "fn": fn, "arrays": arrays, "intq": intq})
        return len(qs) - 1

    n_each = 3
    for fn in fns:
        for _ in range(n_each):
            t, a = pick_t(rng, meta, "grid")
            z, c = pick_z(rng, meta, "grid")
            u, b = pick_u(rng, meta, "grid")
            add(t, u, z, "grid", (a, b, c), fn)
        for _ in range(n_each):
            t, a = pick_t(rng, meta, "inside")
            z, c = pick_z(rng, meta, "inside")
            u, b = pick_u(rng, meta, rng.choice(["inside", "seam"]))
            i0 = add(t, u, z, "inside", (a, b, c), fn)
            if "u" in axes:
                k = rng.choice([1, -1, 2])
                add(t, u + k, z, "periodic", i0, fn)
        if kind not in ("film", "pressure"):
            for _ in range(2):
                t, _a = pick_t(rng, meta, rng.choice(["outside", "inside"]))
                z, _c = pick_z(rng, meta, rng.choice(["outside", "inside"]))
                u, _b = pick_u(rng, meta, "inside")
                add(t, u, z, "extrapolate", None, fn)
        if kind == "pressure":
            t, _ = pick_t(rng, meta, "outside")
            add(t, None, None, "outside-error", None, fn)
        if kind == "film":
            z, _ = pick_z(rng, meta, "outside")
            t, _ = pick_t(rng, meta, "grid")
            add(t, None, z, "outside-error", None, fn)
        # array-valued queries: which arguments are arrays
        naxes = len(axes)
        if kind != "pressure":
            for mask in range(1, 2 ** naxes):
                if rng.random() < 0.6 or mask == 2 ** naxes - 1:
                    n = rng.randint(1, 3)
                    layout = None
                    if mask == 2 ** naxes - 1 and rng.random() < 0.5:
                        n, layout = rng.choice([2, 4, 6]), "fortran2d"      # every argument an array, passed as transposed 2-D views
                    pts = []
                    t0, _ = pick_t(rng, meta, "inside")
                    z0, _ = pick_z(rng, meta, "inside")
                    u0, _ = pick_u(rng, meta, "inside")
                    for _ in range(n):
                        t, _ = pick_t(rng, meta, rng.choice(["grid", "inside"]))
                        z, _ = pick_z(rng, meta, rng.choice(["grid", "inside"]))
                        u, _ = pick_u(rng, meta, rng.choice(["grid", "inside", "seam"]))
                        pts.append((t if mask & 1 else t0,
                                    (u if mask & (2 if naxes == 3 else 0) else u0),
                                    z if mask & (4 if naxes == 3 else 2) else z0))
                    isarr = [bool(mask & 1)] + ([bool(mask & 2)] if naxes == 3 else []) + [bool(mask & (4 if naxes == 3 else 2))]
                    # integer-valued times given as ints (scalar int or int array)
                    intq = False
                    if rng.random() < 0.35:
                        tt = float(int(meta["times"][0]) + rng.randint(0, 1))
                        pts = [(tt, p[1], p[2]) for p in pts]
                        intq = True
                    sc = [add(p[0], p[1], p[2], "scalar-of-vec", None, fn) for p in pts]
                    add(None, None, None, "vec", sc, fn, arrays={"pts": pts, "isarr": isarr, "layout": layout}, intq=intq)
    return qs


def impl_query(q, axes):
    """JSON arguments for the implementation driver"""
    if q["tag"] == "vec":
        pts, isarr = q["arrays"]["pts"], q["arrays"]["isarr"]
        cols = []
        names = [ax for ax in axes]
        for j, ax in enumerate(names):
            vals = [p["tuz".index(ax)] for p in pts]
            vals = [theta_of(v) if ax == "u" else v for v in vals]
            if isarr[j]:
                d = {"arr": [hx(v) for v in vals]}
                if ax == "t" and q["intq"]:
                    d["dtype"] = "int"
                cols.append(d)
            else:
                if ax == "t" and q["intq"]:
                    cols.append(["int", int(vals[0])])
                else:
                    cols.append(hx(vals[0]))
        return {"args": cols, "fn": q["fn"], "layout": q["arrays"].get("layout")}
    args = []
    for ax in axes:
        v = q["tuz".index(ax)] if False else {"t": q["t"], "u": q["u"], "z": q["z"]}[ax]
        args.append(hx(theta_of(v) if ax == "u" else v))
    return {"args": args, "fn": q["fn"]}


def gen_ctor(rng, cid):
    kind = rng.choice(["flux", "fixed", "conv", "film", "pressure"])
    ntime, nt, nz = rng.randint(2, 4), rng.randint(2, 5), rng.randint(2, 5)
    if kind in ("flux", "fixed"):
        doc = [[ntime, nt, nz]]
    elif kind == "conv":
        doc = [[ntime, nz]]
    elif kind == "film":
        doc = [[nz], [nz]]
    else:
        doc = [[ntime]]
    given = [list(s) for s in doc]
    good = rng.random() < 0.4
    if not good:
        j = rng.randrange(len(given))
        s = given[j]
        mode = rng.choice(["pm", "perm", "drop", "extra", "one"])
        if mode == "pm":
            i = rng.randrange(len(s))
            s[i] = max(1, s[i] + rng.choice([-1, 1]))
        elif mode == "perm" and len(s) > 1:
            i = rng.randrange(len(s) - 1)
            s[i], s[i + 1] = s[i + 1], s[i]
        elif mode == "drop" and len(s) > 1:
            s.pop(rng.randrange(len(s)))
        elif mode == "extra":
            s.insert(rng.randrange(len(s) + 1), 1)
        else:
            s[rng.randrange(len(s))] = 1
    times = rnd_times(rng, ntime)

    def zeros(shape):
        if len(shape) == 1:
            return [hx(1.0)] * shape[0]
        return [zeros(shape[1:]) for _ in range(shape[0])]

    spec = {"kind": kind, "r": hx(1.0), "h": hx(2.0), "nt": nt, "nz": nz, "times": [hx(t) for t in times]}
    if kind == "film":
        spec["fluid_T"] = zeros(given[0])
        spec["film"] = zeros(given[1])
    else:
        spec["data"] = zeros(given[0])
    return {"id": cid, "what": "ctor", "spec": spec, "queries": [],
            "meta": {"kind": kind, "ntime": ntime, "nt": nt, "nz": nz, "given": given, "doc": doc}}


def gen_setbc(rng, cid):
    r = rng.choice([10.0, 12.7, 0.5, 33.3])
    t = rng.choice([1.0, 0.25, 0.1])
    h = rng.choice([100.0, 5000.0, 1.5])
    loc = rng.choice(["inner", "outer"])
    target = (r - t) if loc == "inner" else r
    mode = rng.choice(["exact", "tiny", "r-off", "h-off", "both-off", "swap"])
    bc_r, bc_h = target, h
    if mode == "tiny":
        bc_r = target * (1 + 1e-9)
        bc_h = h * (1 - 1e-9)
    elif mode == "r-off":
        bc_r = target * (1 + rng.choice([1e-3, -2e-4, 0.5]))
    elif mode == "h-off":
        bc_h = h * (1 + rng.choice([1e-3, -2e-4, 0.5]))
    elif mode == "both-off":
        bc_r = target * 1.01
        bc_h = h * 0.99
    elif mode == "swap":
        bc_r = r if loc == "inner" else r - t
    return {"id": cid, "what": "setbc", "r": hx(r), "t": hx(t), "h": hx(h), "bc_r": hx(bc_r), "bc_h": hx(bc_h),
            "loc": loc, "meta": {"r": r, "t": t, "h": h, "bc_r": bc_r, "bc_h": bc_h, "loc": loc, "mode": mode}}


# --------------------------------------------------------------------------
# Coq side
# --------------------------------------------------------------------------
def coq_arg(vals, isarr, ax):
    def one(v):
        return q_lit(v) if ax == "u" else fq(v)
    if isarr:
        return "Ar " + coq_list([one(v) for v in vals])
    return "Sc " + one(vals[0])


def coq_object(case, res):
    """one bool term: every query of this object agrees with the model"""
    m = case["meta"]
    kind = case["spec"]["kind"]
    axes = m["axes"]
    ts = coq_list([fq(t) for t in m["times"]])
    zs = coq_list([fq(z) for z in m["zs"]])
    lets = ["let ts := %s in" % ts, "let zs := %s in" % zs]
    if kind in ("flux", "fixed"):
        data = coq_list([coq_list([coq_list([fq(v) for v in row]) for row in pl]) for pl in m["data"]])
        lets.append("let data := %s in" % data)
        lets.append("let base := fun v : list Q => interp3_periodic ts %d%%positive zs data (nth 0 v 0) (nth 1 v 0) (nth 2 v 0) in" % m["nt"])
    elif kind == "conv":
        data = coq_list([coq_list([fq(v) for v in row]) for row in m["data"]])
        lets.append("let data := %s in" % data)
        lets.append("let base := fun v : list Q => interp2 ts zs data (nth 0 v 0) (nth 1 v 0) in")
    elif kind == "film":
        lets.append("let dfluid := %s in" % coq_list([fq(v) for v in m["data"]["fluid_T"]]))
        lets.append("let dfilm := %s in" % coq_list([fq(v) for v in m["data"]["film"]]))
    else:
        lets.append("let data := %s in" % coq_list([fq(v) for v in m["data"]]))
    conj = []
    for q, r in zip(case["queries"], res["queries"]):
        impl_vals = coq_list([fq(float.fromhex(v)) for v in r["values"]])
        if kind in ("film", "pressure"):
            # interp1d: scalar or array of the single spatial/time argument, error outside the range
            if kind == "film":
                xs, ys = "zs", ("dfilm" if q["fn"] == "film" else "dfluid")
                ax = "z"
            else:
                xs, ys, ax = "ts", "data", "t"
            if q["tag"] == "vec":
                pts, isarr = q["arrays"]["pts"], q["arrays"]["isarr"]
                j = axes.index(ax)
                vals = [p["tuz".index(ax)] for p in pts]
                if isarr[j]:
                    exp = "(map (fun x => interp1_checked %s %s x) %s)" % (xs, ys, coq_list([fq(v) for v in vals]))
                    ok = coq_bool(r["kind"] == "array" and len(r.get("shape", [])) == 1)
                    conj.append("(%s && check_opts %s %s)" % (ok, exp, impl_vals))
                else:
                    exp = "[interp1_checked %s %s %s]" % (xs, ys, fq(vals[0]))
                    conj.append("(%s && check_opts %s %s)" % (coq_bool(r["kind"] == "scalar"), exp, impl_vals))
            else:
                x = {"t": q["t"], "z": q["z"]}[ax]
                exp = "interp1_checked %s %s %s" % (xs, ys, fq(x))
                if r["kind"] == "error":
                    conj.append("(match %s with None => true | Some _ => false end)" % exp)
                else:
                    conj.append("(%s && check_opts [%s] %s)" % (coq_bool(r["kind"] == "scalar"), exp, impl_vals))
            continue
        if q["tag"] == "vec":
            pts, isarr = q["arrays"]["pts"], q["arrays"]["isarr"]
            args = []
            for j, ax in enumerate(axes):
                vals = [p["tuz".index(ax)] for p in pts]
                args.append(coq_arg(vals, isarr[j], ax))
            kind_ok = r["kind"] == "array" and r.get("shape") == [len(pts)]
        else:
            args = []
            for ax in axes:
                v = {"t": q["t"], "u": q["u"], "z": q["z"]}[ax]
                args.append(coq_arg([v], False, ax))
            kind_ok = r["kind"] == "scalar"
        conj.append("close_res %s (dispatch base %s) %s %s" % (q_lit(TOL), coq_list(args), coq_bool(kind_ok), impl_vals))
    body = " && ".join(conj) if conj else "true"
    return "(%s %s)" % (" ".join(lets), body)


CHECK_OPTS = """
Definition check_opts (m : list (option Q)) (impl : list Q) : bool :=
  Nat.eqb (length m) (length impl) &&
  forallb (fun p => match fst p with Some v => close %s v (snd p) | None => false end) (combine m impl).
""" % q_lit(TOL)


def kind_name(k):
    return {"flux": "KFlux", "fixed": "KFixed", "conv": "KConv", "film": "KFilm", "pressure": "KPressure"}[k]


def coq_ctor(case, res):
    m = case["meta"]
    given = coq_list([coq_list(["%d%%nat" % d for d in s]) for s in m["given"]])
    return "Bool.eqb (ctor_accepts %s %d %d %d %s) %s" % (kind_name(m["kind"]), m["ntime"], m["nt"], m["nz"], given,
                                                        coq_bool(res["ctor"] == "accept"))


def coq_setbc(case, res):
    m = case["meta"]
    return "Bool.eqb (set_bc_accepts %s %s %s %s %s %s) %s" % (
        coq_bool(m["loc"] == "inner"), fq(m["r"]), fq(m["t"]), fq(m["h"]), fq(m["bc_r"]), fq(m["bc_h"]),
        coq_bool(res["ctor"] == "accept"))


# --------------------------------------------------------------------------
# oracle: the property's clauses directly on the implementation's answers
# --------------------------------------------------------------------------
def val(r):
    return [float.fromhex(v) for v in r["values"]]


def close_f(a, b, tol=1e-9):
    return abs(a - b) <= tol * (1 + abs(b))


def datum(case, fn, a, b, c):
    m = case["meta"]
    k = case["spec"]["kind"]
    if k in ("flux", "fixed"):
        return m["data"][a][b % m["nt"]][c]
    if k == "conv":
        return m["data"][a][c]
    if k == "film":
        return m["data"]["film" if fn == "film" else "fluid_T"][c]
    return m["data"][a]


def oracle_object(case, res):
    """returns list of (message, query index)"""
    bad = []
    k = case["spec"]["kind"]
    qs, rs = case["queries"], res["queries"]
    for i, (q, r) in enumerate(zip(qs, rs)):
        tag = q["tag"]
        if tag == "outside-error":
            continue
        if r["kind"] == "error":
            bad.append(("query raised %s: %s" % (r["pytype"], r.get("msg", "")), i, {"check": "no-error"}))
            continue
        if tag == "vec":
            n = len(q["arrays"]["pts"])
            isarr = q["arrays"]["isarr"]
            if k == "film":   # time-independent: only the height argument shapes the result
                isarr = [isarr[case["meta"]["axes"].index("z")]]
            if not any(isarr):
                if r["kind"] != "scalar":
                    bad.append(("scalar height argument returned %s" % r["kind"], i, {"check": "kind", "expected": "scalar"}))
            else:
                if r["kind"] != "array" or r.get("shape") != [n]:
                    bad.append(("array-valued query did not return an array of the arguments' shape (%s, %s)" % (r["kind"], r.get("shape")), i, {"check": "kind", "expected": "array", "shape": [n]}))
                    continue
                sc = [val(rs[j])[0] for j in q["info"] if rs[j]["kind"] == "scalar"]
                if len(sc) == n and not all(close_f(x, y) for x, y in zip(val(r), sc)):
                    bad.append(("array-valued query differs from the element-wise scalar queries: %s vs %s" % (val(r), sc), i, {"check": "values", "expected": sc}))
            continue
        if r["kind"] != "scalar":
            bad.append(("scalar arguments returned %s (%s)" % (r["kind"], r["pytype"]), i, {"check": "kind", "expected": "scalar"}))
            continue
        v = val(r)[0]
        if tag == "grid":
            a, b, c = q["info"]
            d = datum(case, q["fn"], a if a is not None else 0, b if b is not None else 0, c if c is not None else 0)
            if not close_f(v, d, 1e-12):
                bad.append(("grid point query returned %r, stored datum is %r" % (v, d), i, {"check": "values", "expected": [d]}))
        elif tag == "inside":
            a, b, c = q["info"]
            corners = []
            for da in ((0, 1) if "t" in case["meta"]["axes"] and k != "film" else (0,)):
                for db in ((0, 1) if "u" in case["meta"]["axes"] else (0,)):
                    for dc in ((0, 1) if "z" in case["meta"]["axes"] else (0,)):
                        corners.append(datum(case, q["fn"], (a or 0) + da, (b or 0) + db, (c or 0) + dc))
            # multilinear interpolation of the cell's corner data (exact rationals)
            m = case["meta"]
            def w_of(x, grid, j):
                return (Fraction(x) - Fraction(grid[j])) / (Fraction(grid[j + 1]) - Fraction(grid[j]))
            wt = w_of(q["t"], m["times"], a) if ("t" in m["axes"] and k != "film") else None
            wz = w_of(q["z"], m["zs"], c) if "z" in m["axes"] else None
            wu = (Fraction(q["u"]) * m["nt"] - b) if "u" in m["axes"] else None
            exact = Fraction(0)
            for da in ((0, 1) if wt is not None else (0,)):
                for db in ((0, 1) if wu is not None else (0,)):
                    for dc in ((0, 1) if wz is not None else (0,)):
                        wgt = Fraction(1)
                        if wt is not None:
                            wgt *= wt if da else 1 - wt
                        if wu is not None:
                            wgt *= wu if db else 1 - wu
                        if wz is not None:
                            wgt *= wz if dc else 1 - wz
                        wgt_d = Fraction(datum(case, q["fn"], (a or 0) + da, (b or 0) + db, (c or 0) + dc))
                        exact += wgt * wgt_d
            if not close_f(v, float(exact)):
                bad.append(("value %r is not the multilinear interpolation %r of the neighbouring data" % (v, float(exact)), i, {"check": "values", "expected": [float(exact)]}))
            lo, hi = min(corners), max(corners)
            eps = 1e-9 * (1 + max(abs(lo), abs(hi)))
            if not (lo - eps <= v <= hi + eps):
                bad.append(("value %r is not between the neighbouring data [%r, %r]" % (v, lo, hi), i, {"check": "range", "lo": lo, "hi": hi}))
        elif tag == "periodic":
            r0 = rs[q["info"]]
            if r0["kind"] == "scalar" and not close_f(v, val(r0)[0]):
                bad.append(("not periodic: f(theta + 2 pi k) = %r but f(theta) = %r" % (v, val(r0)[0]), i, {"check": "values", "expected": [val(r0)[0]]}))
    return bad


def describe_query(case, i):
    q = case["queries"][i]
    if q["tag"] == "vec":
        return {"tag": "vec", "points": [[p[0], str(p[1]), p[2]] for p in q["arrays"]["pts"]],
                "array_args": q["arrays"]["isarr"], "int_times": q["intq"], "fn": q["fn"]}
    return {"tag": q["tag"], "t": q["t"], "u_fraction_of_turn": str(q["u"]), "z": q["z"], "fn": q["fn"]}


def to_impl(case):
    if case["what"] == "setbc":
        return {k: v for k, v in case.items() if k != "meta"}
    axes = case["meta"].get("axes", "")
    return {"id": case["id"], "what": case["what"], "spec": case["spec"],
            "queries": [impl_query(q, axes) for q in case["queries"]]}


def generate(ctx):
    rng = ctx.rng
    cases = []
    n_obj = ctx.budget(120, 900)
    kinds = ["flux", "fixed", "conv", "film", "pressure"]
    for i in range(n_obj):
        cases.append(gen_object(rng, len(cases), kinds[i % 5] if i < 20 else rng.choice(["flux", "flux", "fixed", "conv", "film", "pressure"])))
    for _ in range(ctx.budget(150, 800)):
        cases.append(gen_ctor(rng, len(cases)))
    for _ in range(ctx.budget(120, 600)):
        cases.append(gen_setbc(rng, len(cases)))
    return cases


def evaluate(ctx, cases):
    res = run_impl("c19_bc", {"cases": [to_impl(c) for c in cases]}, timeout=900)["results"]
    terms, term_case = [], []
    findings = []
    for c, r in zip(cases, res):
        if str(r["ctor"]).startswith("error"):
            findings.append((c, "unexpected exception " + r["ctor"], None, {"check": "ctor", "expected": "no-exception"}))
            continue
        if c["what"] == "setbc":
            m = c["meta"]
            ctx.case(("setbc", m["mode"], m["loc"], m["r"], m["t"], m["h"]), m["mode"] != "exact")
            ctx.count("setbc:" + m["mode"])
            target = (m["r"] - m["t"]) if m["loc"] == "inner" else m["r"]
            should = m["mode"] in ("exact", "tiny")
            if (r["ctor"] == "accept") != should:
                findings.append((c, "set_bc %s a condition with radius %r, height %r on a tube with %s radius %r, height %r"
                                 % ("accepted" if r["ctor"] == "accept" else ("rejected" if r["ctor"] == "reject" else r["ctor"]),
                                    m["bc_r"], m["bc_h"], m["loc"], target, m["h"]), None,
                                 {"check": "ctor", "expected": "accept" if should else "reject"}))
            terms.append(coq_setbc(c, r)); term_case.append(c)
        elif c["what"] == "ctor":
            m = c["meta"]
            ctx.case(("ctor", m["kind"], str(m["given"]), m["ntime"], m["nt"], m["nz"]), m["given"] != m["doc"])
            ctx.count("ctor:" + m["kind"] + (":documented" if m["given"] == m["doc"] else ":wrong-shape"))
            should = m["given"] == m["doc"]
            if (r["ctor"] == "accept") != should:
                findings.append((c, "%s constructor %s data of shape %s; documented shape for ntime=%d nt=%d nz=%d is %s"
                                 % (m["kind"], "accepted" if r["ctor"] == "accept" else "rejected", m["given"],
                                    m["ntime"], m["nt"], m["nz"], m["doc"]), None,
                                 {"check": "ctor", "expected": "accept" if should else "reject"}))
            terms.append(coq_ctor(c, r)); term_case.append(c)
        else:
            k = c["spec"]["kind"]
            ctx.count("object:" + k)
            if r["ctor"] != "accept":
                findings.append((c, "%s constructor rejected correctly shaped data" % k, None, {"check": "ctor", "expected": "accept"}))
                continue
            for q in c["queries"]:
                ctx.case((c["id"], q["tag"], str(q["t"]), str(q["u"]), str(q["z"]), str(q["arrays"])), q["tag"] != "grid")
                ctx.count("query:" + q["tag"])
            for msg, qi, exp in oracle_object(c, r):
                findings.append((c, "%s: %s" % (k, msg), qi, exp))
            terms.append(coq_object(c, r)); term_case.append(c)
    return res, terms, term_case, findings


def strip(c):
    d = {k: v for k, v in c.items() if k not in ("meta", "queries")}
    return d


def run(ctx):
    ctx.rule = ("random boundary-condition objects of the five kinds (grid sizes 2-6, irregular time grids), queries at grid "
                "points, inside cells, in the seam cell, shifted by whole turns, outside the grid, array-valued in every "
                "argument pattern (incl. integer times); constructor calls with documented and perturbed shapes; set_bc "
                "with exact, round-off and mismatching radius/height. non-trivial = not a plain grid-point query / not "
                "the documented shape / not the exact match; distinct by input")
    ctx.trusted += ["scipy RegularGridInterpolator/interp1d are the model's hypotheses (multilinear, linear extrapolation / range error); exercised by every case",
                    "angles are exact fractions of a turn in the model and 2*pi*u in floats in the implementation; tolerance 1e-9 relative"]
    from harness import translators as _tr
    ctx.trusted += ["translator harness/translators/bcfacts.py (normalised source text of the grid / wrap / shape-test lines)"]
    _tr.import_all()
    ctx.gen("BCFacts", _tr.REGISTRY["BCFacts"])
    ctx.prove("C19", expect_theorems=["C19_grid_exact", "C19_periodic", "C19_vector_agrees_with_scalar"])
    ctx.prove("C19_source")
    if ctx.tier == "thorough":
        ctx.coqchk("C19")
        ctx.coqchk("C19_source")
    cases = generate(ctx)
    res, terms, term_case, findings = evaluate(ctx, cases)
    for c in cases[:3]:
        ctx.sample({"what": c["what"], "spec_kind": c.get("spec", {}).get("kind"), "n_queries": len(c.get("queries", [])),
                    "first_query": describe_query(c, 0) if c.get("queries") else None, "meta": {k: v for k, v in c["meta"].items() if k not in ("data",)}})
    if findings:
        findings.sort(key=lambda f: (len(f[0].get("queries", [])), f[0]["id"]))
        c, msg, qi, exp = findings[0]
        impl_case = to_impl(c)
        if qi is not None:   # keep only the failing query
            impl_case["queries"] = [impl_case["queries"][qi]]
        replay = {"case": impl_case, "expect": exp, "oracle": msg, "n_failing": len(findings)}
        if qi is not None:
            replay["query"] = describe_query(c, qi)
        ctx.violation("%s (%d failing checks in total)" % (msg, len(findings)), replay, tag="C19:" + msg[:50])
    failing = coq_eval_cases("c19", HEADER + CHECK_OPTS, terms, shard=60)
    ctx.checker_cmds.append("coqc (vm_compute) on %d generated object/ctor/set_bc comparisons" % len(terms))
    detail = ""
    if failing:
        c = term_case[failing[0]]
        detail = "first disagreement: case %d (%s %s)" % (c["id"], c["what"], c.get("spec", {}).get("kind", ""))
    ctx.oblige("corr/bc-evaluators (%d objects and calls)" % len(terms), "corr", not failing,
               "%d disagreements; %s" % (len(failing), detail))
    ctx.distribution["corr_disagreements"] = len(failing)


def replay(rp):
    c = rp.get("case")
    if not c:
        print("replay file names a broken obligation, not an input: %s" % rp.get("broken"))
        return 1
    res = run_impl("c19_bc", {"cases": [c]})["results"][0]
    exp = rp["expect"]
    print("recorded:", rp.get("oracle"))
    print("observed now:", res)
    ok = True
    if exp["check"] == "ctor":
        ok = (res["ctor"] == exp["expected"]) if exp["expected"] != "no-exception" else not str(res["ctor"]).startswith("error")
    elif res.get("ctor") != "accept":
        ok = False
    else:
        r = res["queries"][0]
        if exp["check"] == "no-error":
            ok = r["kind"] != "error"
        elif exp["check"] == "kind":
            ok = r["kind"] == exp["expected"] and ("shape" not in exp or r.get("shape") == exp["shape"])
        elif exp["check"] == "values":
            ok = r["kind"] != "error" and len(r["values"]) == len(exp["expected"]) and all(
                close_f(float.fromhex(a), b) for a, b in zip(r["values"], exp["expected"]))
        elif exp["check"] == "range":
            ok = r["kind"] == "scalar" and exp["lo"] - 1e-9 * (1 + abs(exp["lo"])) <= float.fromhex(r["values"][0]) <= exp["hi"] + 1e-9 * (1 + abs(exp["hi"]))
    if ok:
        print("property holds on this input")
        return 0
    print("VIOLATION reproduced")
    return 1
