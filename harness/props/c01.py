"""
C01 — metallic life is the envelope crossing of the worst material point.

prove : coq/props/C01.v (model/Life.v, proofs/LifeProofs.v)
corr  : (a) StructuralMaterial.inside_envelope on and next to the envelope
        (exact booleans); (b) determine_life with per-point per-day damages
        supplied directly (reshape / min / extrapolation / root find against
        the model's closed-form crossing), lumped and last-cycle modes;
        (c) creep_damage / fatigue_damage / id_cycles / determine_life on
        synthetic stress-strain-temperature histories with a rational stub
        material whose laws the model evaluates exactly.
oracle: with srlife's own extrapolation and envelope functions, every point is
        inside just below the reported life and some point is outside just
        above it; 0 iff outside at one repetition; unbounded iff inside at 1e6.
        Repeated with the shipped metallic materials.
"""
from fractions import Fraction as F

import numpy as np

from harness.core import safe_fraction, coq_bool, coq_eval_cases, coq_list, q_lit, run_impl

HEADER = ("From Coq Require Import QArith Qabs List Bool ZArith.\nFrom SV Require Import model.Life.\n"
          "Import ListNotations.\nOpen Scope Q_scope.\n")
TOL = F(1, 10 ** 6)
COMPS = ["_xx", "_yy", "_zz", "_yz", "_xz", "_xy"]
ENVS = [(0.1, 0.1), (0.3, 0.3), (0.01, 0.1), (0.12, 0.34)]
SHIPPED = ["316H", "740H", "800H", "A230", "A282", "A617"]


def hx(x):
    return float(x).hex()


def fq(x):
    return q_lit(safe_fraction(x))


def unhex(v):
    return float("inf") if v == "inf" else float.fromhex(v)


# --------------------------------------------------------------------------
def gen_envelope(rng, cid):
    xk, yk = rng.choice(ENVS)
    pts = []
    for _ in range(12):
        f = rng.choice([0.0, xk, 1.0, xk / 2, (1 + xk) / 2, rng.random() * 1.2, xk * (1 + rng.choice([-1e-9, 1e-9]))])
        if f < xk:
            e = (yk - 1) / xk * f + 1
        else:
            e = (0 - yk) / (1 - xk) * (f - xk) + yk
        # exactly-on-the-envelope points only where float and exact arithmetic agree: the three corners
        exact_pt = f in (0.0, xk, 1.0)
        c = max(0.0, e + rng.choice(([0.0] if exact_pt else []) + [1e-9, -1e-9, 0.05, -0.05, rng.uniform(-0.3, 0.3)]))
        pts.append((f, c))
    return {"id": cid, "what": "envelope", "material": {"kind": "envelope", "xk": hx(xk), "yk": hx(yk)},
            "points": [[hx(f), hx(c)] for f, c in pts], "meta": {"xk": xk, "yk": yk, "pts": pts}}


def gen_points(rng, cid):
    xk, yk = rng.choice(ENVS)
    days = rng.randint(1, 4)
    ntubes = rng.randint(1, 3)
    level = rng.choice(["zero", "finite", "finite", "finite", "inf", "mixed", "triple", "triple", "early", "early"])
    if level == "early":
        days = rng.randint(2, 4)        # loading so severe that the envelope is crossed within the represented days
    tubes = []
    for _ in range(ntubes):
        ne, nq = rng.randint(1, 4), rng.randint(1, 6)
        def dmg():
            base = {"zero": 0.7, "finite": 10 ** rng.uniform(-5.5, -1.5), "inf": 10 ** rng.uniform(-9, -7.5),
                    "mixed": 10 ** rng.uniform(-9, -1), "triple": 1e-6, "early": rng.uniform(0.6, 0.95) / (days - 1 if days > 1 else 1)}[level]
            return float(np.float32(base * (rng.uniform(0.2, 1.0) if level != "early" else rng.uniform(0.95, 1.0))))
        Dc = [[[dmg() for _ in range(nq)] for _ in range(ne)] for _ in range(days)]
        Df = [[[dmg() * rng.choice([0.0, 1.0, 1.0]) for _ in range(nq)] for _ in range(ne)] for _ in range(days)]
        if level == "early":
            # the sum of all but the last day is inside the envelope, one more application of the last day is not
            Df = [[[0.0 for _ in range(nq)] for _ in range(ne)] for _ in range(days)]
        if level == "triple":
            # a creep-heavy, a fatigue-heavy and a mixed point that neither dominates in both damages but that the
            # interaction envelope makes the controlling one; in every order
            base = 10 ** rng.uniform(-4.5, -2.5)
            pts = [(base, base * 1e-3), (base * 1e-3, base), (0.8 * base, 0.8 * base)]
            rng.shuffle(pts)
            ne, nq = 1, 3
            Dc = [[[float(np.float32(p[0] * (1 + 0.01 * d))) for p in pts]] for d in range(days)]
            Df = [[[float(np.float32(p[1] * (1 + 0.01 * d))) for p in pts]] for d in range(days)]
        tubes.append({"Dc": Dc, "Df": Df})
    mode = rng.choice(["lump", "lump", "last"]) if level != "early" else "last"
    return {"id": cid, "what": "points", "material": {"kind": "envelope", "xk": hx(xk), "yk": hx(yk)},
            "extrapolate": mode, "days": days,
            "tubes": [{"Dc": [[[hx(v) for v in r] for r in d] for d in t["Dc"]],
                       "Df": [[[hx(v) for v in r] for r in d] for d in t["Df"]]} for t in tubes],
            "meta": {"xk": xk, "yk": yk, "tubes": tubes, "mode": mode, "days": days, "level": level}}


def rnd(rng, lo, hi, q=64):
    return round(rng.uniform(lo, hi) * q) / q


def gen_history(rng, cid, shipped=None, bad_times=False):
    xk, yk = rng.choice(ENVS)
    days = rng.randint(1, 3)
    spd = rng.randint(2, 4)
    period = rng.choice([24.0, 10.0, 0.5])
    times = [0.0]
    for d in range(days):
        cuts = sorted(rng.sample(range(1, 16), spd - 1))
        for c in cuts:
            times.append(d * period + period * c / 16.0)
        times.append((d + 1) * period)
    if bad_times:
        j = rng.randrange(1, len(times))
        times[j] = times[j] + period / 64.0
        times = sorted(times)
    nt = len(times)
    npanels = rng.randint(1, 2)
    ne, nq = rng.randint(1, 2), rng.randint(1, 3)
    panels = []
    meta_tubes = []
    for _ in range(npanels):
        pt = []
        for _ in range(rng.randint(1, 2)):
            quad = {}
            arrs = {}
            if shipped:
                T = [[[rnd(rng, 850, 950) for _ in range(nq)] for _ in range(ne)] for _ in range(nt)]
                smag, emag = rng.choice([30.0, 80.0, 150.0]), rng.choice([2e-4, 1e-3, 3e-3])
            else:
                T = [[[rnd(rng, 500, 900) for _ in range(nq)] for _ in range(ne)] for _ in range(nt)]
                smag, emag = 100.0, 1.0
            arrs["temperature"] = T
            for comp in COMPS:
                arrs["stress" + comp] = [[[rnd(rng, -smag, smag) for _ in range(nq)] for _ in range(ne)] for _ in range(nt)]
                arrs["mechanical_strain" + comp] = [[[rnd(rng, -1, 1, 1024) * emag for _ in range(nq)] for _ in range(ne)] for _ in range(nt)]
            for k, v in arrs.items():
                quad[k] = [[[hx(x) for x in r] for r in d] for d in v]
            pt.append({"quad": quad})
            meta_tubes.append(arrs)
        panels.append(pt)
    if shipped:
        mat = {"kind": "shipped", "name": shipped}
        p = None
    else:
        p = {"a": rnd(rng, 1e3, 1e5), "b": rnd(rng, 0.001, 0.01, 4096), "c": rnd(rng, 0.001, 0.01, 4096),
             "A": rnd(rng, 1e2, 1e5), "B": rnd(rng, 0.1, 4.0), "C": rnd(rng, 0.001, 0.01, 4096), "xk": xk, "yk": yk}
        mat = {"kind": "stub", "p": {k: hx(v) for k, v in p.items()}}
    mode = rng.choice(["lump", "lump", "last"])
    return {"id": cid, "what": "histories", "material": mat, "extrapolate": mode,
            "receiver": {"period": hx(period), "days": days, "times": [hx(t) for t in times], "panels": panels},
            "meta": {"p": p, "times": times, "period": period, "days": days, "tubes": meta_tubes, "ne": ne, "nq": nq,
                     "mode": mode, "shipped": shipped, "bad_times": bad_times}}


# --------------------------------------------------------------------------
# Coq terms
# --------------------------------------------------------------------------
def coq_points(tubes, days):
    """tubes: list of {"Dc": [day][elem][q], "Df": ...} -> list (list (list Q * list Q))"""
    out = []
    for t in tubes:
        Dc, Df = np.array(t["Dc"]), np.array(t["Df"])
        pts = []
        for e in range(Dc.shape[1]):
            for q in range(Dc.shape[2]):
                pts.append("(%s, %s)" % (coq_list([fq(Dc[d, e, q]) for d in range(days)]),
                                         coq_list([fq(Df[d, e, q]) for d in range(days)])))
        out.append(coq_list(pts))
    return coq_list(out)


def coq_life_check(model_term, life):
    inf = life == float("inf")
    return "res_agrees %s (%s) %s %s" % (q_lit(TOL), model_term, coq_bool(inf), fq(0.0 if inf else life))


def t6(arrs, prefix, t, e, q):
    return "(mk6 %s)" % " ".join(fq(arrs[prefix + c][t][e][q]) for c in COMPS)


def expected_inds(times, period, days):
    """indices the documentation implies: times that are whole multiples of the period"""
    return [i for i, t in enumerate(times) if F(t) / F(period) == (F(t) / F(period)).__floor__()]


def coq_history_terms(case, res):
    """terms: id_cycles, per-point per-day damages, end-to-end life"""
    m = case["meta"]
    p = m["p"]
    times, period, days = m["times"], m["period"], m["days"]
    terms = []
    tl = coq_list([fq(t) for t in times])
    inds_impl = res["inds"][0]
    if inds_impl == "error":
        terms.append("match id_cycles %s %s %d with None => true | Some _ => false end" % (tl, fq(period), days))
        return terms
    terms.append("match id_cycles %s %s %d with Some l => list_beq nat Nat.eqb l %s | None => false end"
                 % (tl, fq(period), days, coq_list(["%d%%nat" % i for i in inds_impl])))
    inds = inds_impl
    tR = "(fun T v2 : Q => %s / (1 + %s * v2 + %s * T))" % (fq(p["a"]), fq(p["b"]), fq(p["c"]))
    Nf = "(fun T r2 : Q => %s / (1 + %s * r2 + %s * T))" % (fq(p["A"]), fq(p["B"]), fq(p["C"]))
    tube_terms = []
    for ti, arrs in enumerate(m["tubes"]):
        Dc = np.array([unhex(v) for v in res["Dc"][ti]]).reshape(res["dshape"])
        Df = np.array([unhex(v) for v in res["Df"][ti]]).reshape(res["dshape"])
        pts = []
        for e in range(m["ne"]):
            for q in range(m["nq"]):
                dcs, dfs = [], []
                for d in range(days):
                    steps = coq_list(["(%s, %s, %s)" % (fq(times[t] - times[t - 1]), fq(arrs["temperature"][t][e][q]),
                                                          t6(arrs, "stress", t, e, q))
                                      for t in range(inds[d] + 1, inds[d + 1] + 1)])
                    samples = coq_list(["(%s, %s)" % (fq(arrs["temperature"][t][e][q]), t6(arrs, "mechanical_strain", t, e, q))
                                        for t in range(inds[d], inds[d + 1])])
                    cterm = "(creep_day %s %s)" % (tR, steps)
                    fterm = "(fatigue_day %s %s)" % (Nf, samples)
                    terms.append("close %s %s %s && close %s %s %s" % (q_lit(TOL), cterm, fq(Dc[d, e, q]),
                                                                        q_lit(TOL), fterm, fq(Df[d, e, q])))
                    dcs.append(cterm)
                    dfs.append(fterm)
                pts.append("(%s, %s)" % (coq_list(dcs), coq_list(dfs)))
        tube_terms.append(coq_list(pts))
    life = unhex(res["life"])
    terms.append(coq_life_check("receiver_life %s %s %s %s" % (coq_bool(m["mode"] == "lump"), fq(p["xk"]), fq(p["yk"]),
                                                               coq_list(tube_terms)), life))
    return terms


LIST_BEQ = """
Fixpoint list_beq (A : Type) (eqb : A -> A -> bool) (x y : list A) : bool :=
  match x, y with [] , [] => true | a :: x', b :: y' => eqb a b && list_beq A eqb x' y' | _, _ => false end.
"""


# --------------------------------------------------------------------------
def probe_oracle(res):
    """the property on the implementation's own membership probes"""
    life = unhex(res["life"])
    pr = {unhex(k): v for k, v in res.get("probes", {}).items()}
    def all_in(N):
        return all(all(t) for t in pr[N])
    if not pr:
        return None
    in1, inmax = all_in(1.0), all_in(1.0e6)
    if life == 0:
        return None if not in1 else "life 0 reported although every point is inside the envelope after one repetition"
    if not in1:
        return "a point is outside the envelope after one repetition but the reported life is %r" % life
    if life == float("inf"):
        return None if inmax else "unbounded life reported although a point is outside the envelope at 1e6 repetitions"
    if inmax:
        return "finite life %r reported although every point is inside the envelope at 1e6 repetitions" % life
    lo = [k for k in pr if k < life and k not in (1.0, 1.0e6)]
    hi = [k for k in pr if k > life and k not in (1.0, 1.0e6)]
    if lo and not all_in(lo[0]):
        return "just below the reported life %r a point is already outside the envelope" % life
    if hi and all_in(hi[0]):
        return "just above the reported life %r every point is still inside the envelope" % life
    return None


def strip(case):
    return {k: v for k, v in case.items() if k != "meta"}


def run(ctx):
    ctx.rule = ("(a) envelope membership at points on / next to / away from the two segments for 4 knees; (b) random per-point "
                "per-day damages (1-3 tubes, 1-4 elements, 1-6 quadrature points, 1-4 days) spanning zero / finite / unbounded "
                "life, lumped and last-cycle modes; (c) synthetic histories (1-2 panels, 1-2 tubes, 1-3 days, 2-4 steps per "
                "day, 3 periods) with a rational stub material, incl. time grids that do not match the period; (d) the same "
                "histories with the shipped metallic materials (oracle only). non-trivial = finite non-zero life or a point "
                "next to the envelope; distinct by input")
    ctx.trusted += ["scipy.optimize.brentq (its result is compared with the model's closed-form crossing at 1e-6 relative)",
                    "stub material with rational laws in (T, vm^2) and (T, range^2); shipped Larson-Miller / fatigue laws are exercised by the oracle only",
                    "multiprocess.Pool.imap ordering (nthreads=1)"]
    from harness import translators
    ctx.trusted += ["translator harness/translators/lifeformulas.py (Python ast -> Gallina expressions and normalised source text)"]
    translators.import_all()
    ctx.gen("LifeFormulas", translators.REGISTRY["LifeFormulas"])
    ctx.prove("C01")
    ctx.prove("C01_formulas")
    if ctx.tier == "thorough":
        ctx.coqchk("C01")
        ctx.coqchk("C01_formulas")
    rng = ctx.rng
    cases = []
    for _ in range(ctx.budget(40, 200)):
        cases.append(gen_envelope(rng, len(cases)))
    for _ in range(ctx.budget(120, 800)):
        cases.append(gen_points(rng, len(cases)))
    for i in range(ctx.budget(40, 250)):
        cases.append(gen_history(rng, len(cases), bad_times=(i % 10 == 9)))
    for i in range(ctx.budget(12, 60)):
        cases.append(gen_history(rng, len(cases), shipped=SHIPPED[i % len(SHIPPED)]))
    results = run_impl("life_run", {"cases": [strip(c) for c in cases]}, timeout=1500)["results"]
    terms, tinfo, findings = [], [], []
    for c, r in zip(cases, results):
        m = c["meta"]
        if "error" in r:
            findings.append((c, "unexpected exception %s" % r["error"]))
            continue
        if c["what"] == "envelope":
            for (f, cc), b in zip(m["pts"], r["inside"]):
                ctx.case(("env", m["xk"], m["yk"], f, cc), True)
                ctx.count("envelope")
                if b == "error":
                    continue
                terms.append("Bool.eqb (inside %s %s %s %s) %s" % (fq(m["xk"]), fq(m["yk"]), fq(f), fq(cc), coq_bool(b)))
                tinfo.append(c)
        elif c["what"] == "points":
            life = unhex(r["life"])
            ctx.case(("pts", c["id"]), 0 < life < float("inf"))
            ctx.count("points:%s:%s" % (m["mode"], "zero" if life == 0 else "inf" if life == float("inf") else "finite"))
            terms.append(coq_life_check("receiver_life %s %s %s %s" % (coq_bool(m["mode"] == "lump"), fq(m["xk"]), fq(m["yk"]),
                                                                       coq_points(m["tubes"], m["days"])), life))
            tinfo.append(c)
        else:
            if r["life"] == "raised":
                ctx.case(("hist-bad", c["id"]), True)
                ctx.count("histories:rejected-time-grid")
                exp = expected_inds(m["times"], m["period"], m["days"])
                if len(exp) == m["days"] + 1:
                    findings.append((c, "time grid with cycle boundaries %s rejected" % exp))
                if not m["shipped"]:
                    terms.extend(coq_history_terms(c, r)); tinfo.append(c)
                continue
            life = unhex(r["life"])
            ctx.case(("hist", c["id"]), 0 < life < float("inf"))
            ctx.count("histories:%s:%s:%s" % (m["shipped"] or "stub", m["mode"],
                                              "zero" if life == 0 else "inf" if life == float("inf") else "finite"))
            if m["bad_times"]:
                exp = expected_inds(m["times"], m["period"], m["days"])
                if len(exp) != m["days"] + 1:
                    findings.append((c, "time grid incompatible with period/days accepted"))
            msg = probe_oracle(r)
            if msg:
                findings.append((c, msg + " (%s, %s extrapolation)" % (m["shipped"] or "stub material", m["mode"])))
            if not m["shipped"]:
                ts = coq_history_terms(c, r)
                terms.extend(ts)
                tinfo.extend([c] * ts.__len__())
    for c in cases[:1] + [x for x in cases if x["what"] == "points"][:1]:
        ctx.sample({k: v for k, v in strip(c).items() if k != "receiver"})
    if findings:
        c, msg = findings[0]
        ctx.violation("%s (%d failing checks)" % (msg, len(findings)), {"case": strip(c), "oracle": msg}, tag="C01:" + msg[:30])
    failing = coq_eval_cases("c01", HEADER + LIST_BEQ, terms, shard=80)
    ctx.checker_cmds.append("coqc (vm_compute) on %d envelope / life / damage comparisons" % len(terms))
    detail = ""
    if failing:
        c = tinfo[failing[0]] if failing[0] < len(tinfo) else None
        kinds = {}
        for i in failing:
            w = tinfo[i]["what"] + ":" + str(tinfo[i]["meta"].get("mode"))
            kinds[w] = kinds.get(w, 0) + 1
        detail = "first disagreement: case %s (%s); by kind %s" % (c and c["id"], c and c["what"], kinds)
    ctx.oblige("corr/life (%d comparisons)" % len(terms), "corr", not failing, "%d disagreements; %s" % (len(failing), detail))
    if failing and not findings:
        # search: a disagreeing 'points' case is itself a concrete input: report the model's value next to the implementation's
        for i in failing:
            c = tinfo[i] if i < len(tinfo) else None
            if c and c["what"] in ("points", "histories"):
                ctx.violation("reported life differs from the envelope crossing of the worst point computed by the model "
                              "(case %d, %s, %s extrapolation)" % (c["id"], c["what"], c["meta"]["mode"]),
                              {"case": strip(c), "oracle": "model/implementation life disagree"}, tag="C01:model-life")
                break


def replay(rp):
    c = rp.get("case")
    if not c:
        print("replay file names a broken obligation, not an input: %s" % rp.get("broken"))
        return 1
    r = run_impl("life_run", {"cases": [c]})["results"][0]
    print("recorded:", rp.get("oracle"))
    print("observed life:", r.get("life"), r.get("error", ""))
    if "probes" in r:
        msg = probe_oracle(r)
        if msg:
            print("VIOLATION reproduced:", msg)
            return 1
        print("membership probes are consistent with the reported life")
        return 0
    return 1
