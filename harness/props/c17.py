"""
C17 — solvers fail loudly.

gen   : coq/gen/Plumbing.v regenerated from /repo's source (which solver
        parameters are read, where solver attributes come from, which
        attributes are handed to the generic Newton routine, documented vs
        actual defaults).
prove : coq/props/C17.v (model/Loops.v, proofs/LoopsProofs.v, gen/Plumbing.v)
corr  : scripted residual norms: the real loops (generic Newton with and
        without line search, thermal step through the public solver, flow path,
        FEM Newton, Picard, spring network) are driven by scripted norm
        sequences over {converged, slow, stagnant, inf, nan}; return/raise and
        the number of norm evaluations must equal the Gallina model's.
oracle: the property on the recorded run: a return happens only right after a
        scripted value that meets the tolerance in force, NaN is never returned.
"""
import itertools
import math
from fractions import Fraction as F

from harness import translators
from harness.core import coq_bool, coq_eval_cases, coq_list, q_lit, run_impl

HEADER = ("From Coq Require Import QArith List Bool ZArith.\nFrom SV Require Import model.Loops.\n"
          "Import ListNotations.\nOpen Scope Q_scope.\n")
INF, NAN = float("inf"), float("nan")

DEFAULTS = {
    "newton": {"rtol": 1e-6, "atol": 1e-8, "miter": 20, "ms": 10},
    "thermal": {"rtol": 1e-6, "atol": 1e-2, "miter": 100},
    "flowpath": {"rtol": 1e-6, "atol": 1e-8, "miter": 50},
    "fem": {"rtol": 1e-6, "atol": 1e-8, "miter": 10, "ms": 10},
    "picard": {"rtol": 1e-6, "atol": 1e-3, "miter": 1000},
    "spring": {"rtol": 1e-6, "atol": 1e-4, "miter": 25, "ms": 10},
}


def enc(x):
    if isinstance(x, float) and math.isnan(x):
        return "nan"
    if x == INF:
        return "inf"
    return float(x).hex()


def ext(x):
    if isinstance(x, float) and math.isnan(x):
        return "NaN"
    if x == INF:
        return "PInf"
    return "(Fin %s)" % q_lit(F(float(x)))


def lt(a, b):
    return a < b     # IEEE semantics in Python floats


def conv(atol, rtol, nr, nr0):
    try:
        ratio = nr / nr0
    except ZeroDivisionError:
        ratio = NAN if nr == 0 or math.isnan(nr) else INF
    return lt(nr, atol) or lt(ratio, rtol)


def gen_scripts(rng, n, length):
    """sequences over qualitatively different residual behaviours"""
    out = []
    for _ in range(n):
        r0 = rng.choice([1.0, 1e3, 1e-5, 0.0, 1e-12, INF, NAN])
        seq = [r0]
        cur = r0 if (r0 == r0 and r0 != INF and r0 > 0) else 1.0
        for _ in range(length - 1):
            kind = rng.choice(["fast", "slow", "stag", "up", "inf", "nan", "zero", "tiny"])
            if kind == "fast":
                cur = cur * 10.0 ** (-rng.randint(2, 8))
            elif kind == "slow":
                cur = cur * 0.5
            elif kind == "up":
                cur = cur * 4.0
            v = {"inf": INF, "nan": NAN, "zero": 0.0, "tiny": 1e-300}.get(kind, cur)
            seq.append(v)
        out.append(seq)
    return out


def gen_cases(ctx):
    rng = ctx.rng
    cases = []
    # exhaustive small patterns for the generic Newton routine and the flow path
    alphabet = [1.0, 0.5, 1e-9, INF, NAN]
    pats = list(itertools.product(alphabet, repeat=ctx.budget(4, 5)))
    rng.shuffle(pats)
    for pat in pats[:ctx.budget(250, 1500)]:
        loop = rng.choice(["newton", "flowpath", "thermal", "fem"])
        miter = rng.randint(0, 4)
        c = {"loop": loop, "script": list(pat) + [pat[-1]] * 1300, "miter": miter,
             "rtol": rng.choice([1e-6, 1e-3, 0.9, 0.0]), "atol": rng.choice([1e-8, 1e-2, 10.0, 0.0])}
        cases.append(c)
    for seq in gen_scripts(rng, ctx.budget(300, 2000), 14):
        loop = rng.choice(["newton", "newton", "thermal", "flowpath", "fem", "spring"])
        c = {"loop": loop, "script": seq + [seq[-1]] * 1300, "miter": rng.choice([0, 1, 2, 3, 5, 8]),
             # tolerances 3*10^k: never equal to a ratio of scripted values (powers of 10 and 2), so that the
             # implementation's rounded float quotient and the model's exact quotient fall on the same side
             "rtol": 3.0 * 10.0 ** rng.randint(-9, -1), "atol": 3.0 * 10.0 ** rng.randint(-12, 1)}
        if rng.random() < 0.15:
            c.pop("miter")          # documented default budget
        if rng.random() < 0.15:
            c.pop("rtol"); c.pop("atol")     # documented default tolerances
        cases.append(c)
    for c in cases:
        if c["loop"] == "newton":
            c["linesearch"] = rng.random() < 0.5
            c["max_search"] = rng.choice([0, 1, 3, 10])
        if c["loop"] == "fem":
            c["max_linesearch"] = rng.choice([0, 1, 3, 10])
        if c["loop"] == "thermal":
            c["via"] = rng.choice(["kwargs", "pset", "solve-args"])
        if c["loop"] == "flowpath":
            c["via"] = rng.choice(["kwargs", "pset"])
        if c["loop"] == "spring":
            c["via"] = rng.choice(["direct", "reduced"])
    # Picard
    for _ in range(ctx.budget(150, 800)):
        n = 12
        mk = lambda: [rng.choice([0.0, 1e-12, 1e-5, 1e-2, 1.0, 50.0, NAN, INF]) for _ in range(n)]
        cases.append({"loop": "picard", "T0": rng.choice([300.0, 1e-3, 0.0]), "F0": rng.choice([500.0, 1e-6]),
                      "dT": mk() + [0.0] * 30, "dF": mk() + [0.0] * 30, "miter": rng.choice([0, 1, 2, 3, 6, 20]),
                      "rtol": 3.0 * 10.0 ** rng.randint(-9, -1), "atol": 3.0 * 10.0 ** rng.randint(-9, 1)})
    for i, c in enumerate(cases):
        c["id"] = i
    return cases


def to_impl(c):
    d = {}
    for k, v in c.items():
        if k in ("script", "dT", "dF"):
            d[k] = [enc(x) for x in v]
        elif k in ("rtol", "atol", "T0", "F0"):
            d[k] = enc(v)
        else:
            d[k] = v
    if c["loop"] == "newton":
        if "rtol" in d:
            d["rel_tol"] = d.pop("rtol"); d["abs_tol"] = d.pop("atol")
        if "miter" in d:
            d["miters"] = d.pop("miter")
    return d


def params(c):
    dfl = DEFAULTS[c["loop"]]
    return c.get("rtol", dfl["rtol"]), c.get("atol", dfl["atol"]), c.get("miter", dfl["miter"])


def coq_case(c, r):
    """model outcome must equal the recorded one"""
    rtol, atol, miter = params(c)
    loop = c["loop"]
    if loop == "picard":
        eps = float.fromhex(r["eps"])
        T, Fl = c["T0"], c["F0"]
        obs = []
        for dT, dF in zip(c["dT"][:miter + 2], c["dF"][:miter + 2]):
            nT = T + dT
            ta = abs(nT - T); tr = ta / (T + eps) if (T + eps) != 0 else (NAN if ta == 0 or ta != ta else INF)
            nF = Fl + dF
            fa = abs(nF - Fl); fr = fa / (Fl + eps) if (Fl + eps) != 0 else (NAN if fa == 0 or fa != fa else INF)
            obs.append("mkP %s %s %s %s" % (ext(fa), ext(ta), ext(fr), ext(tr)))
            T, Fl = nT, nF
        model = "picard %s %s %d (fun k => nth k %s (mkP NaN NaN NaN NaN))" % (ext(atol), ext(rtol), miter, coq_list(obs))
        if r["outcome"] == "return":
            return "poutcome_eqb (%s) (PRet %d)" % (model, r["calls"] - 1)
        return "poutcome_eqb (%s) PRaise" % model
    need = r.get("calls", 0) + 2
    need = min(need, len(c["script"]))
    obs = "(obs_of %s)" % coq_list([ext(x) for x in c["script"][:max(need, 2)]])
    if loop in ("newton", "spring"):
        ls = c.get("linesearch", True)
        ms = c.get("max_search", 10)
        model = "newton %s %s %d %s %d %s" % (ext(atol), ext(rtol), miter, coq_bool(ls), ms, obs)
    elif loop == "thermal":
        model = "thermal_step %s %s %d %s" % (ext(atol), ext(rtol), miter, obs)
    elif loop == "flowpath":
        model = "flowpath_solve %s %s %d %s" % (ext(atol), ext(rtol), miter, obs)
    else:
        model = "fem_newton %s %s %d %d %s" % (ext(atol), ext(rtol), miter, c.get("max_linesearch", 10), obs)
    if r["outcome"] == "return":
        pos = ""
        if loop == "newton" and "x" in r:
            # the iterate handed back: every direction of the scripted run is the unit step
            pos = " && Qeq_bool (newton_x %s %s %d %s %d %s 0) %s" % (
                ext(atol), ext(rtol), miter, coq_bool(c.get("linesearch", True)), c.get("max_search", 10), obs,
                q_lit(F(float.fromhex(r["x"]))))
        return "outcome_eqb (%s) (Ret %d (%s %d%%nat))%s" % (model, r["calls"], obs, r["calls"] - 1, pos)
    return "outcome_eqb (%s) (Raise %d)" % (model, r["calls"])


def oracle(c, r):
    """the property on the recorded run"""
    if r["outcome"] == "script-exhausted":
        return ("kept iterating through %d residual evaluations although the budget in force is %s and the tolerances "
                "atol=%r rtol=%r were met earlier or the budget was spent" % (
                    len(c.get("script", [])), params(c)[2], params(c)[1], params(c)[0]))
    if r["outcome"] == "error":
        return "unexpected exception %s" % r.get("msg", "")
    if c["loop"] == "picard" or r["outcome"] != "return":
        return None
    rtol, atol, miter = params(c)
    if miter == 0:
        return "returned although the iteration budget is 0"
    last = c["script"][r["calls"] - 1]
    if last != last:
        return "returned right after a NaN residual"
    if not conv(atol, rtol, last, c["script"][0]):
        return "returned with residual %r (initial %r), which meets neither atol=%r nor rtol=%r" % (last, c["script"][0], atol, rtol)
    return None


def run(ctx):
    ctx.rule = ("scripted residual sequences: all patterns of length 4-5 over {1, 0.5, 1e-9, inf, nan} (sampled), random "
                "sequences of fast/slow/stagnant/increasing/inf/nan/0/1e-300 steps; budgets 0-8 and the documented defaults; "
                "tolerances over 1e-12..1e2 and 0; parameters given as keyword arguments, through parameter sets and through "
                "solve() arguments; line-search budgets 0-10. non-trivial = the script contains a non-finite or "
                "non-converging value; distinct by (loop, parameters, script)")
    ctx.trusted += ["scripted la.norm proxies inside srlife.solvers/thermal/flowpath/structural; stubbed RJ / FEM state for the "
                    "flow-path and FEM loops; real 1D thermal problem and real spring network",
                    "translator harness/translators/plumbing.py (Python ast -> Coq tables)"]
    translators.import_all()
    ctx.gen("Plumbing", translators.REGISTRY["Plumbing"])
    ctx.prove("C17")
    ctx.prove("C17_plumbing")
    if ctx.tier == "thorough":
        ctx.coqchk("C17")
        ctx.coqchk("C17_plumbing")
    cases = gen_cases(ctx)
    results = run_impl("c17_loops", {"cases": [to_impl(c) for c in cases]}, timeout=1500)["results"]
    terms, info, findings = [], [], []
    for c, r in zip(cases, results):
        seq = c.get("script", c.get("dT"))
        ctx.case((c["loop"], str(sorted((k, str(v)) for k, v in c.items() if k != "id"))),
                 any((x != x) or x == INF or x >= 0.5 for x in seq[:8]))
        ctx.count("%s:%s" % (c["loop"], r["outcome"]))
        msg = oracle(c, r)
        if msg:
            findings.append((c, r, msg))
            continue
        terms.append(coq_case(c, r)); info.append(c)
    # the tube structural step (adaptive sub-incrementation): exhausted budget must raise (shared with C10)
    from harness.props import c10
    ares = run_impl("c10_adaptive", {"jobs": [{"kind": "tree", "n": n, "forced": f, "ndim": 1}
                                              for n in (1, 2, 3) for f in (False, True)]}, timeout=600)
    for ac in ares["cases"]:
        ctx.case(("adaptive", ac["n"], ac["forced"], tuple(ac["failing"])), len(ac["failing"]) > 0)
        ctx.count("adaptive:" + ac["outcome"])
        amsg = c10.oracle(ac)
        if amsg and ("exhausted" in amsg or "raised after" in amsg):
            findings.append(({"loop": "tube-step", "n": ac["n"], "forced": ac["forced"], "failing": ac["failing"]}, ac, amsg))
    # the coupled solver's parameter sections: "solid" options reach the wall solver (and only it), "fluid" options the flow path
    from harness.props import c07
    import random as _random
    crng = _random.Random(ctx.seed if hasattr(ctx, "seed") else 0)
    ctimes = [0.0, 0.5, 1.0]
    cbase = c07.base_case(0, ctimes, [["0", [c07.tube_spec(crng, ctimes, 1, nr=4, nt=3, nz=2, flux_level=3.0)]]],
                          [["f", {"panels": ["0"], "mass_flow": [60.0] * 3, "inlet": [500.0] * 3}]], steady=False,
                          pset={"rtol": 1e-10, "atol": 1e-8, "miter": 400})
    variants = [("reference", {}, {}), ("solid substep=4", {"substep": 4}, {}), ("fluid section substep=4", {}, {"substep": 4})]
    cc = []
    for i, (_, sp, fp) in enumerate(variants):
        d = c07.to_impl(cbase)
        d.update(id=i, solid_pset=sp, fluid_pset=fp)
        cc.append(d)
    cres = run_impl("c07_coupled", {"cases": cc}, timeout=900)["results"]
    for (nm, _, _), r in zip(variants, cres):
        ctx.case(("coupled-section", nm), True)
        ctx.count("coupled-section:" + ("ok" if "tubes" in r else "not solved"))
    if all("tubes" in r for r in cres):
        Tref, Tsol, Tflu = [r["tubes"][0]["temperature"] for r in cres]
        if Tsol == Tref:
            findings.append(({"loop": "coupled-sections", "case": cc[1]}, {"same_as_reference": True},
                             "sub-steps requested in the \"solid\" section of the coupled solver have no effect on the wall temperatures"))
        if Tflu != Tref:
            findings.append(({"loop": "coupled-sections", "case": cc[2]}, {"same_as_reference": False},
                             "a wall-solver option placed in the \"fluid\" section of the coupled solver changes the wall temperatures"))
    else:
        findings.append(({"loop": "coupled-sections", "case": cc[0]}, {k: v for r in cres for k, v in r.items() if k != "tubes"},
                         "the coupled solve with documented section options did not complete"))
    ctx.sample({"loop": cases[0]["loop"], "script": [enc(x) for x in cases[0]["script"][:6]], "miter": cases[0].get("miter")})
    if findings:
        findings.sort(key=lambda f: len(str(f[0])))
        c, r, msg = findings[0]
        ctx.violation("%s loop: %s (%d failing runs)" % (c["loop"], msg, len(findings)),
                      {"case": to_impl(c) if "id" in c else c, "observed": r, "oracle": msg}, tag="C17:" + c["loop"] + ":" + msg[:24])
    failing = coq_eval_cases("c17", HEADER, terms, shard=150)
    ctx.checker_cmds.append("coqc (vm_compute) on %d scripted runs" % len(terms))
    detail = ""
    if failing:
        kinds = {}
        for i in failing:
            kinds[info[i]["loop"]] = kinds.get(info[i]["loop"], 0) + 1
        detail = "by loop: %s; first: %s" % (kinds, {k: v for k, v in to_impl(info[failing[0]]).items() if k not in ("script", "dT", "dF")})
    ctx.oblige("corr/scripted-loops (%d runs)" % len(terms), "corr", not failing, "%d disagreements; %s" % (len(failing), detail))
    if failing and not findings:
        # search: a disagreeing run is a concrete input; report the first whose parameters were not honoured
        c = info[failing[0]]
        ctx.violation("%s loop does not behave as its documented parameters say (model and implementation disagree on "
                      "return/raise or on the number of iterations)" % c["loop"],
                      {"case": to_impl(c), "oracle": "model/implementation disagree"}, tag="C17:disagree:" + c["loop"])


def replay(rp):
    c = rp.get("case")
    if not c:
        print("replay file names a broken obligation, not an input: %s" % rp.get("broken"))
        return 1
    if c.get("loop") == "coupled-sections":
        r = run_impl("c07_coupled", {"cases": [dict(c["case"], solid_pset={}, fluid_pset={}), c["case"]]}, timeout=900)["results"]
        print("recorded:", rp.get("oracle"))
        print("observed now: wall temperatures %s the run without section options"
              % ("equal" if r[0].get("tubes") and r[1].get("tubes") and r[0]["tubes"][0]["temperature"] == r[1]["tubes"][0]["temperature"] else "differ from"))
        return 1
    r = run_impl("c17_loops", {"cases": [c]})["results"][0]
    print("recorded:", rp.get("oracle"))
    print("observed now:", r)
    return 1
