"""
C18 — the film coefficient follows the documented correlation and is
physically admissible.

prove : coq/props/C18.v (model/Film.v, proofs/FilmProofs.v)
corr  : T_effective, Reynolds, Prandtl and the laminar / turbulent / floor
        selection of the real ThermalFluidMaterial (shipped variants and random
        polynomial fluids) against the Gallina model, with the Gnielinski value
        supplied by an independent float evaluation.
oracle: dense sweeps of (T, u, r): finite, >= floor, laminar value below the
        cut-off, Gnielinski from Re and Pr at the clipped temperature above it,
        non-decreasing in velocity in the turbulent regime; monotonicity of the
        Gnielinski expression in Re on [2e3, 1e7] x [0.1, 1e3] (the hypothesis of
        theorem C18_film_monotone_in_u_turbulent_partial).
"""
import math
from fractions import Fraction as F

import numpy as np

from harness.core import safe_fraction, coq_eval_cases, coq_list, q_lit, run_impl

HEADER = ("From Coq Require Import QArith Qabs Qminmax List Bool.\nFrom SV Require Import model.Film.\n"
          "Import ListNotations.\nOpen Scope Q_scope.\n")
TOL = F(1, 10 ** 9)


def hx(x):
    return float(x).hex()


def fq(x):
    return q_lit(safe_fraction(x))


def uv(s):
    return {"nan": float("nan"), "inf": float("inf"), "-inf": float("-inf")}.get(s) if s in ("nan", "inf", "-inf") else float.fromhex(s)


def gnielinski(re, pr):
    f = (0.79 * math.log(re) - 1.64) ** -2.0
    return ((f / 8.0) * (re - 1000.0) * pr) / (1.0 + 12.7 * (f / 8.0) ** 0.5 * (pr ** (2.0 / 3.0) - 1.0))


def polyval(p, x):
    acc = 0.0
    for c in p:
        acc = acc * x + c
    return acc


def ref_film(P, T, u, r):
    """documented behaviour, independent float evaluation; returns (Teff, re, pr, nu, film)"""
    Teff = max(min(T, P["T_max"]), P["T_min"])
    rho = polyval(P["rho"], Teff)
    mu = polyval(P["mu"], Teff)
    k_e = polyval(P["k"], Teff)
    cp = polyval(P["cp"], Teff)
    re = rho * u * 2.0 * r / mu
    pr = cp * mu / k_e
    if re < P["laminar_cutoff"]:
        nu = P["laminar_value"]
    else:
        nu = gnielinski(re, pr)
    film = max(nu * polyval(P["k"], T) / (2.0 * r), P["film_min"])
    return Teff, re, pr, nu, film


def coq_fluid(P):
    return "(mkFluidM %s %s %s %s %s %s %s %s %s)" % (
        coq_list([fq(x) for x in P["cp"]]), coq_list([fq(x) for x in P["rho"]]), coq_list([fq(x) for x in P["mu"]]),
        coq_list([fq(x) for x in P["k"]]), fq(P["film_min"]), fq(P["T_max"]), fq(P["T_min"]), fq(P["laminar_cutoff"]),
        fq(P["laminar_value"]))


def run(ctx):
    ctx.rule = ("every shipped thermal-fluid variant and random polynomial fluids (linear/quadratic property polynomials, "
                "non-default floor / window / cut-off, each also written to XML and loaded back) evaluated on sweeps of temperature (inside, at and outside the window), "
                "velocity (1e2..1e9 mm/hr, spanning laminar to turbulent) and radius (2..50 mm). one case = one (fluid, T, u, r); "
                "non-trivial = T outside the window or Re within a decade of the cut-off")
    ctx.trusted += ["independent float evaluation of the Gnielinski expression (log, real powers) supplies gn; its monotonicity in Re is "
                    "proved over R for Pr >= 1 and Re >= 1000 (C18_gnielinski.v) and validated on a 400 x 60 grid for Pr in [0.1, 1)",
                    "JAX evaluation of polynomials and jnp.where/maximum"]
    from harness import translators
    ctx.trusted += ["translator harness/translators/filmlaws.py (Python ast -> Gallina expressions; jnp.maximum/minimum/where/polyval read as Qmax/Qmin/if/Horner)"]
    translators.import_all()
    ctx.gen("FilmLaws", translators.REGISTRY["FilmLaws"])
    ctx.prove("C18")
    ctx.prove("C18_laws")
    ctx.prove("C18_gnielinski")
    if ctx.tier == "thorough":
        ctx.coqchk("C18")
        ctx.coqchk("C18_laws")
        ctx.coqchk("C18_gnielinski")
    rng = ctx.rng
    variants = run_impl("c18_film", {"list": True})["variants"]
    cases = []
    for name, var in variants:
        cases.append({"fluid": {"kind": "shipped", "name": name, "variant": var}})
    for j in range(ctx.budget(12, 80)):
        cp = [rng.uniform(1e-6, 1e-4), rng.uniform(0.2, 1.0)]
        rho = [-rng.uniform(1e-10, 6e-10), rng.uniform(1.5e-6, 2.5e-6)]
        mu = [rng.uniform(1e-9, 7e-8), -rng.uniform(1e-5, 1.4e-4), rng.uniform(0.07, 0.1)] if rng.random() < 0.5 else [rng.uniform(1e-7, 2e-7), rng.uniform(4e-5, 6e-5)]
        k = [-rng.uniform(0, 1e-7), rng.uniform(4e-4, 6e-4)]
        kw = {}
        if j % 10 < 7:
            kw = {"film_min": hx(rng.choice([1e-8, 1e-4, 5e-3])), "T_max": hx(rng.choice([1000.0, 1200.0, 2000.0])),
                  "T_min": hx(rng.choice([0.0, 500.0, 700.0])), "laminar_cutoff": hx([2e3, 500.0, 3e3, 100.0, 1e4][j % 5]),
                  "laminar_value": hx(rng.choice([4.01, 3.66]))}
        cases.append({"fluid": {"kind": "poly", "cp": [hx(x) for x in cp], "rho": [hx(x) for x in rho], "mu": [hx(x) for x in mu],
                                "k": [hx(x) for x in k], "kwargs": kw},
                      "near": {"rho": rho, "mu": mu, "cut": float.fromhex(kw["laminar_cutoff"]) if kw else 2000.0}})
    npts = ctx.budget(40, 200)
    for i, c in enumerate(cases):
        c["id"] = i
        pts = []
        for _ in range(npts):
            T = rng.choice([rng.uniform(600, 1100), rng.uniform(-100, 400), rng.uniform(1100, 3000), 2000.0, 0.0, 700.0])
            u = 10.0 ** rng.uniform(2, 9)
            r = rng.choice([2.0, 8.0, 12.5, 50.0])
            pts.append([hx(T), hx(u), hx(r)])
        if "near" in c:
            # velocities that put the Reynolds number just below and above the laminar cut-off
            nr_ = c.pop("near")
            for fct in (0.5, 0.9, 1.1, 1.5, 2.0, 4.0, 8.0):
                Tn, rn = rng.choice([750.0, 900.0]), rng.choice([8.0, 12.5])
                un = fct * nr_["cut"] * polyval(nr_["mu"], Tn) / (polyval(nr_["rho"], Tn) * 2.0 * rn)
                if un > 0 and math.isfinite(un):
                    pts.append([hx(Tn), hx(un), hx(rn)])
        # a velocity ladder at fixed T, r for the monotonicity clause
        T0, r0 = rng.uniform(700, 1000), rng.choice([8.0, 12.5])
        for e in np.linspace(5, 9, 25):
            pts.append([hx(T0), hx(10.0 ** e), hx(r0)])
        c["points"] = pts
        c["ladder"] = (len(pts) - 25, len(pts))
    results = run_impl("c18_film", {"cases": [{k: v for k, v in c.items() if k != "ladder"} for c in cases]}, timeout=1500)["results"]
    terms, findings = [], []
    for c, r in zip(cases, results):
        name = c["fluid"].get("name", "random polynomial fluid") + ("/" + c["fluid"]["variant"] if "variant" in c["fluid"] else "")
        if "error" in r:
            findings.append((c, "%s: evaluation raised %s" % (name, r["error"])))
            continue
        if "reloaded" in r and r["reloaded"] != r["params"]:
            diff = [k for k in r["params"] if r["params"][k] != r["reloaded"].get(k)]
            findings.append((c, "%s: saved to XML and loaded again the fluid has different %s (%s -> %s)"
                             % (name, ", ".join(diff), [r["params"][k] for k in diff][:2], [r["reloaded"].get(k) for k in diff][:2])))
        if "reloaded_film" in r and r["reloaded_film"] != r["rows"][0]["film"]:
            findings.append((c, "%s: the reloaded fluid gives film coefficient %s at the first point, the original %s"
                             % (name, r["reloaded_film"], r["rows"][0]["film"])))
        P = {k: ([float.fromhex(x) for x in v] if isinstance(v, list) else float.fromhex(v)) for k, v in r["params"].items()}
        fl_term = coq_fluid(P)
        ctx.count("fluid:" + ("shipped" if c["fluid"]["kind"] == "shipped" else "random"))
        films = []
        for (Th, uh, rh), row in zip(c["points"], r["rows"]):
            T, u, rad = float.fromhex(Th), float.fromhex(uh), float.fromhex(rh)
            Teff, re, pr, nu, film = ref_film(P, T, u, rad)
            outside = T < P["T_min"] or T > P["T_max"]
            near = 0.1 < re / P["laminar_cutoff"] < 10
            ctx.case((c["id"], Th, uh, rh), outside or near)
            ctx.count("laminar" if re < P["laminar_cutoff"] else "turbulent")
            if re >= P["laminar_cutoff"]:
                # where the monotonicity theorem C18_gnielinski_monotone_in_reynolds applies (Pr >= 1, Re >= 1000)
                ctx.count("turbulent, Pr>=1 (proved monotone)" if pr >= 1.0 and re >= 1000.0 else "turbulent, Pr<1 (validated on the grid only)")
            got = {k: uv(v) for k, v in row.items()}
            films.append(got["film"])
            def bad(msg):
                findings.append((c, "%s at T=%g u=%g r=%g: %s" % (name, T, u, rad, msg)))
            if not math.isfinite(got["film"]) or got["film"] < P["film_min"] or got["film"] <= 0:
                bad("film coefficient %r is not finite / positive / above the floor %r" % (got["film"], P["film_min"]))
                continue
            if abs(got["Teff"] - Teff) > 1e-12 * (1 + abs(Teff)):
                bad("temperature used by the correlation is %r, the window [%g, %g] gives %r" % (got["Teff"], P["T_min"], P["T_max"], Teff))
            if abs(re / P["laminar_cutoff"] - 1) > 1e-9:     # away from the exact switch
                if abs(got["nu"] - nu) > 1e-9 * (1 + abs(nu)):
                    bad("Nusselt number %r, documented %s value %r (Re=%.6g, Pr=%.6g)" % (got["nu"], "laminar" if re < P["laminar_cutoff"] else "Gnielinski", nu, re, pr))
                elif abs(got["film"] - film) > 1e-9 * (1 + abs(film)):
                    bad("film coefficient %r, documented value %r" % (got["film"], film))
                # model comparison (selection, clipping, Re, Pr, floor) with the independent Gnielinski value
                if len(terms) < ctx.budget(600, 4000) and math.isfinite(nu):
                    g = gnielinski(re, pr) if re >= P["laminar_cutoff"] and re > 0 and pr > 0 else 0.0
                    if math.isfinite(g):
                        terms.append("(let f := %s in close %s (T_eff f %s) %s && close %s (film (fun _ _ => %s) f %s %s %s) %s)"
                                     % (fl_term, q_lit(TOL), fq(T), fq(got["Teff"]), q_lit(TOL), fq(g), fq(T), fq(u), fq(rad), fq(got["film"])))
        lo, hi = c["ladder"]
        lad = films[lo:hi]
        for a, b, (Th, uh, rh) in zip(lad[:-1], lad[1:], c["points"][lo + 1:hi]):
            T, u, rad = float.fromhex(Th), float.fromhex(uh), float.fromhex(rh)
            if ref_film(P, T, u / 10 ** (4 / 24), rad)[1] >= P["laminar_cutoff"] and b < a * (1 - 1e-12):
                findings.append((c, "%s: film coefficient decreases from %r to %r when the velocity rises to %g in the turbulent regime" % (name, a, b, u)))
    # hypothesis of the monotonicity theorem, on the documented box
    res = np.linspace(math.log(2e3), math.log(1e7), 400)
    mono_bad = 0
    for prv in np.exp(np.linspace(math.log(0.1), math.log(1e3), 60)):
        vals = [gnielinski(math.exp(x), prv) for x in res]
        mono_bad += sum(1 for a, b in zip(vals[:-1], vals[1:]) if b < a)
    ctx.oblige("validated/gnielinski-nondecreasing-in-Re (24000 grid steps)", "validated", mono_bad == 0, "%d decreasing steps" % mono_bad)
    ctx.sample({"variants": variants})
    if findings:
        c, msg = findings[0]
        ctx.violation("%s (%d failing evaluations)" % (msg, len(findings)), {"case": {k: v for k, v in c.items() if k != "ladder"}, "oracle": msg},
                      tag="C18:" + msg[:30])
    failing = coq_eval_cases("c18", HEADER, terms, shard=200)
    ctx.checker_cmds.append("coqc (vm_compute) on %d film evaluations" % len(terms))
    ctx.oblige("corr/film-selection (%d evaluations)" % len(terms), "corr", not failing, "%d disagreements" % len(failing))


def replay(rp):
    c = rp.get("case")
    if not c:
        print("replay file names a broken obligation, not an input: %s" % rp.get("broken"))
        return 1
    r = run_impl("c18_film", {"cases": [c]})["results"][0]
    print("recorded:", rp.get("oracle"))
    print("first rows now:", r.get("rows", r)[:3] if isinstance(r.get("rows"), list) else r)
    return 1
