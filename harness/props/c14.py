"""
C14 — the flow-path solution balances heat and mass at every link.

prove : coq/props/C14.v (model/FlowPath.v, proofs/FlowPathProofs.v)
corr  : real FlowPath objects with a rational stub fluid: the residual vector
        RJ(T)[0] at random states, recovered velocities and temperature
        profiles, and the residual at solve()'s output (certificate), all
        against the Gallina model on the same rationals.
oracle: on solve()'s output: per-tube enthalpy gain vs wall heat, manifold =
        weighted mean, first node = inlet, velocities carry the mass flow,
        profiles linear from inlet to outlet (recomputed in floats).
"""
import math
from fractions import Fraction as F

import numpy as np

from harness.core import safe_fraction, coq_eval_cases, coq_list, q_lit, run_impl

HEADER = ("From Coq Require Import QArith Qabs List Bool ZArith.\nFrom SV Require Import model.FlowPath.\n"
          "Import ListNotations.\nOpen Scope Q_scope.\n")
TOL = F(1, 10 ** 8)


def hx(x):
    return float(x).hex()


def fq(x):
    return q_lit(safe_fraction(x))


def rnd(rng, lo, hi, q=16):
    return round(rng.uniform(lo, hi) * q) / q


def gen_case(rng, cid, solve=False):
    ntime = rng.randint(2, 3)
    times = [0.0]
    for _ in range(ntime - 1):
        times.append(times[-1] + rng.choice([1.0, 0.5, 24.0]))
    t = rng.choice(times + [times[0] + (times[1] - times[0]) * rng.choice([0.25, 0.5, 0.75])])
    mass = [rnd(rng, 5, 50) for _ in times]
    inlet = [rnd(rng, 500, 600) for _ in times]
    npanel = rng.randint(1, 3)
    panels = []
    for _ in range(npanel):
        ntube = rng.randint(1, 3)
        nt, nz = rng.randint(1, 3), rng.randint(2, 4)
        ws = [float(rng.choice([1, 1, 2, 3, 10])) for _ in range(ntube)]
        ri = rng.choice([8.0, 12.5])
        h = rng.choice([100.0, 2500.0])
        metal = [[[[rnd(rng, 600, 900) for _ in range(nz)] for _ in range(nt)] for _ in range(ntube)] for _ in times]
        panels.append({"weights": ws, "ri": ri, "h": h, "nt": nt, "nz": nz, "metal": metal})
    fluid = {"c0": rnd(rng, 1, 2), "c1": rnd(rng, 0, 0.002, 4096), "r0": rnd(rng, 1, 3), "r1": rnd(rng, 0, 0.001, 4096),
             "f0": rnd(rng, 0.05, 1.0, 64), "f1": rnd(rng, 0, 0.5, 64), "f2": rnd(rng, 0, 0.002, 4096)}
    nvals = 1 + sum(len(p["weights"]) + 1 for p in panels)
    T = [rnd(rng, 450, 700) for _ in range(nvals)]
    late = None
    if rng.random() < 0.4:
        ntube = rng.randint(1, 2)
        nt, nz = rng.randint(1, 3), rng.randint(2, 4)
        lp = {"weights": [float(rng.choice([1, 2, 3])) for _ in range(ntube)], "ri": rng.choice([8.0, 12.5]), "h": rng.choice([100.0, 2500.0]),
              "nt": nt, "nz": nz,
              "metal": [[[[rnd(rng, 600, 900) for _ in range(nz)] for _ in range(nt)] for _ in range(ntube)] for _ in times]}
        late = {"panel": lp, "T": T + [rnd(rng, 450, 700) for _ in range(ntube + 1)]}
    t2 = rng.choice([x for x in times if x != t] + [times[-2] + (times[-1] - times[-2]) * rng.choice([0.125, 0.625])])
    return {"id": cid, "times": times, "mass_flow": mass, "inlet": inlet, "panels": panels, "fluid": fluid, "t": t, "t2": t2,
            "T": T, "solve": solve, "late": late}


def impl_panel(p):
    return {"weights": [hx(w) for w in p["weights"]], "ri": hx(p["ri"]), "h": hx(p["h"]),
            "metal": [[[[hx(v) for v in row] for row in tube] for tube in tm] for tm in p["metal"]]}


def to_impl(c):
    d = _to_impl(c)
    if c.get("late"):
        d["late"] = {"panel": impl_panel(c["late"]["panel"]), "T": [hx(x) for x in c["late"]["T"]]}
    return d


def _to_impl(c):
    return {"id": c["id"], "times": [hx(x) for x in c["times"]], "mass_flow": [hx(x) for x in c["mass_flow"]],
            "inlet": [hx(x) for x in c["inlet"]], "t": hx(c["t"]), "t2": hx(c["t2"]), "T": [hx(x) for x in c["T"]], "solve": c["solve"],
            "fluid": {k: hx(v) for k, v in c["fluid"].items()},
            "panels": [{"weights": [hx(w) for w in p["weights"]], "ri": hx(p["ri"]), "h": hx(p["h"]),
                        "metal": [[[[hx(v) for v in row] for row in tube] for tube in tm] for tm in p["metal"]]}
                       for p in c["panels"]]}


def interp_t(times, vals, t):
    """linear interpolation in time of nested lists (as scipy interp1d does)"""
    a = np.array(vals, dtype=float)
    i = 0
    while i < len(times) - 2 and t > times[i + 1]:
        i += 1
    w = (t - times[i]) / (times[i + 1] - times[i])
    return a[i] + (a[i + 1] - a[i]) * w


def coq_fluid(fl):
    return ("(mkFluid (fun T => %s + %s * T) (fun T => %s + %s * T) (fun T u r => %s + %s * u / r + %s * T))"
            % (fq(fl["c0"]), fq(fl["c1"]), fq(fl["r0"]), fq(fl["r1"]), fq(fl["f0"]), fq(fl["f1"]), fq(fl["f2"])))


def coq_panels(c):
    t = c["t"]
    out = []
    for p in c["panels"]:
        metal_t = interp_t(c["times"], p["metal"], t)      # (ntube, nt, nz)
        zs = [float(z) for z in np.linspace(0, p["h"], p["nz"])]
        out.append("(mkPanel %s %s %s %d %s %s)" % (
            coq_list([fq(w) for w in p["weights"]]), fq(p["ri"]), fq(p["h"]), p["nt"], coq_list([fq(z) for z in zs]),
            coq_list([coq_list([coq_list([fq(v) for v in row]) for row in tube]) for tube in metal_t])))
    return coq_list(out)


def scale_of(c, T):
    """magnitude of the heat terms, for an absolute residual tolerance"""
    t = c["t"]
    mdot = float(interp_t(c["times"], c["mass_flow"], t))
    fl = c["fluid"]
    cpmax = fl["c0"] + fl["c1"] * 1000
    s = mdot * cpmax * 500.0
    for p in c["panels"]:
        hmax = fl["f0"] + fl["f1"] * 10 + fl["f2"] * 1000
        s = max(s, p["ri"] * p["h"] * 2 * math.pi * hmax * 500.0 * max(p["weights"]))
    return s


def terms_for(c, r):
    """list of (label, coq bool term)"""
    t = c["t"]
    mdot = float(interp_t(c["times"], c["mass_flow"], t))
    inlet = float(interp_t(c["times"], c["inlet"], t))
    pi = fq(math.pi)
    fl, ps = coq_fluid(c["fluid"]), coq_panels(c)
    out = []

    def resid_term(T, R, tol):
        sc = scale_of(c, T)
        Tl = coq_list([fq(x) for x in T])
        Rl = coq_list([fq(float.fromhex(x)) for x in R])
        return ("(let m := path_residual %s %s %s %s %s %s in Nat.eqb (length m) (length %s) && "
                "forallb (fun ab => close_abs %s %s (fst ab) (snd ab)) (combine m %s))"
                % (pi, fl, fq(mdot), fq(inlet), ps, Tl, Rl, q_lit(tol), fq(sc), Rl))

    def rec_term(T, rec):
        Tl = coq_list([fq(x) for x in T])
        flows = coq_list([coq_list([fq(float.fromhex(x)) for x in f]) for f in rec["flow"]])
        temps = coq_list([coq_list([coq_list([fq(float.fromhex(x)) for x in row]) for row in tt]) for tt in rec["temps"]])
        return ("(let m := path_recover %s %s %s %s %s in Nat.eqb (length m) (length %s) && "
                "forallb (fun ab => close_list %s (fst (fst ab)) (snd ab)) (combine m %s) && "
                "forallb (fun ab => Nat.eqb (length (snd (fst ab))) (length (snd ab)) && "
                "forallb (fun rr => close_list %s (fst rr) (snd rr)) (combine (snd (fst ab)) (snd ab))) (combine m %s))"
                % (pi, fl, fq(mdot), ps, Tl, flows, q_lit(TOL), flows, q_lit(TOL), temps))

    if "R" in r:
        out.append(("residual", resid_term(c["T"], r["R"], TOL)))
        out.append(("recover", rec_term(c["T"], r["rec"])))
    if "rec_back" in r:
        out.append(("recover-the-first-time-after-a-later-one", rec_term(c["T"], r["rec_back"])))
    if "R_late" in r:
        c3 = dict(c, panels=c["panels"] + [c["late"]["panel"]], T=c["late"]["T"])
        for label, term in terms_for(c3, {"R": r["R_late"], "rec": r["rec_late"]}):
            out.append((label + "-after-adding-a-panel", term))
    if "R2" in r:
        c2 = dict(c, t=c["t2"])
        for label, term in terms_for(c2, {"R": r["R2"], "rec": r["rec2"]}):
            out.append((label + "-at-a-second-time", term))
    if "Ts" in r:
        Ts = [float.fromhex(x) for x in r["Ts"]]
        out.append(("certificate", resid_term(Ts, r["Rs"], TOL)))
        out.append(("recover-solution", rec_term(Ts, r["rec_s"])))
    return out


def oracle_solution(c, r):
    """balances recomputed in floats at solve()'s output"""
    if "Ts" not in r:
        return None
    t = c["t"]
    Ts = np.array([float.fromhex(x) for x in r["Ts"]])
    mdot = float(interp_t(c["times"], c["mass_flow"], t))
    inlet = float(interp_t(c["times"], c["inlet"], t))
    fl = c["fluid"]
    sc = scale_of(c, Ts)
    if abs(Ts[0] - inlet) > 1e-6 * (1 + abs(inlet)):
        return "first node %r is not the prescribed inlet temperature %r" % (Ts[0], inlet)
    pos = 1
    tin = Ts[0]
    for pi_, p in enumerate(c["panels"]):
        n = len(p["weights"])
        touts = Ts[pos:pos + n]
        tman = Ts[pos + n]
        ws = np.array(p["weights"])
        ntube = ws.sum()
        metal_t = interp_t(c["times"], p["metal"], t)
        zs = np.linspace(0, p["h"], p["nz"])
        vel = [float.fromhex(x) for x in r["rec_s"]["flow"][pi_]]
        mass = 0.0
        for m in range(n):
            tmean = (touts[m] + tin) / 2
            cp = fl["c0"] + fl["c1"] * tmean
            rho = fl["r0"] + fl["r1"] * tmean
            u = mdot / (ntube * math.pi * rho * p["ri"] ** 2)
            h = fl["f0"] + fl["f1"] * u / p["ri"] + fl["f2"] * tmean
            gain = mdot / ntube * cp * (touts[m] - tin)
            tf = (touts[m] - tin) / p["h"] * zs + tin
            wall = p["ri"] * (p["h"] / p["nz"]) * (2 * math.pi / p["nt"]) * np.sum(h * (metal_t[m] - tf[None, :]))
            if abs(gain - wall) > 1e-6 * sc:
                return "panel %d tube %d: fluid gains %r but receives %r from its wall" % (pi_, m, gain, wall)
            if abs(vel[m] - u) > 1e-9 * abs(u):
                return "panel %d tube %d: reported velocity %r, mass flow implies %r" % (pi_, m, vel[m], u)
            mass += ws[m] * rho * vel[m] * math.pi * p["ri"] ** 2
            prof = np.array([float.fromhex(x) for x in r["rec_s"]["temps"][pi_][m]])
            if abs(prof[0] - tin) > 1e-9 * abs(tin) or abs(prof[-1] - touts[m]) > 1e-9 * abs(touts[m]) or \
                    np.max(np.abs(prof - tf)) > 1e-9 * np.max(np.abs(tf)):
                return "panel %d tube %d: reported fluid temperatures do not run linearly from the panel inlet to the outlet" % (pi_, m)
        if abs(mass - mdot) > 1e-9 * mdot:
            return "panel %d: tube velocities carry %r, prescribed mass flow is %r" % (pi_, mass, mdot)
        mean = float(np.sum(ws * touts) / ntube)
        if abs(tman - mean) > 1e-6 * (1 + abs(mean)):
            return "panel %d: manifold temperature %r is not the multiplier-weighted mean %r of the outlets" % (pi_, tman, mean)
        tin = tman
        pos += n + 1
    return None


def run(ctx):
    ctx.rule = ("random chains: 1-3 panels, 1-3 tubes per panel with multipliers from {1,2,3,10}, 1-3 x 2-4 wall grids, two "
                "radii/heights, 2-3 time points with queries at and between them, rational stub fluid; random states for the "
                "residual / recovery comparison and solve() for the certificate. non-trivial = more than one panel or "
                "non-uniform multipliers; distinct by input")
    ctx.trusted += ["jax.jacfwd and spsolve only affect convergence of solve(); its output is checked by the certificate",
                    "stub fluid with rational cp, rho, film laws (shipped polynomial fluids are covered by C18)",
                    "scipy interp1d in time (linear), mirrored by the harness"]
    from harness import translators
    ctx.trusted += ["translator harness/translators/flowlinks.py (Python ast -> Gallina expressions, elementwise reading of the numpy code)"]
    translators.import_all()
    ctx.gen("FlowLinks", translators.REGISTRY["FlowLinks"])
    ctx.prove("C14")
    ctx.prove("C14_links")
    if ctx.tier == "thorough":
        ctx.coqchk("C14")
        ctx.coqchk("C14_links")
    rng = ctx.rng
    cases = [gen_case(rng, i, solve=(i % 3 == 0)) for i in range(ctx.budget(90, 600))]
    results = run_impl("c14_flow", {"cases": [to_impl(c) for c in cases]}, timeout=1500)["results"]
    terms, info, findings = [], [], []
    for c, r in zip(cases, results):
        nontriv = len(c["panels"]) > 1 or any(len(set(p["weights"])) > 1 for p in c["panels"])
        ctx.case(("flow", c["id"]), nontriv)
        ctx.count("panels=%d" % len(c["panels"]))
        if "error" in r:
            findings.append((c, "unexpected exception %s" % r["error"]))
            continue
        if c["solve"]:
            ctx.count("solve:" + ("raised" if "solve_error" in r else "ok"))
        msg = oracle_solution(c, r)
        if msg:
            findings.append((c, msg))
        for label, term in terms_for(c, r):
            terms.append(term); info.append((c, label))
    ctx.sample({"panels": [{k: v for k, v in p.items() if k != "metal"} for p in cases[0]["panels"]], "t": cases[0]["t"]})
    if findings:
        c, msg = findings[0]
        ctx.violation("%s (%d failing checks)" % (msg, len(findings)), {"case": to_impl(c), "oracle": msg}, tag="C14:" + msg[:30])
    failing = coq_eval_cases("c14", HEADER, terms, shard=40)
    ctx.checker_cmds.append("coqc (vm_compute) on %d residual / recovery / certificate comparisons" % len(terms))
    detail = ""
    if failing:
        kinds = {}
        for i in failing:
            kinds[info[i][1]] = kinds.get(info[i][1], 0) + 1
        detail = "by kind %s; first case %d" % (kinds, info[failing[0]][0]["id"])
    ctx.oblige("corr/flowpath (%d comparisons)" % len(terms), "corr", not failing, "%d disagreements; %s" % (len(failing), detail))
    if failing and not findings:
        c, label = info[failing[0]]
        ctx.violation("flow path %s differs from the documented link equations (case %d: %d panels, weights %s)"
                      % (label, c["id"], len(c["panels"]), [p["weights"] for p in c["panels"]]),
                      {"case": to_impl(c), "oracle": "model/implementation disagree on " + label}, tag="C14:disagree:" + label)


def replay(rp):
    c = rp.get("case")
    if not c:
        print("replay file names a broken obligation, not an input: %s" % rp.get("broken"))
        return 1
    r = run_impl("c14_flow", {"cases": [c]})["results"][0]
    print("recorded:", rp.get("oracle"))
    print("observed now:", {k: v for k, v in r.items() if k in ("error", "solve_error", "dof_map")})
    return 1
