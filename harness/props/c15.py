"""
C15 — strain bookkeeping, free expansion and causality.

gen   : coq/gen/StrainBook.v regenerated from structural.py
prove : coq/props/C15.v
corr  : the stored thermal strain of sampled quadrature points against the model's
        th_hist / th_hist_sub evaluated in Coq (vm_compute over Q) on the stored
        quadrature temperatures
oracle: on the real PythonTubeSolver driven the way spring.TubeSpring drives it:
        partition, isotropy, symmetry, zero where the temperature never changed,
        quadrature temperatures inside the hull of the element's nodal values,
        truncated / altered-future histories (causality), trial solves before the
        accepted one, refined steps and forced sub-increments (elastic), free
        expansion.
"""
import copy

import numpy as np

from harness import translators
from harness.core import coq_eval_cases, q_lit, run_impl_parallel
from harness.struct_common import (FIELDS, SUFF, alpha_of, arr, gen_geometry, gen_history, gen_material, qfrac, refine,
                                   to_impl)

HEADER = "From Coq Require Import QArith List.\nFrom SV Require Import model.Interp model.Strain.\nImport ListNotations.\nOpen Scope Q_scope."


def qlist(xs):
    return "[" + "; ".join(q_lit(qfrac(x)) for x in xs) + "]"


def run(ctx):
    ctx.rule = ("random tubes (r 10-25, t/r 0.1-0.2, nr 3-5, nt 4-8, nz 2-4, 1D/2D/3D), elastic NEML materials with constant, affine "
                "or kinked expansion coefficient and constant or temperature-dependent Young's modulus, 2-4 step histories of nodal temperature (radial/circumferential/axial variation, "
                "uniform, outer-surface-only, slow drifts of a few mK per step), pressure and top displacement; creeping/plastic shipped models at 850-950 K for the causality variants; variants: altered future, trial solves, first state created without a time index, refined "
                "steps, forced sub-increments, free expansion, tubes without thermal results.  one case = one tube run; all non-trivial")
    ctx.trusted += ["scikit-fem assembly and interpolation, NEML SmallStrainElasticity (the finite-element solve is run, not modelled)",
                    "translator harness/translators/strainbook.py"]
    translators.import_all()
    ctx.gen("StrainBook", translators.REGISTRY["StrainBook"])
    ctx.prove("C15")
    if ctx.tier == "thorough":
        ctx.coqchk("C15")
    rng = ctx.rng
    cases, jobs = [], []

    def add(c, kind):
        c = copy.deepcopy(c)
        c["kind_tag"] = kind
        cases.append(c)
        ctx.count("run:" + kind)
        return len(cases) - 1

    nbase = ctx.budget(9, 45)
    for i in range(nbase):
        c = gen_geometry(rng, dim=[1, 2, 3][i % 3])
        c["material"] = gen_material(rng, alpha=["const", "affine", "kink"][(i // 3) % 3])
        if i % 2 == 1:      # Young's modulus falling with temperature: the end state must still not depend on the steps taken
            E0 = c["material"]["E"]
            c["material"]["E_T"], c["material"]["E_v"] = [-500.0, 300.0, 700.0, 3000.0], [1.1 * E0, E0, 0.6 * E0, 0.3 * E0]
        c.update(gen_history(rng, c, outer_only=(i % 5 == 3), drift=(i % 5 == 1), nsteps=(4 if i % 5 == 1 else None)))
        c["probe"] = ["mesh"]
        b = add(c, "base")
        jobs.append(("base", b, None))
        # causality: the same past, a different future
        k = rng.randint(1, len(c["times"]) - 2) if len(c["times"]) > 2 else 1
        alt = copy.deepcopy(c)
        for j in range(k + 1, len(c["times"])):
            alt["temps"][j] = [t + rng.uniform(-80, 80) for t in alt["temps"][j]]
            alt["pressure"][j] = alt["pressure"][j] * 2 + 1.0
            alt["dtop"][j] = -alt["dtop"][j]
        alt["times"] = c["times"][:k + 1] + [t + 0.25 for t in c["times"][k + 1:]]
        jobs.append(("future", b, add(alt, "future"), k))
        trunc = copy.deepcopy(c)
        for key in ("times", "temps", "pressure", "dtop"):
            trunc[key] = c[key][:k + 1]
        jobs.append(("truncated", b, add(trunc, "truncated"), k))
        # trial solves from the same start state before the accepted one
        tr = copy.deepcopy(c)
        tr["trial"] = {str(j): [rng.uniform(-2e-3, 2e-3) * c["h"], c["dtop"][j] * 1.5 + 1e-4] for j in range(1, len(c["times"]))}
        jobs.append(("trial", b, add(tr, "trial")))
        # a state created without a time index (direct callers) must give the same steps
        ni = copy.deepcopy(c)
        ni["init"] = "noindex"
        jobs.append(("noindex", b, add(ni, "noindex")))
        # the tube as the only spring of a network whose ends both follow prescribed displacements (no free network dof)
        nw = copy.deepcopy(c)
        nw["network"] = True
        nw.pop("probe", None)
        if i % 2:
            # ... sharing its two nodes with a second, hotter tube of another material (parallel edges)
            pb = copy.deepcopy(c)
            pb.pop("probe", None)
            pb["temps"] = [[t + 40.0 * k for t in row] for k, row in enumerate(pb["temps"])]
            pb["material"] = gen_material(rng, alpha="const")
            nw["parallel"] = pb
        jobs.append(("network", b, add(nw, "network")))
        if c["material"]["alpha_kind"] != "kink":
            jobs.append(("refined", b, add(refine(c, rng.choice([2, 3])), "refined")))
            fd = copy.deepcopy(c)
            fd["params"] = {"force_divide": True, "max_divide": rng.choice([1, 2, 3])}
            jobs.append(("forced", b, add(fd, "forced")))
        else:
            fd = copy.deepcopy(c)
            fd["params"] = {"force_divide": True, "max_divide": rng.choice([1, 2])}
            jobs.append(("forced-kink", b, add(fd, "forced-kink")))
    # creeping / plastic shipped models: bookkeeping and causality hold for every material
    for i in range(ctx.budget(3, 9)):
        c = gen_geometry(rng, dim=[1, 2, 3][i % 3])
        c.update(nr=3, nt=6, nz=2)
        c["material"] = {"kind": "shipped", "name": rng.choice(["740H", "316H", "A617", "800H"]), "variant": rng.choice(["base", "elastic_creep"]),
                         "alpha_kind": "shipped"}
        c.update(gen_history(rng, c, nsteps=3))
        n = len(c["temps"][0])
        c["temps"] = [[300.0] * n] + [[rng.uniform(850, 950) + 30.0 * t / max(n - 1, 1) for t in range(n)] for _ in range(3)]
        c["times"] = [0.0, 500.0, 1500.0, 3000.0]
        c["pressure"] = [0.0] + [rng.uniform(2.0, 10.0) for _ in range(3)]
        c["dtop"] = [0.0] + [rng.uniform(3e-3, 9e-3) * c["h"] for _ in range(3)]
        c["probe"] = ["mesh"]
        b = add(c, "inelastic")
        jobs.append(("base", b, None))
        k = rng.randint(1, 2)
        alt = copy.deepcopy(c)
        for j in range(k + 1, 4):
            alt["temps"][j] = [t + rng.uniform(-40, 40) for t in alt["temps"][j]]
            alt["pressure"][j] = alt["pressure"][j] * 1.5 + 1.0
            alt["dtop"][j] = alt["dtop"][j] * 0.5
        jobs.append(("future", b, add(alt, "inelastic-future"), k))
        trunc = copy.deepcopy(c)
        for key in ("times", "temps", "pressure", "dtop"):
            trunc[key] = c[key][:k + 1]
        jobs.append(("truncated", b, add(trunc, "inelastic-truncated"), k))
        tr = copy.deepcopy(c)
        tr["trial"] = {str(j): [c["dtop"][j] * 0.3, c["dtop"][j] * 1.4] for j in range(1, 4)}
        jobs.append(("trial", b, add(tr, "inelastic-trial")))
    for i in range(ctx.budget(6, 24)):
        c = gen_geometry(rng, dim=[1, 2, 3][i % 3])
        c["material"] = gen_material(rng)
        c.update(gen_history(rng, c, uniform=True, pressure=False))
        th, d = 0.0, [0.0]
        for k in range(1, len(c["times"])):
            T0, T1 = c["temps"][k - 1][0], c["temps"][k][0]
            th += (alpha_of(c["material"], T1) + alpha_of(c["material"], T0)) / 2 * (T1 - T0)
            d.append(th * c["h"])
        c["dtop"] = d
        c["pressure"] = None if i % 2 else [0.0] * len(c["times"])
        jobs.append(("free", add(c, "free"), None))
    # tubes without thermal results: their temperature never changes, whatever their initial temperature is
    for i in range(ctx.budget(3, 9)):
        c = gen_geometry(rng, dim=[1, 2, 3][i % 3])
        c["material"] = gen_material(rng, alpha=["const", "affine", "kink"][i % 3])
        c.update(gen_history(rng, c))
        c["temps"] = None
        jobs.append(("base", add(c, "nothermal"), None))
    results = run_impl_parallel("struct_run", [to_impl(c, i) for i, c in enumerate(cases)], workers=12, timeout=1500)
    findings, terms, term_case = [], [], []

    def quad(i, name):
        return arr(results[i]["quad"][name])

    def bad(i, msg):
        findings.append((i, msg))

    for i, (c, r) in enumerate(zip(cases, results)):
        ctx.case(("struct", c["kind_tag"], i), True)
        if r.get("outcome") != "ok":
            if r.get("outcome") == "raise" and c["material"].get("kind") == "shipped":
                # a creeping / yielding history the adaptive integration gives up on (its documented way of failing) stores
                # nothing to check; elastic histories must always be solved
                ctx.count("unsolved inelastic history")
                continue
            bad(i, "the tube solve failed: %s %s" % (r.get("outcome"), r.get("msg", "")[:160]))
            continue
        if c["kind_tag"] == "noindex":
            continue        # its stored time-0 temperature is the blank state's; only compared step by step with the base run
        T = quad(i, "temperature")
        th = {s: quad(i, "thermal_strain" + s) for s in SUFF}
        e = {s: quad(i, "strain" + s) for s in SUFF}
        me = {s: quad(i, "mechanical_strain" + s) for s in SUFF}
        if max(r["asym"]) != 0.0:
            bad(i, "a stored stress or strain tensor is not symmetric (largest difference %g)" % max(r["asym"]))
        for s in SUFF:
            if not np.array_equal(me[s], e[s] - th[s]):
                bad(i, "total strain is not mechanical plus thermal strain (component %s, largest gap %g)" % (s, np.max(np.abs(e[s] - th[s] - me[s]))))
                break
        if any(np.any(th[s] != 0.0) for s in SUFF[3:]) or not (np.array_equal(th["_xx"], th["_yy"]) and np.array_equal(th["_xx"], th["_zz"])):
            bad(i, "the thermal strain is not isotropic")
        same = np.all(T == T[0], axis=0)
        if np.any(th["_xx"][:, same] != 0.0):
            bad(i, "thermal strain %g at a point whose temperature never changed" % np.max(np.abs(th["_xx"][:, same])))
        if c["kind_tag"] == "nothermal" and any(np.any(th[s] != 0.0) for s in SUFF):
            bad(i, "thermal strain %g in a tube without thermal results (initial temperature %g)" % (np.max(np.abs(th["_xx"])), c["T0"]))
        if c["material"]["alpha_kind"] == "const":
            a = c["material"]["alpha_v"][0]
            if not np.allclose(th["_xx"], a * (T - T[0]), rtol=1e-12, atol=1e-16):
                bad(i, "constant coefficient: thermal strain differs from alpha * (T - T0) by %g" % np.max(np.abs(th["_xx"] - a * (T - T[0]))))
        if "mesh" in r and c["temps"] is not None:
            conn = np.array(r["mesh"]["t"])
            nodal = np.array(c["temps"])                         # (ntime, nnodes)
            lo = np.min(nodal[:, conn], axis=2)[:, :, None]
            hi = np.max(nodal[:, conn], axis=2)[:, :, None]
            if np.any(T < lo - 1e-9) or np.any(T > hi + 1e-9):
                bad(i, "a quadrature-point temperature lies outside the range of its element's nodal temperatures")
        # model correspondence on sampled points
        nsub = 1
        if c.get("params", {}).get("force_divide"):
            nsub = 2 ** c["params"]["max_divide"]
        ne, nq = T.shape[1], T.shape[2]
        pts = [(rng.randrange(ne), rng.randrange(nq)) for _ in range(ctx.budget(4, 12))]
        m = c["material"]
        if m["alpha_kind"] == "shipped":
            continue            # the shipped expansion tables live in NEML; only bookkeeping and causality are checked for them
        a_term = "(alpha_pw %s %s)" % (qlist(m["alpha_T"]), qlist(m["alpha_v"]))
        for (el, q) in pts:
            temps = T[:, el, q]
            impl = th["_xx"][1:, el, q]
            scale = q_lit(qfrac(max(1e-9, float(np.max(np.abs(impl))))))
            subs = "[" + "; ".join(["%d%%nat" % nsub] * (len(temps) - 1)) + "]"
            terms.append("close_listb (1#1000000000000) %s (th_hist_sub %s 0 %s %s %s) %s"
                         % (scale, a_term, q_lit(qfrac(temps[0])), qlist(temps[1:]), subs, qlist(impl)))
            term_case.append((i, el, q))
    failing = coq_eval_cases("c15", HEADER, terms, shard=120) if terms else []
    for k in failing:
        i, el, q = term_case[k]
        bad(i, "stored thermal strain of element %d point %d differs from the model's trapezoidal history" % (el, q))
    ctx.oblige("corr/thermal-strain-history (%d points)" % len(terms), "corr", not failing, "%d points differ" % len(failing))

    def ok(i):
        return results[i].get("outcome") == "ok"

    for job in jobs:
        kind, a, b = job[0], job[1], job[2]
        ctx.count("pair:" + kind)
        if not ok(a) or (b is not None and not ok(b)):
            continue
        names = [f + s for f in FIELDS for s in SUFF] + ["temperature"]
        if kind in ("future", "truncated"):
            k = job[3]
            for n in names:
                if not np.array_equal(quad(a, n)[:k + 1], quad(b, n)[:k + 1]):
                    bad(b, "%s stored for the first %d steps changes when %s" % (n, k, "later inputs change" if kind == "future" else "the history is cut there"))
                    break
            if results[a]["force"][:k + 1] != results[b]["force"][:k + 1]:
                bad(b, "axial force of the first %d steps depends on later inputs" % k)
        elif kind == "noindex":
            for n in names:
                if not np.array_equal(quad(a, n)[1:], quad(b, n)[1:]):
                    bad(b, "%s differs by %g when the first state is created without a time index (init_state(tube, mat))"
                        % (n, np.max(np.abs(quad(a, n)[1:] - quad(b, n)[1:]))))
                    break
        elif kind == "network":
            E = cases[a]["material"]["E"]
            for n in names:
                x, y = quad(a, n), quad(b, n)
                sc = E * 1e-3 if n.startswith("stress") else (1.0 if n == "temperature" else 1e-3)
                if x.shape != y.shape or not np.allclose(x, y, rtol=0, atol=1e-9 * sc):
                    bad(b, "%s stored by a spring network that prescribes both tube ends differs by %g from the tube solved with the same end displacements"
                        % (n, np.max(np.abs(x - y)) if x.shape == y.shape else float("nan")))
                    break
        elif kind == "trial":
            for n in names:
                if not np.array_equal(quad(a, n), quad(b, n)):
                    bad(b, "%s changes when other trial displacements are solved from the same state first" % n)
                    break
            if results[a]["force"] != results[b]["force"] or results[a]["stiffness"] != results[b]["stiffness"]:
                bad(b, "force/stiffness change when other trial displacements are solved from the same state first")
        elif kind in ("refined", "forced", "forced-kink"):
            step = (len(cases[b]["times"]) - 1) // (len(cases[a]["times"]) - 1)
            E = cases[a]["material"]["E"]
            for n in names:
                if kind == "forced-kink" and not n.startswith("temperature"):
                    continue
                x, y = quad(a, n), quad(b, n)[::step]
                sc = E * 1e-3 if n.startswith("stress") else (1.0 if n == "temperature" else 1e-3)
                if not np.allclose(x, y, rtol=0, atol=1e-8 * sc):
                    bad(b, "elastic tube: %s differs by %g when %s" % (n, np.max(np.abs(x - y)),
                        "every step is cut into %d steps" % step if kind == "refined" else "sub-increments are forced"))
                    break
        elif kind == "free":
            E = cases[a]["material"]["E"]
            smax = max(float(np.max(np.abs(quad(a, "stress" + s)))) for s in SUFF)
            thmax = float(np.max(np.abs(quad(a, "thermal_strain_xx"))))
            mmax = max(float(np.max(np.abs(quad(a, "mechanical_strain" + s)))) for s in SUFF)
            if smax > 1e-8 * E * max(thmax, 1e-6) or mmax > 1e-8 * max(thmax, 1e-6):
                bad(a, "freely expanding uniformly heated tube: stress %g, mechanical strain %g (thermal strain %g)" % (smax, mmax, thmax))
    ctx.sample({"kinds": sorted(set(c["kind_tag"] for c in cases)), "runs": len(cases)})
    ctx.oblige("validated/structural-runs (%d runs)" % len(cases), "validated", not findings, "%d failing checks" % len(findings))
    if findings:
        import os
        if os.environ.get("VERIF_DEBUG"):
            for i, msg in findings:
                print("# finding run %d (%s, %dD): %s" % (i, cases[i]["kind_tag"], cases[i]["dim"], msg))
        i, msg = findings[0]
        ctx.violation("%s [%s run, %dD] (%d failing checks)" % (msg, cases[i]["kind_tag"], cases[i]["dim"], len(findings)),
                      {"case": to_impl(cases[i], i), "oracle": msg}, tag="C15:" + msg[:30])


def replay(rp):
    from harness.core import run_impl
    c = rp.get("case")
    if not c:
        print("replay file names a broken obligation, not an input: %s" % rp.get("broken"))
        return 1
    r = run_impl("struct_run", {"cases": [c]}, timeout=900)["results"][0]
    print("recorded:", rp.get("oracle"))
    print("observed now: outcome=%s force=%s asym=%s" % (r.get("outcome"), r.get("force"), r.get("asym")))
    return 1
