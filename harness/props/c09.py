"""
C09 — life responds correctly to rotation, repetition, scaling and worse loads.

prove : coq/props/C09.v (proofs/LifeInvariance.v, proofs/LifeMin.v)
corr  : the damage formulas of the model (von Mises squared, equivalent range
        squared, per-day sums) against creep_damage / fatigue_damage on
        synthetic histories with a rational stub material (shared with C01).
oracle: metamorphic pairs through the real determine_life: rotated axes
        (rational rotations from quaternions), permuted tubes / elements /
        quadrature points, constant strain offset, the day repeated d times
        (lumped), damages scaled by lam (lumped), raised stresses / strain
        ranges, an added tube; stub and shipped materials.
"""
import copy
from fractions import Fraction as F

import numpy as np

from harness.core import coq_eval_cases, run_impl
from harness.props import c01

COMPS = c01.COMPS
IDX = {"_xx": (0, 0), "_yy": (1, 1), "_zz": (2, 2), "_yz": (1, 2), "_xz": (0, 2), "_xy": (0, 1)}


def rehex(case):
    """refresh the hex payload of a history case from its meta arrays"""
    m = case["meta"]
    k = 0
    for panel in case["receiver"]["panels"]:
        for t in panel:
            arrs = m["tubes"][k]
            t["quad"] = {n: [[[c01.hx(x) for x in r] for r in d] for d in v] for n, v in arrs.items()}
            k += 1
    case["receiver"]["times"] = [c01.hx(t) for t in m["times"]]
    case["receiver"]["days"] = m["days"]


def rat_rotation(rng):
    """exact rational rotation matrix from an integer quaternion"""
    while True:
        a, b, c, d = [rng.randint(-4, 4) for _ in range(4)]
        n = a * a + b * b + c * c + d * d
        if n and (b or c or d):
            break
    R = [[F(a*a+b*b-c*c-d*d, n), F(2*(b*c-a*d), n), F(2*(b*d+a*c), n)],
         [F(2*(b*c+a*d), n), F(a*a-b*b+c*c-d*d, n), F(2*(c*d-a*b), n)],
         [F(2*(b*d-a*c), n), F(2*(c*d+a*b), n), F(a*a-b*b-c*c+d*d, n)]]
    return np.array([[float(x) for x in r] for r in R])


def rotate_arrs(arrs, R):
    out = dict(arrs)
    for prefix in ("stress", "mechanical_strain"):
        comp = {c: np.array(arrs[prefix + c]) for c in COMPS}
        S = np.zeros(comp["_xx"].shape + (3, 3))
        for c, (i, j) in IDX.items():
            S[..., i, j] = comp[c]
            S[..., j, i] = comp[c]
        S2 = np.einsum("ik,...kl,jl->...ij", R, S, R)
        for c, (i, j) in IDX.items():
            out[prefix + c] = S2[..., i, j].tolist()
    return out


def variants(rng, base):
    """list of (name, transformed case, relation) ; relation in same / le / scale:<lam>"""
    out = []
    m = base["meta"]
    lump = m["mode"] == "lump"

    def clone():
        c = copy.deepcopy(base)
        return c

    # rotation
    c = clone(); R = rat_rotation(rng)
    c["meta"]["tubes"] = [rotate_arrs(a, R) for a in m["tubes"]]
    rehex(c); out.append(("rotation", c, "same"))
    # permutation of elements and quadrature points (and tubes)
    c = clone()
    pe = rng.sample(range(m["ne"]), m["ne"]); pq = rng.sample(range(m["nq"]), m["nq"])
    c["meta"]["tubes"] = [{n: np.array(v)[:, pe][:, :, pq].tolist() for n, v in a.items()} for a in m["tubes"]]
    rng.shuffle(c["meta"]["tubes"])
    rehex(c); out.append(("permutation", c, "same"))
    # constant strain offset
    c = clone()
    off = {cmp: c01.rnd(rng, -1, 1, 1024) * (1e-3 if m["shipped"] else 1.0) for cmp in COMPS}
    c["meta"]["tubes"] = [{n: (np.array(v) + off[n[len("mechanical_strain"):]]).tolist() if n.startswith("mechanical_strain") else v
                           for n, v in a.items()} for a in m["tubes"]]
    rehex(c); out.append(("strain-offset", c, "same"))
    # larger stresses and strain excursions everywhere: scale about 0 by >= 1 (stub laws are monotone)
    if not m["shipped"]:
        c = clone(); lam = rng.choice([1.0, 1.25, 2.0])
        c["meta"]["tubes"] = [{n: (np.array(v) * lam).tolist() if (n.startswith("stress") or n.startswith("mechanical")) else v
                               for n, v in a.items()} for a in m["tubes"]]
        rehex(c); out.append(("raised-loads", c, "le"))
    # the day represented several times: needs a periodic day (closing sample = opening sample)
    if lump and m["days"] == 1:
        pb = clone()
        pb["meta"]["tubes"] = [{n: (v[:-1] + [v[0]]) for n, v in a.items()} for a in m["tubes"]]
        rehex(pb)
        c = copy.deepcopy(pb); d = rng.randint(2, 3)
        nt = len(m["times"])
        times = list(m["times"])
        for r in range(1, d):
            times += [t + r * m["period"] for t in m["times"][1:]]
        c["meta"]["times"] = times
        c["meta"]["days"] = d
        c["meta"]["tubes"] = [{n: (v + [v[i] for _ in range(1, d) for i in range(1, nt)]) for n, v in a.items()}
                              for a in pb["meta"]["tubes"]]
        rehex(c); out.append(("repeat-days", c, "same", pb))
    return out


def add_tube_case(rng, base):
    c = copy.deepcopy(base)
    extra = c01.gen_history(rng, 0, shipped=base["meta"]["shipped"])
    # reuse the base time grid: take a tube of matching shape from the base itself, perturbed
    a = copy.deepcopy(base["meta"]["tubes"][0])
    for n in a:
        if n.startswith("stress"):
            a[n] = (np.array(a[n]) * rng.choice([0.5, 1.5])).tolist()
    c["meta"]["tubes"] = base["meta"]["tubes"] + [a]
    c["receiver"]["panels"] = c["receiver"]["panels"] + [[{"quad": {}}]]
    rehex(c)
    return c


def scale_points_case(rng, cid):
    base = c01.gen_points(rng, cid)
    while base["meta"]["mode"] != "lump":
        base = c01.gen_points(rng, cid)
    lam = rng.choice([2.0, 0.5, 4.0, 3.0])
    c = copy.deepcopy(base)
    for t in c["meta"]["tubes"]:
        t["Dc"] = (np.array(t["Dc"]) * lam).tolist()
        t["Df"] = (np.array(t["Df"]) * lam).tolist()
    c["tubes"] = [{"Dc": [[[c01.hx(v) for v in r] for r in d] for d in t["Dc"]],
                   "Df": [[[c01.hx(v) for v in r] for r in d] for d in t["Df"]]} for t in c["meta"]["tubes"]]
    return base, c, lam


def same(a, b, tol=1e-6):
    if a == b:
        return True
    if a in (0.0, float("inf")) or b in (0.0, float("inf")):
        return False
    return abs(a - b) <= tol * max(abs(a), abs(b))


def run(ctx):
    ctx.rule = ("metamorphic pairs on synthetic histories (as C01): rotation by an exact rational rotation, permutation of "
                "tubes/elements/quadrature points, constant strain offset, loads scaled up (stub material), the single "
                "represented day repeated 2-3 times (lumped), per-cycle damages scaled by lam (lumped), one more tube; stub "
                "and the 6 shipped metallic materials. one case = one pair; non-trivial = base life finite and non-zero")
    ctx.trusted += ["brentq tolerance 1e-6 relative in life comparisons; shipped laws are exercised inside their data range only"]
    from harness import translators
    ctx.trusted += ["translator harness/translators/lifeformulas.py (Python ast -> Gallina expressions and normalised source text)"]
    translators.import_all()
    ctx.gen("LifeFormulas", translators.REGISTRY["LifeFormulas"])
    ctx.prove("C09")
    ctx.prove("C01_formulas")
    if ctx.tier == "thorough":
        ctx.coqchk("C09")
        ctx.coqchk("C01_formulas")
    rng = ctx.rng
    jobs = []   # (name, base_index, case, relation)
    cases = []
    for i in range(ctx.budget(30, 200)):
        shipped = c01.SHIPPED[i % 6] if i % 3 == 2 else None
        base = c01.gen_history(rng, len(cases), shipped=shipped)
        bi = len(cases); cases.append(base)
        for v in variants(rng, base):
            name, c, rel = v[:3]
            b2 = bi
            if len(v) > 3:
                v[3]["id"] = len(cases); b2 = len(cases); cases.append(v[3])
            c["id"] = len(cases); jobs.append((name, b2, len(cases), rel)); cases.append(c)
        c = add_tube_case(rng, base)
        c["id"] = len(cases); jobs.append(("add-tube", bi, len(cases), "le")); cases.append(c)
    for i in range(ctx.budget(30, 200)):
        b, c, lam = scale_points_case(rng, len(cases))
        bi = len(cases); cases.append(b)
        c["id"] = len(cases); jobs.append(("scale", bi, len(cases), "scale:%r" % lam)); cases.append(c)
    results = run_impl("life_run", {"cases": [c01.strip(c) for c in cases]}, timeout=1500)["results"]
    findings = []
    def life(i):
        r = results[i]
        if "error" in r or r.get("life") == "raised":
            return None
        return c01.unhex(r["life"])
    for name, bi, ci, rel in jobs:
        lb, lc = life(bi), life(ci)
        ctx.count("pair:" + name)
        if lb is None or lc is None:
            if (lb is None) != (lc is None):
                findings.append((cases[ci], cases[bi], "%s: one of the pair raised (%s / %s)" % (name, results[bi].get("error"), results[ci].get("error"))))
            continue
        ctx.case((name, bi), 0 < lb < float("inf"))
        if rel == "same" and not same(lb, lc):
            findings.append((cases[ci], cases[bi], "%s changes the life from %r to %r" % (name, lb, lc)))
        elif rel == "le" and not (lc <= lb * (1 + 1e-6) or lc == lb):
            findings.append((cases[ci], cases[bi], "%s increases the life from %r to %r" % (name, lb, lc)))
        elif rel.startswith("scale:"):
            lam = float(rel[6:])
            if 1 <= lb <= 1e6 and 1 <= lb / lam <= 1e6 and lb not in (0.0, float("inf")) and lc not in (0.0, float("inf")):
                if not same(lb / lam, lc):
                    findings.append((cases[ci], cases[bi], "scaling the damages by %r changes the life from %r to %r, not to %r" % (lam, lb, lc, lb / lam)))
    # correspondence of the damage formulas (stub histories)
    terms, info = [], []
    for c, r in zip(cases, results):
        if c["what"] == "histories" and not c["meta"]["shipped"] and "error" not in r and r.get("life") != "raised" \
                and len(terms) < ctx.budget(400, 2000):
            ts = c01.coq_history_terms(c, r)
            terms.extend(ts); info.extend([c] * len(ts))
    ctx.sample({"pairs": sorted(set(j[0] for j in jobs))})
    if findings:
        c, b, msg = findings[0]
        ctx.violation("%s (%d failing pairs)" % (msg, len(findings)), {"case": c01.strip(c), "base": c01.strip(b), "oracle": msg},
                      tag="C09:" + msg[:30])
    failing = coq_eval_cases("c09", c01.HEADER + c01.LIST_BEQ, terms, shard=80)
    ctx.checker_cmds.append("coqc (vm_compute) on %d damage-formula comparisons" % len(terms))
    ctx.oblige("corr/damage-formulas (%d comparisons)" % len(terms), "corr", not failing, "%d disagreements" % len(failing))


def replay(rp):
    c, b = rp.get("case"), rp.get("base")
    if not c:
        print("replay file names a broken obligation, not an input: %s" % rp.get("broken"))
        return 1
    res = run_impl("life_run", {"cases": [b, c]})["results"]
    print("recorded:", rp.get("oracle"))
    print("base life:", res[0].get("life"), " transformed life:", res[1].get("life"))
    return 1
