"""
C10 — a structural step succeeds only through converged, contiguous
sub-increments.

prove : coq/props/C10.v (model/Adaptive.v, proofs/AdaptiveProofs.v)
corr  : exhaustive enumeration of the loop's decision tree on the real
        PythonTubeSolver.solve with a scripted per-increment solver; every
        recorded trace must equal the trace of the Gallina model (evaluated in
        coqc by vm_compute).
oracle: the property itself, evaluated in Python on every recorded trace.
"""
from harness.core import HarnessError, coq_bool, coq_eval_cases, coq_list, run_impl, z_lit

HEADER = "From Coq Require Import ZArith List Bool.\nFrom SV Require Import model.Adaptive.\nImport ListNotations.\nOpen Scope Z_scope.\n"


def units(n):
    return 2 * 2 ** n


def frac(t, n):
    """time in [0,1] -> doubled-unit numerator; None when not exactly representable"""
    v = t * units(n)
    if v != int(v):
        return None
    return int(v)


def oracle(case):
    """The property on a recorded implementation trace.  Returns None or a
    description of what fails."""
    n = case["n"]
    T = units(n)
    tr = case["trace"]
    nfail = sum(1 for a in tr if not a["ok"])
    allowed = 1 if case["forced"] else n
    if case["outcome"] == "error":
        return "unexpected exception %s" % case["msg"]
    if case["outcome"] == "runaway":
        return "the loop neither returned nor raised within %s (it keeps cutting the increment)" % case["msg"]
    # load bookkeeping of each attempt
    for a in tr:
        if a["which"] != case["ndim"]:
            return "attempt %d dispatched to the %dD solver for a %dD tube" % (a["idx"], a["which"], case["ndim"])
        if case["with_p"]:
            if a["p_n"] != 3.0 * a["t_n"] + 1.0 or a["p_np1"] != 3.0 * a["t_np1"] + 1.0:
                return "attempt %d: pressure does not match its time" % a["idx"]
        else:
            if a["p_n"] != 0.0 or a["p_np1"] != 0.0:
                return "attempt %d: non-zero pressure without a pressure BC" % a["idx"]
        if a["disp"] != case["dtop"] * a["t_np1"]:
            return "attempt %d: displacement target is not dtop times the step fraction" % a["idx"]
        if case["with_T"]:
            T0 = [100.0, 200.0, 300.0]
            T1 = [164.0, 328.0, 556.0]
            exp = [x + (y - x) * a["t_np1"] for x, y in zip(T0, T1)]
            if a["T"] != exp:
                return "attempt %d: temperature is not the interpolation at the target fraction" % a["idx"]
    if case["outcome"] == "raise":
        if nfail < allowed:
            return "raised after %d failed sub-increments although %d are allowed" % (nfail, allowed)
        return None
    # returned
    if nfail >= allowed:
        return "returned a state although the subdivision budget (%d failures) was exhausted" % allowed
    st, pos = 0, 0
    for a in tr:
        f, t = frac(a["t_n"], n), frac(a["t_np1"], n)
        if f is None or t is None:
            return "attempt %d: times are not dyadic fractions of the step" % a["idx"]
        if not a["from_converged"]:
            if case.get("real"):
                return ("attempt %d starts from a state whose content is %s, not that of the last accepted state %d"
                        % (a["idx"], "what failed attempt %d left behind" % (a["from_state"] - 1) if a["from_state"] != 9999 else "neither accepted nor recorded", st))
            return "attempt %d starts from the state of a failed sub-increment" % a["idx"]
        if a["from_state"] != st:
            return "attempt %d starts from state %d, not from the last accepted state %d" % (a["idx"], a["from_state"], st)
        if f != pos:
            return "attempt %d starts at fraction %d/%d, the accepted progress is %d/%d (gap/overlap)" % (a["idx"], f, T, pos, T)
        if not pos < t:
            return "attempt %d is a zero-length or backward step (%d/%d -> %d/%d)" % (a["idx"], f, T, t, T)
        if t > T:
            return "attempt %d overshoots the end of the step" % a["idx"]
        if a["ok"]:
            st, pos = a["idx"] + 1, t
    if pos != T:
        return "returned with accepted progress %d/%d < 1" % (pos, T)
    if case["final"] != st or not case["final_converged"]:
        return "returned state %d is not the last converged state %d" % (case["final"], st)
    return None


def coq_case(case, fixed=True):
    n = case["n"]
    atts = []
    for a in case["trace"]:
        f, t = frac(a["t_n"], n), frac(a["t_np1"], n)
        atts.append("mkAttempt %d %d %s %s %s" % (a["idx"], a["from_state"], z_lit(-1 if f is None else f),
                                                   z_lit(-1 if t is None else t), coq_bool(a["ok"])))
    if case["outcome"] == "return":
        o = "(Return %d)" % case["final"]
    elif case["outcome"] == "raise":
        o = "Raise"
    else:
        o = "OutOfFuel"
    return "agrees %s %s %s %s %s %s" % (
        coq_bool(fixed), z_lit(n), coq_bool(case["forced"]),
        coq_list(["%d%%nat" % k for k in case["failing"]]), o, coq_list(atts))


def jobs_for(ctx, deep):
    jobs = []
    ns = [1, 2, 3, 4, 5, 6] if deep else [1, 2, 3, 4]
    for n in ns:
        for forced in (False, True):
            for ndim in (1, 2, 3):
                jobs.append({"kind": "tree", "n": n, "forced": forced, "ndim": ndim})
    # the real per-increment solver on small real tubes (a scripted failure is a genuine non-converged Newton solve);
    # the state an attempt starts from is identified by its content
    for n in ([1, 2, 3, 4] if deep else [1, 2, 3]):
        for forced in (False, True):
            for ndim in (1, 2, 3):
                if n <= (3 if ndim == 1 else 2) + (1 if deep else 0):
                    jobs.append({"kind": "realtree", "n": n, "forced": forced, "ndim": ndim, "with_T": (n + ndim) % 2 == 0})
    # sampled deeper limits and the optional inputs switched off
    for n in (5, 6):
        for _ in range(ctx.budget(20, 200)):
            nf = ctx.rng.randrange(0, n + 1)
            failing = sorted(set(ctx.rng.randrange(0, 2 ** n + n) if ctx.rng.random() < 0.5 else ctx.rng.randrange(0, 2 * n)
                                 for _ in range(nf)))
            jobs.append({"kind": "case", "n": n, "forced": ctx.rng.random() < 0.2, "ndim": 1 + ctx.rng.randrange(3),
                         "failing": failing, "with_T": ctx.rng.random() < 0.7, "with_p": ctx.rng.random() < 0.7,
                         "dtop": ctx.rng.choice([0.5, -0.25, 2.0, 0.0])})
    return jobs


def run(ctx):
    ctx.rule = ("cases = failure patterns of the per-increment solver, enumerated exhaustively over the decision tree "
                "(max_divide 1..4 in quick, 1..6 in thorough, all modes/abstractions; 5-6 additionally sampled with optional inputs on/off), with a scripted per-increment solver, and "
                "over max_divide 1..3 with the real solver on small real 1D/2D/3D elastic tubes where a scripted failure is a genuine non-converged Newton solve; "
                "non-trivial = at least one failed sub-increment; distinct by (n, forced, ndim, failing set, options)")
    ctx.trusted += [
        "scripted stub replacing structural.solve_python_{1,2,3}d; duck-typed state (copy, temperature, sbasis.interpolate)",
        "real-solver runs: wrapper around structural.solve_python_{1,2,3}d that makes scripted attempts fail inside the real Newton loop "
        "(rtol = atol = 0, two iterations) and snapshots the content of the starting state; displacements at Dirichlet dofs are not compared",
        "modelled, not verified: the per-increment Newton solve (its convergence verdict is the oracle `fails`)",
    ]
    ctx.assumptions += ["time/pressure/temperature interpolation inside an attempt is checked by the Python oracle, not by a theorem"]
    from harness import translators as _tr
    ctx.trusted += ["translator harness/translators/adaptiveloop.py (the loop's branch arithmetic emitted after exact matches of the source lines)"]
    _tr.import_all()
    ctx.gen("AdaptiveLoop", _tr.REGISTRY["AdaptiveLoop"])
    proved = ctx.prove("C10", expect_theorems=["C10_success_is_converged_contiguous", "C10_raise_iff_exhausted"])
    ctx.prove("C10_loop")
    if ctx.tier == "thorough":
        ctx.coqchk("C10")
        ctx.coqchk("C10_loop")

    res = run_impl("c10_adaptive", {"jobs": jobs_for(ctx, ctx.tier == "thorough")}, timeout=1200)
    cases = res["cases"]
    bad_oracle = []
    for c in cases:
        key = (c["n"], c["forced"], c["ndim"], tuple(c["failing"]), c["with_T"], c["with_p"], c["dtop"], c.get("real", False))
        ctx.count("real solver" if c.get("real") else "scripted solver")
        ctx.case(key, len(c["failing"]) > 0 and any(not a["ok"] for a in c["trace"]))
        ctx.count("n=%d" % c["n"])
        ctx.count("outcome=" + c["outcome"])
        ctx.count("forced" if c["forced"] else "adaptive")
        msg = oracle(c)
        if msg:
            bad_oracle.append((c, msg))
    for c in cases[:2] + cases[len(cases) // 2: len(cases) // 2 + 2]:
        ctx.sample({"n": c["n"], "forced": c["forced"], "ndim": c["ndim"], "failing": c["failing"],
                    "outcome": c["outcome"], "attempts": [(a["from_state"], a["t_n"], a["t_np1"], a["ok"]) for a in c["trace"]]})
    ctx.distribution["trees_complete"] = sum(1 for x in res["complete"] if x)
    ctx.distribution["trees"] = len(res["complete"])

    # oracle verdicts: report the smallest failing case
    if bad_oracle:
        bad_oracle.sort(key=lambda cm: (cm[0]["n"], len(cm[0]["failing"]), len(cm[0]["trace"])))
        c, msg = bad_oracle[0]
        ctx.violation("%s (max_divide=%d, %s, %dD, failing attempts %s; %d failing cases in total)"
                      % (msg, c["n"], "forced" if c["forced"] else "adaptive", c["ndim"], c["failing"], len(bad_oracle)),
                      {"case": {k: c[k] for k in ("n", "forced", "ndim", "failing", "with_T", "with_p", "dtop", "real", "real_T") if k in c},
                       "observed": c, "oracle": msg},
                      tag="C10:" + msg.split(" (")[0][:60])

    # correspondence with the Gallina model
    terms = [coq_case(c) for c in cases]
    failing = coq_eval_cases("c10", HEADER, terms, shard=300)
    ctx.checker_cmds.append("coqc (vm_compute) on %d generated trace comparisons" % len(terms))
    detail = ""
    if failing:
        c = cases[failing[0]]
        detail = "first disagreement: n=%d forced=%s ndim=%d failing=%s outcome=%s" % (
            c["n"], c["forced"], c["ndim"], c["failing"], c["outcome"])
    ctx.oblige("corr/adaptive-trace (%d traces)" % len(terms), "corr", not failing,
               "%d disagreements; %s" % (len(failing), detail))
    ctx.distribution["corr_disagreements"] = len(failing)
    if failing and not bad_oracle:
        ctx.notes.append("model/implementation traces disagree but the property holds on every recorded trace")


def replay(rp):
    c = rp.get("case")
    if not c:
        print("replay file names a broken obligation, not an input: %s" % rp.get("broken"))
        return 1
    if c.get("real"):
        res = run_impl("c10_adaptive", {"jobs": [{"kind": "real", "n": c["n"], "forced": c["forced"], "ndim": c["ndim"], "failing": c["failing"],
                                                  "with_T": c.get("real_T", True), "dtop": c["dtop"]}]})
    else:
        res = run_impl("c10_adaptive", {"jobs": [dict(kind="case", **c)]})
    msg = oracle(res["cases"][0])
    print("observed:", res["cases"][0]["outcome"], [(a["from_state"], a["t_n"], a["t_np1"], a["ok"]) for a in res["cases"][0]["trace"]])
    if msg:
        print("VIOLATION reproduced: " + msg)
        return 1
    print("property holds on this input")
    return 0
