"""
C08 — results do not depend on thread count, paging or progress options.

gen   : coq/gen/Dispatch.v regenerated from srlife (pool calls, result pairing,
        prefix numbering, copied dictionaries)
prove : coq/props/C08.v
oracle: the real managers.SolutionManager pipeline (thermal, spring-system
        structural with the scikit-fem tube solver and a shipped creep-plasticity
        model, creep-fatigue life, ceramic reliability of the same fields) on small
        receivers, once per configuration; every stored array, the life and the
        reliabilities must be bit-identical across configurations.
"""
import copy

from harness import translators
from harness.core import run_impl_parallel


def hx(x):
    return float(x).hex()


def tube(rng, dim, h, mult=1, fl=1.0, nz=3, nr=4, nt=6):
    return {"r": hx(12.7), "t": hx(1.2), "h": hx(h), "nr": nr, "nt": nt, "nz": nz, "T0": hx(300.0), "dim": dim, "mult": mult,
            "flux": [hx(0.0), hx(0.5 * fl), hx(0.8 * fl), hx(0.0)],
            "Tfluid": [hx(823.0), hx(873.0 + rng.uniform(0, 20)), hx(893.0), hx(833.0)],
            "pressure": [hx(0), hx(1.0), hx(1.0), hx(0)]}


def gen_receiver(rng, kind):
    times = [hx(0), hx(6), hx(12), hx(24)]
    if kind == "separate":      # every tube its own structural sub-problem (sub-problems in parallel)
        panels = [{"stiff": "disconnect", "tubes": [tube(rng, 3, 3000.0, 1, 1.0), tube(rng, 3, 2400.0, 1, 0.9)]},
                  # (the last tube's result fields exceed 64 KiB: 4 times x 8 x 72 elements x 4 points x 8 bytes)
                  {"stiff": "disconnect", "tubes": [tube(rng, 1, 3000.0, 2, 0.7), tube(rng, 2, 3000.0, 1, 1.1, nr=9, nt=72)]}]
        rstiff = "disconnect"
    elif kind == "coupled":     # one sub-network holding all tubes (edges in parallel)
        panels = [{"stiff": hx(rng.choice([50.0, 200.0])), "tubes": [tube(rng, 1, 3000.0, 1, 1.0), tube(rng, 2, 3000.0, 3, 0.8)]},
                  {"stiff": "rigid", "tubes": [tube(rng, 2, 3000.0, 1, 0.6), tube(rng, 1, 3000.0, 1, 1.2)]}]
        rstiff = hx(rng.choice([100.0, 400.0]))
    elif kind == "tiny":        # two 1D tubes tied into one sub-network (solved in this process, or edge by edge in workers)
        panels = [{"stiff": "rigid", "tubes": [tube(rng, 1, 3000.0, 1, 1.0), tube(rng, 1, 3000.0, 2, 0.8)]}]
        rstiff = "disconnect"
    else:                       # two sub-networks of different size
        panels = [{"stiff": "rigid", "tubes": [tube(rng, 1, 3000.0, 1, 1.0), tube(rng, 1, 3000.0, 1, 0.8), tube(rng, 2, 3000.0, 1, 0.9)]},
                  {"stiff": "disconnect", "tubes": [tube(rng, 3, 2000.0, 1, 1.1)]}]
        rstiff = "disconnect"
    return {"period": hx(24.0), "days": 1, "times": times, "rstiff": rstiff, "panels": panels}


def run(ctx):
    ctx.rule = ("receivers of 2 panels x 1-3 tubes (1D/2D/3D mixes, multipliers, different heights, flux on one side varying along "
                "the height, convective inner wall, pressure) in three connection patterns (all disconnected = sub-problems in "
                "parallel; all coupled = edges in parallel; mixed); 740H thermal/deformation(base)/damage data, SiC PIA reliability; "
                "configurations (nthreads, paging, progress): (1,off,off) reference, (2,off,off), (3,on,on), (1,on,off), (ntubes,off,on), (2 ntubes + 1,off,off); "
                "plus the coupled thermohydraulic solver on a small receiver with (1,off), (2,off), (3,on). "
                "one case = one pipeline run; all non-trivial")
    ctx.trusted += ["process isolation of multiprocess workers and dill pickling (exercised, not modelled)",
                    "translator harness/translators/dispatch.py"]
    translators.import_all()
    ctx.gen("Dispatch", translators.REGISTRY["Dispatch"])
    ctx.prove("C08")
    if ctx.tier == "thorough":
        ctx.coqchk("C08")
    rng = ctx.rng
    # "-cutback": the full-length attempt of the second step is made to fail (in every process), so that the adaptive
    # loop cuts that step into sub-increments
    kinds = ["separate", "coupled", "tiny-cutback"] if ctx.tier != "thorough" else \
        ["separate", "coupled", "mixed", "separate-cutback", "coupled-cutback", "separate", "coupled"]
    cases, groups = [], []
    for kind in kinds:
        rec = gen_receiver(rng, kind.split("-")[0])
        ntubes = sum(len(p["tubes"]) for p in rec["panels"])
        configs = [(1, False, False), (2, False, False), (3, True, True), (1, True, False), (ntubes, False, True),
                   (2 * ntubes + 1, False, False)]      # more workers than there are tubes or sub-problems
        if kind == "tiny-cutback":
            configs = [(1, False, False), (2, False, False), (1, True, True)]
        if ctx.tier == "thorough":
            configs += [(4, True, False), (2, True, True)]
        grp = []
        for (nth, page, prog) in configs:
            cases.append({"id": len(cases), "receiver": rec, "nthreads": nth, "page": page, "progress": prog, "material": "740H",
                          "reliability": True, "kind": kind,
                          "force_cutback": kind.endswith("cutback")})
            grp.append(len(cases) - 1)
        groups.append(grp)
    # the coupled (thermohydraulic) thermal solver has a pool of its own, one map per Picard iteration
    from harness.props import c07 as c07mod
    ccases, cgroups = [], []
    for g in range(ctx.budget(1, 3)):
        base = c07mod.gen_energy(rng, 0)
        grp = []
        for (nth, page) in [(1, False), (2, False), (3, True)]:
            c = c07mod.to_impl(base)
            c.update(id=len(ccases), nthreads=nth, page=page)
            ccases.append(c)
            grp.append(len(ccases) - 1)
        cgroups.append(grp)
    import threading
    cres = []
    th = threading.Thread(target=lambda: cres.extend(run_impl_parallel("c07_coupled", ccases, workers=len(ccases), timeout=2400, crash_ok=True)))
    th.start()
    results = run_impl_parallel("c08_pipeline", cases, workers=len(cases), timeout=2400, crash_ok=True)
    th.join()
    findings = []
    for c, r in zip(cases, results):
        ctx.case(("c08", c["kind"], c["nthreads"], c["page"], c["progress"], c["id"]), True)
        ctx.count("config:nthreads=%d page=%s progress=%s" % (c["nthreads"], c["page"], c["progress"]))
        ctx.count("receiver:" + c["kind"])
    for grp in groups:
        ref_c, ref = cases[grp[0]], results[grp[0]]
        if ref.get("outcome") != "ok":
            first = ref.get("msg", "").split(" | ")[0]
            if first.startswith("RuntimeError:") and ("converge" in first or "Adaptive integration failed" in first or "Too many iterations" in first):
                # a solver of the pipeline gives this analysis up (its documented way of failing): there are no results to compare,
                # but every configuration has to give it up in the same way
                ctx.count("reference raises non-convergence (outcomes compared)")
                for i in grp[1:]:
                    c, r = cases[i], results[i]
                    if r.get("outcome") == "ok" or r.get("msg", "").split(" | ")[0] != first:
                        findings.append((c, "nthreads=%d page_results=%s progress_bars=%s (%s receiver): %s where the reference run raises %s"
                                         % (c["nthreads"], c["page"], c["progress"], c["kind"],
                                            "the run succeeds" if r.get("outcome") == "ok" else "the run fails with " + r.get("msg", "").split(" | ")[0][:120], first[:120])))
                continue
            findings.append((ref_c, "the reference run (1 worker, in memory, no progress bars) failed: %s" % ref.get("msg", "")[:300]))
            continue
        for i in grp[1:]:
            c, r = cases[i], results[i]
            what = "nthreads=%d page_results=%s progress_bars=%s (%s receiver)" % (c["nthreads"], c["page"], c["progress"], c["kind"])
            if r.get("outcome") != "ok":
                findings.append((c, "%s: the run fails where the reference run succeeds: %s" % (what, r.get("msg", "")[:300])))
                continue
            if r["life"] != ref["life"]:
                findings.append((c, "%s: life %s, reference %s" % (what, float.fromhex(r["life"]), float.fromhex(ref["life"]))))
            if r["reliability"] != ref["reliability"]:
                findings.append((c, "%s: reliabilities differ from the reference run" % what))
            if r["digest"] != ref["digest"]:
                keys = sorted(set(r["detail"]) | set(ref["detail"]))
                diff = [k for k in keys if r["detail"].get(k) != ref["detail"].get(k)]
                findings.append((c, "%s: stored results differ from the reference run in %d arrays, first %s (max |value| %s vs %s)"
                                 % (what, len(diff), diff[0], (r["detail"].get(diff[0]) or [0, 0, None])[2], (ref["detail"].get(diff[0]) or [0, 0, None])[2])))
            if c["progress"] and not r.get("progress_output"):
                pass
    for grp in cgroups:
        ref = cres[grp[0]]
        for i in grp:
            ctx.case(("c08-coupled", i, ccases[i]["nthreads"], ccases[i]["page"]), True)
            ctx.count("coupled:nthreads=%d page=%s" % (ccases[i]["nthreads"], ccases[i]["page"]))
        if ref.get("setup") != "accept" or "tubes" not in ref:
            ctx.count("coupled:reference not solved (nothing to compare)")
            continue        # a receiver the coupled solver does not take (C07's business); nothing to compare
        ctx.count("coupled:groups compared")
        for i in grp[1:]:
            r = cres[i]
            what = "coupled thermal solve with nthreads=%d page_results=%s" % (ccases[i]["nthreads"], ccases[i]["page"])
            if r.get("outcome") == "crash" or "tubes" not in r:
                findings.append((ccases[i], "%s fails where the single-worker in-memory solve succeeds: %s"
                                 % (what, (r.get("msg") or r.get("error") or r.get("solve_error") or "")[:300])))
            elif r["tubes"] != ref["tubes"]:
                findings.append((ccases[i], "%s: wall / fluid temperatures differ from the single-worker in-memory solve" % what))
    ctx.sample({"receivers": kinds, "runs": len(cases), "coupled_runs": len(ccases)})
    ctx.oblige("validated/configurations-agree (%d pipeline runs)" % len(cases), "validated", not findings, "%d failing checks" % len(findings))
    if findings:
        import os
        if os.environ.get("VERIF_DEBUG"):
            for c, msg in findings:
                print("# finding: %s" % msg[:400])
        c, msg = findings[0]
        cc = copy.deepcopy(c)
        ctx.violation("%s (%d failing checks)" % (msg[:400], len(findings)), {"case": cc, "oracle": msg}, tag="C08:" + msg[:30])


def replay(rp):
    from harness.core import run_impl
    c = rp.get("case")
    if not c:
        print("replay file names a broken obligation, not an input: %s" % rp.get("broken"))
        return 1
    ref = dict(c, nthreads=1, page=False, progress=False)
    if c.get("what") == "solve":        # a coupled thermal solve
        r = run_impl("c07_coupled", {"cases": [ref, c]}, timeout=2400)["results"]
        print("recorded:", rp.get("oracle"))
        print("observed now: identical to the single-worker solve: %s" % (r[0].get("tubes") == r[1].get("tubes")))
        return 1
    r = run_impl("c08_pipeline", {"cases": [ref, c]}, timeout=2400)["results"]
    print("recorded:", rp.get("oracle"))
    print("observed now: reference life=%s digest=%s | configuration outcome=%s life=%s digest=%s %s"
          % (r[0].get("life"), r[0].get("digest", "")[:12], r[1].get("outcome"), r[1].get("life"), r[1].get("digest", "")[:12], r[1].get("msg", "")[:200]))
    return 1
