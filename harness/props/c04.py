"""
C04 — the receiver spring system is in equilibrium for every connection option.

prove : coq/props/C04.v (model/Spring.v, proofs/SpringProofs.v)
corr  : the real SpringSystemSolver (network build, rigid contraction,
        disconnect split, assembly, Newton, copy-back) with a scripted affine
        tube solver; the tube-top displacements it writes back are checked
        against the equilibrium of the UN-reduced network inside coqc
        (certificate), exhaustively over all 3^(1+panels) option assignments
        for small receivers, sampled beyond.
oracle: independent dense direct-stiffness solve (NumPy, union-find
        elimination of rigid links); completion of the solve for every option
        assignment; reported tube force = kt * d + f0.
"""
import itertools
from fractions import Fraction as F
F_ = F

import numpy as np

from harness.core import safe_fraction, coq_eval_cases, coq_list, q_lit, run_impl

HEADER = ("From Coq Require Import QArith Qabs List Bool ZArith.\nFrom SV Require Import model.Spring.\n"
          "Import ListNotations.\nOpen Scope Q_scope.\n")
TOL = F(1, 10 ** 7)


def hx(x):
    return float(x).hex()


def fq(x):
    return q_lit(safe_fraction(x))


def rnd(rng, lo, hi, q=8):
    return round(rng.uniform(lo, hi) * q) / q


OPTS = ["rigid", "disconnect", "num"]


def make_case(rng, cid, ropt, popts, ntubes, nsteps=2, intopt=False):
    def num():
        v = rnd(rng, 5, 200)
        return ["int", int(v) + 1] if intopt else v
    case = {"id": cid, "times": [float(i) for i in range(nsteps + 1)],
            "ropt": num() if ropt == "num" else ropt, "panels": []}
    for po, nt in zip(popts, ntubes):
        tubes = [{"kt": rnd(rng, 5, 100), "f0": [0.0] + [rnd(rng, -50, 50) for _ in range(nsteps)]} for _ in range(nt)]
        case["panels"].append({"popt": num() if po == "num" else po, "tubes": tubes})
    return case


def to_impl(c):
    def o(v):
        return v if isinstance(v, (str, list)) else hx(v)
    return {"id": c["id"], "times": [hx(t) for t in c["times"]], "ropt": o(c["ropt"]),
            "panels": [{"popt": o(p["popt"]), "tubes": [{"kt": hx(t["kt"]), "f0": [hx(x) for x in t["f0"]]} for t in p["tubes"]]}
                       for p in c["panels"]]}


def optval(v):
    if isinstance(v, list):
        return float(v[1])
    return v


def coq_opt(v):
    v = optval(v)
    if v == "rigid":
        return "Rigid"
    if v == "disconnect":
        return "Cut"
    return "(Lin %s)" % fq(v)


def coq_receiver(c, step):
    return "(mkRec %s %s)" % (coq_opt(c["ropt"]), coq_list([
        "(mkPanel %s %s)" % (coq_opt(p["popt"]), coq_list(["(mkTube %s %s)" % (fq(t["kt"]), fq(t["f0"][step])) for t in p["tubes"]]))
        for p in c["panels"]]))


def direct_stiffness(c, step):
    """independent solve on the original graph; returns tube-top displacements [panel][tube]"""
    # nodes: 0 root, then per panel manifold, per tube top; bottoms are ground
    ids = {"root": 0}
    n = 1
    for p, pn in enumerate(c["panels"]):
        ids[("m", p)] = n; n += 1
        for q in range(len(pn["tubes"])):
            ids[("t", p, q)] = n; n += 1
    parent = list(range(n))

    def find(a):
        while parent[a] != a:
            parent[a] = parent[parent[a]]
            a = parent[a]
        return a
    springs = []
    ro = optval(c["ropt"])
    for p, pn in enumerate(c["panels"]):
        if ro == "rigid":
            parent[find(ids[("m", p)])] = find(0)
        elif ro != "disconnect":
            springs.append((0, ids[("m", p)], ro))
        po = optval(pn["popt"])
        for q in range(len(pn["tubes"])):
            if po == "rigid":
                parent[find(ids[("t", p, q)])] = find(ids[("m", p)])
            elif po != "disconnect":
                springs.append((ids[("m", p)], ids[("t", p, q)], po))
    reps = sorted(set(find(a) for a in range(n)))
    idx = {r: i for i, r in enumerate(reps)}
    K = np.zeros((len(reps), len(reps)))
    Fv = np.zeros(len(reps))
    for a, b, k in springs:
        ia, ib = idx[find(a)], idx[find(b)]
        K[ia, ia] += k; K[ib, ib] += k; K[ia, ib] -= k; K[ib, ia] -= k
    for p, pn in enumerate(c["panels"]):
        for q, t in enumerate(pn["tubes"]):
            it = idx[find(ids[("t", p, q)])]
            K[it, it] += t["kt"]
            Fv[it] -= t["f0"][step]
    # floating clusters (no path to a tube) have a zero row: pin them
    u = np.zeros(len(reps))
    # connected components of K's sparsity
    seen = set()
    for s in range(len(reps)):
        if s in seen:
            continue
        comp, stack = [], [s]
        while stack:
            a = stack.pop()
            if a in seen:
                continue
            seen.add(a); comp.append(a)
            stack.extend(b for b in range(len(reps)) if K[a, b] != 0 and b not in seen)
        Kc = K[np.ix_(comp, comp)]
        if np.linalg.matrix_rank(Kc) == len(comp):
            u[comp] = np.linalg.solve(Kc, Fv[comp])
    return [[u[idx[find(ids[("t", p, q)])]] for q in range(len(pn["tubes"]))] for p, pn in enumerate(c["panels"])]


def run(ctx):
    ctx.rule = ("all 3^(1+panels) assignments of {rigid, disconnect, numeric} to the receiver and panel connections for 1-2 panels x "
                "1-2 tubes (quick) / up to 3 x 3 (thorough), numeric options as floats and as Python ints, random affine tube laws "
                "and two load steps; sampled larger receivers (up to 5 panels x 4 tubes). one case = one system solve; "
                "non-trivial = at least one rigid or disconnect option; distinct by input")
    ctx.trusted += ["scripted affine tube solver (duck-typed setup_tube/init_state/solve/dump_state)",
                    "networkx contraction/components and numpy.linalg.solve are not modelled: their result is certified against the "
                    "un-reduced equilibrium; uniqueness of that equilibrium is validated by the direct-stiffness oracle, not proved"]
    from harness import translators as _tr
    ctx.trusted += ["translator harness/translators/springnet.py (edge assembly as a Gallina function; residual selection and topology as source text)"]
    _tr.import_all()
    ctx.gen("SpringNet", _tr.REGISTRY["SpringNet"])
    ctx.prove("C04")
    ctx.prove("C04_source")
    if ctx.tier == "thorough":
        ctx.coqchk("C04")
        ctx.coqchk("C04_source")
    rng = ctx.rng
    cases = []
    maxp, maxt = ctx.budget(2, 3), ctx.budget(2, 3)
    for npan in range(1, maxp + 1):
        for ro in OPTS:
            for popts in itertools.product(OPTS, repeat=npan):
                for ntubes in itertools.product(range(1, maxt + 1), repeat=npan):
                    if ctx.tier == "thorough" and npan == 3 and rng.random() < 0.6:
                        continue
                    cases.append(make_case(rng, len(cases), ro, popts, ntubes, intopt=rng.random() < 0.25))
    for _ in range(ctx.budget(40, 300)):
        npan = rng.randint(3, 5)
        cases.append(make_case(rng, len(cases), rng.choice(OPTS), [rng.choice(OPTS) for _ in range(npan)],
                               [rng.randint(1, 4) for _ in range(npan)], intopt=rng.random() < 0.2))
    for i, c in enumerate(cases):
        c["id"] = i
    results = run_impl("c04_spring", {"cases": [to_impl(c) for c in cases]}, timeout=1500)["results"]
    terms, info, findings = [], [], []
    for c, r in zip(cases, results):
        opts = [optval(c["ropt"])] + [optval(p["popt"]) for p in c["panels"]]
        ctx.case(("sys", c["id"]), any(isinstance(o, str) for o in opts))
        ctx.count("panels=%d" % len(c["panels"]))
        ctx.count("ropt=%s" % (opts[0] if isinstance(opts[0], str) else "numeric"))
        desc = "receiver=%s panels=%s tubes=%s" % (c["ropt"], [p["popt"] for p in c["panels"]], [len(p["tubes"]) for p in c["panels"]])
        if r["outcome"] != "ok":
            findings.append((c, "the system solve does not complete: %s (%s)" % (r.get("msg"), desc)))
            continue
        for step in range(1, len(c["times"])):
            d = [[float.fromhex(t[step]) for t in p] for p in r["d"]]
            f = [[float.fromhex(t[step]) for t in p] for p in r["f"]]
            ref = direct_stiffness(c, step)
            for p, pn in enumerate(c["panels"]):
                for q, t in enumerate(pn["tubes"]):
                    sc = 1 + abs(ref[p][q])
                    if not (abs(d[p][q] - ref[p][q]) <= 1e-7 * sc):
                        findings.append((c, "tube %d/%d step %d: top displacement %r, direct-stiffness solution %r (%s)"
                                         % (p, q, step, d[p][q], ref[p][q], desc)))
                    if not (abs(f[p][q] - (t["kt"] * d[p][q] + t["f0"][step])) <= 1e-9 * (1 + abs(t["f0"][step]))):
                        findings.append((c, "tube %d/%d step %d: stored force is not the tube's force at its stored displacement" % (p, q, step)))
            terms.append("equilb %s %s %s" % (q_lit(TOL), coq_receiver(c, step),
                                              coq_list([coq_list([fq(x) for x in row]) for row in d])))
            info.append((c, step))
    # ---- the same certificate with finite-element tubes: an elastic tube is an affine spring whose law the
    # driver measures on a replay; the network solved by the real system solver must be in equilibrium with them
    from harness.core import run_impl_parallel
    rcases = []
    for i in range(ctx.budget(8, 30)):
        npan = rng.randint(1, 3)
        ro = rng.choice(OPTS)
        rc = {"id": i, "times": [0.0, 1.0, 2.0], "ropt": rnd(rng, 500, 50000) if ro == "num" else ro, "panels": [],
              "E": rng.choice([1.0e5, 1.9e5]), "nu": 0.3, "alpha": rng.choice([1.2e-5, 1.8e-5])}
        for _ in range(npan):
            po = rng.choice(OPTS)
            tubes = []
            for _ in range(rng.randint(1, 2)):
                tubes.append({"r": 12.7, "t": rng.choice([1.0, 1.5]), "h": rng.choice([1000.0, 2000.0]), "nr": 3, "nt": 4, "nz": 2,
                              "dim": rng.choice([1, 1, 2]), "T0": 300.0, "dT": [0.0, rng.uniform(100, 500), rng.uniform(100, 500)],
                              "pressure": [0.0, rng.uniform(0, 5), rng.uniform(0, 5)],
                              "tjit": rng.choice([0.0, 0.0, 2.0 ** -52, -2.0 ** -52, 2.0 ** -51])})
            rc["panels"].append({"popt": rnd(rng, 500, 50000) if po == "num" else po, "tubes": tubes})
        rcases.append(rc)

    def real_impl(c):
        def o(v):
            return v if isinstance(v, str) else hx(v)

        def tb(t):
            return {k: (hx(v) if isinstance(v, float) else ([hx(x) for x in v] if isinstance(v, list) else v)) for k, v in t.items()}
        return {"id": c["id"], "times": [hx(t) for t in c["times"]], "ropt": o(c["ropt"]), "E": hx(c["E"]), "nu": hx(c["nu"]), "alpha": hx(c["alpha"]),
                "panels": [{"popt": o(p["popt"]), "tubes": [tb(t) for t in p["tubes"]]} for p in c["panels"]]}
    rres = run_impl_parallel("c04_real", [real_impl(c) for c in rcases], workers=8, timeout=1500)
    for c, r in zip(rcases, rres):
        ctx.case(("real", c["id"], str(c["ropt"]), str([p["popt"] for p in c["panels"]])), True)
        ctx.count("real-tube receivers")
        desc = "finite-element tubes, receiver=%s panels=%s" % (c["ropt"], [p["popt"] for p in c["panels"]])
        if r["outcome"] != "ok":
            findings.append((c, "the system solve with finite-element tubes does not complete: %s (%s)" % (r.get("msg"), desc)))
            continue
        for step in (1, 2):
            # the measured affine laws of this step
            law = {"id": c["id"], "times": c["times"], "ropt": c["ropt"],
                   "panels": [{"popt": p["popt"], "tubes": [{"kt": float.fromhex(r["kt"][pi][qi][step]),
                                                             "f0": [0.0, 0.0, 0.0][:step] + [float.fromhex(r["f0"][pi][qi][step])]}
                                                            for qi in range(len(p["tubes"]))]} for pi, p in enumerate(c["panels"])]}
            d = [[float.fromhex(t[step]) for t in p] for p in r["d"]]
            for pi, p in enumerate(law["panels"]):
                for qi, t in enumerate(p["tubes"]):
                    F = float.fromhex(r["f"][pi][qi][step])
                    if abs(F - (t["kt"] * d[pi][qi] + t["f0"][step])) > 1e-7 * (abs(F) + abs(t["f0"][step]) + 1.0):
                        findings.append((c, "step %d: an elastic finite-element tube is not an affine spring (force %r, law gives %r) (%s)"
                                         % (step, F, t["kt"] * d[pi][qi] + t["f0"][step], desc)))
                    if not t["kt"] > 0:
                        findings.append((c, "step %d: a finite-element tube has stiffness %r (%s)" % (step, t["kt"], desc)))
            terms.append("equilb %s %s %s" % (q_lit(F_(1, 10 ** 6)), coq_receiver(law, step), coq_list([coq_list([fq(x) for x in row]) for row in d])))
            info.append((c, step))
    ctx.sample({"example": to_impl(cases[len(cases) // 2])})
    if findings:
        findings.sort(key=lambda f: (len(f[0]["panels"]), sum(len(p["tubes"]) for p in f[0]["panels"])))
        c, msg = findings[0]
        ctx.violation("%s (%d failing checks)" % (msg, len(findings)), {"case": real_impl(c) if "E" in c else to_impl(c), "oracle": msg},
                      tag="C04:" + msg[:30])
    failing = coq_eval_cases("c04", HEADER, terms, shard=150)
    ctx.checker_cmds.append("coqc (vm_compute) equilibrium certificate of %d solved steps" % len(terms))
    detail = ""
    if failing:
        c, step = info[failing[0]]
        detail = "first: receiver=%s panels=%s step %d" % (c["ropt"], [p["popt"] for p in c["panels"]], step)
    ctx.oblige("corr/spring-equilibrium-certificate (%d steps)" % len(terms), "corr", not failing,
               "%d steps not in equilibrium on the un-reduced network; %s" % (len(failing), detail))
    if failing and not findings:
        c, step = info[failing[0]]
        ctx.violation("written-back tube displacements are not an equilibrium of the un-reduced network (receiver=%s panels=%s step %d)"
                      % (c["ropt"], [p["popt"] for p in c["panels"]], step),
                      {"case": real_impl(c) if "E" in c else to_impl(c), "oracle": "certificate fails"},
                      tag="C04:certificate")


def replay(rp):
    c = rp.get("case")
    if not c:
        print("replay file names a broken obligation, not an input: %s" % rp.get("broken"))
        return 1
    r = run_impl("c04_real" if "E" in c else "c04_spring", {"cases": [c]})["results"][0]
    print("recorded:", rp.get("oracle"))
    print("observed now:", r)
    return 1
