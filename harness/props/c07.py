"""
C07 — the coupled fluid-solid thermal solution is energy-consistent.

prove : coq/props/C07.v
corr  : flow-path validation (accept / reject) against model/Coupled.v on
        random partitions; the reset trigger on exact times.
oracle: small receivers through the real ThermohydraulicsThermalSolver with a
        rational stub fluid: inlet temperature, declared panel order, energy
        consistency in steady solid mode (with the proved half-node factor),
        multiplier merge, initial condition and cycle reset.
"""
import copy
import math
from fractions import Fraction as F

import numpy as np

from harness.core import coq_bool, coq_eval_cases, coq_list, q_lit, run_impl, run_impl_parallel

HEADER = ("From Coq Require Import QArith List Bool ZArith.\nFrom SV Require Import model.Coupled.\n"
          "Import ListNotations.\n")
KF_TAG = "C07:reduced-abstraction tube sliced away from mid-height"
KF_GRID = "C07:tubes of one panel with different wall grids"


def hx(x):
    return float(x).hex()


def unhex(l, shape):
    return np.array([float.fromhex(x) for x in l]).reshape(shape)


FLUID = {"c0": 1.5, "c1": 0.0, "r0": 2.0, "r1": 0.0, "f0": 0.004, "f1": 0.0, "f2": 0.0}
GEOM = dict(r=12.0, t=1.0, h=100.0)


def tube_spec(rng, times, dim, mult=1, plane=None, flux_level=None, nr=None, nt=None, nz=None, T0=550.0, uniform=False, settled=False):
    nr = nr or rng.randint(3, 4)
    nt = nt or rng.randint(3, 4)
    nz = nz or rng.randint(2, 3)
    lvl = flux_level if flux_level is not None else rng.choice([1.0, 2.0, 3.0])
    if uniform or dim < 3:
        flux = [[[lvl * (1.0 + (0.0 if settled else 0.25 * ti)) for _ in range(nz)] for _ in range(nt)] for ti in range(len(times))]
    else:
        flux = [[[lvl * (1.0 + 0.125 * j + 0.25 * k) for k in range(nz)] for j in range(nt)] for _ in times]
    return {"r": GEOM["r"], "t": GEOM["t"], "h": GEOM["h"], "nr": nr, "nt": nt, "nz": nz, "T0": T0, "mult": mult, "dim": dim,
            "plane": GEOM["h"] / 2 if plane is None else plane, "angle": 0.0, "flux": flux}


def to_impl(case):
    c = copy.deepcopy(case)
    c.pop("meta", None)
    if c["what"] == "trigger":
        c["period"] = hx(c["period"]); c["ts"] = [hx(t) for t in c["ts"]]
        return c
    c["times"] = [hx(t) for t in c["times"]]
    c["period"] = hx(c["period"])
    c["k"], c["a"] = hx(c["k"]), hx(c["a"])
    c["fluid"] = {k: hx(v) for k, v in c["fluid"].items()}
    for pname, tubes in c["panels"]:
        for t in tubes:
            for k in ("r", "t", "h", "T0", "plane", "angle"):
                t[k] = hx(t[k])
            t["flux"] = [[[hx(v) for v in row] for row in pl] for pl in t["flux"]]
    for fname, fp in c["flowpaths"]:
        fp["mass_flow"] = [hx(v) for v in fp["mass_flow"]]
        fp["inlet"] = [hx(v) for v in fp["inlet"]]
    return c


def base_case(cid, times, panels, flowpaths, steady=True, reset=False, period=None, pset=None):
    return {"id": cid, "what": "solve", "times": times, "period": period or times[-1], "days": 1, "panels": panels,
            "flowpaths": flowpaths, "k": 20.0, "a": 5.0, "fluid": dict(FLUID), "steady": steady, "reset": reset,
            "pset": pset or {"rtol": 1e-11, "atol": 1e-9, "miter": 400}}


def gen_setup(rng, cid):
    """tiny receivers for the validation: valid and invalid partitions"""
    times = [0.0, 1.0]
    npan = rng.randint(1, 3)
    names = [str(i) for i in range(npan)]
    panels = [[n, [tube_spec(rng, times, 1, nr=3, nt=3, nz=2)]] for n in names]
    mode = rng.choice(["valid", "valid", "dup", "missing", "dup-in-path", "unknown"])
    order = names[:]
    rng.shuffle(order)
    cut = rng.randint(1, len(order))
    paths = [order[:cut], order[cut:]] if cut < len(order) else [order]
    if mode == "dup":
        paths[-1] = paths[-1] + [paths[0][0]]
    elif mode == "missing":
        if len(order) > 1:
            paths[-1] = paths[-1][:-1]
            paths = [p for p in paths if p]
        else:
            mode = "valid"
    elif mode == "dup-in-path":
        paths[0] = paths[0] + [paths[0][0]]
    elif mode == "unknown":
        paths[0] = paths[0] + ["9"]
    fps = [["f%d" % i, {"panels": p, "mass_flow": [60.0] * 2, "inlet": [500.0] * 2}] for i, p in enumerate(paths)]
    c = base_case(cid, times, panels, fps, pset={"rtol": 1e-6, "atol": 1e-3, "miter": 400})
    c["meta"] = {"kind": "setup", "mode": mode, "names": names, "paths": paths}
    return c


def gen_energy(rng, cid, offmid=False):
    # every fourth receiver: the incident flux stays what it was while only the fluid's operating point (inlet temperature,
    # mass flow) changes from step to step, so that a metal solve may reproduce the previous step
    settled = cid % 4 == 2 and not offmid
    times = [0.0, 1.0, 2.0] if (settled or rng.random() < 0.5) else [0.0, 1.0]
    npan = rng.randint(1, 3)
    names = [str(i) for i in range(npan)]
    panels = []
    for n in names:
        dimp = rng.choice([1, 2, 3])
        tubes = []
        gnt, gnz = rng.randint(3, 4), rng.randint(2, 3)     # the flow path needs one (nt, nz) per panel
        for _ in range(rng.randint(1, 2)):
            pl = GEOM["h"] * 0.25 if offmid else None
            tubes.append(tube_spec(rng, times, dimp if not offmid else 1, mult=rng.choice([1, 2, 3, 5]), plane=pl,
                                   nt=gnt, nz=gnz, T0=rng.choice([550.0, 550.0, 500.0, 625.0]), settled=settled))   # tubes of one panel may start differently
        panels.append([n, tubes])
    order = names[:]
    rng.shuffle(order)        # declared order differs from insertion order
    if len(order) > 1 and rng.random() < 0.4:
        paths = [order[:1], order[1:]]
    else:
        paths = [order]
    fps = [["f%d" % i, {"panels": p, "mass_flow": [rng.choice([60.0, 90.0])] * len(times),
                        "inlet": [500.0 + 10.0 * ti for ti in range(len(times))]}] for i, p in enumerate(paths)]
    if settled:
        for _, fp in fps:
            fp["mass_flow"] = [60.0, 60.0, 90.0]
            fp["inlet"] = [500.0, 500.0, 540.0]
    c = base_case(cid, times, panels, fps)
    if settled:
        c["pset"] = {}            # the solver's own Picard tolerances: a step must not be accepted before the fluid has settled too
    if cid % 4 == 1:
        c["fp_jitter"] = True     # flow-path times equal to the tube times up to round-off
    if cid % 2:
        c["page"] = True          # results paged to disk (one scratch directory per run)
    c["meta"] = {"kind": "offmid" if offmid else "energy", "paths": paths, "tol": 1e-3 if settled else 1e-5}
    return c


def gen_merge(rng, cid):
    times = [0.0, 1.0]
    dimp = rng.choice([1, 2])
    k, m = rng.choice([2, 3]), rng.choice([1, 2])
    proto = tube_spec(rng, times, dimp, mult=m, flux_level=2.0)
    a_tubes = [copy.deepcopy(proto) for _ in range(k)]
    b_tube = copy.deepcopy(proto)
    b_tube["mult"] = k * m
    other = tube_spec(rng, times, dimp, mult=1, flux_level=1.0)
    A = base_case(cid, times, [["0", a_tubes], ["1", [copy.deepcopy(other)]]],
                  [["f", {"panels": ["0", "1"], "mass_flow": [60.0] * 2, "inlet": [500.0] * 2}]])
    B = base_case(cid + 1, times, [["0", [b_tube]], ["1", [copy.deepcopy(other)]]],
                  [["f", {"panels": ["0", "1"], "mass_flow": [60.0] * 2, "inlet": [500.0] * 2}]])
    A["meta"] = {"kind": "merge-a"}
    B["meta"] = {"kind": "merge-b", "partner": cid}
    return A, B


def gen_reset(rng, cid):
    period = rng.choice([1.0, 0.1, 24.0])
    n = 2
    times = [0.0]
    for cyc in range(n):
        times += [period * cyc + period * 0.5, period * (cyc + 1)]
    if period == 0.1:
        times = [0.0, 0.05, 0.1, 0.15000000000000002, 0.2, 0.25, 0.30000000000000004 - 5.551115123125783e-17]  # 0.3 an ulp below
    T0 = 550.0
    panels = [["0", [tube_spec(rng, times, rng.choice([1, 2]), mult=1, T0=T0)]]]
    fps = [["f", {"panels": ["0"], "mass_flow": [60.0] * len(times), "inlet": [500.0] * len(times)}]]
    c = base_case(cid, times, panels, fps, steady=False, reset=True, period=period,
                  pset={"rtol": 1e-8, "atol": 1e-6, "miter": 400})
    c["meta"] = {"kind": "reset", "period": period, "T0": T0}
    return c


def coq_names(l, names):
    idx = {n: i for i, n in enumerate(names + ["9"])}
    return coq_list(["%d%%nat" % idx[x] for x in l])


def path_gain_and_input(case, res):
    """per path: (fluid enthalpy gain, expected outer heat with the half-node factor), at the last time"""
    tubes = {(t["panel"], t["tube"]): t for t in res["tubes"]}
    out = []
    dr_fac = None
    for fname, fp in case["flowpaths"]:
        gain, heat = 0.0, 0.0
        for pname in fp["panels"]:
            specs = dict(case["panels"])[pname]
            ntube = sum(s["mult"] for s in specs)
            for ti, s in enumerate(specs):
                rt = tubes[(pname, str(ti))]
                ft = unhex(rt["fluid_T"], rt["fshape"])[-1]
                mdot = fp["mass_flow"][-1]
                cp = case["fluid"]["c0"]
                gain += s["mult"] * mdot / ntube * cp * (ft[-1] - ft[0])
                dr = s["t"] / (s["nr"] - 1)
                fac = (1 + dr / (2 * s["r"])) / (1 - dr / (2 * (s["r"] - s["t"])))
                q = np.array(s["flux"][-1])        # (nt, nz) at the last time
                if s["dim"] == 3:
                    qsum = q.sum() * (2 * math.pi / s["nt"]) * (s["h"] / s["nz"])
                elif s["dim"] == 2:
                    # flux data uniform in z for reduced abstractions
                    qsum = q[:, 0].sum() * (2 * math.pi / s["nt"]) * s["h"]
                else:
                    qsum = q[0, 0] * 2 * math.pi * s["h"]
                heat += s["mult"] * fac * s["r"] * qsum
        out.append((fname, gain, heat))
    return out


def run(ctx):
    ctx.rule = ("small receivers (1-3 panels, 1-2 tubes per panel, multipliers 1-5, 1D/2D at mid-height and 3D tubes, declared "
                "panel order shuffled, 1-2 flow paths) solved by the real coupled solver in steady solid mode with a rational "
                "stub fluid; multiplier-merge pairs; two-cycle transient runs with the reset heuristic (periods 1, 24 and 0.1 "
                "with a cycle end one ulp below a multiple); random valid/invalid flow-path partitions; the trigger on exact "
                "and perturbed times. one case = one coupled solve, validation or trigger query; non-trivial = more than one "
                "panel/tube or an invalid partition")
    ctx.trusted += ["stub fluid with temperature-independent film coefficient for the energy clause (with a T-dependent film the "
                    "solid uses the local and the flow path the mean film; not part of the oracle)",
                    "Picard convergence tightened to 1e-11/1e-9 for the energy comparison"]
    ctx.prove("C07")
    if ctx.tier == "thorough":
        ctx.coqchk("C07")
    rng = ctx.rng
    cases = []
    for _ in range(ctx.budget(14, 60)):
        cases.append(gen_setup(rng, len(cases)))
    for _ in range(ctx.budget(8, 40)):
        cases.append(gen_energy(rng, len(cases)))
    cases.append(gen_energy(rng, len(cases), offmid=True))
    # known finding: two tubes of one panel with different wall grids
    mg = base_case(len(cases), [0.0, 1.0], [["0", [tube_spec(rng, [0.0, 1.0], 2, nt=4, nz=2), tube_spec(rng, [0.0, 1.0], 2, nt=4, nz=3)]]],
                   [["f", {"panels": ["0"], "mass_flow": [60.0] * 2, "inlet": [500.0] * 2}]])
    mg["meta"] = {"kind": "mixed-grid"}
    cases.append(mg)
    for _ in range(ctx.budget(2, 10)):
        a, b = gen_merge(rng, len(cases))
        cases += [a, b]
    for _ in range(ctx.budget(3, 10)):
        cases.append(gen_reset(rng, len(cases)))
    for i, c in enumerate(cases):
        if c["meta"]["kind"] == "merge-b":
            c["meta"]["partner"] = i - 1
        c["id"] = i
    trig = {"id": len(cases), "what": "trigger", "period": 0.1,
            "ts": [0.0, 0.1, 0.2, 0.30000000000000004, 0.3, 0.25, 0.05, 0.7000000000000001, 0.7, 24.0], "meta": {"kind": "trigger"}}
    trig2 = {"id": len(cases) + 1, "what": "trigger", "period": 24.0, "ts": [0.0, 24.0, 48.0, 12.0, 23.999999999999996, 47.99999999999999, 1.0],
             "meta": {"kind": "trigger"}}
    cases += [trig, trig2]
    results = run_impl_parallel("c07_coupled", [to_impl(c) for c in cases], workers=12, timeout=1500)
    terms, findings = [], []
    for c, r in zip(cases, results):
        kind = c["meta"]["kind"]
        ctx.count(kind)
        if "error" in r:
            findings.append((c, "unexpected exception %s" % r["error"], None))
            continue
        if kind == "trigger":
            for t, fired in zip(c["ts"], r["fires"]):
                ctx.case(("trigger", c["period"], t), True)
                exact = (F(t) / F(c["period"])).denominator == 1
                near = abs(t / c["period"] - round(t / c["period"])) < 1e-9
                if near and not fired:
                    findings.append((c, "reset trigger does not fire at t=%r (period %r), a cycle end up to round-off" % (t, c["period"]), None))
                if not near and fired:
                    findings.append((c, "reset trigger fires at t=%r (period %r), which is not a cycle end" % (t, c["period"]), None))
                if exact or not near:
                    terms.append("Bool.eqb (cycle_end %s %s) %s" % (q_lit(F(t)), q_lit(F(c["period"])), coq_bool(fired)))
            continue
        if kind == "setup":
            m = c["meta"]
            ctx.case(("setup", str(m["paths"]), m["mode"]), m["mode"] != "valid")
            want = "Accept" if r["setup"] == "accept" else ("DupPanel" if "more than one" in r.get("msg", "") else "MissingPanel")
            if r["setup"] not in ("accept", "reject"):
                findings.append((c, "solve failed after setup: %s %s" % (r.get("msg"), r.get("where")), None))
                continue
            terms.append("match setup %s %s, %s with Accept, Accept | DupPanel, DupPanel | MissingPanel, MissingPanel => true | _, _ => false end"
                         % (coq_names(m["names"], m["names"]), coq_list([coq_names(p, m["names"]) for p in m["paths"]]), want))
            valid = sorted(x for p in m["paths"] for x in p) == sorted(m["names"])
            if valid != (r["setup"] == "accept"):
                findings.append((c, "flow paths %s over panels %s were %sed" % (m["paths"], m["names"], r["setup"]), None))
            if r["setup"] == "accept" and "solve_error" in r:
                findings.append((c, "coupled solve did not complete: %s" % r["solve_error"], None))
            continue
        ctx.case((kind, c["id"]), True)
        if r.get("setup") != "accept" or "solve_error" in r:
            findings.append((c, "coupled solve did not complete: %s %s %s" % (r.get("setup"), r.get("msg", ""), r.get("solve_error", "")),
                             KF_GRID if kind == "mixed-grid" else None))
            continue
        tubes = {(t["panel"], t["tube"]): t for t in r["tubes"]}
        # initial condition
        for (pn, tn), rt in tubes.items():
            T = unhex(rt["temperature"], rt["tshape"])
            T0 = dict(c["panels"])[pn][int(tn)]["T0"]
            if not np.all(T[0] == T0):
                findings.append((c, "tube %s/%s does not start from its initial temperature" % (pn, tn), None))
        if kind in ("energy", "offmid"):
            # inlet and declared order
            for fname, fp in c["flowpaths"]:
                prev_out = None
                for pi_, pname in enumerate(fp["panels"]):
                    specs = dict(c["panels"])[pname]
                    ws = np.array([s["mult"] for s in specs], dtype=float)
                    outs = []
                    for ti in range(len(specs)):
                        ft = unhex(tubes[(pname, str(ti))]["fluid_T"], tubes[(pname, str(ti))]["fshape"])
                        for step in range(1, ft.shape[0]):
                            want = fp["inlet"][step] if pi_ == 0 else prev_out[step]
                            if abs(ft[step][0] - want) > 1e-6 * (1 + abs(want)):
                                findings.append((c, "path %s panel %s (position %d) tube %d starts at %r at step %d, expected %r (%s)"
                                                 % (fname, pname, pi_, ti, ft[step][0], step, want,
                                                    "prescribed inlet" if pi_ == 0 else "mixed outlet of the previous declared panel"), None))
                        outs.append(ft[:, -1])
                    prev_out = np.sum(ws[:, None] * np.array(outs), axis=0) / ws.sum()
            for fname, gain, heat in path_gain_and_input(c, r):
                if abs(gain - heat) > c["meta"].get("tol", 1e-5) * abs(heat):
                    tag = KF_TAG if kind == "offmid" else None
                    findings.append((c, "path %s: the fluid gains %.6g but %.6g enters the tubes' outer surfaces (ratio %.6f)"
                                     % (fname, gain, heat, gain / heat), tag))
        elif kind == "merge-b":
            ra = results[c["meta"]["partner"]]
            if "tubes" in ra:
                ta = {(t["panel"], t["tube"]): t for t in ra["tubes"]}
                for key_b, key_a in ((("0", "0"), ("0", "0")), (("1", "0"), ("1", "0"))):
                    Tb = unhex(tubes[key_b]["temperature"], tubes[key_b]["tshape"])
                    Ta = unhex(ta[key_a]["temperature"], ta[key_a]["tshape"])
                    if np.max(np.abs(Ta - Tb)) > 1e-6 * np.max(np.abs(Ta)):
                        findings.append((c, "k tubes of multiplier m and one tube of multiplier k*m give different temperatures "
                                            "(max difference %.3g)" % np.max(np.abs(Ta - Tb)), None))
        elif kind == "reset":
            m = c["meta"]
            rt = tubes[("0", "0")]
            T = unhex(rt["temperature"], rt["tshape"])
            for idx, t in enumerate(c["times"]):
                if idx and abs(t / m["period"] - round(t / m["period"])) < 1e-9:
                    if not np.all(T[idx] == m["T0"]):
                        findings.append((c, "with the reset heuristic the tube is not back at its initial temperature at the "
                                            "cycle end t=%r (period %r)" % (t, m["period"]), None))
    ctx.sample({"kinds": sorted(set(c["meta"]["kind"] for c in cases))})
    other = [f for f in findings if f[2] is None]
    for tg in (KF_TAG, KF_GRID):
        kf = [f for f in findings if f[2] == tg]
        if kf:
            c, msg, tag = kf[0]
            ctx.violation(msg, {"case": to_impl(c), "oracle": msg}, tag=tg)
    if other:
        c, msg, tag = other[0]
        ctx.violation("%s (%d failing checks)" % (msg, len(other)), {"case": to_impl(c), "oracle": msg}, tag="C07:" + msg[:30])
    failing = coq_eval_cases("c07", HEADER, terms, shard=200)
    ctx.checker_cmds.append("coqc (vm_compute) on %d validation / trigger comparisons" % len(terms))
    ctx.oblige("corr/setup-and-trigger (%d comparisons)" % len(terms), "corr", not failing, "%d disagreements" % len(failing))


def replay(rp):
    c = rp.get("case")
    if not c:
        print("replay file names a broken obligation, not an input: %s" % rp.get("broken"))
        return 1
    r = run_impl("c07_coupled", {"cases": [c]}, timeout=900)["results"][0]
    print("recorded:", rp.get("oracle"))
    print("observed now:", {k: v for k, v in r.items() if k != "tubes"})
    return 1
