"""
C03 — tube stress solution in equilibrium, agreeing across 1D/2D/3D, pressure
on the inner surface only.

gen   : coq/gen/TubeMesh.v regenerated from structural.py
prove : coq/props/C03.v
corr  : the mesh connectivity scikit-fem holds against gen_conn2d / gen_conn3d and the
        assembled external force vector against the model's nodal loads, both evaluated
        in Coq (vm_compute)
oracle: real PythonTubeSolver runs: which nodes carry load, no axial component, facet
        count; element-mean stresses against the closed-form generalised-plane-strain
        solution with second-order convergence under refinement; 2D = 3D to solver
        accuracy; 1D vs 2D converging with nt; axial force closed form; stiffness * h /
        area = E for all three abstractions.
"""
import copy
import math

import numpy as np

from harness import translators
from harness.core import coq_eval_cases, q_lit, run_impl_parallel
from harness.struct_common import SUFF, arr, node_coords, qfrac, to_impl, uv

HEADER = ("From Coq Require Import QArith List.\nFrom SV Require Import model.TubeMech.\n"
          "Import ListNotations.\nOpen Scope Q_scope.")


def area(c):
    ri, ro = c["r"] - c["t"], c["r"]
    if c["dim"] == 1:
        return math.pi * (ro * ro - ri * ri)
    return c["nt"] / 2 * math.sin(2 * math.pi / c["nt"]) * (ro * ro - ri * ri)


def lame(c, k):
    """closed-form stresses (rr, tt, zz)(r) and axial force at time index k"""
    m = c["material"]
    E, nu, al = m["E"], m["nu"], m["alpha_v"][0]
    lam, mu = E * nu / ((1 + nu) * (1 - 2 * nu)), E / (2 * (1 + nu))
    kk = (3 * lam + 2 * mu) * al / (lam + 2 * mu)
    ri, ro = c["r"] - c["t"], c["r"]
    a, b, cc = c["prof"][k]
    xs, ws = np.polynomial.legendre.leggauss(10)

    def dT(r):
        x = (r - ri) / (ro - ri)
        return a + b * x + cc * x * x

    def J(r):
        rho = ri + (r - ri) * (xs + 1) / 2
        return float(np.sum(ws * dT(rho) * rho) * (r - ri) / 2)
    p = c["pressure"][k] if c["pressure"] else 0.0
    ez = c["dtop"][k] / c["h"]
    Jo = J(ro)
    B = (p + 2 * mu * kk * Jo / ro ** 2) * ri ** 2 * ro ** 2 / (ro ** 2 - ri ** 2)
    A = (2 * mu * kk * Jo + B) / ro ** 2

    def s(r):
        g = 2 * mu * kk * J(r) + B
        return (A - g / r ** 2, A + g / r ** 2 - 2 * mu * kk * dT(r),
                lam * ((A - lam * ez) / (lam + mu) + ez) + 2 * mu * ez - 2 * mu * kk * dT(r))
    N = 2 * math.pi * nu * ri ** 2 * p + E * ez * math.pi * (ro ** 2 - ri ** 2) - E * al * 2 * math.pi * Jo
    # magnitude of the three terms the force is the (possibly cancelling) sum of
    s.terms = abs(2 * math.pi * nu * ri ** 2 * p) + abs(E * ez * math.pi * (ro ** 2 - ri ** 2)) + abs(E * al * 2 * math.pi * Jo)
    return s, N


def make_case(rng, dim, nr, nt, nz, base):
    c = copy.deepcopy(base)
    c.update(dim=dim, nr=nr, nt=nt, nz=nz)
    ri, ro = c["r"] - c["t"], c["r"]
    nodes = node_coords(c)
    c["temps"] = []
    for (a, b, cc) in c["prof"]:
        c["temps"].append([c["T0"] + a + b * ((r - ri) / (ro - ri)) + cc * ((r - ri) / (ro - ri)) ** 2 for (r, th, z) in nodes])
    c["probe"] = ["qcoords", "volumes"] + (["disp", "quadrature", "mesh"] if dim == 1 or (dim == 2 and nr * nt <= 48) else [])
    return c


def gen_base(rng):
    r = rng.choice([10.0, 25.0, 12.5])
    base = {"r": r, "t": rng.choice([0.1, 0.2, 0.3]) * r, "h": rng.choice([20.0, 50.0]), "T0": 300.0,
            "material": {"kind": "elastic", "E": rng.choice([1.0e5, 1.5e5, 2.1e5]), "nu": rng.choice([0.25, 0.3, 0.33]),
                         "alpha_T": [0.0], "alpha_v": [rng.choice([1.0e-5, 1.7e-5])], "alpha_kind": "const"},
            "times": [0.0, 1.0],
            "prof": [(0.0, 0.0, 0.0), (rng.uniform(0, 80), rng.uniform(-100, 150), rng.uniform(-60, 60))],
            "pressure": [0.0, rng.uniform(0.0, 6.0)], "dtop": [0.0, rng.uniform(-5e-4, 1e-3)]}
    base["dtop"][1] *= base["h"]
    return base


def stresses(c, r):
    """element-mean polar stresses of the last step and the element-mean of the closed form at the same points"""
    qc = arr(r["qcoords"])
    s = {n: arr(r["quad"]["stress" + n])[-1] for n in SUFF}
    if c["dim"] == 1:
        rad, srr, stt = qc[0], s["_xx"], s["_yy"]
    else:
        rad = np.hypot(qc[0], qc[1])
        th = np.arctan2(qc[1], qc[0])
        cs, sn = np.cos(th), np.sin(th)
        srr = s["_xx"] * cs * cs + s["_yy"] * sn * sn + 2 * s["_xy"] * sn * cs
        stt = s["_xx"] * sn * sn + s["_yy"] * cs * cs - 2 * s["_xy"] * sn * cs
    f, N = lame(c, len(c["times"]) - 1)
    ex = np.vectorize(f)(rad)
    fe = np.array([srr.mean(axis=1), stt.mean(axis=1), s["_zz"].mean(axis=1)])
    exm = np.array([ex[0].mean(axis=1), ex[1].mean(axis=1), ex[2].mean(axis=1)])
    scale = float(np.max(np.abs(np.array(ex)))) + 1e-9
    return fe, exm, scale, N


def run(ctx):
    ctx.rule = ("probe runs over r 5-25, t/r 0.02-0.3, nr 2-13, nt 4-16 (even), nz 2-3, 1D/2D/3D (connectivity + assembled unit-pressure "
                "load); solve families: one random elastic problem (pressure 0-6, quadratic wall temperature profile, axial strain) "
                "on refined 1D, 2D and 3D meshes.  one case = one probe or solve; all non-trivial")
    ctx.trusted += ["scikit-fem assembly and NEML SmallStrainElasticity (run, not modelled); numpy trigonometry for the expected node coordinates",
                    "translator harness/translators/tubemesh.py"]
    translators.import_all()
    ctx.gen("TubeMesh", translators.REGISTRY["TubeMesh"])
    ctx.prove("C03")
    ctx.prove("C03_fe2d")
    if ctx.tier == "thorough":
        ctx.coqchk("C03")
        ctx.coqchk("C03_fe2d")
    rng = ctx.rng
    findings = []
    # ---------------- probes: mesh and pressure load
    probes = []
    combos = [(3, 10.0, 0.1, 5, 8, 2), (3, 10.0, 0.1, 9, 12, 2), (3, 5.0, 0.05, 5, 4, 3), (2, 5.0, 0.1, 3, 8, 2), (1, 10.0, 0.1, 4, 8, 2),
              (3, 10.0, 0.02, 3, 6, 2), (2, 25.0, 0.02, 2, 4, 2), (3, 12.5, 0.3, 13, 6, 2)]
    for _ in range(ctx.budget(16, 80)):
        combos.append((rng.choice([1, 2, 3, 3]), rng.choice([5.0, 10.0, 25.0]), rng.choice([0.02, 0.05, 0.1, 0.3]),
                       rng.choice([2, 3, 5, 9, 13]), rng.choice([4, 6, 8, 12, 16]), rng.choice([2, 3])))
    for (dim, r, tr, nr, nt, nz) in combos:
        probes.append({"r": r, "t": tr * r, "h": rng.choice([10.0, 30.0]), "nr": nr, "nt": nt, "nz": nz, "dim": dim, "T0": 0.0,
                       "times": [0.0, 1.0], "temps": None, "pressure": [0.0, 1.0], "dtop": [0.0, 0.0],
                       "material": {"kind": "elastic", "E": 1.5e5, "nu": 0.3, "alpha_T": [0.0], "alpha_v": [1.5e-5]},
                       "probe": ["pressure_load", "mesh", "volumes"], "stop_at": 0, "want": []})
    pres = run_impl_parallel("struct_run", [to_impl(c, i) for i, c in enumerate(probes)], workers=12, timeout=900)
    terms, owner = [], []
    for i, (c, r) in enumerate(zip(probes, pres)):
        ctx.case(("probe", i, c["dim"], c["nr"], c["nt"], c["nz"], c["r"], c["t"]), True)
        ctx.count("probe:%dD" % c["dim"])
        if r.get("outcome") != "ok":
            findings.append((c, "building the tube state failed: %s" % r.get("msg", "")[:160]))
            continue
        X, conn = arr(r["mesh"]["p"]), r["mesh"]["t"]
        exp = np.array([[rr * math.cos(th), rr * math.sin(th), z][:c["dim"]] if c["dim"] > 1 else [rr] for (rr, th, z) in node_coords(c)])
        if X.shape != exp.shape or not np.allclose(X, exp, rtol=0, atol=1e-12 * c["r"]):
            findings.append((c, "mesh nodes are not the tube's (r, theta, z) grid in tube order"))
        if c["dim"] >= 2:
            lit = "[" + "; ".join("[" + "; ".join("%d%%nat" % n for n in el) + "]" for el in conn) + "]"
            gen = "conn2d %d %d" % (c["nr"], c["nt"]) if c["dim"] == 2 else "conn3d %d %d %d" % (c["nr"], c["nt"], c["nz"])
            terms.append("nat_lists_eqb (%s) %s" % (gen, lit))
            owner.append((i, "the element connectivity differs from the cell table of the (r, theta, z) grid"))
        elif conn != [[k, k + 1] for k in range(c["nr"] - 1)]:
            findings.append((c, "1D connectivity is not the chain of radial nodes"))
        # the element volumes the damage models use are the cell measures of this mesh, element by element
        ev, dx = arr(r["element_volumes"]), arr(r["dx"]).sum(axis=1)
        if c["dim"] == 1:
            dx = (arr(r["rq"]) * arr(r["dx"]) * 2 * math.pi).sum(axis=1) * c["h"]
        elif c["dim"] == 2:
            dx = dx * c["h"]
        if ev.shape != dx.shape or not np.allclose(ev, dx, rtol=1e-10, atol=0):
            findings.append((c, "Tube.element_volumes differs from the measures of the mesh cells (largest relative gap %g)"
                             % (float(np.max(np.abs(ev - dx) / dx)) if ev.shape == dx.shape else float("nan"))))
        # pressure load
        pl = r["pressure_load"]
        F = arr(pl["force"])
        ri = c["r"] - c["t"]
        nin = 1 if c["dim"] == 1 else (c["nt"] if c["dim"] == 2 else c["nt"] * c["nz"])
        want_facets = 1 if c["dim"] == 1 else (c["nt"] if c["dim"] == 2 else c["nt"] * (c["nz"] - 1))
        scale = ri * (c["h"] if c["dim"] == 3 else 1.0)
        if pl["nfacets"] != want_facets:
            findings.append((c, "pressure is applied on %d facets, the inner surface has %d" % (pl["nfacets"], want_facets)))
        if np.max(np.abs(F[nin:])) > 1e-10 * scale if len(F) > nin else False:
            findings.append((c, "pressure load %g on a node that is not on the inner surface" % np.max(np.abs(F[nin:]))))
        if c["dim"] == 3 and np.max(np.abs(F[:, 2])) > 1e-10 * scale:
            findings.append((c, "the pressure load has an axial component %g" % np.max(np.abs(F[:, 2]))))
        if c["dim"] == 1:
            if abs(F[0, 0] - 1.0) > 1e-12:
                findings.append((c, "1D: unit pressure loads the inner node with %g, expected 1" % F[0, 0]))
            continue
        ring = X[:nin:(c["nz"] if c["dim"] == 3 else 1), :2]
        pts = "[" + "; ".join("(%s, %s)" % (q_lit(qfrac(x)), q_lit(qfrac(y))) for x, y in ring) + "]"
        impl = "[" + "; ".join("(%s, %s)" % (q_lit(qfrac(f[0])), q_lit(qfrac(f[1]))) for f in F[:nin]) + "]"
        if c["dim"] == 2:
            model = "nodal_forces 1 %s" % pts
        else:
            zs = "[" + "; ".join(q_lit(qfrac(z)) for z in X[:c["nz"], 2]) + "]"
            model = "flat_map (fun v => map (fun w => vscale w v) (trap_weights %s)) (nodal_forces 1 %s)" % (zs, pts)
        terms.append("close_vecs (1#10000000000) %s (%s) %s" % (q_lit(qfrac(scale)), model, impl))
        owner.append((i, "the assembled pressure load differs from pressure x facet length along the facet normals, halved onto the nodes"))
    failing = coq_eval_cases("c03", HEADER, terms, shard=40) if terms else []
    for k in failing:
        findings.append((probes[owner[k][0]], owner[k][1]))
    ctx.oblige("corr/mesh-and-pressure-load (%d terms)" % len(terms), "corr", not failing, "%d terms differ" % len(failing))
    # ---------------- solve families
    fams, cases = [], []
    for f in range(ctx.budget(2, 8)):
        base = gen_base(rng)
        fam = {"1D": [], "2D": [], "3D": None, "2Dfor3D": None}
        for nr in (9, 17, 33):
            cases.append(make_case(rng, 1, nr, 8, 2, base)); fam["1D"].append(len(cases) - 1)
        for (nr, nt) in ((5, 16), (9, 32), (17, 64)):
            cases.append(make_case(rng, 2, nr, nt, 2, base)); fam["2D"].append(len(cases) - 1)
        nr3, nt3 = rng.choice([(4, 8), (5, 12), (3, 16)])
        cases.append(make_case(rng, 3, nr3, nt3, rng.choice([2, 3]), base)); fam["3D"] = len(cases) - 1
        cases.append(make_case(rng, 2, nr3, nt3, 2, base)); fam["2Dfor3D"] = len(cases) - 1
        cases.append(make_case(rng, 1, 17, 8, 2, base)); fam["1Dmid"] = len(cases) - 1
        # an unloaded first step (nothing for Newton to iterate on) before the loaded one
        idle = copy.deepcopy(base)
        idle["times"] = [0.0, 1.0, 2.0]
        idle["prof"] = [base["prof"][0], base["prof"][0], base["prof"][1]]
        idle["pressure"] = [0.0, 0.0, base["pressure"][1]]
        idle["dtop"] = [0.0, 0.0, base["dtop"][1]]
        cases.append(make_case(rng, rng.choice([1, 2, 3]), 5, 8, 2, idle)); fam["idle"] = len(cases) - 1
        ni = make_case(rng, rng.choice([1, 2, 3]), 5, 8, 2, base)
        cases.append(ni); fam["indexed"] = len(cases) - 1
        ni = copy.deepcopy(ni); ni["init"] = "noindex"
        cases.append(ni); fam["noindex"] = len(cases) - 1
        # a tube without thermal results (its temperature never changes) against the same tube with its constant temperature stored
        iso = copy.deepcopy(base)
        iso["prof"] = [(0.0, 0.0, 0.0), (0.0, 0.0, 0.0)]
        isod = rng.choice([1, 2, 3])
        ib = make_case(rng, isod, 5, 8, 2, iso)
        ia = copy.deepcopy(ib); ia["temps"] = None
        cases.append(ia); fam["isoA"] = len(cases) - 1
        cases.append(ib); fam["isoB"] = len(cases) - 1
        fams.append(fam)
    res = run_impl_parallel("struct_run", [to_impl(c, i) for i, c in enumerate(cases)], workers=12, timeout=1800)
    for i, (c, r) in enumerate(zip(cases, res)):
        ctx.case(("solve", i, c["dim"], c["nr"], c["nt"]), True)
        ctx.count("solve:%dD" % c["dim"])
        if r.get("outcome") != "ok":
            findings.append((c, "the tube solve failed: %s %s" % (r.get("outcome"), r.get("msg", "")[:160])))
    # ---- certificate: the 1D results against the axisymmetric finite-element model, in exact arithmetic
    HEADER1D = ("From Coq Require Import QArith List.\nFrom SV Require Import model.FE1D.\nImport ListNotations.\nOpen Scope Q_scope.")
    fe_terms, fe_owner = [], []
    for i, (c, r) in enumerate(zip(cases, res)):
        if c["dim"] != 1 or r.get("outcome") != "ok" or "quadrature" not in r:
            continue
        k = len(c["times"]) - 1
        m = c["material"]
        lamv = m["E"] * m["nu"] / ((1 + m["nu"]) * (1 - 2 * m["nu"]))
        muv = m["E"] / (2 * (1 + m["nu"]))
        rs = [x[0] for x in arr(r["mesh"]["p"])]
        us = list(np.ravel(arr(r["disp"]["disp_x"])[k]))
        xis, wts = np.ravel(arr(r["quadrature"]["points"])), np.ravel(arr(r["quadrature"]["weights"]))
        thq = arr(r["quad"]["thermal_strain_xx"])[k]
        S = [arr(r["quad"]["stress" + n])[k] for n in ("_xx", "_yy", "_zz")]
        scale = (float(max(np.max(np.abs(x)) for x in S)) + 1e-6 * m["E"]) * c["r"]
        ql = lambda xs: "[" + "; ".join(q_lit(qfrac(x)) for x in xs) + "]"
        gs = "[" + "; ".join("mkG %s %s" % (q_lit(qfrac(a)), q_lit(qfrac(b))) for a, b in zip(xis, wts)) + "]"
        ds = "[" + "; ".join("[" + "; ".join("mkD %s %s %s" % (q_lit(qfrac(t)), q_lit(qfrac(lamv)), q_lit(qfrac(muv))) for t in row) + "]" for row in thq) + "]"
        impl_s = "[" + "; ".join("[" + "; ".join("(%s, %s, %s)" % tuple(q_lit(qfrac(S[j][e][g])) for j in range(3)) for g in range(len(xis))) + "]"
                                   for e in range(len(rs) - 1)) + "]"
        ez = q_lit(qfrac(c["dtop"][k] / c["h"]))
        pk = q_lit(qfrac(c["pressure"][k] if c["pressure"] else 0.0))
        args = "%s %s %s %s" % (gs, ql(rs), ql(us), ds)
        fe_terms.append("forallb (small (1#100000000) %s) (residual %s %s %s)" % (q_lit(qfrac(scale)), pk, ez, args))
        fe_owner.append((i, "the stored 1D displacements do not satisfy the discrete equilibrium equations of the axisymmetric model"))
        fe_terms.append("close_stresses (1#1000000000) %s (all_stresses %s %s) %s" % (q_lit(qfrac(scale / c["r"])), ez, args, impl_s))
        fe_owner.append((i, "the stored 1D stresses are not Hooke's law on the strains of the stored displacements"))
        fe_terms.append("small (1#1000000000) %s (2 * %s * elem_axial %s %s - %s)" % (
            q_lit(qfrac(scale * c["r"] * 10)), q_lit(qfrac(math.pi)), ez, args, q_lit(qfrac(uv(r["force"][k])))))
        fe_owner.append((i, "the reported 1D axial force is not 2 pi times the integral of r s_zz"))
    fe_fail = coq_eval_cases("c03fe", HEADER1D, fe_terms, shard=12) if fe_terms else []
    for kk in fe_fail:
        findings.append((cases[fe_owner[kk][0]], fe_owner[kk][1]))
    ctx.oblige("corr/axisymmetric-finite-element-certificate (%d terms)" % len(fe_terms), "corr", not fe_fail, "%d terms fail" % len(fe_fail))
    # ---- certificate: the 2D results against the bilinear-quadrilateral finite-element model, in exact arithmetic
    HEADER2D = ("From Coq Require Import QArith List.\nFrom SV Require Import model.TubeMech model.FE2D.\nImport ListNotations.\nOpen Scope Q_scope.")
    q2 = lambda x: q_lit(qfrac(x))
    t2, o2 = [], []
    for i, (c, r) in enumerate(zip(cases, res)):
        if c["dim"] != 2 or r.get("outcome") != "ok" or "quadrature" not in r or "disp" not in r:
            continue
        k = len(c["times"]) - 1
        m = c["material"]
        lamv = m["E"] * m["nu"] / ((1 + m["nu"]) * (1 - 2 * m["nu"]))
        muv = m["E"] / (2 * (1 + m["nu"]))
        P = arr(r["mesh"]["p"])
        conn = r["mesh"]["t"]
        ux, uy = np.ravel(arr(r["disp"]["disp_x"])[k]), np.ravel(arr(r["disp"]["disp_y"])[k])
        Xq, Wq = arr(r["quadrature"]["points"]), np.ravel(arr(r["quadrature"]["weights"]))
        thq = arr(r["quad"]["thermal_strain_xx"])[k]
        S = {n: arr(r["quad"]["stress" + n])[k] for n in ("_xx", "_yy", "_zz", "_xy")}
        smax = float(max(np.max(np.abs(x)) for x in S.values())) + 1e-6 * m["E"]
        vl = lambda pts: "[" + "; ".join("(%s, %s)" % (q2(a), q2(b)) for a, b in pts) + "]"
        nodes, disp = vl(P), vl(zip(ux, uy))
        connl = "[" + "; ".join("[" + "; ".join("%d%%nat" % n for n in el) + "]" for el in conn) + "]"
        gs = "[" + "; ".join("mkG2 %s %s %s" % (q2(Xq[0][g]), q2(Xq[1][g]), q2(Wq[g])) for g in range(len(Wq))) + "]"
        ds = "[" + "; ".join("[" + "; ".join("mkD2 %s %s %s" % (q2(t), q2(lamv), q2(muv)) for t in row) + "]" for row in thq) + "]"
        ss = "[" + "; ".join("[" + "; ".join("mkS2 %s %s %s %s" % (q2(S["_xx"][e][g]), q2(S["_yy"][e][g]), q2(S["_zz"][e][g]), q2(S["_xy"][e][g]))
                                             for g in range(len(Wq))) + "]" for e in range(len(conn))) + "]"
        ez = q2(c["dtop"][k] / c["h"])
        pk = c["pressure"][k] if c["pressure"] else 0.0
        nt_ = c["nt"]
        ring = vl(P[:nt_])
        ext = "(nodal_forces %s %s ++ repeat (0, 0) %d)" % (q2(pk), ring, len(P) - nt_)
        hscale = smax * c["t"] / (c["nr"] - 1)                     # a stress times an element size: the size of one nodal force
        t2.append("small_vecs (1#10000000) %s (residual2 %s %s %s %s %s)" % (q2(hscale), nodes, connl, gs, ss, ext))
        o2.append((i, "the stored 2D stresses do not balance the pressure load in the bilinear finite-element model (nodal force residual)"))
        t2.append("close_stresses2 (1#1000000000) %s (all_stresses2 %s %s %s %s %s %s) %s" % (q2(smax), ez, nodes, disp, connl, gs, ds, ss))
        o2.append((i, "the stored 2D stresses are not Hooke's law on the strains of the stored displacements"))
        t2.append("small (1#1000000000) %s (axial2 %s %s %s %s - %s)" % (q2(smax * area(c) * 10), nodes, connl, gs, ss, q2(uv(r["force"][k]))))
        o2.append((i, "the reported 2D axial force is not the integral of s_zz over the section"))
    f2 = coq_eval_cases("c03fe2", HEADER2D, t2, shard=3) if t2 else []
    for kk in f2:
        findings.append((cases[o2[kk][0]], o2[kk][1]))
    ctx.oblige("corr/bilinear-finite-element-certificate (%d terms)" % len(t2), "corr", not f2, "%d terms fail" % len(f2))
    for fam in fams:
        idx = fam["1D"] + fam["2D"] + [fam["3D"], fam["2Dfor3D"], fam["1Dmid"], fam["indexed"], fam["noindex"], fam["idle"], fam["isoA"], fam["isoB"]]
        if any(res[i].get("outcome") != "ok" for i in idx):
            continue
        E = cases[idx[0]]["material"]["E"]
        # closed form, second-order convergence of element means
        for key in ("1D", "2D"):
            errs = []
            for i in fam[key]:
                fe, ex, scale, N = stresses(cases[i], res[i])
                errs.append(float(np.max(np.abs(fe - ex))) / scale)
            c = cases[fam[key][-1]]
            bound = 1.0 * (1.0 / (c["nr"] - 1)) ** 2 if key == "1D" else 1.5 * ((1.0 / (c["nr"] - 1)) ** 2 + (math.pi / c["nt"]) ** 2 * c["r"] / c["t"])
            if not (errs[2] <= max(0.45 * errs[1], 1e-9) and errs[1] <= max(0.45 * errs[0], 1e-9) and errs[2] <= bound):
                findings.append((c, "%s element-mean stresses do not converge to the closed-form thick-cylinder solution at second order: "
                                    "relative errors %s on three refinements (bound on the finest %.3g)" % (key, ["%.3g" % e for e in errs], bound)))
        # axial force closed form (1D, fine mesh) and stiffness = E A / h everywhere
        i = fam["1D"][-1]
        _, _, scale, N = stresses(cases[i], res[i])
        Nfe = uv(res[i]["force"][-1])
        sfun, _ = lame(cases[i], len(cases[i]["times"]) - 1)
        # second-order mesh accuracy relative to the terms the force is made of (they may cancel)
        tolN = 1.0 * (1.0 / (cases[i]["nr"] - 1)) ** 2 * sfun.terms + 1e-9 * scale * area(cases[i])
        if abs(Nfe - N) > tolN:
            findings.append((cases[i], "1D axial force %.8g differs from the closed form %.8g by more than the mesh accuracy %.3g" % (Nfe, N, tolN)))
        for i in idx:
            for step in range(1, len(cases[i]["times"])):
                K = uv(res[i]["stiffness"][step])
                if abs(K * cases[i]["h"] / area(cases[i]) - E) > 1e-7 * E:
                    findings.append((cases[i], "step %d: axial stiffness * h / area = %.10g, Young's modulus %.10g"
                                     % (step, K * cases[i]["h"] / area(cases[i]), E)))
        if abs(uv(res[fam["idle"]]["force"][1])) > 1e-9 * E:
            findings.append((cases[fam["idle"]], "an unloaded step reports the axial force %g" % uv(res[fam["idle"]]["force"][1])))
        # a first state created without a time index (direct callers) solves the same problem
        a, b = fam["indexed"], fam["noindex"]
        if res[a]["force"][-1] != res[b]["force"][-1] or res[a]["quad"]["stress_zz"][-1] != res[b]["quad"]["stress_zz"][-1]:
            findings.append((cases[b], "a tube starting at %g K gives axial force %.8g when the first state is created without a time index, "
                                       "%.8g otherwise" % (cases[b]["T0"], uv(res[b]["force"][-1]), uv(res[a]["force"][-1]))))
        # no thermal results = a temperature that never changes: pressure and extension only
        a, b = fam["isoA"], fam["isoB"]
        sa, sb = [arr(res[a]["quad"]["stress" + n])[-1] for n in SUFF], [arr(res[b]["quad"]["stress" + n])[-1] for n in SUFF]
        gap = max(float(np.max(np.abs(x - y))) for x, y in zip(sa, sb))
        smax = max(float(np.max(np.abs(y))) for y in sb) + 1e-9
        Fa, Fb = uv(res[a]["force"][-1]), uv(res[b]["force"][-1])
        if gap > 1e-8 * smax or abs(Fa - Fb) > 1e-8 * (abs(Fb) + smax * area(cases[b])):
            findings.append((cases[a], "a tube at %g K without thermal results is not solved as the isothermal problem: stresses differ by %g "
                                       "(largest %g), axial force %.8g against %.8g" % (cases[a]["T0"], gap, smax, Fa, Fb)))
        # 2D and 3D of the same section agree to solver accuracy
        a, b = fam["2Dfor3D"], fam["3D"]
        fe2, _, scale, _ = stresses(cases[a], res[a])
        fe3, _, _, _ = stresses(cases[b], res[b])
        nz1 = cases[b]["nz"] - 1
        fe3m = fe3.reshape(3, -1, nz1).mean(axis=2)
        if not np.allclose(fe2, fe3m, rtol=0, atol=1e-6 * scale) or np.max(np.abs(fe3.reshape(3, -1, nz1) - fe3m[:, :, None])) > 1e-6 * scale:
            findings.append((cases[b], "3D stresses differ from the 2D stresses of the same section by %g" % np.max(np.abs(fe2 - fe3m))))
        F2, F3 = uv(res[a]["force"][-1]), uv(res[b]["force"][-1])
        if abs(F2 - F3) > 1e-6 * (abs(F2) + scale * area(cases[a]) * 1e-3):
            findings.append((cases[b], "3D axial force %.10g, 2D axial force of the same section %.10g" % (F3, F2)))
        # 1D against 2D: the difference in force per area vanishes with the circumferential refinement
        f1 = uv(res[fam["1Dmid"]]["force"][-1]) / area(cases[fam["1Dmid"]])
        d = [abs(uv(res[i]["force"][-1]) / area(cases[i]) - f1) for i in fam["2D"]]
        if not (d[2] <= max(0.5 * d[1], 2e-3 * scale) and d[2] <= 0.05 * scale):
            findings.append((cases[fam["2D"][-1]], "axial force per area of 2D meshes does not approach the 1D value: differences %s" % ["%.4g" % x for x in d]))
    ctx.sample({"probes": len(probes), "solves": len(cases)})
    ctx.oblige("validated/structural-solves (%d probes, %d solves)" % (len(probes), len(cases)), "validated", not findings,
               "%d failing checks" % len(findings))
    if findings:
        import os
        if os.environ.get("VERIF_DEBUG"):
            for c, msg in findings:
                print("# finding (%dD r=%g t=%g nr=%d nt=%d nz=%d): %s" % (c["dim"], c["r"], c["t"], c["nr"], c["nt"], c["nz"], msg))
        c, msg = findings[0]
        ctx.violation("%s [%dD r=%g t=%g nr=%d nt=%d nz=%d] (%d failing checks)" % (msg, c["dim"], c["r"], c["t"], c["nr"], c["nt"], c["nz"], len(findings)),
                      {"case": to_impl(c, 0), "oracle": msg}, tag="C03:" + msg[:30])


def replay(rp):
    from harness.core import run_impl
    c = rp.get("case")
    if not c:
        print("replay file names a broken obligation, not an input: %s" % rp.get("broken"))
        return 1
    r = run_impl("struct_run", {"cases": [c]}, timeout=900)["results"][0]
    print("recorded:", rp.get("oracle"))
    print("observed now: outcome=%s force=%s nfacets=%s" % (r.get("outcome"), r.get("force"), (r.get("pressure_load") or {}).get("nfacets")))
    return 1
