"""
C13 — every wall boundary-condition kind reproduces the steady cylinder
solution.

prove : coq/props/C13.v (proofs/ThermalSteady.v)
corr  : per-step certificate in steady mode (shared model) for every inner x
        outer pairing; acceptance of every documented (wall, kind) pair.
oracle: steady-mode solve vs (i) the discrete closed form of theorem
        C13_steady_profile_partial evaluated in exact rationals, (ii) the
        logarithmic profile within (dr/r_i)^2/6 of the temperature range,
        (iii) a long transient run vs the steady solve; 2D/3D vs the 1D profile.
"""
import math
from fractions import Fraction as F

import numpy as np

from harness import thermal_common as tc
from harness.core import coq_eval_cases
from harness.props.c02 import check_chain, step_iter
from harness.props.c12 import axisym_bc, zuniform_bc, final_T


def const_spec(cfg, side):
    """(kind, params) of a time-constant, uniform wall condition"""
    sp = cfg[side]
    if sp is None:
        return ("ins",)
    g = tc.Grid(cfg)
    t = cfg["f"]["times"][-1]
    wd = tc.wall_data(cfg, g, side, t)
    j, k = list(g.jr())[0], list(g.kr())[0]
    if sp["kind"] == "flux":
        return ("flux", wd["q"][j, k])
    if sp["kind"] == "fixed":
        return ("fixed", wd["g"][j, k])
    return ("conv", wd["h"][j, k], wd["tf"][j, k])


def discrete_profile(cfg):
    """exact rational steady profile T_1..T_nr from the closed form"""
    g = tc.Grid(cfg)
    k = F(cfg["material"]["k_f"])
    dr, ri, n = F(g.dr), F(g.ri), g.nr
    rad = lambda i: ri + (i - 1) * dr
    rh = lambda i: (rad(i) + rad(i + 1)) / 2
    S = [F(0)] * (n + 2)
    for i in range(2, n + 1):
        S[i] = S[i - 1] + 1 / rh(i - 1)
    wi, wo = const_spec(cfg, "inner"), const_spec(cfg, "outer")
    # unknowns T1, Phi: a1*T1 + b1*Phi = c1 ; a2*T1 + b2*Phi = c2
    if wi[0] == "fixed":
        a1, b1, c1 = F(1), F(0), F(wi[1])
    elif wi[0] == "flux":
        a1, b1, c1 = F(0), F(1), -rh(0) * dr * F(wi[1]) / k
    elif wi[0] == "conv":
        h, tf = F(wi[1]), F(wi[2])
        a1, b1, c1 = -rh(0) * dr * h / k, F(1), -rh(0) * dr * h * tf / k
    else:
        a1, b1, c1 = F(0), F(1), F(0)
    if wo[0] == "fixed":
        a2, b2, c2 = F(1), S[n], F(wo[1])
    elif wo[0] == "flux":
        a2, b2, c2 = F(0), 1 / rh(n), dr * F(wo[1]) / k
    elif wo[0] == "conv":
        h, tf = F(wo[1]), F(wo[2])
        a2, b2, c2 = dr * h / k, dr * h / k * S[n] + 1 / rh(n), dr * h * tf / k
    else:
        a2, b2, c2 = F(0), F(1), F(0)
    det = a1 * b2 - a2 * b1
    if det == 0:
        return None
    T1 = (c1 * b2 - c2 * b1) / det
    Phi = (a1 * c2 - a2 * c1) / det
    return [T1 + Phi * S[i] for i in range(1, n + 1)]


def log_profile(cfg):
    g = tc.Grid(cfg)
    k = cfg["material"]["k_f"]
    ri, ro = g.ri, g.r
    wi, wo = const_spec(cfg, "inner"), const_spec(cfg, "outer")
    # T = A + B ln r ; rows: [coefA, coefB, rhs]
    def row(w, r, inner):
        sgn = -1.0 if inner else 1.0     # heat entering = sgn * k * B / r
        if w[0] == "fixed":
            return [1.0, math.log(r), w[1]]
        if w[0] == "flux":
            return [0.0, sgn * k / r, w[1]]
        if w[0] == "conv":
            return [w[1], sgn * k / r + w[1] * math.log(r), w[1] * w[2]]
        return [0.0, 1.0, 0.0]
    M = np.array([row(wi, ri, True)[:2], row(wo, ro, False)[:2]])
    b = np.array([row(wi, ri, True)[2], row(wo, ro, False)[2]])
    if abs(np.linalg.det(M)) < 1e-300:
        return None
    A, B = np.linalg.solve(M, b)
    return np.array([A + B * math.log(g.rad(i)) for i in range(1, g.nr + 1)])


PAIRS = [(i, o) for i in (None, "fixed", "flux", "conv", "film") for o in (None, "fixed", "flux", "conv")
         if i in ("fixed", "conv", "film") or o in ("fixed", "conv")]


def gen(ctx):
    rng = ctx.rng
    cfgs = []
    reps = ctx.budget(2, 10)
    for rep in range(reps):
        for (ik, ok) in PAIRS:
            dim = rng.choice([1, 1, 2, 3])
            c = tc.gen_config(rng, len(cfgs), dim=dim, inner=ik, outer=ok, varying=False, steady=True, rough=False,
                              const_in_time=True, nsteps=1, substep=rng.choice([1, 2]))
            c["fluid"] = tc.gen_fluid(rng, False)
            keep_z = dim <= 2 and rng.random() < 0.5       # a slice model reads height-varying data at its own plane
            for side in ("inner", "outer"):
                axisym_bc(rng, c[side])
                if not keep_z:
                    zuniform_bc(c[side])
            c["family"] = "steady"
            cfgs.append(c)
            # the same problem marched in time for a long while
            if rep == 0:
                t = dict(c)
                t = __import__("copy").deepcopy(c)
                t["id"] = len(cfgs)
                t["steady"] = False
                g = tc.Grid(c)
                big = 1e4 * g.t ** 2 / c["material"]["a_f"] * (1 + 50 * c["material"]["k_f"])
                times = [0.0] + [big * (m + 1) for m in range(8)]
                t["times"] = [tc.hx(x) for x in times]
                t["f"]["times"] = times
                t["substep"] = 1
                for side in ("inner", "outer"):
                    sp = t[side]
                    if sp and "times_f" in sp:
                        # keep the same constant data over the longer horizon
                        sp["times_f"] = [-1.0, times[-1] + 1.0] if len(sp["times_f"]) == 2 else [-1.0, times[-1] / 2, times[-1] + 1.0]
                        sp["times"] = [tc.hx(x) for x in sp["times_f"]]
                t["family"] = "transient"
                t["steady_partner"] = c["id"]
                cfgs.append(t)
    return cfgs


def run(ctx):
    ctx.rule = ("every well-posed inner x outer pairing of {insulated, fixed, flux, convective, film} x {insulated, fixed, flux, "
                "convective} (17 pairings), random geometry/grid/abstraction, constant properties, time-constant axisymmetric "
                "data: steady-mode solve and (first repetition) an 8-step transient march to 8e4*t^2/a*(1+50k); one case = one "
                "solve; all non-trivial")
    ctx.trusted += ["spsolve; the logarithmic profile and its (dr/r_i)^2/6 closeness to the discrete profile are validated numerically, not proved",
                    "long-time convergence of the transient is validated on 8 large steps, not proved (non-expansiveness is proved)"]
    from harness import translators as _tr
    ctx.trusted += ["translator harness/translators/thermalstencil.py (Python ast -> Gallina; numpy slicing / edge padding / C-order flattening and "
                    "scipy.sparse.diags / coo_matrix placement read as index shifts)"]
    _tr.import_all()
    ctx.gen("ThermalStencil", _tr.REGISTRY["ThermalStencil"])
    ctx.prove("C13")
    ctx.prove("C02_stencil")
    ctx.prove("C13_log")
    if ctx.tier == "thorough":
        ctx.coqchk("C13")
        ctx.coqchk("C13_log")
    cfgs = gen(ctx)
    results = tc.run_configs(cfgs)
    byid = {c["id"]: (c, r) for c, r in zip(cfgs, results)}
    findings, terms, info = [], [], []
    for cfg, res in zip(cfgs, results):
        kinds = ((cfg["inner"] or {}).get("kind"), (cfg["outer"] or {}).get("kind"))
        ctx.case((cfg["family"], cfg["id"], str(kinds)), True)
        ctx.count("%s:%s/%s" % (cfg["family"], kinds[0], kinds[1]))
        if res["status"] != "ok":
            findings.append((cfg, "the documented pairing inner=%s outer=%s (%s, %dD) is not solved: %s"
                             % (kinds[0], kinds[1], cfg["family"], cfg["dim"], res.get("error"))))
            continue
        g = tc.Grid(cfg)
        T = final_T(res)[-1]
        prof = T.reshape(g.nr, -1)
        spread = np.max(np.abs(prof - prof[:, :1]))
        scale = 1 + np.max(np.abs(prof))
        if spread > 1e-8 * scale:
            findings.append((cfg, "axisymmetric, axially uniform data give a solution that varies around/along the tube by %.3g" % spread))
        p1 = prof[:, 0]
        if cfg["family"] == "steady":
            dp = discrete_profile(cfg)
            lp = log_profile(cfg)
            tol = 100 * tc.roundoff_tol(cfg, g, np.zeros(1), 1.0)
            if dp is not None:
                d = np.array([float(x) for x in dp])
                if np.max(np.abs(p1 - d)) > tol * (1 + np.max(np.abs(d))):
                    findings.append((cfg, "steady solve differs from the discrete closed-form profile by %.3g (inner=%s outer=%s)"
                                     % (np.max(np.abs(p1 - d)), kinds[0], kinds[1])))
            if lp is not None:
                rng_T = max(np.max(lp) - np.min(lp), 1e-9)
                # second order in dr for the interior (midpoint rule for 1/r) ...
                bound = (g.dr / g.ri) ** 2 / 6.0 * rng_T * 4 + 1e-7 * (1 + np.max(np.abs(lp)))
                # ... plus the first-order half-node factor dr/(2r) of C02 on every wall exchange term:
                # it perturbs a prescribed flux q by q*dr/(2r) and a film coefficient h by h*dr/(2r); the
                # temperature scale this can move is the largest wall-to-fluid difference / flux-driven drop
                scale = rng_T
                for w, rw in ((const_spec(cfg, "inner"), g.ri), (const_spec(cfg, "outer"), g.r)):
                    if w[0] == "conv":
                        scale = max(scale, np.max(np.abs(lp - w[2])))
                    elif w[0] == "flux":
                        scale = max(scale, abs(w[1]) * rw / cfg["material"]["k_f"] * (1 + math.log(g.r / g.ri)))
                        other = [x for x in (const_spec(cfg, "inner"), const_spec(cfg, "outer")) if x[0] == "conv"]
                        for o in other:
                            scale = max(scale, abs(w[1]) / max(o[1], 1e-300))
                if "flux" in kinds or "conv" in kinds or "film" in kinds:
                    # (f / (1 - f) instead of f: on very coarse grids, f = dr/(2 r_i) up to 0.4, the wall factor
                    #  1/(1 - f) is no longer close to 1 + f)
                    f = g.dr / (2 * g.ri)
                    bound += f / (1 - f) * scale * 2.0
                if np.max(np.abs(p1 - lp)) > bound:
                    findings.append((cfg, "steady solve is %.3g away from the logarithmic profile, allowed %.3g (inner=%s outer=%s)"
                                     % (np.max(np.abs(p1 - lp)), bound, kinds[0], kinds[1])))
            if not check_chain(cfg, res, g):
                for si, (Tn, Tx, t, dti) in enumerate(step_iter(cfg, res, g)):
                    if len(terms) < ctx.budget(40, 200):
                        terms.append(tc.coq_step(cfg, g, Tn, Tx, t, dti))
                        info.append((cfg, si))
        else:
            pc, pr = byid[cfg["steady_partner"]]
            if pr["status"] == "ok":
                Ts = final_T(pr)[-1].reshape(g.nr, -1)[:, 0]
                if np.max(np.abs(p1 - Ts)) > 1e-5 * (1 + np.max(np.abs(Ts))):
                    findings.append((cfg, "after a long transient the solution is %.3g away from the steady-mode solution (inner=%s outer=%s)"
                                     % (np.max(np.abs(p1 - Ts)), kinds[0], kinds[1])))
    ctx.sample({"pairings": ["%s/%s" % p for p in PAIRS]})
    if findings:
        cfg, msg = findings[0]
        ctx.violation("%s (%d failing checks)" % (msg, len(findings)), {"config": tc.strip_cfg(cfg), "oracle": msg}, tag="C13:" + msg[:30])
    failing = coq_eval_cases("c13", tc.HEADER, terms, shard=12)
    ctx.checker_cmds.append("coqc (vm_compute) certificate of %d steady steps" % len(terms))
    ctx.oblige("corr/thermal-steady-certificate (%d steps)" % len(terms), "corr", not failing,
               "%d steps disagree; first: %s" % (len(failing), (info[failing[0]][0]["id"],) if failing else ""))


def replay(rp):
    cfg = rp.get("config")
    if not cfg:
        print("replay file names a broken obligation, not an input: %s" % rp.get("broken"))
        return 1
    print("recorded:", rp.get("oracle"))
    c = tc.rehydrate(cfg)
    res = tc.run_configs([c])[0]
    print("status:", res["status"], res.get("error", ""))
    if res["status"] == "ok":
        print("final wall-to-wall profile:", final_T(res)[-1].reshape(c["nr"], -1)[:, 0])
    return 1
