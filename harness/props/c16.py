"""
C16 — saving and reloading a receiver changes nothing, including downstream
results.

gen   : coq/gen/H5Fields.v regenerated from receiver.py / system.py.
prove : coq/props/C16.v (model/H5.v, proofs/H5Proofs.v, gen/H5Fields.v)
corr/oracle: random receivers (topology, default and custom names incl. more
        than ten of them, 1D/2D/3D tubes, int/float/str connection options, every
        boundary-condition kind, with and without result fields and flow paths)
        saved and reloaded by the implementation; typed deep comparison of the
        two objects (values, key order, dynamic types up to the numeric tower),
        boundary-condition evaluations, spring conversion and life on both.
"""
from harness import translators
from harness.core import run_impl

NUMERIC = {"int": "int", "int64": "int", "int32": "int", "float": "float", "float64": "float", "str": "str", "str_": "str"}


def hx(x):
    return float(x).hex()


def arr(rng, shape, lo=0.0, hi=1.0, q=64):
    n = 1
    for s in shape:
        n *= s
    return {"shape": list(shape), "v": [hx(round(rng.uniform(lo, hi) * q) / q) for _ in range(n)]}


def gen_opt(rng):
    k = rng.choice(["rigid", "disconnect", "int", "float"])
    if k == "int":
        return ["int", rng.randint(1, 500)]
    if k == "float":
        return ["float", hx(round(rng.uniform(1, 500) * 4) / 4)]
    return k


def gen_bc(rng, kind, ntime, times):
    nt, nz = rng.randint(2, 5), rng.randint(2, 4)
    if kind in ("flux", "fixed"):
        return {"kind": kind, "nt": nt, "nz": nz, "times": times, "data": arr(rng, (ntime, nt, nz), 0, 900)}
    if kind == "conv":
        return {"kind": kind, "nz": nz, "times": times, "data": arr(rng, (ntime, nz), 300, 900)}
    return {"kind": "film", "nz": nz, "fluid_T": arr(rng, (nz,), 300, 900), "film": arr(rng, (nz,), 0.01, 5)}


def gen_case(rng, cid, big=False, with_results=None):
    # mostly short histories; some long ones with lengths around the powers of two (block-wise writers)
    ntime = rng.randint(2, 4) if (big or rng.random() < 0.75) else rng.choice([65, 129, 64, 33, 17])
    tvals = [0.0]
    for _ in range(ntime - 1):
        tvals.append(tvals[-1] + rng.choice([0.5, 1.0, 12.0]))
    times = {"shape": [ntime], "v": [hx(t) for t in tvals]}
    npan = rng.randint(11, 13) if big else rng.randint(1, 3)
    custom = rng.random() < 0.3
    with_results = rng.random() < 0.5 if with_results is None else with_results
    panels = []
    for p in range(npan):
        ntub = rng.randint(11, 12) if (big and p == 0) else rng.randint(1, 2)
        tubes = []
        for q in range(ntub):
            dim = rng.choice([1, 2, 3])
            nr, nt, nz = rng.randint(2, 4), rng.randint(3, 5), rng.randint(2, 4)
            r, t, h = rng.choice([(10.0, 1.0, 100.0), (12.7, 0.5, 2500.0)])
            ts = {"r": hx(r), "t": hx(t), "h": hx(h), "nr": nr, "nt": nt, "nz": nz, "dim": dim,
                  "T0": rng.choice([["int", 300], ["float", hx(550.5)]]), "mult": rng.choice([1, 1, 2, 7]),
                  "plane": hx(h * rng.choice([0.0, 0.5, 0.25])), "angle": hx(rng.choice([0.0, 1.5, -1.5707963267948966, 7.0, -0.25])), "times": times}
            if custom:
                ts["name"] = rng.choice(["north", "t", "zeta"]) + str(q)
            shape = {1: (nr,), 2: (nr, nt), 3: (nr, nt, nz)}[dim]
            if with_results:
                ts["results"] = {"temperature": arr(rng, (ntime,) + shape, 300, 900)}
                ne, nq = 2, 2
                qr = {"temperature": arr(rng, (ntime, ne, nq), 500, 900)}
                for f in ("stress", "mechanical_strain"):
                    for c in ("_xx", "_yy", "_zz", "_yz", "_xz", "_xy"):
                        qr[f + c] = arr(rng, (ntime, ne, nq), -50 if f == "stress" else -1, 50 if f == "stress" else 1)
                ts["quadrature_results"] = qr
                if rng.random() < 0.5:
                    ts["axial_results"] = {"fluid_temperature": arr(rng, (ntime, nz), 500, 800)}
            if rng.random() < 0.7:
                ts["outer_bc"] = gen_bc(rng, rng.choice(["flux", "fixed", "conv"]), ntime, times)
            if rng.random() < 0.7:
                ts["inner_bc"] = gen_bc(rng, rng.choice(["flux", "fixed", "conv", "film"]), ntime, times)
            if rng.random() < 0.5:
                ts["pressure_bc"] = {"times": times, "data": arr(rng, (ntime,), 0, 10)}
            tubes.append(ts)
        ps = {"stiffness": gen_opt(rng), "tubes": tubes}
        if custom:
            ps["name"] = rng.choice(["east", "p", "alpha"]) + str(p)
        panels.append(ps)
    case = {"id": cid, "period": ["float", hx(tvals[-1])] if rng.random() < 0.7 else ["int", 24], "days": 1,
            "stiffness": gen_opt(rng), "panels": panels, "flowpaths": []}
    if with_results:
        # life needs times compatible with the period
        case["period"] = ["float", hx(tvals[-1])]
    if rng.random() < 0.5:
        names = [p.get("name", str(i)) for i, p in enumerate(panels)]
        order = names[:]
        rng.shuffle(order)
        cut = rng.randint(1, len(order))
        groups = [order[:cut]] + ([order[cut:]] if cut < len(order) else [])
        for gi, g in enumerate(groups):
            fp = {"panels": g, "times": times, "mass_flow": arr(rng, (ntime,), 1, 100), "inlet_temp": arr(rng, (ntime,), 500, 600)}
            if custom:
                fp["name"] = rng.choice(["zz", "loop", "a"]) + str(gi)
            case["flowpaths"].append(fp)
    return case


def compare(a, b, path, out):
    """typed deep comparison: values equal, types equal up to the numeric tower, orders equal"""
    if isinstance(a, dict) and isinstance(b, dict):
        if list(a.keys()) != list(b.keys()):
            if sorted(a.keys()) != sorted(b.keys()):
                out.append("%s: keys differ: %s vs %s" % (path, sorted(a.keys()), sorted(b.keys())))
                return
        for k in a:
            compare(a[k], b[k], path + "/" + k, out)
        return
    if isinstance(a, list) and isinstance(b, list) and len(a) == 2 and isinstance(a[0], str) and a[0] in NUMERIC \
            and isinstance(b[0], str) and b[0] in NUMERIC:
        if NUMERIC[a[0]] != NUMERIC[b[0]]:
            out.append("%s: type %s reloaded as %s" % (path, a[0], b[0]))
        elif a[1] != b[1]:
            out.append("%s: value %r reloaded as %r" % (path, a[1], b[1]))
        return
    if a != b:
        out.append("%s: %r reloaded as %r" % (path, a if len(str(a)) < 80 else str(a)[:80], b if len(str(b)) < 80 else str(b)[:80]))


def run(ctx):
    ctx.rule = ("random receivers: 1-3 panels x 1-2 tubes, and 'big' ones with 11-13 default-named panels and 11-12 tubes in "
                "the first; default or custom names; 1D/2D/3D tubes; connection options from {rigid, disconnect, int, float}; "
                "initial temperature int or float; every thermal BC kind and pressure BC; with and without nodal / quadrature "
                "/ axial results; flow paths over shuffled panel lists. one case = one save/load round trip; non-trivial = "
                "more than ten names, an integer option or result fields present")
    ctx.trusted += ["h5py: attributes come back as NumPy scalars / str, groups created with track_order iterate in creation order "
                    "(the model's two hypotheses; observed on every case)",
                    "translator harness/translators/h5fields.py"]
    translators.import_all()
    ctx.gen("H5Fields", translators.REGISTRY["H5Fields"])
    ctx.prove("C16")
    ctx.prove("C16_fields")
    if ctx.tier == "thorough":
        ctx.coqchk("C16")
        ctx.coqchk("C16_fields")
    rng = ctx.rng
    cases = [gen_case(rng, i, big=(i % 8 == 7)) for i in range(ctx.budget(48, 300))]
    results = run_impl("c16_h5", {"cases": cases}, timeout=1500)["results"]
    findings = []
    ndiff = 0
    for c, r in zip(cases, results):
        big = len(c["panels"]) > 10
        intopt = any(isinstance(o, list) and o[0] == "int" for o in [c["stiffness"]] + [p["stiffness"] for p in c["panels"]])
        has_res = any("results" in t for p in c["panels"] for t in p["tubes"])
        ctx.case(("h5", c["id"]), big or intopt or has_res)
        ctx.count("big" if big else "small")
        ctx.count("results" if has_res else "no-results")
        if "error" in r:
            findings.append((c, "save/load raised %s" % r["error"]))
            continue
        diffs = []
        compare(r["orig"], r["reload"], "receiver", diffs)
        compare(r["down_orig"], r["down_reload"], "downstream", diffs)
        if r.get("close") is False:
            diffs.append("Receiver.close(reloaded) is False")
        for k in ("receiver_spring",):
            if str(r["down_reload"].get(k, "")).startswith("error"):
                diffs.append("downstream: spring conversion of the reloaded receiver option fails (%s)" % r["down_reload"][k])
        if diffs:
            ndiff += len(diffs)
            findings.append((c, diffs[0] + (" (+%d more differences)" % (len(diffs) - 1) if len(diffs) > 1 else "")))
    ctx.sample({"panels": len(cases[0]["panels"]), "stiffness": cases[0]["stiffness"], "tube0": {k: v for k, v in cases[0]["panels"][0]["tubes"][0].items()
                                                                                          if k in ("dim", "nr", "nt", "nz", "mult", "T0")}})
    ctx.oblige("corr/h5-typed-roundtrip (%d receivers)" % len(cases), "corr", not findings, "%d receivers differ after reload" % len(findings))
    if findings:
        findings.sort(key=lambda f: len(str(f[0])))
        c, msg = findings[0]
        ctx.violation("%s (%d receivers differ)" % (msg, len(findings)), {"case": c, "oracle": msg}, tag="C16:" + msg[:30])


def replay(rp):
    c = rp.get("case")
    if not c:
        print("replay file names a broken obligation, not an input: %s" % rp.get("broken"))
        return 1
    r = run_impl("c16_h5", {"cases": [c]})["results"][0]
    print("recorded:", rp.get("oracle"))
    if "error" in r:
        print("VIOLATION reproduced:", r["error"])
        return 1
    diffs = []
    compare(r["orig"], r["reload"], "receiver", diffs)
    compare(r["down_orig"], r["down_reload"], "downstream", diffs)
    if diffs:
        print("VIOLATION reproduced:", diffs[0])
        return 1
    print("property holds on this input")
    return 0
