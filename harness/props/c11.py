"""
C11 — reported axial stiffness is the derivative of the reported axial force,
and positive.

gen   : coq/gen/AxialStiff.v regenerated from structural.py
prove : coq/props/C11.v (Schur complement, MathComp) and coq/props/C11_formula.v
oracle: central difference quotients of the axial force in the imposed top
        displacement, from trial solves out of the same start state (exactly what
        spring.TubeSpring hands the system Newton solver), against the stiffness
        returned with the step -- every shipped deformation model and variant,
        synthetic elastic tubes, 1D/2D/3D, with and without pressure, multi-step
        histories, several displacement levels, default and forced sub-increments.
"""
import copy
import os

import numpy as np

from harness import translators
from harness.core import run_impl_parallel
from harness.struct_common import gen_geometry, gen_history, gen_material, to_impl, uv

SHIPPED = [(n, v) for n in ("316H", "740H", "800H", "A230", "A282", "A617") for v in ("elastic_model", "base", "elastic_creep")] + \
          [("SiC", "elastic_model"), ("SiC", "cares")]
SUBSTEP_TAG = "C11:sub-incremented step of an inelastic material"


def run(ctx):
    ctx.rule = ("tubes r 10-25, t/r 0.1-0.2, nr 3, nt 6, nz 2, 1D/2D/3D; every shipped deformation model and variant (20) plus synthetic "
                "elastic materials; wall heated to 850-1000 K with a through-wall and circumferential gradient, pressure 0 or 5-12 MPa, "
                "2 steps of 1000-4000 h with top displacement up to 1.2% strain; difference quotients at the accepted displacement "
                "and at two other levels per step, step 1e-5 h; Newton tolerances tightened to 1e-10; variants with forced "
                "sub-increments.  one case = one tube history; all non-trivial")
    ctx.trusted += ["scikit-fem, NEML constitutive updates and tangents (run, not modelled)",
                    "difference quotients with step 1e-5*h compared at 2e-3 relative accuracy (central, or between the one-sided quotients where the force has a kink)",
                    "translator harness/translators/axialstiff.py"]
    translators.import_all()
    ctx.gen("AxialStiff", translators.REGISTRY["AxialStiff"])
    ctx.prove("C11")
    ctx.prove("C11_formula")
    if ctx.tier == "thorough":
        ctx.coqchk("C11")
        ctx.coqchk("C11_formula")
    rng = ctx.rng
    cases = []
    mats = list(SHIPPED)
    if ctx.tier != "thorough":
        # quick: every variant once, dimension and pressure rotating
        pass
    reps = ctx.budget(1, 3)
    k = 0
    for rep in range(reps):
        for (name, var) in mats:
            for dim in ([1, 2, 3] if ctx.tier == "thorough" else [[1, 2, 3][(k + rep) % 3], 2][: (2 if var != "elastic_model" else 1)]):
                k += 1
                c = gen_geometry(rng, dim=dim)
                c.update(nr=3, nt=6, nz=2, T0=300.0)
                c["material"] = {"kind": "shipped", "name": name, "variant": var}
                c.update(gen_history(rng, c, nsteps=2, pressure=True))
                n = len(c["temps"][0])
                base1, base2 = rng.uniform(850, 950), rng.uniform(900, 1000)
                c["temps"] = [[300.0] * n] + [[b + 40.0 * t / max(n - 1, 1) + 15.0 * ((t * 7) % 5) for t in range(n)] for b in (base1, base2)]
                pr = rng.choice([0.0, rng.uniform(5.0, 12.0)])
                c["pressure"] = [0.0, pr, pr * 1.2]
                c["times"] = [0.0, rng.choice([1000.0, 2000.0]), 5000.0]
                c["dtop"] = [0.0, rng.uniform(6e-3, 1.0e-2) * c["h"], rng.uniform(8e-3, 1.2e-2) * c["h"]]
                c["params"] = {"rtol": 1.0e-10, "atol": 1.0e-10, "miter": 40}
                cases.append(c)
    for i in range(ctx.budget(6, 18)):
        c = gen_geometry(rng, dim=[1, 2, 3][i % 3])
        c["material"] = gen_material(rng)
        c.update(gen_history(rng, c, nsteps=2))
        c["params"] = {"rtol": 1.0e-10, "atol": 1.0e-10, "miter": 40}
        if i % 3 == 0:      # an unloaded first step: nothing to iterate on, the stiffness is still due
            c["temps"][1] = list(c["temps"][0])
            c["pressure"][1] = 0.0
            c["dtop"][1] = 0.0
        cases.append(c)
    # forced sub-increments: elastic ones must still agree; inelastic ones are a recorded finding
    nsub = ctx.budget(4, 10)
    inel = [c for c in cases if c["material"].get("variant") in ("base", "elastic_creep")]
    elas = [c for c in cases if c["material"].get("variant") not in ("base", "elastic_creep")]
    for i in range(nsub):
        pool = inel if i % 2 == 0 else elas
        c = copy.deepcopy(pool[(i * 7) % len(pool)])
        c["params"] = dict(c["params"], force_divide=True, max_divide=rng.choice([1, 2]))
        c["substep"] = True
        cases.append(c)
    # a small Newton budget: a step that does not converge within it must be cut back or refused, never returned as it is
    for i in range(ctx.budget(2, 6)):
        c = copy.deepcopy(inel[(i * 5 + 1) % len(inel)])
        c["params"] = dict(c["params"], miter=rng.choice([2, 3]))
        cases.append(c)
    # the shape of a long analysis: a large accumulated deformation, then a small further increment, with the solver's own
    # tolerances
    for i in range(ctx.budget(2, 6)):
        c = copy.deepcopy(inel[(i * 3 + 2) % len(inel)])
        c["params"] = {}
        c["loose"] = True           # converged to the solver's own tolerances only: no exact-arithmetic equilibrium certificate
        c["temps"][2] = list(c["temps"][1])
        c["pressure"][2] = c["pressure"][1]
        c["dtop"][2] = c["dtop"][1] * (1.0 + rng.choice([0.0001, 0.001, 0.004]))
        c["times"][2] = c["times"][1] + 10.0
        cases.append(c)
    # ... and the same shape on a short stubby tube pulled to 2 % before the small increment (uniform temperature)
    for dimd in (1, 2):
        c = copy.deepcopy(inel[0])
        c.update(r=5.0, t=0.5, h=2.5, nr=5, nt=8, nz=3, dim=dimd, T0=300.0)
        c["material"] = {"kind": "shipped", "name": "316H", "variant": "base", "alpha_kind": "shipped"}
        nn = {1: 5, 2: 40}[dimd]
        c["times"] = [0.0, 1.0, 2.0]
        c["temps"] = [[300.0] * nn, [850.0] * nn, [850.0] * nn]
        c["pressure"] = [0.0, 10.0, 10.0]
        c["dtop"] = [0.0, 0.05, 0.0502]
        c["params"] = {}
        c["loose"] = True
        c.pop("zslice", None); c.pop("aslice", None)
        cases.append(c)
    # every default-tolerance history also solved to a tight tolerance: an independent reference for its force and stiffness
    for c in [x for x in cases if x.get("loose")]:
        tw = copy.deepcopy(c)
        tw["params"] = {"rtol": 1.0e-10, "atol": 1.0e-10, "miter": 60}
        tw.pop("loose")
        tw["reference_of"] = id(c)
        c["twin_key"] = id(c)
        cases.append(tw)
    for c in cases:
        eps = 1.0e-5 * c["h"]
        c["eps"] = eps
        c["trial"] = {}
        c["levels"] = {}
        for s in range(1, len(c["times"])):
            d = c["dtop"][s]
            lv = [d, d * 0.5 - 2e-4 * c["h"], d * 1.3 + 1e-4 * c["h"]]
            c["levels"][str(s)] = lv
            c["trial"][str(s)] = [x for l in lv for x in (l - eps, l, l + eps)]
        c["want"] = ["stress"] if c["dim"] == 1 else []
        if c["dim"] in (1, 2):
            c["probe"] = ["mesh", "quadrature"]
        if c["dim"] == 2:
            c["want"] = ["stress"]
    results = run_impl_parallel("struct_run", [to_impl(c, i) for i, c in enumerate(cases)], workers=14, timeout=2400)
    findings, known = [], []
    for i, (c, r) in enumerate(zip(cases, results)):
        m = c["material"]
        label = "%s/%s" % (m.get("name", m["kind"]), m.get("variant", m.get("alpha_kind", "")))
        ctx.case(("c11", i, label, c["dim"], bool(c.get("substep"))), True)
        ctx.count("mat:" + label)
        ctx.count("dim:%dD" % c["dim"])
        if r.get("outcome") != "ok":
            # a history the solver cannot follow is not a stiffness statement; count it
            ctx.count("unsolved")
            continue
        inelastic = m["kind"] == "shipped" and m["variant"] not in ("elastic_model", "cares")
        for s in range(1, len(c["times"])):
            tr = r["trials"][str(s)]
            for li, d in enumerate(c["levels"][str(s)]):
                (fm, _), (f0, k0), (fp, _) = [[uv(x) for x in t] for t in tr[3 * li: 3 * li + 3]]
                fd = (fp - fm) / (2 * c["eps"])
                fwd, bwd = (fp - f0) / c["eps"], (f0 - fm) / c["eps"]
                if li == 0:
                    K = uv(r["stiffness"][s])
                    if K != k0 or uv(r["force"][s]) != f0:
                        findings.append((c, "the accepted step returns force/stiffness %.10g/%.10g, a trial solve at the same displacement %.10g/%.10g"
                                         % (uv(r["force"][s]), K, f0, k0)))
                K = k0
                msg = None
                if not K > 0.0:
                    msg = "step %d, d=%.6g: reported stiffness %.6g is not positive (difference quotient %.6g)" % (s, d, K, fd)
                elif abs(K - fd) > 2e-3 * abs(fd) and not (min(fwd, bwd) * (1 - 2e-3) <= K <= max(fwd, bwd) * (1 + 2e-3)):
                    # (at the onset of yielding the force has a kink inside [d - eps, d + eps]: the one-sided quotients differ
                    #  and the tangent of the converged state lies between them; that is not a disagreement)
                    msg = "step %d, d=%.6g: reported stiffness %.8g, difference quotient of the force %.8g (%.2g relative)" % (s, d, K, fd, abs(K - fd) / abs(fd))
                if msg:
                    msg = "%s %dD%s: %s" % (label, c["dim"], " forced sub-increments" if c.get("substep") else "", msg)
                    cut = r.get("trial_attempts", {}).get(str(s), [1] * 9)[3 * li + 1] > 1     # the solve at d was cut into sub-increments
                    if (c.get("substep") or cut) and inelastic:
                        known.append((c, msg + (" (the step was cut back after a failed Newton solve)" if cut and not c.get("substep") else "")))
                    else:
                        findings.append((c, msg))
    # default tolerances against the tight reference of the same history
    byid = {c.get("twin_key"): (c, r) for c, r in zip(cases, results) if c.get("twin_key")}
    for c, r in zip(cases, results):
        if "reference_of" not in c or c["reference_of"] not in byid:
            continue
        lc, lr = byid[c["reference_of"]]
        ctx.count("default-vs-tight pairs")
        if r.get("outcome") != "ok" or lr.get("outcome") != "ok":
            continue
        m = lc["material"]
        label = "%s/%s %dD" % (m.get("name", m["kind"]), m.get("variant", ""), lc["dim"])
        same_path = lr.get("step_attempts") == r.get("step_attempts")      # else one was cut back: stiffnesses not comparable (open finding)
        fscale = max(abs(uv(x)) for x in r["force"]) + 1e-9
        for sidx in range(1, len(lc["times"])):
            Fl, Ft, Kl, Kt = uv(lr["force"][sidx]), uv(r["force"][sidx]), uv(lr["stiffness"][sidx]), uv(r["stiffness"][sidx])
            if abs(Fl - Ft) > 1e-2 * fscale or (same_path and abs(Kl - Kt) > 1e-2 * abs(Kt)):
                findings.append((lc, "%s: step %d solved with the solver's default tolerances returns force/stiffness %.8g/%.8g, "
                                     "the same history solved to 1e-10 gives %.8g/%.8g" % (label, sidx, Fl, Kl, Ft, Kt)))
                break
    # corpus: minimised inputs of earlier findings run on every pass (a returned state must carry a finite force and a
    # positive finite stiffness, whatever the material update did)
    import glob, json as _json, math as _math, os as _os
    from harness.core import VERIF, run_impl
    for path in sorted(glob.glob(_os.path.join(VERIF, "harness", "corpus", "c11_*.json"))):
        cc = _json.load(open(path))["case"]
        rr = run_impl("struct_run", {"cases": [cc]}, timeout=1200)["results"][0]
        ctx.case(("c11-corpus", _os.path.basename(path)), True)
        ctx.count("corpus")
        if rr.get("outcome") == "ok":
            vals = [(uv(a), uv(b)) for tr in rr["trials"].values() for a, b in tr] + list(zip(map(uv, rr["force"][1:]), map(uv, rr["stiffness"][1:])))
            badv = [(f, k) for f, k in vals if not (_math.isfinite(f) and _math.isfinite(k) and k > 0.0)]
            if badv:
                findings.append(({"corpus": _os.path.basename(path), "impl": cc},
                                 "corpus case %s: a solve returns force %r with stiffness %r" % (_os.path.basename(path), badv[0][0], badv[0][1])))
    # equilibrium certificate for the 1D histories, any material: the stored stresses of every step balance the
    # pressure in the axisymmetric finite-element model (exact arithmetic), the reported force is their integral
    import math
    from harness.core import coq_eval_cases, q_lit
    from harness.struct_common import arr, qfrac
    H1D = "From Coq Require Import QArith List.\nFrom SV Require Import model.FE1D.\nImport ListNotations.\nOpen Scope Q_scope."
    eq_terms, eq_owner = [], []
    for i, (c, r) in enumerate(zip(cases, results)):
        if c["dim"] != 1 or r.get("outcome") != "ok" or "quadrature" not in r or c.get("loose"):
            continue
        rs = [x[0] for x in arr(r["mesh"]["p"])]
        xis, wts = np.ravel(arr(r["quadrature"]["points"])), np.ravel(arr(r["quadrature"]["weights"]))
        gs = "[" + "; ".join("mkG %s %s" % (q_lit(qfrac(a)), q_lit(qfrac(b))) for a, b in zip(xis, wts)) + "]"
        rl = "[" + "; ".join(q_lit(qfrac(x)) for x in rs) + "]"
        for k in range(1, len(c["times"])):
            S = [arr(r["quad"]["stress" + n])[k] for n in ("_xx", "_yy", "_zz")]
            scale = (float(max(np.max(np.abs(x)) for x in S)) + 1.0) * c["r"]
            ss = "[" + "; ".join("[" + "; ".join("(%s, %s, %s)" % tuple(q_lit(qfrac(S[j][e][g])) for j in range(3)) for g in range(len(xis))) + "]"
                                   for e in range(len(rs) - 1)) + "]"
            eq_terms.append("forallb (small (1#1000000) %s) (residual_s %s %s %s %s)" % (q_lit(qfrac(scale)), q_lit(qfrac(c["pressure"][k])), gs, rl, ss))
            eq_owner.append((i, "step %d: the stored stresses do not balance the pressure in the axisymmetric finite-element equations" % k))
            eq_terms.append("small (1#1000000000) %s (2 * %s * elem_axial_s %s %s %s - %s)" % (
                q_lit(qfrac(scale * c["r"] * 10)), q_lit(qfrac(math.pi)), gs, rl, ss, q_lit(qfrac(uv(r["force"][k])))))
            eq_owner.append((i, "step %d: the reported axial force is not 2 pi times the integral of r s_zz over the stored stresses" % k))
    eq_fail = coq_eval_cases("c11eq", H1D, eq_terms, shard=20) if eq_terms else []
    for kk in eq_fail:
        i, msg = eq_owner[kk]
        m = cases[i]["material"]
        findings.append((cases[i], "%s/%s 1D%s: %s" % (m.get("name", m["kind"]), m.get("variant", ""), " forced sub-increments" if cases[i].get("substep") else "", msg)))
    ctx.oblige("corr/equilibrium-of-stored-stresses-1D (%d terms)" % len(eq_terms), "corr", not eq_fail, "%d terms fail" % len(eq_fail))
    # the same for the 2D histories, any material: the stored stresses of every step balance the polygon pressure load in the
    # bilinear-quadrilateral model, the reported force is the integral of s_zz
    H2D = "From Coq Require Import QArith List.\nFrom SV Require Import model.TubeMech model.FE2D.\nImport ListNotations.\nOpen Scope Q_scope."
    q2 = lambda v: q_lit(qfrac(v))
    t2, o2 = [], []
    for i, (c, r) in enumerate(zip(cases, results)):
        if c["dim"] != 2 or r.get("outcome") != "ok" or "quadrature" not in r or "mesh" not in r or c.get("loose"):
            continue
        P, conn = arr(r["mesh"]["p"]), r["mesh"]["t"]
        Xq, Wq = arr(r["quadrature"]["points"]), np.ravel(arr(r["quadrature"]["weights"]))
        vl = lambda pts: "[" + "; ".join("(%s, %s)" % (q2(a), q2(b)) for a, b in pts) + "]"
        nodes = vl(P)
        connl = "[" + "; ".join("[" + "; ".join("%d%%nat" % n for n in el) + "]" for el in conn) + "]"
        gs = "[" + "; ".join("mkG2 %s %s %s" % (q2(Xq[0][g]), q2(Xq[1][g]), q2(Wq[g])) for g in range(len(Wq))) + "]"
        ring = vl(P[:c["nt"]])
        area2 = c["nt"] / 2 * math.sin(2 * math.pi / c["nt"]) * (c["r"] ** 2 - (c["r"] - c["t"]) ** 2)
        for k in range(1, len(c["times"])):
            S = {n: arr(r["quad"]["stress" + n])[k] for n in ("_xx", "_yy", "_zz", "_xy")}
            smax = float(max(np.max(np.abs(x)) for x in S.values())) + 1.0
            ss = "[" + "; ".join("[" + "; ".join("mkS2 %s %s %s %s" % (q2(S["_xx"][e][g]), q2(S["_yy"][e][g]), q2(S["_zz"][e][g]), q2(S["_xy"][e][g]))
                                                 for g in range(len(Wq))) + "]" for e in range(len(conn))) + "]"
            ext = "(nodal_forces %s %s ++ repeat (0, 0) %d)" % (q2(c["pressure"][k]), ring, len(P) - c["nt"])
            t2.append("small_vecs (1#1000000) %s (residual2 %s %s %s %s %s)" % (q2(smax * c["t"] / (c["nr"] - 1)), nodes, connl, gs, ss, ext))
            o2.append((i, "step %d: the stored stresses do not balance the pressure load in the bilinear finite-element equations" % k))
            t2.append("small (1#1000000000) %s (axial2 %s %s %s %s - %s)" % (q2(smax * area2 * 10), nodes, connl, gs, ss, q2(uv(r["force"][k]))))
            o2.append((i, "step %d: the reported axial force is not the integral of s_zz over the stored stresses" % k))
    f2 = coq_eval_cases("c11eq2", H2D, t2, shard=8) if t2 else []
    for kk in f2:
        i, msg = o2[kk]
        m = cases[i]["material"]
        findings.append((cases[i], "%s/%s 2D%s: %s" % (m.get("name", m["kind"]), m.get("variant", ""), " forced sub-increments" if cases[i].get("substep") else "", msg)))
    ctx.oblige("corr/equilibrium-of-stored-stresses-2D (%d terms)" % len(t2), "corr", not f2, "%d terms fail" % len(f2))
    ctx.sample({"materials": sorted(set("%s/%s" % s for s in SHIPPED)), "cases": len(cases)})
    ctx.oblige("validated/difference-quotients (%d histories, 18 quotients each)" % len(cases), "validated", not findings, "%d failing checks" % len(findings))
    import os
    if os.environ.get("VERIF_DEBUG"):
        for c, msg in findings + known:
            print("# finding: %s" % msg)
    if known:
        c, msg = known[0]
        ctx.violation("%s (%d such quotients)" % (msg, len(known)), {"case": to_impl(c, 0), "oracle": msg}, tag=SUBSTEP_TAG)
    if findings:
        c, msg = findings[0]
        ctx.violation("%s (%d failing checks)" % (msg, len(findings)), {"case": c["impl"] if "impl" in c else to_impl(c, 0), "oracle": msg},
                      tag="C11:" + msg[:30])


def replay(rp):
    from harness.core import run_impl
    c = rp.get("case")
    if not c:
        print("replay file names a broken obligation, not an input: %s" % rp.get("broken"))
        return 1
    r = run_impl("struct_run", {"cases": [c]}, timeout=1200)["results"][0]
    print("recorded:", rp.get("oracle"))
    print("observed now: outcome=%s force=%s stiffness=%s" % (r.get("outcome"), r.get("force"), r.get("stiffness")))
    return 1
