"""
Shared pieces of the structural checks (C03, C11, C15, C08): case generation for
harness/impl/struct_run.py, node coordinates in tube order, conversions.
"""
from harness.core import safe_fraction
import copy
import math
from fractions import Fraction

import numpy as np

FIELDS = ["stress", "strain", "mechanical_strain", "thermal_strain"]
SUFF = ["_xx", "_yy", "_zz", "_yz", "_xz", "_xy"]


def hx(x):
    return float(x).hex()


def uv(s):
    return float.fromhex(s)


def arr(o):
    """nested lists of hex strings -> ndarray"""
    def conv(x):
        return [conv(y) for y in x] if isinstance(x, list) else float.fromhex(x)
    return np.array(conv(o), dtype=float)


def node_coords(c):
    """(r, theta, z) of the nodes in the order of tube.results arrays flattened; c holds floats"""
    rs = np.linspace(c["r"] - c["t"], c["r"], c["nr"])
    ts = np.linspace(0, 2 * np.pi, c["nt"] + 1)[: c["nt"]]
    zs = np.linspace(0, c["h"], c["nz"])
    if c["dim"] == 1:
        return [(r, 0.0, c["h"] / 2) for r in rs]
    if c["dim"] == 2:
        return [(r, t, c["h"] / 2) for r in rs for t in ts]
    return [(r, t, z) for r in rs for t in ts for z in zs]


def gen_geometry(rng, dim=None):
    c = {"r": rng.choice([10.0, 25.0, 12.5]), "h": rng.choice([20.0, 100.0, 50.0]), "nr": rng.randint(3, 5),
         "nt": rng.choice([4, 6, 8]), "nz": rng.randint(2, 4), "dim": dim or rng.choice([1, 2, 3]), "T0": 300.0}
    c["t"] = rng.choice([0.1, 0.2]) * c["r"]
    return c


def gen_material(rng, alpha="any", kind="elastic"):
    m = {"kind": kind, "E": rng.choice([1.0e5, 1.5e5, 2.1e5]), "nu": rng.choice([0.25, 0.3, 0.33])}
    a = rng.choice(["const", "affine", "kink"]) if alpha == "any" else alpha
    if a == "const":
        m["alpha_T"], m["alpha_v"] = [0.0], [rng.choice([1.0e-5, 1.7e-5])]
    elif a == "affine":
        m["alpha_T"], m["alpha_v"] = [-1000.0, 3000.0], [0.8e-5, 2.4e-5]
    else:
        m["alpha_T"], m["alpha_v"] = [0.0, 350.0, 500.0, 2000.0], [1.0e-5, 1.2e-5, 1.9e-5, 2.0e-5]
    m["alpha_kind"] = a
    if kind in ("plastic", "creep"):
        m["sy"], m["H"] = rng.choice([100.0, 150.0]), rng.choice([1000.0, 5000.0])
    if kind == "creep":
        m["A"], m["n"] = rng.choice([1.0e-12, 1.0e-11]), rng.choice([3.0, 4.0])
    return m


def alpha_of(m, T):
    xs, ys = m["alpha_T"], m["alpha_v"]
    if len(xs) == 1:
        return ys[0]
    T = min(max(T, xs[0]), xs[-1])
    for i in range(len(xs) - 1):
        if T <= xs[i + 1]:
            return ys[i] + (ys[i + 1] - ys[i]) * (T - xs[i]) / (xs[i + 1] - xs[i])
    return ys[-1]


def gen_history(rng, c, nsteps=None, uniform=False, outer_only=False, pressure=True, drift=False):
    """times, temps[time][node], pressure[time], dtop[time]"""
    n = nsteps or rng.randint(2, 4)
    times = [0.0]
    for _ in range(n):
        times.append(times[-1] + rng.choice([0.5, 1.0, 3.0]))
    nodes = node_coords(c)
    ri, ro = c["r"] - c["t"], c["r"]
    temps = []
    for k in range(n + 1):
        if k == 0:
            temps.append([c["T0"]] * len(nodes))
            continue
        A, B, C = rng.uniform(-50, 250), rng.uniform(-40, 40), rng.uniform(-30, 30)
        base = rng.uniform(0, 150)
        row = []
        if drift and k > 1:
            temps.append([t + rng.uniform(1e-4, 5e-3) for t in temps[-1]])
            continue
        for (r, th, z) in nodes:
            x = (r - ri) / (ro - ri)
            if uniform:
                row.append(c["T0"] + base)
            elif outer_only:
                row.append(c["T0"] + (A if abs(r - ro) < 1e-9 else 0.0))
            else:
                row.append(c["T0"] + base + A * x * x + B * x * math.cos(th) + C * z / c["h"])
        temps.append(row)
    pr = [0.0] + [rng.uniform(0.0, 5.0) for _ in range(n)] if pressure else None
    dtop = [0.0] + [rng.uniform(-1e-3, 2e-3) * c["h"] for _ in range(n)]
    return {"times": times, "temps": temps, "pressure": pr, "dtop": dtop}


def to_impl(c, cid):
    """case dict with floats -> the hex-string form the driver reads"""
    out = {"id": cid}
    for k in ("nr", "nt", "nz", "dim", "trial", "want", "probe", "stop_at", "init", "network"):
        if k in c and c[k] is not None:
            out[k] = c[k]
    for k in ("r", "t", "h", "T0", "zslice", "aslice"):
        if k in c:
            out[k] = hx(c[k])
    out["times"] = [hx(x) for x in c["times"]]
    out["temps"] = None if c.get("temps") is None else [[hx(v) for v in row] for row in c["temps"]]
    out["pressure"] = None if c.get("pressure") is None else [hx(p) for p in c["pressure"]]
    out["dtop"] = [hx(d) for d in c["dtop"]]
    m = c["material"]
    out["material"] = {k: ([hx(x) for x in v] if isinstance(v, list) else (hx(v) if isinstance(v, float) else v))
                       for k, v in m.items() if k != "alpha_kind"}
    out["params"] = {k: (v if isinstance(v, (bool, int)) else hx(v)) for k, v in (c.get("params") or {}).items()}
    if "trial" in c and c["trial"]:
        out["trial"] = {k: [hx(d) for d in v] for k, v in c["trial"].items()}
    if c.get("parallel"):
        out["parallel"] = to_impl(c["parallel"], cid)
    return out


def refine(c, parts=2):
    """the same loading with every step cut into `parts` equal steps (linear interpolation of all inputs)"""
    d = copy.deepcopy(c)
    times, temps, pr, dtop = [c["times"][0]], [c["temps"][0]], None if c["pressure"] is None else [c["pressure"][0]], [c["dtop"][0]]
    for k in range(1, len(c["times"])):
        for j in range(1, parts + 1):
            f = j / parts
            times.append(c["times"][k - 1] + (c["times"][k] - c["times"][k - 1]) * f)
            temps.append([a + (b - a) * f for a, b in zip(c["temps"][k - 1], c["temps"][k])])
            if pr is not None:
                pr.append(c["pressure"][k - 1] + (c["pressure"][k] - c["pressure"][k - 1]) * f)
            dtop.append(c["dtop"][k - 1] + (c["dtop"][k] - c["dtop"][k - 1]) * f)
    d.update(times=times, temps=temps, pressure=pr, dtop=dtop)
    return d


def qfrac(x):
    return safe_fraction(x)
