"""
Common machinery of every check: Coq build / evaluation, implementation
subprocesses, verdict logic, evidence and replay files.

Entry point is /verif/check, which calls `main()` below.
"""
import argparse
import fcntl
import hashlib
import importlib
import json
import os
import random
import re
import shutil
import subprocess
import sys
import time
import traceback
from fractions import Fraction

VERIF = os.path.dirname(os.path.dirname(os.path.abspath(__file__)))
REPO = os.environ.get("SRLIFE_REPO", "/repo")
COQ = os.path.join(VERIF, "coq")
GEN = os.path.join(COQ, "gen")
OUT = os.path.join(VERIF, "out")
SCRATCH = os.path.join(VERIF, "out", "scratch")
EVID = os.path.join(VERIF, "evidence")
PY = "/venv/bin/python"
GUARD = "SRLIFE_VERIF"

COQ_FLAGS = ["-Q", COQ, "SV"]

# Axioms that may appear under a property theorem (all declared by the Coq
# standard library itself).  Anything else makes the prove stage fail.
ALLOWED_AXIOMS = {
    "ClassicalDedekindReals.sig_forall_dec",
    "ClassicalDedekindReals.sig_not_dec",
    "FunctionalExtensionality.functional_extensionality_dep",
    "Classical_Prop.classic",
    "Eqdep.Eq_rect_eq.eq_rect_eq",
    "ProofIrrelevance.proof_irrelevance",
    "JMeq.JMeq_eq",
}

# ... and whole standard-library modules whose axioms / primitives may appear (native integers and floats used by
# Coq-Interval, the classical real numbers, classical logic)
ALLOWED_AXIOM_PREFIXES = (
    "Uint63.", "PrimInt63.", "Sint63.", "PrimFloat.", "FloatAxioms.", "FloatOps.", "PrimArray.",
    "ClassicalDedekindReals.", "FunctionalExtensionality.", "Classical_Prop.", "ClassicalEpsilon.", "Epsilon.",
    "PropExtensionality.", "ProofIrrelevance.", "Eqdep.", "JMeq.", "ClassicalUniqueChoice.", "Description.",
    "IndefiniteDescription.", "ClassicalFacts.", "ChoiceFacts.",
)


def axiom_allowed(name):
    return name in ALLOWED_AXIOMS or name.startswith(ALLOWED_AXIOM_PREFIXES)


FORBIDDEN_RE = re.compile(
    r"\b(Admitted|admit|Axiom|Axioms|Parameter|Parameters|Conjecture|"
    r"Admit Obligations|Unset Guard Checking|Unset Positivity Checking|"
    r"Unset Universe Checking|bypass_check|type-in-type|impredicative-set)\b"
)


class HarnessError(Exception):
    """Something in the machinery itself failed (exit 2, never a verdict)."""


# --------------------------------------------------------------------------
# small helpers
# --------------------------------------------------------------------------
def safe_fraction(x):
    """exact rational of a float; NaN / inf from the implementation (which no model value is close to) become 10^300,
    so that the comparison fails inside Coq or in the oracle instead of crashing the harness"""
    x = float(x)
    if x != x or x in (float("inf"), float("-inf")):
        return Fraction(10 ** 300)
    return Fraction(x)


def q_of_float(x):
    """exact rational of a float as a Coq Q literal"""
    return q_lit(safe_fraction(x))


def q_lit(fr):
    fr = Fraction(fr)
    n, d = fr.numerator, fr.denominator
    if n < 0:
        return "((%d)#%d)" % (n, d)
    return "(%d#%d)" % (n, d)


def z_lit(n):
    n = int(n)
    return "(%d)%%Z" % n


def coq_list(items):
    return "[" + "; ".join(items) + "]"


def coq_bool(b):
    return "true" if b else "false"


def sha(obj):
    return hashlib.sha1(json.dumps(obj, sort_keys=True, default=str).encode()).hexdigest()[:16]


def impl_env():
    env = dict(os.environ)
    env["PYTHONPATH"] = REPO + os.pathsep + os.path.join(VERIF, "harness", "shim") + os.pathsep + VERIF
    env["PYTHONHASHSEED"] = "0"
    env[GUARD] = "1"
    env["JAX_PLATFORMS"] = "cpu"
    env["OMP_NUM_THREADS"] = "1"
    env["OPENBLAS_NUM_THREADS"] = "1"
    env["MKL_NUM_THREADS"] = "1"
    env.pop("PYTHONSTARTUP", None)
    return env


def run_impl(module, payload, timeout=600):
    """Run `harness/impl/<module>.py` in a fresh interpreter against /repo.

    The script reads one JSON document on stdin and writes one JSON document
    on stdout (last line starting with '@@RESULT@@').
    """
    script = os.path.join(VERIF, "harness", "impl", module + ".py")
    try:
        p = subprocess.run(
            [PY, script],
            input=json.dumps(payload),
            capture_output=True,
            text=True,
            timeout=timeout,
            env=impl_env(),
            cwd=SCRATCH,
        )
    except subprocess.TimeoutExpired:
        raise HarnessError("implementation driver %s timed out after %ss" % (module, timeout))
    for line in reversed(p.stdout.splitlines()):
        if line.startswith("@@RESULT@@"):
            return json.loads(line[len("@@RESULT@@"):])
    raise HarnessError(
        "implementation driver %s produced no result (rc=%s)\nstdout tail: %s\nstderr tail: %s"
        % (module, p.returncode, p.stdout[-2000:], p.stderr[-4000:])
    )


def run_impl_parallel(module, cases, key="cases", workers=8, timeout=900, crash_ok=False):
    """Split `cases` over several concurrent driver processes (results keep the
    order of the cases).  With crash_ok a driver process that dies or hangs (the
    implementation took the interpreter down) yields {"outcome": "crash"} for its
    cases instead of a harness error."""
    from concurrent.futures import ThreadPoolExecutor
    if not cases:
        return []
    workers = max(1, min(workers, len(cases)))
    chunks = [cases[i::workers] for i in range(workers)]

    def one(ch):
        try:
            return run_impl(module, {key: ch}, timeout=timeout)["results"]
        except HarnessError as e:
            if not crash_ok:
                raise
            return [{"id": c.get("id"), "outcome": "crash", "msg": "the interpreter running the implementation died or hung: %s" % str(e)[:300]}
                    for c in ch]
    with ThreadPoolExecutor(workers) as ex:
        outs = list(ex.map(one, chunks))
    res = [None] * len(cases)
    for w, out in enumerate(outs):
        for j, r in enumerate(out):
            res[w + j * workers] = r
    return res


# --------------------------------------------------------------------------
# Coq
# --------------------------------------------------------------------------
class CoqLock:
    def __enter__(self):
        os.makedirs(OUT, exist_ok=True)
        self.f = open(os.path.join(OUT, ".coq.lock"), "w")
        fcntl.flock(self.f, fcntl.LOCK_EX)
        return self

    def __exit__(self, *a):
        fcntl.flock(self.f, fcntl.LOCK_UN)
        self.f.close()


def write_if_changed(path, text):
    os.makedirs(os.path.dirname(path), exist_ok=True)
    try:
        with open(path) as f:
            if f.read() == text:
                return False
    except FileNotFoundError:
        pass
    with open(path, "w") as f:
        f.write(text)
    return True


def ensure_gen_files():
    """every generated file named in _CoqProject has to exist before make can build anything; a missing one is
    produced by its translator (or a stub that defines nothing when the translator rejects the source)"""
    with open(os.path.join(COQ, "_CoqProject")) as f:
        names = [l.strip()[4:-2] for l in f if l.strip().startswith("gen/") and l.strip().endswith(".v")]
    missing = [n for n in names if not os.path.exists(os.path.join(GEN, n + ".v"))]
    if not missing:
        return
    from harness import translators
    translators.import_all()
    for n in missing:
        try:
            translators.generate(n)
        except Exception:
            write_if_changed(os.path.join(GEN, n + ".v"),
                             "(* GENERATION FAILED: the translator rejected the source; nothing is defined here *)\n")


def coq_make(targets, timeout=900, jobs=8):
    """(Re)build the given .vo targets (relative to coq/).  Returns (ok, log)."""
    with CoqLock():
        ensure_gen_files()
        mk, proj = os.path.join(COQ, "Makefile.coq"), os.path.join(COQ, "_CoqProject")
        if not os.path.exists(mk) or os.path.getmtime(mk) < os.path.getmtime(proj):
            subprocess.run(
                ["coq_makefile", "-f", "_CoqProject", "-o", "Makefile.coq"],
                cwd=COQ, check=True, capture_output=True,
            )
        cmd = "ulimit -s unlimited 2>/dev/null; exec timeout %d make -f Makefile.coq -j%d %s" % (
            timeout, jobs, " ".join(targets))
        p = subprocess.run(["bash", "-c", cmd], cwd=COQ, capture_output=True, text=True)
        return p.returncode == 0, p.stdout[-6000:] + p.stderr[-6000:]


def coqc_file(path, timeout=600):
    """Compile one file with coqc, return (ok, stdout, stderr)."""
    cmd = ["timeout", str(timeout), "coqc"] + COQ_FLAGS + [path]
    p = subprocess.run(cmd, cwd=COQ, capture_output=True, text=True)
    return p.returncode == 0, p.stdout, p.stderr


def coq_eval_cases(name, header, cases, shard=250, timeout=600, par=8):
    """Evaluate model checks inside Coq.

    `cases` is a list of Coq terms of type bool (each one already the
    comparison 'model(input) agrees with the implementation's output').
    Returns the list of indices whose term did not evaluate to `true`.
    The shards are compiled in parallel; every shard prints the failing local
    indices as a list of nat.
    """
    os.makedirs(SCRATCH, exist_ok=True)
    d = os.path.join(SCRATCH, "%s_%d" % (name, os.getpid()))
    shutil.rmtree(d, ignore_errors=True)
    os.makedirs(d)
    files = []
    for s in range(0, len(cases), shard):
        chunk = cases[s:s + shard]
        txt = [header, "Require Import List. Import ListNotations.",
               "Fixpoint sv_failing (i : nat) (l : list bool) : list nat :=",
               "  match l with [] => [] | b :: r => if b then sv_failing (S i) r else i :: sv_failing (S i) r end."]
        for k, c in enumerate(chunk):
            txt.append("Definition sv_case_%d : bool := %s." % (k, c))
        txt.append("Definition sv_all : list bool := [%s]." % "; ".join("sv_case_%d" % k for k in range(len(chunk))))
        txt.append("Eval vm_compute in (sv_failing 0 sv_all).")
        fn = os.path.join(d, "cases_%d.v" % (s // shard))
        with open(fn, "w") as f:
            f.write("\n".join(txt) + "\n")
        files.append((s, fn))
    procs = []
    failing = []
    errors = []

    def reap(item):
        s, fn, p = item
        out, err = p.communicate()
        if p.returncode != 0:
            errors.append("%s: rc=%s %s" % (fn, p.returncode, err[-3000:]))
            return
        m = re.search(r"=\s*\[(.*?)\]\s*:\s*list nat", out, re.S)
        if not m:
            errors.append("%s: unparsable output %s" % (fn, out[-1000:]))
            return
        body = m.group(1).strip()
        if body:
            for tok in body.split(";"):
                failing.append(s + int(tok.strip().replace('%nat', '')))

    pending = list(files)
    running = []
    while pending or running:
        while pending and len(running) < par:
            s, fn = pending.pop(0)
            p = subprocess.Popen(
                ["timeout", str(timeout), "coqc"] + COQ_FLAGS + [fn],
                cwd=d, stdout=subprocess.PIPE, stderr=subprocess.PIPE, text=True,
            )
            running.append((s, fn, p))
        item = running.pop(0)
        reap(item)
    if errors:
        raise HarnessError("coq evaluation failed: " + "\n".join(errors)[:6000])
    shutil.rmtree(d, ignore_errors=True)
    return sorted(failing)


def coq_eval_terms(name, header, terms, timeout=600):
    """Evaluate arbitrary closed terms; returns the raw printed strings."""
    os.makedirs(SCRATCH, exist_ok=True)
    d = os.path.join(SCRATCH, "%s_%d" % (name, os.getpid()))
    shutil.rmtree(d, ignore_errors=True)
    os.makedirs(d)
    fn = os.path.join(d, "terms.v")
    with open(fn, "w") as f:
        f.write(header + "\n")
        for k, t in enumerate(terms):
            f.write('Goal True. idtac "@@T%d". Abort.\n' % k)
            f.write("Eval vm_compute in (%s).\n" % t)
        f.write('Goal True. idtac "@@END". Abort.\n')
    ok, out, err = coqc_file(fn, timeout)
    if not ok:
        raise HarnessError("coq term evaluation failed: " + err[-3000:])
    res = []
    parts = re.split(r"@@T\d+\n|@@END\n", out)
    for part in parts[1:1 + len(terms)]:
        m = re.search(r"=\s*(.*?)\s*:\s*[^:]*$", part.strip(), re.S)
        res.append(m.group(1).strip() if m else part.strip())
    shutil.rmtree(d, ignore_errors=True)
    return res


def scan_forbidden():
    """grep the whole development for forbidden vernacular; returns hits."""
    hits = []
    for root, _, files in os.walk(COQ):
        for fn in files:
            if not fn.endswith(".v"):
                continue
            p = os.path.join(root, fn)
            with open(p) as f:
                txt = f.read()
            # strip comments
            txt2 = re.sub(r"\(\*.*?\*\)", "", txt, flags=re.S)
            for m in FORBIDDEN_RE.finditer(txt2):
                hits.append("%s: %s" % (os.path.relpath(p, COQ), m.group(0)))
            # Variable/Hypothesis outside a section
            depth = 0
            for line in txt2.splitlines():
                s = line.strip()
                if re.match(r"Section\s+\w+", s):
                    depth += 1
                elif re.match(r"End\s+\w+", s) and depth > 0:
                    depth -= 1
                elif depth == 0 and re.match(r"(Variable|Variables|Hypothesis|Hypotheses|Context)\b", s):
                    hits.append("%s: top-level %s" % (os.path.relpath(p, COQ), s[:40]))
    return hits


def parse_assumptions(stdout):
    """Parse the output of the `Print Assumptions` commands of a props file.

    Returns list of (closed: bool, axioms: [names]) in order of appearance.
    """
    res = []
    blocks = re.split(r"(?=Closed under the global context|Axioms:)", stdout)
    for b in blocks:
        if b.startswith("Closed under the global context"):
            res.append((True, []))
        elif b.startswith("Axioms:"):
            names = re.findall(r"^([A-Za-z_][\w.']*)\s*:", b[len("Axioms:"):], re.M)
            res.append((False, names))
    return res


# --------------------------------------------------------------------------
# Check context
# --------------------------------------------------------------------------
class Ctx:
    def __init__(self, pid, tier, seed):
        self.pid = pid
        self.tier = tier
        self.seed = seed
        self.rng = random.Random(seed * 1000003 + int(pid[1:]))
        self.t0 = time.time()
        self.obligations = []      # dicts: name, kind (theorem|corr|gen), ok, detail
        self.evaluations = 0
        self.nontrivial = set()
        self.samples = []
        self.distribution = {}
        self.violations = []       # dicts: what, replay path, tag
        self.known_hits = []
        self.broken = []           # names of broken theorems / suites
        self.checker_cmds = []
        self.trusted = []
        self.assumptions = []
        self.rule = ""
        self.axioms_seen = set()
        self.notes = []
        self.known = load_known().get(pid, [])

    # ---- bookkeeping -----------------------------------------------------
    def budget(self, quick, thorough):
        return thorough if self.tier == "thorough" else quick

    def count(self, key, n=1):
        self.distribution[key] = self.distribution.get(key, 0) + n

    def case(self, canon, nontrivial):
        self.evaluations += 1
        if nontrivial:
            self.nontrivial.add(sha(canon))

    def sample(self, obj, limit=6):
        if len(self.samples) < limit:
            self.samples.append(obj)

    def oblige(self, name, kind, ok, detail=""):
        self.obligations.append({"name": name, "kind": kind, "ok": bool(ok), "detail": detail[:2000]})
        if not ok:
            self.broken.append("%s:%s" % (kind, name))

    # ---- stages ------------------------------------------------------------
    def gen(self, name, fn):
        """Run a translator; fail-closed."""
        try:
            text = fn()
            write_if_changed(os.path.join(GEN, name + ".v"), text)
            self.oblige("gen/" + name, "gen", True)
            return True
        except Exception as e:  # translator rejected the source
            self.oblige("gen/" + name, "gen", False, "translator rejected source: %r" % (e,))
            # keep the last good generated file out of the build so that stale
            # theorems cannot pass: replace it by a stub that defines nothing (the
            # file has to exist, or make would refuse to build anything at all and
            # every other property would be reported broken as well)
            write_if_changed(os.path.join(GEN, name + ".v"),
                             "(* GENERATION FAILED: the translator rejected the source; nothing is defined here *)\n")
            return False

    def prove(self, props_file=None, expect_theorems=None):
        """Build coq/props/<pid>.vo and re-run coqc on the props file to read
        Print Assumptions.  One obligation per Theorem in the file."""
        pf = props_file or self.pid
        src = os.path.join(COQ, "props", pf + ".v")
        with open(src) as f:
            txt = f.read()
        thms = re.findall(r"^\s*Theorem\s+([\w']+)", txt, re.M)
        hits = scan_forbidden()
        if hits:
            for t in thms:
                self.oblige(t, "theorem", False, "forbidden vernacular: " + "; ".join(hits[:5]))
            return False
        cmd = "make -C coq -f Makefile.coq props/%s.vo" % pf
        self.checker_cmds.append(cmd)
        ok, log = coq_make(["props/%s.vo" % pf])
        if not ok:
            # find which theorem failed if the props file itself failed; else a dependency
            m = re.search(r'File "\./?([^"]+)", line (\d+)', log)
            where = "%s:%s" % (m.group(1), m.group(2)) if m else "?"
            for t in thms:
                self.oblige(t, "theorem", False, "build failed at %s: %s" % (where, log[-1500:]))
            return False
        with CoqLock():
            ok2, out, err = coqc_file(src)
        self.checker_cmds.append("coqc -Q coq SV coq/props/%s.v  (Print Assumptions)" % pf)
        if not ok2:
            for t in thms:
                self.oblige(t, "theorem", False, "coqc failed: " + err[-1500:])
            return False
        ass = parse_assumptions(out)
        if len(ass) != len(thms):
            for t in thms:
                self.oblige(t, "theorem", False,
                            "props file must have one Print Assumptions per Theorem (%d vs %d)" % (len(ass), len(thms)))
            return False
        allok = True
        for t, (closed, axs) in zip(thms, ass):
            bad = [a for a in axs if not axiom_allowed(a)]
            self.axioms_seen.update(axs)
            self.oblige(t, "theorem", not bad,
                        ("closed under the global context" if closed else "axioms: " + ", ".join(axs))
                        + ("; NOT ALLOWED: " + ", ".join(bad) if bad else ""))
            allok = allok and not bad
        if expect_theorems:
            for t in expect_theorems:
                if t not in thms:
                    self.oblige(t, "theorem", False, "expected theorem missing from props file")
                    allok = False
        return allok

    def coqchk(self, pf=None):
        pf = pf or self.pid
        cmd = ["timeout", "1500", "coqchk", "-silent", "-o"] + COQ_FLAGS + ["SV.props." + pf]
        self.checker_cmds.append(" ".join(cmd))
        with CoqLock():
            p = subprocess.run(cmd, cwd=COQ, capture_output=True, text=True)
        ok = p.returncode == 0
        self.oblige("coqchk SV.props." + pf, "coqchk", ok, (p.stdout + p.stderr)[-1500:])
        return ok

    # ---- verdicts ----------------------------------------------------------
    def violation(self, what, replay, tag=None):
        """Report a concrete failing input.  `tag` is matched against
        known_findings.json."""
        for k in self.known:
            if k.get("status", "open") != "open":
                continue
            if tag is not None and tag == k["tag"]:
                if k["tag"] not in [h["tag"] for h in self.known_hits]:
                    self.known_hits.append(k)
                return
        rp = self.write_replay(replay, what)
        self.violations.append({"what": what, "replay": rp, "tag": tag})

    def write_replay(self, replay, what):
        d = os.path.join(OUT, "replays", self.pid)
        os.makedirs(d, exist_ok=True)
        body = {"property": self.pid, "what": what, "seed": self.seed, "tier": self.tier,
                "replay_cmd": "./check %s --replay <this file>" % self.pid}
        body.update(replay)
        path = os.path.join(d, "%s_%s.json" % (self.pid, sha(body)))
        with open(path, "w") as f:
            json.dump(body, f, indent=1, default=str)
        return path

    def finish(self):
        # broken proof / correspondence without a concrete failing input
        if self.broken and not self.violations:
            rp = self.write_replay(
                {"broken": self.broken,
                 "obligations": [o for o in self.obligations if not o["ok"]],
                 "note": "a theorem or correspondence suite no longer checks against /repo's current "
                         "source; the search stage found no concrete failing input"},
                "proof obligation or correspondence broken")
            self.violations.append({"what": "broken: " + ", ".join(self.broken), "replay": rp,
                                    "tag": None, "nofail": True})
        wall = time.time() - self.t0
        nob = len(self.obligations)
        ndis = sum(1 for o in self.obligations if o["ok"])
        ev = {
            "property_id": self.pid,
            "tier": self.tier,
            "seed": self.seed,
            "level": "proof",
            "coverage": {
                "obligations": max(nob, 0),
                "discharged": ndis,
                "checker_cmd": " ; ".join(self.checker_cmds) or "none",
                "trusted_base": BASE_TRUSTED + self.trusted + ["axioms reported by Print Assumptions: "
                                 + (", ".join(sorted(self.axioms_seen)) or "none (closed under the global context)")],
                "evaluations": self.evaluations,
                "distinct_nontrivial": len(self.nontrivial),
                "rule": self.rule,
                "samples": self.samples or [{"note": "no sample recorded"}],
                "distribution": self.distribution,
                "obligation_list": self.obligations,
                "known_findings_hit": [k["tag"] for k in self.known_hits],
                "notes": self.notes,
            },
            "assumptions": self.assumptions,
            "wall_s": round(wall, 2),
            "violations": len(self.violations),
        }
        os.makedirs(EVID, exist_ok=True)
        with open(os.path.join(EVID, self.pid + ".json"), "w") as f:
            json.dump(ev, f, indent=1, default=str)
        for k in self.known_hits:
            print("KNOWN-FINDING: property=%s %s" % (self.pid, k["what"]))
        for v in self.violations:
            line = "VIOLATION property=%s replay=%s" % (self.pid, v["replay"])
            print("# " + v["what"][:400])
            if v.get("nofail"):
                line += " no-failing-input-found"
            print(line)
        print("%s tier=%s seed=%d obligations=%d discharged=%d evaluations=%d nontrivial=%d wall=%.1fs %s"
              % (self.pid, self.tier, self.seed, nob, ndis, self.evaluations, len(self.nontrivial), wall,
                 "FAIL" if self.violations else "ok"))
        return 1 if self.violations else 0


BASE_TRUSTED = [
    "Coq 8.16.1 kernel (coqc; coqchk -o in the thorough tier); vm_compute used, native_compute not used",
    "Python harness in /verif/harness (generators, canonicalisers, tolerances), exact rationals via fractions.Fraction",
    "correspondence by evaluation of the Gallina model inside coqc (vm_compute) on generated case files",
    "IEEE-754 rounding of the implementation is outside every theorem; float outputs are compared with exact model rationals under stated tolerances",
]


def load_known():
    p = os.path.join(VERIF, "known_findings.json")
    try:
        with open(p) as f:
            data = json.load(f)
    except FileNotFoundError:
        return {}
    res = {}
    for k in data.get("findings", []):
        res.setdefault(k["property"], []).append(k)
    return res


def main(argv=None):
    ap = argparse.ArgumentParser()
    ap.add_argument("pid")
    ap.add_argument("--tier", default=os.environ.get("VERIF_TIER", "quick"), choices=["quick", "thorough"])
    ap.add_argument("--replay", default=None)
    ap.add_argument("--seed", type=int, default=None)
    a = ap.parse_args(argv)
    seed = a.seed if a.seed is not None else int(os.environ.get("VERIF_SEED", "20260930"))
    os.makedirs(SCRATCH, exist_ok=True)
    mod = importlib.import_module("harness.props." + a.pid.lower())
    if a.replay:
        with open(a.replay) as f:
            rp = json.load(f)
        rc = mod.replay(rp)
        sys.exit(rc)
    ctx = Ctx(a.pid, a.tier, seed)
    try:
        mod.run(ctx)
    except Exception as e:  # machinery failure: never a verdict
        print("HARNESS-ERROR %s: %s" % (a.pid, e), file=sys.stderr)
        traceback.print_exc()
        sys.exit(2)
    sys.exit(ctx.finish())
