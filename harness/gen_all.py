"""Run every translator once (used by setup.sh so that the full Coq build has
its generated inputs)."""
import sys


def main():
    from harness import translators
    ok = translators.generate_all(verbose=True)
    sys.exit(0 if ok else 1)


if __name__ == "__main__":
    main()
