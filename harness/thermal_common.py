"""
Shared harness code of the solid heat-transfer group (C02, C06, C12, C13):
configuration generators, an independent reference for wall data and material
tables, the Coq certificate term of a recorded step, and float oracles.
"""
import math
from fractions import Fraction

import numpy as np

from harness.core import safe_fraction, coq_bool, coq_list, q_lit, run_impl

HEADER = ("From Coq Require Import QArith Qabs List Bool ZArith.\nFrom SV Require Import model.Thermal.\n"
          "Import ListNotations.\nOpen Scope Q_scope.\n")
TWO_PI = 2.0 * math.pi
CERT_TOL = Fraction(1, 10 ** 7)


def hx(x):
    return float(x).hex()


def fq(x):
    return q_lit(safe_fraction(x))


def unhex(l):
    return np.array([float.fromhex(v) for v in l])


# --------------------------------------------------------------------------
# reference evaluation of boundary data and material laws (independent of
# srlife; floats, because the values only parameterise the model)
# --------------------------------------------------------------------------
def interp1_ref(xs, ys, x):
    """piecewise linear with linear extrapolation (cell search as scipy)"""
    n = len(xs)
    i = 0
    while i < n - 2 and x > xs[i + 1]:
        i += 1
    w = (x - xs[i]) / (xs[i + 1] - xs[i])
    return ys[i] + (ys[i + 1] - ys[i]) * w


def bc_value(spec, which, t, theta, z, h):
    """value of a thermal BC datum at (t, theta, z); which in data/fluid_T/film"""
    k = spec["kind"]
    if k == "film":
        zs = np.linspace(0, h, spec["nz"])
        return interp1_ref(list(zs), spec[which + "_f"], z)
    times = spec["times_f"]
    zs = list(np.linspace(0, h, spec["nz"]))
    if k == "conv":
        rows = [interp1_ref(zs, row, z) for row in spec["data_f"]]
        return interp1_ref(times, rows, t)
    nt = spec["nt"]
    us = [m / nt for m in range(nt + 1)]
    u = (theta / TWO_PI) % 1.0
    planes = []
    for pl in spec["data_f"]:
        cols = [interp1_ref(zs, row, z) for row in pl]
        cols.append(cols[0])
        planes.append(interp1_ref(us, cols, u))
    return interp1_ref(times, planes, t)


def mat_eval(spec, key, T):
    if spec["kind"] == "const":
        return np.full(np.shape(T), spec[key + "_f"])
    return np.interp(T, spec["T_f"], spec[key + "_f"])


def fluid_eval(spec, T):
    if spec["kind"] == "const":
        return spec["h_f"]
    return float(np.interp(T, spec["T_f"], spec["h_f"]))


# --------------------------------------------------------------------------
# configurations
# --------------------------------------------------------------------------
def rnd8(rng, lo, hi):
    return round(rng.uniform(lo, hi) * 8) / 8.0


def gen_bc(rng, kind, tube_nt, tube_nz, t0, t1, same_grid=None, const_in_time=False, level=None):
    """JSON spec (hex) plus *_f float mirrors used by the reference"""
    if kind is None:
        return None
    nt = tube_nt if (same_grid if same_grid is not None else rng.random() < 0.6) else rng.randint(2, 6)
    nz = max(2, tube_nz if rng.random() < 0.6 else rng.randint(2, 5))
    nt = max(2, nt)
    times = [t0 - 1.0, t1 + 1.0] if rng.random() < 0.5 else [t0 - 1.0, (t0 + t1) / 2.0, t1 + 1.0]
    ntime = len(times)
    spec = {"kind": kind, "nt": nt, "nz": nz, "times": [hx(t) for t in times], "times_f": times}

    def lvl():
        if kind == "flux":
            return rnd8(rng, -2.0, 5.0)
        return rnd8(rng, 300.0, 900.0)

    if kind in ("flux", "fixed"):
        base = [[lvl() for _ in range(nz)] for _ in range(nt)]
        data = [[[v + (0.0 if const_in_time else rnd8(rng, -1.0, 1.0) * (1 if kind == "flux" else 20))
                  for v in row] for row in base] for _ in range(ntime)]
        spec["data"] = [[[hx(v) for v in row] for row in pl] for pl in data]
        spec["data_f"] = data
    elif kind == "conv":
        base = [lvl() for _ in range(nz)]
        data = [[v + (0.0 if const_in_time else rnd8(rng, -20, 20)) for v in base] for _ in range(ntime)]
        spec["data"] = [[hx(v) for v in row] for row in data]
        spec["data_f"] = data
    elif kind == "film":
        ft = [lvl() for _ in range(nz)]
        fm = [rnd8(rng, 0.125, 4.0) for _ in range(nz)]
        spec["fluid_T"] = [hx(v) for v in ft]
        spec["film"] = [hx(v) for v in fm]
        spec["fluid_T_f"] = ft
        spec["film_f"] = fm
    return spec


def gen_material(rng, varying):
    if not varying:
        k, a = rng.choice([10.0, 20.5, 0.75]), rng.choice([5.0, 0.125, 30.0])
        return {"kind": "const", "k": hx(k), "a": hx(a), "k_f": k, "a_f": a}
    Ts = [-1.0e9, 0.0, 400.0, 800.0, 1.0e9]
    ks = [rnd8(rng, 5, 30) for _ in Ts]
    as_ = [rnd8(rng, 1, 10) for _ in Ts]
    return {"kind": "pw", "T": [hx(v) for v in Ts], "k": [hx(v) for v in ks], "a": [hx(v) for v in as_],
            "T_f": Ts, "k_f": ks, "a_f": as_}


def gen_fluid(rng, varying):
    if not varying:
        h = rng.choice([0.5, 2.0, 0.03125, 40.0])
        return {"kind": "const", "h": hx(h), "h_f": h}
    Ts = [-1.0e9, 300.0, 900.0, 1.0e9]
    hs = [rnd8(rng, 0.125, 8) for _ in Ts]
    return {"kind": "pw", "T": [hx(v) for v in Ts], "h": [hx(v) for v in hs], "T_f": Ts, "h_f": hs}


def ghost_field(rng, nr, nt, nz, dim, lo=300.0, hi=900.0, mode="rough"):
    """random field on the ghosted grid with consistent ghosts (periodic in
    theta, copies in r and z, corners arbitrary but finite)"""
    shape = (nr + 2,) + ((nt + 2,) if dim >= 2 else ()) + ((nz + 2,) if dim == 3 else ())
    if mode == "uniform":
        return np.full(shape, rnd8(rng, lo, hi))
    a = np.zeros(shape)
    it = np.nditer(a, flags=["multi_index"], op_flags=["readwrite"])
    for x in it:
        x[...] = rnd8(rng, lo, hi)
    return fix_ghosts(a, dim)


def fix_ghosts(a, dim):
    a = np.array(a, dtype=float)
    a[0] = a[1]
    a[-1] = a[-2]
    if dim >= 2:
        a[:, 0] = a[:, -2]
        a[:, -1] = a[:, 1]
    if dim == 3:
        a[:, :, 0] = a[:, :, 1]
        a[:, :, -1] = a[:, :, -2]
    return a


def gen_config(rng, cid, dim=None, inner="any", outer="any", varying=None, steady=False, rough=None,
               dt_choices=(1.0e-3, 0.125, 1.0, 64.0, 1.0e6), nsteps=None, substep=None, same_grid=None,
               const_in_time=False, geom=None, nt=None, bc_nt=None):
    dim = dim or rng.choice([1, 2, 3])
    r, t, h = geom or rng.choice([(10.0, 1.0, 10.0), (12.7, 2.0, 100.0), (25.4, 0.5, 7.5), (4.0, 2.5, 10.0)])
    nr = rng.randint(3, 5)
    nt = nt or (rng.randint(3, 5) if dim >= 2 else rng.randint(3, 8))
    nz = rng.randint(2, 4) if dim == 3 else rng.randint(2, 4)
    ns = nsteps or rng.randint(1, 3)
    times = [0.0]
    for _ in range(ns):
        times.append(times[-1] + rng.choice(list(dt_choices)))
    kinds_in = [None, "fixed", "flux", "conv", "film"]
    kinds_out = [None, "fixed", "flux", "conv"]
    ik = rng.choice(kinds_in) if inner == "any" else inner
    ok = rng.choice(kinds_out) if outer == "any" else outer
    if steady and ik in (None, "flux") and ok in (None, "flux"):
        ok = "fixed"
    varying = (rng.random() < 0.4) if varying is None else varying
    cfg = {
        "id": cid, "r": hx(r), "t": hx(t), "h": hx(h), "nr": nr, "nt": nt, "nz": nz, "dim": dim,
        "times": [hx(x) for x in times],
        "inner": gen_bc(rng, ik, bc_nt or nt, nz, times[0], times[-1], same_grid, const_in_time),
        "outer": gen_bc(rng, ok, bc_nt or nt, nz, times[0], times[-1], same_grid, const_in_time),
        "material": gen_material(rng, varying), "fluid": gen_fluid(rng, varying and rng.random() < 0.5),
        "substep": substep or rng.choice([1, 1, 2, 3]), "steady": steady, "via": rng.choice(["kwargs", "pset"]),
        "f": {"r": r, "t": t, "h": h, "times": times},
    }
    if dim <= 2:
        cfg["plane"] = hx(rng.choice([0.0, h, h / 2.0, h * 0.3125]))
        cfg["f"]["plane"] = float.fromhex(cfg["plane"])
    if dim == 1:
        u = Fraction(rng.randrange(0, 64), 64)
        cfg["angle"] = hx(TWO_PI * float(u))
        cfg["f"]["angle"] = float.fromhex(cfg["angle"])
    rough = (rng.random() < 0.6) if rough is None else rough
    if rough:
        fld = ghost_field(rng, nr, nt, nz, dim)
        cfg["T0_field"] = [hx(v) for v in fld.ravel()] if False else nested_hex(fld)
        cfg["f"]["T0_field"] = fld
    else:
        T0 = rnd8(rng, 300.0, 900.0)
        cfg["T0"] = hx(T0)
        cfg["f"]["T0"] = T0
    return cfg


def nested_hex(a):
    if a.ndim == 1:
        return [hx(v) for v in a]
    return [nested_hex(x) for x in a]


def strip_cfg(cfg):
    """what is sent to the implementation driver (drop float mirrors)"""
    def clean(o):
        if isinstance(o, dict):
            return {k: clean(v) for k, v in o.items() if not k.endswith("_f") and k != "f"}
        if isinstance(o, list):
            return [clean(x) for x in o]
        return o
    return clean(cfg)


def run_configs(cfgs, timeout=1500, record=True):
    payload = []
    for c in cfgs:
        d = strip_cfg(c)
        d["record"] = record
        payload.append(d)
    return run_impl("thermal_run", {"configs": payload}, timeout=timeout)["results"]


# --------------------------------------------------------------------------
# geometry helpers (harness-side, independent of the solver's mesh)
# --------------------------------------------------------------------------
class Grid:
    def __init__(self, cfg):
        f = cfg["f"]
        self.dim = cfg["dim"]
        self.nr, self.nt, self.nz = cfg["nr"], cfg["nt"], cfg["nz"]
        self.r, self.t, self.h = f["r"], f["t"], f["h"]
        self.dr = self.t / (self.nr - 1)
        self.dth = TWO_PI / self.nt
        self.dz = self.h / (self.nz - 1)
        self.ri = self.r - self.t
        self.has_t = self.dim >= 2
        self.has_z = self.dim == 3
        self.NT = self.nt + 2 if self.has_t else 1
        self.NZ = self.nz + 2 if self.has_z else 1
        self.NR = self.nr + 2
        self.fdim = (self.NR, self.NT, self.NZ)
        self.plane = f.get("plane")
        self.angle = f.get("angle")

    def jr(self):
        return range(1, self.nt + 1) if self.has_t else [0]

    def kr(self):
        return range(1, self.nz + 1) if self.has_z else [0]

    def theta(self, j):
        return (j - 1) * self.dth if self.has_t else self.angle

    def z(self, k):
        return (k - 1) * self.dz if self.has_z else self.plane

    def rad(self, i):
        return self.ri + (i - 1) * self.dr


def wall_data(cfg, g, which, time):
    """nodal wall data as the documentation defines it, on ghosted (j,k) index
    tables (zeros at ghost positions).  Returns dict name -> 2-D array."""
    spec = cfg[which]
    out = {}
    if spec is None:
        return out
    shape = (g.NT, g.NZ)
    kind = spec["kind"]
    names = {"flux": ["q"], "fixed": ["g"], "conv": ["tf", "h"], "film": ["tf", "h"]}[kind]
    for n in names:
        out[n] = np.zeros(shape)
    for j in g.jr():
        for k in g.kr():
            th, z = g.theta(j), g.z(k)
            if kind == "flux":
                out["q"][j, k] = bc_value(spec, "data", time, th, z, g.h)
            elif kind == "fixed":
                out["g"][j, k] = bc_value(spec, "data", time, th, z, g.h)
            elif kind == "conv":
                tf = bc_value(spec, "data", time, th, z, g.h)
                out["tf"][j, k] = tf
                out["h"][j, k] = fluid_eval(cfg["fluid"], tf)
            else:
                out["tf"][j, k] = bc_value(spec, "fluid_T", time, th, z, g.h)
                out["h"][j, k] = bc_value(spec, "film", time, th, z, g.h)
    return out


def expected_step_times(cfg):
    """(time, dt) of every backward-Euler (sub)step the documentation implies"""
    times = cfg["f"]["times"]
    ss = cfg["substep"]
    out = []
    for a, b in zip(times[:-1], times[1:]):
        dt = b - a
        t_n = b - dt
        dti = dt / ss
        for i in range(1, ss + 1):
            out.append((t_n + dti * i, dti))
    return out


def tables(cfg, g, Tn):
    """coefficient tables of a step: c (diffusivity or conductivity) and k"""
    k = mat_eval(cfg["material"], "k", Tn)
    a = mat_eval(cfg["material"], "a", Tn)
    return (k if cfg["steady"] else a), k


# --------------------------------------------------------------------------
# Coq certificate term for one recorded step
# --------------------------------------------------------------------------
def coq_field(a):
    a = np.asarray(a)
    return "(fld %s)" % coq_list([coq_list([coq_list([fq(v) for v in row]) for row in pl]) for pl in a])


def coq_wdata(a):
    return "(wdt %s)" % coq_list([coq_list([fq(v) for v in row]) for row in a])


def coq_wall(spec, wd):
    if spec is None:
        return "Ins"
    k = spec["kind"]
    if k == "flux":
        return "(Flux %s)" % coq_wdata(wd["q"])
    if k == "fixed":
        return "(Fixed %s)" % coq_wdata(wd["g"])
    return "(Conv %s %s)" % (coq_wdata(wd["h"]), coq_wdata(wd["tf"]))


def coq_step(cfg, g, Tn, T, time, dt, tol=CERT_TOL):
    c, k = tables(cfg, g, Tn)
    wi = wall_data(cfg, g, "inner", time)
    wo = wall_data(cfg, g, "outer", time)
    cfgterm = "(mkCfg %d %d %d %s %s %s %s %s %s %s %s %s %s %s %s)" % (
        g.nr, g.nt if g.has_t else 1, g.nz if g.has_z else 1, coq_bool(g.has_t), coq_bool(g.has_z),
        fq(g.dr), fq(g.dth), fq(g.dz), fq(dt), fq(g.ri), coq_bool(cfg["steady"]),
        coq_field(c.reshape(g.fdim)), coq_field(k.reshape(g.fdim)),
        coq_wall(cfg["inner"], wi), coq_wall(cfg["outer"], wo))
    return "check_step %s %s %s %s" % (q_lit(tol), cfgterm, coq_field(Tn.reshape(g.fdim)), coq_field(T.reshape(g.fdim)))


# --------------------------------------------------------------------------
# float oracles on a recorded step
# --------------------------------------------------------------------------
def energy_balance(cfg, g, Tn, T, time, dt):
    """discrete stored-heat change and boundary input of one step (both in
    the units of r*T*dr*dtheta*dz); returns (stored, input, scale)"""
    Tn = Tn.reshape(g.fdim)
    T = T.reshape(g.fdim)
    c, k = tables(cfg, g, Tn)
    c = c.reshape(g.fdim)
    k = k.reshape(g.fdim)
    stored = 0.0
    scale = 0.0
    for i in range(1, g.nr + 1):
        for j in g.jr():
            for kk in g.kr():
                d = g.rad(i) * (T[i, j, kk] - Tn[i, j, kk])
                stored += d
                scale += abs(g.rad(i) * T[i, j, kk]) + abs(g.rad(i) * Tn[i, j, kk])
    inp = 0.0
    for which, ig, ir in (("inner", 0, 1), ("outer", g.nr + 1, g.nr)):
        spec = cfg[which]
        if spec is None:
            continue
        wd = wall_data(cfg, g, which, time)
        for j in g.jr():
            for kk in g.kr():
                rhalf = (g.rad(ig) + g.rad(ir)) / 2.0
                chalf = (c[ig, j, kk] + c[ir, j, kk]) / 2.0
                if spec["kind"] == "flux":
                    q = wd["q"][j, kk]
                elif spec["kind"] in ("conv", "film"):
                    q = wd["h"][j, kk] * (wd["tf"][j, kk] - T[ir, j, kk])
                else:
                    return None
                term = rhalf * chalf * q / (k[ir, j, kk] * g.dr)
                inp += term
                scale += abs(term) * dt
    return stored, dt * inp, scale


def rehydrate(cfg):
    """rebuild the float mirrors (*_f, f) of a stripped configuration"""
    def fl(x):
        return float.fromhex(x)

    def conv(o):
        return [conv(x) for x in o] if isinstance(o, list) else fl(o)
    c = dict(cfg)
    for side in ("inner", "outer"):
        sp = c.get(side)
        if sp:
            sp = dict(sp)
            for key in ("times", "data", "fluid_T", "film"):
                if key in sp:
                    sp[key + "_f"] = conv(sp[key])
            c[side] = sp
    for key in ("material", "fluid"):
        sp = dict(c[key])
        for k2 in ("k", "a", "h", "T"):
            if k2 in sp:
                sp[k2 + "_f"] = conv(sp[k2]) if isinstance(sp[k2], list) else fl(sp[k2])
        c[key] = sp
    f = {"r": fl(c["r"]), "t": fl(c["t"]), "h": fl(c["h"]), "times": conv(c["times"])}
    for key in ("plane", "angle", "T0"):
        if key in c:
            f[key] = fl(c[key])
    if "T0_field" in c:
        f["T0_field"] = np.array(conv(c["T0_field"]))
    c["f"] = f
    return c


def roundoff_tol(cfg, g, Tn, dt):
    """relative tolerance for float comparisons of one step: the theorems are
    exact, the implementation's linear solve loses about eps * cond(M) digits;
    cond(M) <= kappa = 1 + dt * max c * (4/dr^2 + 4/(r_min dtheta)^2 + 4/dz^2)"""
    c, _ = tables(cfg, g, Tn)
    cmax = float(np.max(np.abs(c)))
    s = 4.0 / g.dr ** 2
    if g.has_t:
        s += 4.0 / (g.ri * g.dth) ** 2
    if g.has_z:
        s += 4.0 / g.dz ** 2
    kappa = 1.0 + (1.0 if cfg["steady"] else dt) * cmax * s
    return 1e-10 + 1e-14 * kappa
