#!/bin/sh
# usage: tools/mut_matrix.sh [dir...]  : for each seeded mutation run its property's quick check; one line each into out/mut_matrix.txt
cd "$(dirname "$0")/.." || exit 2
OUT=out/mut_matrix.txt
: > $OUT
for d in ${@:-seeded/*}; do
  id=$(basename $d); p=$(echo $id | cut -c1-3)
  res=$(tools/try_mut.sh $PWD/$d/patch.diff $p 2>&1)
  if echo "$res" | grep -q "^VIOLATION"; then v=caught; else v=MISSED; fi
  nf=$(echo "$res" | grep -c "no-failing-input-found")
  echo "$id $p $v nofail=$nf $(echo "$res" | grep -E "^C[0-9]+ tier" | cut -c1-120)" >> $OUT
done
echo done >> $OUT
