#!/usr/bin/env python3
"""Regenerate /verif/MANIFEST.json from the table below (kept in one place so
the manifest is always valid)."""
import json, os

HERE = os.path.dirname(os.path.dirname(os.path.abspath(__file__)))

CHECKS = {
    "C10": dict(
        text="Theorems about a Gallina model of the adaptive sub-increment loop (all subdivision limits >= 1, both modes, "
             "every failure pattern, by induction with an invariant), tied to PythonTubeSolver.solve by exhaustive "
             "trace correspondence over the loop's decision tree.",
        note="Trusted: Coq kernel; scripted stub for the per-increment solve (its verdict is the model's oracle); "
             "Python harness. Interpolation of time/pressure/temperature inside an attempt is checked by the oracle only.",
        technique="Coq proof (loop invariant, induction on fuel) + exhaustive trace correspondence by vm_compute",
        design="4/C10"),
}

CHECKS["C19"] = dict(
    text="Theorems about a Gallina model of the boundary-condition evaluators (grid exactness in (t, theta, z), "
         "bracketing by neighbouring data, periodicity with the seam cell using the first column, scalar/array dispatch, "
         "constructor shapes, set_bc acceptance), for all grids and data; tied to srlife.receiver by typed "
         "correspondence of every evaluator kind on random objects and queries.",
    note="Trusted: Coq kernel; scipy's RegularGridInterpolator/interp1d taken as multilinear interpolation with linear "
         "extrapolation / range error (hypotheses of the model, exercised by every case); float angle 2*pi*u vs exact "
         "fraction u compared at 1e-9.",
    technique="Coq proof (induction over grids, Q arithmetic) + randomized typed correspondence by vm_compute",
    design="4/C19")

CHECKS["C02"] = dict(
    text="Theorems about a Gallina model of one backward-Euler step of the finite-difference solver (all grids, 1D/2D/3D, "
         "every dt, nodal-varying coefficients): the weighted node equations telescope in r, theta and z, so the change of "
         "stored heat equals dt times the exchange with the two radial ghost layers, which the ghost rows turn into "
         "0 / flux / film*(Tf - Twall) with the explicit half-node factor 1 -/+ dr/(2r); non-negative flux never lowers the "
         "stored heat.  Tied to srlife/thermal.py twice: a translator regenerates the finite-difference system (the three "
         "sp.diags operators, the steady / transient system of solve_step, every ghost row) from the source on every run and "
         "it is proved equivalent to the model's equations Eqs (C02_stencil; shared with C06, C12, C13); and by an exact "
         "certificate: the model's equations evaluated at the implementation's output for every recorded (sub)step.",
    note="Trusted: Coq kernel; spsolve (output only checked); harness reference for BC data and material tables; "
         "hypotheses: tables periodic in their theta ghosts (H2), r > 0; flux sign needs dr < 2 r_inner (H1). "
         "Volumetric sources and the fix_edge test mode are not modelled.",
    technique="Coq proof (telescoping sums over Q) + finite-difference system regenerated from the source + exact per-step certificate correspondence by vm_compute",
    design="4/C02")
CHECKS["C06"] = dict(
    text="Discrete maximum principle proved for the same model: for every dt > 0, grid, dimension and positive nodal "
         "coefficient tables, every real node stays within the range of the previous field, fixed wall temperatures and fluid "
         "temperatures (argmax argument over the finite node list), one-sided versions with signed flux, uniform insulated "
         "fields stay uniform for ever, uniqueness of the solution on real nodes; the hypothesis dr < 2 r_inner is shown "
         "necessary by a machine-checked counterexample that reproduces on the implementation (known finding).",
    note="Trusted: as C02.  Steady mode is excluded (C13).  Float comparisons use a tolerance scaled by the step's condition number.",
    technique="Coq proof (argmax + sign analysis of the stencil, linearity) + certificate correspondence",
    design="4/C06")

CHECKS["C12"] = dict(
    text="Theorems about the same step model: rotating tables, wall data and previous field by one circumferential cell "
         "rotates every solution by one cell, and (with uniqueness from the maximum principle) the rotated problem has no "
         "other solution; the 1D solution copied to every ray solves the 2D step for axisymmetric data, the 2D solution "
         "copied to every plane solves the 3D step for axially uniform data; superposition for fixed tables; the flattened "
         "dof numbering is a bijection.  Tied by the per-step certificate on reduced abstractions (slice coordinates are part "
         "of the compared wall data) and by paired real solves.",
    note="Trusted: as C02.  Equivariance for temperature-dependent tables assumes ghost-consistent tables (H2); rotation "
         "by s cells is the s-fold iterate of the proved one-cell statement.",
    technique="Coq proof (index map on ghosted columns, congruence of the stencil, uniqueness) + certificate + metamorphic solves",
    design="4/C12")
CHECKS["C13"] = dict(
    text="Proved for the model: in steady mode with constant properties the half-node radial heat flow is the same "
         "through every half node, which gives the discrete profile in closed form for every wall pairing; a steady-mode "
         "solution is a fixed point of every transient step and every transient step is non-expansive towards it (max "
         "norm).  The check compares the implementation's steady solve with that closed form in exact rationals for all "
         "17 well-posed pairings, and validates the distance to the logarithmic profile and long-time convergence numerically.",
    note="Closeness to the logarithmic profile is proved cell by cell over the reals (C13_cell_climb_second_order: the discrete "
         "climb G/r_mid and the exact (G/dr) ln(r_out/r_in) differ by a relative x^2/3 .. x^2/(3(1-x^2)), x = dr/(2 r_mid)).  partial: "
         "the first-order dr/2r factor of the wall rows and strict long-time convergence are validated on the implementation, not proved.",
    technique="Coq proof (induction along the radius, linearity + maximum principle) + certificate + exact closed-form oracle",
    design="4/C13")

CHECKS["C01"] = dict(
    text="Theorems about a Gallina model of the metallic life computation: envelope membership is antitone along every "
         "damage ray, the closed-form crossing is exactly the membership boundary, a point's life is 0 / unbounded / the "
         "crossing according to membership at 1 and 10^6 repetitions, and for any number of tubes and points the receiver "
         "life is the minimum: every point inside below it, the arg-min point outside above it.  Tied to "
         "TimeFractionInteractionDamage / StructuralMaterial twice: a translator regenerates the envelope test, the von Mises "
         "and strain-range radicands, the lump rule, the strain table, the repetition bounds and the remaining one-line "
         "formulas from damage.py / materials.py on every run, proved equal to the model's definitions (C01_formulas); and by "
         "exact and toleranced correspondence (envelope booleans, "
         "supplied per-point damages, synthetic histories with a rational stub material) and by membership probes on the "
         "implementation with the shipped materials.",
    note="Trusted: Coq kernel; brentq (compared with the closed form at 1e-6); multiprocess imap order.  The last-cycle "
         "mode is proved in full for non-negative per-day damages (C01_last_cycle_life: the reported life is the first "
         "repetition count outside the envelope); its model is tied by correspondence.  Shipped Larson-Miller / fatigue look-ups are covered by C20, not modelled here.",
    technique="Coq proof (order/real-closed-field style algebra over Q, list minima) + formulas regenerated from the source + correspondence by vm_compute",
    design="4/C01")
CHECKS["C09"] = dict(
    text="Theorems: von Mises stress and equivalent strain range (as written in damage.py, incl. the engineering-shear "
         "factors) are invariant under any orthogonal change of axes (trace invariants, Groebner-basis proofs checked by "
         "the kernel), strain offsets cancel, minima are permutation invariant, the mean of a repeated day is the day's "
         "mean, scaling damages by lam divides the crossing by lam, larger damages or an extra tube never lengthen the "
         "life.  Tied by the damage-formula correspondence shared with C01 and by metamorphic pairs through determine_life.",
    note="Trusted: as C01.  Monotonicity of damage in load needs monotone material laws (proved for shipped data in C20 on "
         "their tabulated ranges); the oracle uses the stub material for that clause.",
    technique="Coq proof (nsatz/ring over Q, list lemmas) + metamorphic testing of the implementation",
    design="4/C09")

CHECKS["C17"] = dict(
    text="Theorems about Gallina models of the six iteration loops (generic Newton with and without line search, thermal "
         "step, flow path, FEM Newton, Picard) over an arbitrary stream of observed residual norms with IEEE NaN/inf "
         "comparison semantics: a return implies the tolerance test on the value attached to the returned iterate and that "
         "value is not NaN; budget 0 raises; a criterion never met raises; for every budget and tolerance.  Facts about the "
         "source regenerated on every run (no documented solver parameter is ignored, solver attributes are fed by parameters "
         "or parameter-set keys, the spring network passes its own tolerances to newton, newton's defaults equal the "
         "documented ones) are proved by computation on the generated tables.  Tied by scripted-residual runs of the real loops.",
    note="Trusted: Coq kernel; the ast translator; scripted la.norm proxies and stubbed RJ/FEM state.  The adaptive tube step "
         "is covered through C10's model.  Convergence itself (that a solve eventually meets its criterion) is not claimed.",
    technique="Coq proof (induction over the iteration budget) + generated source facts by vm_compute + scripted-run correspondence",
    design="4/C17")

CHECKS["C14"] = dict(
    text="Theorems about a Gallina model of the flow-path chain (any number of panels, tubes, multipliers, wall grids, any "
         "fluid laws): the chain's residual vanishes iff the first node equals the inlet and, panel by panel in declared "
         "order with the previous node as inlet, every tube's enthalpy gain equals the convective heat from its wall and "
         "each manifold is the multiplier-weighted mean; reported velocities carry exactly the prescribed mass flow; "
         "reported fluid temperatures are affine from panel inlet to tube outlet.  Tied to flowpath.py twice: a translator "
         "regenerates the link equations (enthalpy gain, convective heat, velocities, fluid temperatures, manifold and start "
         "residuals) from the source on every run and they are proved equal to the model's definitions; and "
         "RJ(T)[0], recover_tube_results and the residual at solve()'s output are compared with the model on random chains.",
    note="Trusted: Coq kernel; rational stub fluid (shipped fluids: C18); jacfwd/spsolve affect only convergence; time "
         "interpolation by scipy interp1d mirrored in the harness.",
    technique="Coq proof (list induction, field algebra over Q) + link equations regenerated from the source + residual/certificate correspondence by vm_compute",
    design="4/C14")

CHECKS["C07"] = dict(
    text="Theorems about models of the coupled solver's own logic: the flow-path validation accepts exactly the partitions "
         "of the panel set; write-back pairs results with panels in declared order; in steady solid mode the heat entering a "
         "tube's outer wall leaves through its inner wall (telescoping identity of the thermal model); along a path the "
         "inlet condition, panel order and per-tube fluid/wall balance are exactly the zero-residual condition (C14); k "
         "tubes of multiplier m and one tube of multiplier k*m have the same balance; the reset trigger fires exactly at "
         "whole periods; the Picard loop returns only on its criterion (C17).  The check runs the real coupled solver on "
         "small receivers and evaluates inlet, order, energy consistency (with the proved half-node factor), multiplier "
         "merge, initial condition and cycle reset.",
    note="partial: the energy clause combines two proved identities through the coupled fixed point; that combination and the "
         "factor (1+dr/2ro)/(1-dr/2ri) are validated on the implementation.  Two known findings (off-mid-height slices, "
         "mixed wall grids in one panel).  Picard convergence is not claimed.  Film coefficient independent of temperature in "
         "the energy oracle.",
    technique="Coq proof (list/set lemmas, telescoping, field algebra) + correspondence of validation/trigger + coupled-solve oracles",
    design="4/C07")

CHECKS["C04"] = dict(
    text="A Gallina model states equilibrium on the UN-reduced receiver network (root, manifolds, tube tops; options rigid / "
         "disconnect / numeric; tubes as affine springs): rigid compatibility, tube-top, manifold and root (or rigid-cluster) "
         "force balances.  Theorems: the edge assembly is orientation independent and a numeric edge carries stiffness "
         "times relative displacement; every equilibrium has rigid tubes sharing one displacement, disconnected tubes "
         "balanced on their own, numeric connections carrying k*(relative displacement).  The implementation's whole "
         "pipeline (network build, rigid contraction, disconnect split, assembly, Newton, copy-back) is certified against "
         "that equilibrium for every option assignment of small receivers (exhaustive) and sampled larger ones, and for receivers "
         "of elastic finite-element tubes solved by the real system and tube solvers (affine laws measured on a replay).",
    note="Uniqueness is proved for what every tube sees (C04_tube_tops_unique: with positive stiffnesses any two equilibria give "
         "every tube the same top displacement; a panel is a spring of stiffness sum k kt/(k+kt)); agreement with an independent "
         "dense direct-stiffness solve is additionally validated.  networkx and numpy.linalg.solve are certified through their "
         "result only; real (non-affine) tube solvers are outside the model.",
    technique="Coq proof (algebra over Q) + exhaustive equilibrium-certificate correspondence by vm_compute",
    design="4/C04")

CHECKS["C16"] = dict(
    text="Theorems about a keyed-store model of save/load with dynamically typed values (Python vs NumPy scalars): every "
         "persisted field comes back equal up to the numeric tower, nothing is invented, numeric options stay numeric, "
         "insertion-ordered containers keep their order.  Facts about the source regenerated on every run and proved by "
         "computation: each class reads exactly the keys it writes, every constructor attribute is written (minus declared "
         "runtime-only ones), the three containers are created with track_order, the loader dispatches every type tag to "
         "the class that wrote it, the spring conversion accepts any real number.  Tied by typed deep comparison of "
         "saved/reloaded random receivers incl. boundary-condition evaluations, spring conversion and life on both.",
    note="Trusted: h5py attribute typing and creation-order iteration (hypotheses of the model, observed on every case); the "
         "ast translator.  Stages other than life (thermal/structural re-solves on the reloaded receiver) are represented by "
         "equality of every input field and BC evaluation.",
    technique="Coq proof (assoc-list round trip) + generated source facts by vm_compute + typed differential round-trip runs",
    design="4/C16")

CHECKS["C18"] = dict(
    text="Theorems about a Gallina model of the film-coefficient computation (polynomial properties by Horner, temperature "
         "clipping, Reynolds and Prandtl numbers, laminar/turbulent selection, floor) with the Gnielinski expression as a "
         "parameter: the clipped temperature lies in the window, is the identity inside and idempotent; the coefficient is "
         "never below the positive floor; below the cut-off the Nusselt number is the laminar value, above it the "
         "correlation of Re and Pr formed at the clipped temperature; Re is linear in velocity; if the correlation is "
         "non-decreasing in Re the coefficient is non-decreasing in velocity in the turbulent regime.  Tied to "
         "thermalfluid.py twice: a translator regenerates the window, property, Reynolds / Prandtl, selection and floor "
         "expressions and the constructor defaults from the source on every run and they are proved equal to the model's "
         "definitions; and all shipped variants and random polynomial fluids (low and high laminar cut-offs, velocities around "
         "the cut-off) are evaluated against the model and an independent evaluation.",
    note="partial: the Gnielinski value (log, real powers) is validated against an independent float evaluation; its monotonicity "
         "in Re is proved over the reals for Pr >= 1, Re >= 1000 (C18_gnielinski_monotone_in_reynolds, Coquelicot + Interval) and "
         "validated on a 400x60 grid for Pr in [0.1, 1).  JAX polynomial evaluation trusted.",
    technique="Coq proof (order lemmas over Q, real analysis for the Gnielinski monotonicity) + laws regenerated from the source + evaluation correspondence by vm_compute + dense sweeps",
    design="4/C18")

CHECKS["C20"] = dict(
    text="Every file under srlife/data is translated to Coq tables on every run and the theorems are re-proved on them: all "
         "tabulated conductivities, diffusivities, film coefficients, ceramic strengths, moduli and fatigue parameters have "
         "strictly increasing abscissae and positive values, hence positive interpolants over the tabulated range and exact "
         "values at table points; every interaction envelope has its knee inside the unit square and passes through (0,1), "
         "the knee and (1,0); for every shipped rupture correlation the exponent polynomial is positive and strictly "
         "decreasing in log-stress on 1-1000 MPa (so rupture time decreases with stress and with temperature); every fatigue "
         "exponent polynomial is strictly decreasing from its cut-off to a strain range of 5e-2 (interval arithmetic + mean "
         "value theorem); curve selection and cut-off clamp; XML dictionary round trip.  Tied by loading and sweeping every "
         "variant through the documented loaders and by XML round trips of shipped and random models.",
    note="Trusted: the data translator; Coq-Interval (uses the native integer primitives listed by Print Assumptions) and "
         "Coquelicot; monotonicity of log10 and 10**x; scipy interp1d; float(repr(x)) == x.  NEML deformation models are only "
         "loaded, not analysed.",
    technique="Coq proof on regenerated data (vm_compute, Coq-Interval, MVT) + load/sweep/round-trip runs of every variant",
    design="4/C20")

CHECKS["C05"] = dict(
    text="Theorems: the six stored components, stacked in the generated order with sqrt(2) on the generated shear slots and "
         "unpacked through the generated Mandel index table, give back the stress tensor (and without the factor they do not: "
         "the pinned code is refuted); trace, trace of the square and of the cube of a symmetric tensor are unchanged by every "
         "rotation about a coordinate axis (nsatz), hence the characteristic polynomial and the principal values; for any "
         "non-negative element volumes and clamped principal values the PIA log-reliability is <= 0, exp of it lies in (0,1], "
         "is 0 for compressive states, linear in volume, homogeneous of degree m in the stresses and antitone under scaling "
         "by s >= 1; the same four laws for all eight models at zero service time as consequences of the positive "
         "homogeneity of their equivalent stresses (proved for the MTS, Shetty, strain-energy and normal-stress forms); exp turns multiplier-weighted sums into products of powers (aggregation).  The "
         "tables are regenerated from damage.py on every run.  Tied to the code by metamorphic runs of determine_reliability "
         "for all eight models on synthetic receivers: rotated axes, range, compressive states, scaling, service time, "
         "doubled volume, zero-service-time homogeneity, uniaxial reduction, tube/panel aggregation.",
    note="partial: the orientation integrals, equivalent stresses and the time-dependent g-factor of the seven other models are "
         "covered by the metamorphic runs only; principal values are characterised through the invariants (numpy eigvalsh trusted); "
         "the uniaxial reduction of the six crack-shape-dependent models is checked up to the 121x121 quadrature error "
         "(1.5% + 0.2% per unit of modulus); all-zero time arrays with more than one point are not exercised.",
    technique="Coq proof (Q + nsatz for invariants, R/Coquelicot for the Weibull laws) + generated tables + metamorphic differential runs",
    design="4/C05")

CHECKS["C15"] = dict(
    text="Theorems about a Gallina model of the strain bookkeeping at a quadrature point, with the update expressions, the "
         "sub-increment fractions and the dump/copy tables regenerated from structural.py on every run: the code's thermal "
         "update is the trapezoidal step on the diagonal and the identity off it; total = mechanical + thermal; symmetric "
         "tensors; no thermal strain where the temperature never changed; alpha*(T-T0) for a constant and the closed form for "
         "an affine coefficient, for every history; stored results are a scan, so the first k of them depend on the first k "
         "inputs only; sub-increments change nothing when the trapezoidal rule is exact for the coefficient (and do otherwise: "
         "refuted); zero stress iff the strain equals the thermal strain (Hooke, positive moduli).  Tied to the code by "
         "evaluating the model on the stored quadrature temperatures of real PythonTubeSolver runs (1D/2D/3D) and by "
         "differential runs: altered future, truncation, trial solves, refined steps, forced sub-increments, free expansion.",
    note="partial: the finite-element solve (scikit-fem, NEML) is run, not modelled; step-subdivision independence of the whole "
         "state is proved for the thermal strain and checked on the implementation for elastic tubes with constant/affine "
         "coefficients; inelastic materials are outside this property.",
    technique="Coq proof (induction over histories, Q) + generated expressions/tables + vm_compute correspondence + differential runs",
    design="4/C15")

CHECKS["C03"] = dict(
    text="Theorems: the generated 2D/3D connectivity (regenerated from mesh2D/mesh3D on every run) lists exactly the cells of the "
         "(r, theta, z) grid in tube node order, names only existing nodes, eight distinct corners per cell, injective numbering; "
         "pressure on a closed polygonal surface has zero resultant, each facet carries p times its length along its outward "
         "normal and nothing else, nodal loads are halves of the adjacent facets, axial weights add up to the height; the facet "
         "limit generated from define_boundary separates inner-surface facets from every other boundary facet (midpoint radii "
         "by trigonometry over R) and the 1D window holds the inner node only; the closed-form generalised-plane-strain field "
         "satisfies radial equilibrium for every differentiable wall temperature profile (Coquelicot), its constants follow "
         "from the two surface conditions, d(r^2 s_rr)/dr = r (s_rr + s_tt), the axial slope is E.  Tied to the code by "
         "evaluating connectivity and the assembled unit-pressure load of real scikit-fem states against the model in Coq, and "
         "by solves: second-order convergence of element-mean stresses to the closed form (1D, 2D), 2D = 3D to solver "
         "accuracy, 1D vs 2D converging with nt, axial force closed form, stiffness*h/area = E; and by an exact certificate for "
         "the 1D abstraction: a Gallina model of the axisymmetric finite-element equations (weak form, strains, Hooke, inner-node "
         "pressure, axial force; scikit-fem's quadrature points passed as the rationals their floats are) is evaluated at the "
         "stored displacements: zero residual, stored stresses and axial force reproduced; and the same for the 2D abstraction on "
         "coarse meshes with a Gallina model of the bilinear quadrilateral (isoparametric map, 2x2 Gauss rule, Hooke, assembled "
         "nodal forces against the polygon pressure load), which is proved consistent: derivatives sum to zero and reproduce the "
         "coordinates, patch test, point forces balance.",
    note="partial: convergence of the finite-element solution to the closed form and agreement of the abstractions are "
         "checked on sampled problems (mesh-accuracy bounds calibrated: 1.0*(dr/t)^2 in 1D, 1.5*((dr/t)^2 + (pi/nt)^2 r/t) in 2D), "
         "not proved; scikit-fem assembly and NEML are trusted; odd nt is outside the property.",
    technique="Coq proof (nat/Q + nsatz-free algebra; Reals/Coquelicot for the closed form) + generated connectivity and limits + vm_compute correspondence + convergence runs",
    design="4/C03")

CHECKS["C11"] = dict(
    text="Theorems (MathComp matrices over any field, all sizes): eliminating the free dofs of the linearised system "
         "A u + B d = f leaves reactions r(d) = C u + D d - g that are affine in the imposed d with slope the Schur complement "
         "D - C A^-1 B, so e^T (D - C A^-1 B) e -- the number calculate_axial_from_fea returns, and calculate_axial_from_stress "
         "with m = 1 -- is exactly the difference quotient of the summed reaction; it is positive whenever the system's energy "
         "is; the eliminated u is the unique equilibrium.  Over Q, with the formulas regenerated from structural.py on every "
         "run: the generalised-plane-strain stiffness contracts the whole tangent row with the condensed strain (diagonal terms "
         "suffice only without shear coupling; refuted otherwise), weights and height as in the model, and force/stiffness are "
         "recomputed after every converged solve.  Tied to the code by central difference quotients of the axial force from "
         "trial solves out of the same state, against the returned stiffness: all 20 shipped deformation variants and "
         "synthetic elastic tubes, 1D/2D/3D, pressure on/off, two-step histories, three displacement levels per step; for the 1D "
         "histories (any material) the stored stresses of every step are certified in exact arithmetic to balance the pressure "
         "in the axisymmetric finite-element model and to integrate to the reported force.",
    note="partial: that the nonlinear finite-element force has the condensed tangent as its derivative (consistent NEML "
         "tangents, converged Newton state) is checked by difference quotients at 2e-3 relative accuracy, not proved.  Known "
         "finding: steps cut into sub-increments of an inelastic material report the last sub-increment's tangent.",
    technique="Coq/MathComp proof (Schur complement, positivity) + generated formulas + difference-quotient runs on the implementation",
    design="4/C11")

CHECKS["C08"] = dict(
    text="Theorems: an ordered pool map returns the sequential result for every order in which workers finish (any "
         "permutation of the indices), so any two schedules agree; writing solved sub-problems back gives each tube its own "
         "results whatever the order and grouping of the sub-problems; paged storage under an injective prefix numbering is "
         "exactly the in-memory per-tube dictionaries (refinement), a shared prefix is refuted; consecutive numbering over the "
         "whole receiver is injective.  Regenerated from the source on every run: every pool call is an ordered map/imap over "
         "tubes, edges or sub-problems with results paired in the same order; the prefix is the global tube number; "
         "copy_results takes over every result dictionary; the progress decorator is a pass-through.  Tied to the code by "
         "running the real SolutionManager pipeline (thermal, spring-system structural with scikit-fem/NEML creep-plasticity, "
         "creep-fatigue life, ceramic reliability) on small receivers under different (nthreads, paging, progress) "
         "configurations, both dispatch branches of the system solver, and comparing every stored array, life and "
         "reliabilities bit for bit.",
    note="partial: purity of the worker function (process isolation, what dill carries across) and bit-identical floating-point "
         "reduction order are exercised by the configuration runs, not modelled; the thermohydraulic (coupled) thermal solver's "
         "pool is covered by the source facts only.",
    technique="Coq proof (permutations, refinement to an abstract store) + generated dispatch facts + differential pipeline runs",
    design="4/C08")

NOT_YET = {}

def main():
    allp = [json.loads(l)["id"] for l in open(os.path.join(HERE, "properties.jsonl"))]
    checks = []
    for pid in allp:
        if pid not in CHECKS:
            continue
        c = CHECKS[pid]
        checks.append({
            "property_id": pid,
            "quick_cmd": "./check %s --tier quick" % pid,
            "thorough_cmd": "./check %s --tier thorough" % pid,
            "evidence_file": "/verif/evidence/%s.json" % pid,
            "replay_cmd_template": "./check %s --replay {path}" % pid,
            "engine": "coq-proof+correspondence",
            "level_claimed": {"category": "proof", "text": c["text"], "design_ref": c["design"]},
            "level_note": c["note"],
            "technique": c["technique"],
        })
    na = []
    for pid in allp:
        if pid not in CHECKS:
            na.append({"property_id": pid, "reason": NOT_YET.get(pid, "not yet claimed: model and proofs for this property are still being built (see DESIGN.md section 4)")})
    man = {
        "version": 1,
        "setup_cmd": "./setup.sh",
        "hooks": {
            "guard": "SRLIFE_VERIF",
            "enable": "checks export SRLIFE_VERIF=1; /repo contains no guarded hooks (all instrumentation is harness-side monkeypatching and duck-typed stubs)",
            "baseline_off_cmd": "/verif/tools/baseline.py",
            "source_commits": [],
            "add_only": True,
        },
        "engines": [{"name": "coq-proof+correspondence", "path": "/verif/check",
                     "serves_properties": [c["property_id"] for c in checks],
                     "kind_free_text": "Coq 8.16.1 theorems about Gallina models (coq/), tied to /repo by generated models (translators) and by correspondence runs evaluated inside coqc"}],
        "checks": checks,
        "not_applicable": na,
        "notes": "See DESIGN.md. Fix commits in /repo are listed in known_findings.json.",
    }
    with open(os.path.join(HERE, "MANIFEST.json"), "w") as f:
        json.dump(man, f, indent=1)
    print("MANIFEST.json: %d checks, %d not claimed" % (len(checks), len(na)))

if __name__ == "__main__":
    main()
