#!/bin/sh
# usage: tools/try_mut_wt.sh <patch.diff> <Cxx> [Cxx...]
#   like try_mut.sh, but the patch is applied to a scratch worktree of /repo's HEAD and the checks read
#   that tree through SRLIFE_REPO; /repo's own working tree is never touched (safe while `vp run` jobs use it)
#   VROOT=<copy of /verif> runs the checks from that copy (so that /verif itself can be edited meanwhile)
P="$1"; shift
V="${VROOT:-/verif}"
WT=/tmp/wt/try_$$
mkdir -p /tmp/wt
git -C /repo worktree add -q --detach "$WT" HEAD || exit 2
mkdir -p $V/out/evidence_keep && cp -f $V/evidence/*.json $V/out/evidence_keep/ 2>/dev/null
trap 'git -C /repo worktree remove --force "$WT" 2>/dev/null; cp -f $V/out/evidence_keep/*.json $V/evidence/ 2>/dev/null' EXIT INT TERM
(cd "$WT" && git apply "$P") || { echo "patch does not apply"; exit 2; }
cd $V
for c in "$@"; do
  SRLIFE_REPO="$WT" ./check "$c" --tier ${TIER:-quick} 2>&1 | grep -E "^(VIOLATION|KNOWN|C[0-9]+ tier|# |HARNESS)" | cut -c1-400
done
