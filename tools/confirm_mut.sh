#!/bin/sh
# usage: tools/confirm_mut.sh <mutdir> : confirm a seeded change in a scratch worktree
#   (applies, pinned tests still pass, demo fails with / passes without) and copy it to /verif/seeded/<name>/
D="$1"; NAME="$(basename "$D")"
WT=/tmp/wt/confirm_$NAME
git -C /repo worktree add -q --detach "$WT" HEAD || exit 2
TMPDIR=/tmp/wt/tmp_$NAME; export TMPDIR; mkdir -p "$TMPDIR"     # the suite and the demos leave large temporary files behind
cleanup() { git -C /repo worktree remove --force "$WT" 2>/dev/null; rm -rf "$TMPDIR"; }
trap cleanup EXIT INT TERM
cd "$WT"
git apply "$D/patch.diff" || { echo "$NAME: patch does not apply"; exit 1; }
timeout 900 env PYTHONPATH="$WT" /venv/bin/python "$D/demo.py" "$WT" > /tmp/wt/demo_$NAME.with 2>&1; RC_WITH=$?
PASS=$(env -u SRLIFE_VERIF PYTHONPATH="$WT" /venv/bin/python -m pytest -q -p no:cacheprovider --timeout=900 --continue-on-collection-errors --junitxml=/tmp/wt/junit_$NAME.xml > /dev/null 2>&1; /venv/bin/python - <<PY
import json, xml.etree.ElementTree as ET
base=set(json.load(open("/root/.vp/BASELINE.json"))["stable_pass"])
ok=set()
for tc in ET.parse("/tmp/wt/junit_$NAME.xml").getroot().iter("testcase"):
    if not any(ch.tag in ("failure","error","skipped") for ch in tc): ok.add("%s::%s"%(tc.get("classname"),tc.get("name")))
print("%d/%d"%(len(base&ok),len(base)))
PY
)
git checkout -q -- . ; git clean -qfd
timeout 900 env PYTHONPATH="$WT" /venv/bin/python "$D/demo.py" "$WT" > /tmp/wt/demo_$NAME.without 2>&1; RC_WITHOUT=$?
echo "$NAME: demo_with_patch_rc=$RC_WITH demo_without_rc=$RC_WITHOUT baseline_with_patch=$PASS"
if [ "$RC_WITH" != "0" ] && [ "$RC_WITHOUT" = "0" ] && [ "$PASS" = "76/76" ]; then
  mkdir -p /verif/seeded/$NAME
  cp "$D/patch.diff" "$D/demo.py" /verif/seeded/$NAME/
  /venv/bin/python - <<PY
import json
m=json.load(open("$D/meta.json"))
m["confirmed"]={"demo_with_patch_rc":$RC_WITH,"demo_without_patch_rc":$RC_WITHOUT,"baseline_with_patch":"$PASS",
  "how":"tools/confirm_mut.sh in a scratch worktree of /repo HEAD (removed afterwards)"}
json.dump(m,open("/verif/seeded/$NAME/meta.json","w"),indent=1)
PY
  echo "$NAME: kept"
else
  echo "$NAME: NOT kept"
fi
rm -f /tmp/wt/junit_$NAME.xml
