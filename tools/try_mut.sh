#!/bin/sh
# usage: tools/try_mut.sh <patch.diff> <Cxx> [Cxx...]   (applies the patch to /repo, runs the quick checks, reverts)
P="$1"; shift
cd /repo || exit 2
if [ -n "$(git status --porcelain --untracked-files=no)" ]; then echo "/repo not clean"; exit 2; fi
git apply "$P" || { echo "patch does not apply"; exit 2; }
mkdir -p /verif/out/evidence_keep && cp -f /verif/evidence/*.json /verif/out/evidence_keep/ 2>/dev/null
trap 'git -C /repo checkout -- . ; cp -f /verif/out/evidence_keep/*.json /verif/evidence/ 2>/dev/null' EXIT INT TERM
cd /verif
for c in "$@"; do
  ./check "$c" --tier ${TIER:-quick} 2>&1 | grep -E "^(VIOLATION|KNOWN|C[0-9]+ tier|# |HARNESS)" | cut -c1-400
  echo "rc($c)=$?"
done
