#!/bin/sh
# usage: tools/run_all.sh [tier] : run every claimed check once (seed from VERIF_SEED), print one line each
cd "$(dirname "$0")/.." || exit 2
[ -f coq/Makefile.coq ] || ./setup.sh > /dev/null 2>&1
for c in $(python3 -c "import json; print(' '.join(x['property_id'] for x in json.load(open('MANIFEST.json'))['checks']))"); do
  ./check $c --tier ${1:-quick} 2>&1 | grep -E "^(VIOLATION|HARNESS|C[0-9]+ tier)" | cut -c1-300
done
