#!/venv/bin/python
"""Run /repo's pinned test suite with the verification guard OFF and compare
with the stable-pass list of /root/.vp/BASELINE.json.  Exit 0 iff every test of
that list passes."""
import json, os, shutil, subprocess, sys, tempfile
import xml.etree.ElementTree as ET

base = json.load(open("/root/.vp/BASELINE.json"))
env = dict(os.environ)
env.pop("SRLIFE_VERIF", None)
env.pop("PYTHONPATH", None)
fd, junit = tempfile.mkstemp(suffix=".xml", dir=os.path.join(os.path.dirname(os.path.abspath(__file__)), ".."))
os.close(fd)
# the suite leaves hundreds of megabytes of temporary files behind: give it its own directory and remove it afterwards
tmpd = tempfile.mkdtemp(prefix="baseline_tmp_", dir=os.path.join(os.path.dirname(os.path.abspath(__file__)), "..", "out"))
env["TMPDIR"] = tmpd
def untracked():
    out = subprocess.run(["git", "-C", "/repo", "status", "--porcelain", "--untracked-files=all"],
                         capture_output=True, text=True).stdout
    return {l[3:] for l in out.splitlines() if l.startswith("??")}


before = untracked()
try:
    subprocess.run(["/venv/bin/python", "-m", "pytest", "-ra", "-q", "-p", "no:cacheprovider", "--timeout=900",
                    "--continue-on-collection-errors", "--junitxml=" + junit], cwd="/repo", env=env,
                   stdout=subprocess.DEVNULL, stderr=subprocess.DEVNULL)
    passed = set()
    for tc in ET.parse(junit).getroot().iter("testcase"):
        if not any(ch.tag in ("failure", "error", "skipped") for ch in tc):
            passed.add("%s::%s" % (tc.get("classname"), tc.get("name")))
finally:
    os.remove(junit)
    shutil.rmtree(tmpd, ignore_errors=True)
    for f in untracked() - before:   # files the tests drop into their cwd
        try:
            os.remove(os.path.join("/repo", f))
        except OSError:
            pass
want = set(base["stable_pass"])
missing = sorted(want - passed)
print("baseline: %d/%d stable tests pass (%d passed in total)" % (len(want) - len(missing), len(want), len(passed)))
for m in missing:
    print("MISSING", m)
sys.exit(1 if missing else 0)
