#!/bin/sh
# usage: tools/cross_muts.sh "<id> <Cxx> [<Cxx>...]" ...   run neighbouring checks on seeded changes (from a scratch copy of /verif)
cd "$(dirname "$0")/.." || exit 2
VROOT=/tmp/vcopy; export VROOT
mkdir -p $VROOT && rsync -a --delete --exclude .git --exclude out --exclude seeded ./ $VROOT/ && mkdir -p $VROOT/out
for spec in "$@"; do
  set -- $spec
  id=$1; shift
  for c in "$@"; do
    r=$(tools/try_mut_wt.sh $PWD/seeded/$id/patch.diff $c 2>&1)
    if echo "$r" | grep -q "^VIOLATION"; then v=caught; elif echo "$r" | grep -q "^HARNESS"; then v=HARNESS; else v=MISSED; fi
    echo "$id $c $v | $(echo "$r" | grep -E '^(#|HARNESS)' | head -1 | cut -c1-200)" >> out/cross_muts.txt
  done
done
