#!/bin/sh
# usage: tools/process_muts.sh <id> [<id> ...]   e.g. C01_e C01_f
#   confirm each new seeded change from /tmp/mut/<id> (scratch worktree), store it under seeded/, then run the
#   property's quick check against a scratch worktree carrying the change; one line per change in out/process_muts.txt
cd "$(dirname "$0")/.." || exit 2
# the checks run from a scratch copy of /verif, so that /verif can be edited while they run
VROOT=/tmp/vcopy; export VROOT
mkdir -p $VROOT && rsync -a --delete --exclude .git --exclude out --exclude seeded ./ $VROOT/ && mkdir -p $VROOT/out
for id in "$@"; do
  p=$(echo $id | cut -c1-3)
  c=$(tools/confirm_mut.sh /tmp/mut/$id 2>&1 | tail -1)
  if [ -d seeded/$id ]; then
    r=$(tools/try_mut_wt.sh $PWD/seeded/$id/patch.diff $p 2>&1)
    if echo "$r" | grep -q "^VIOLATION"; then v=caught; elif echo "$r" | grep -q "^HARNESS"; then v=HARNESS; else v=MISSED; fi
    echo "$id $p $v | $(echo "$r" | grep -E '^#' | head -1 | cut -c1-160)" >> out/process_muts.txt
  else
    echo "$id $p NOT-CONFIRMED | $c" >> out/process_muts.txt
  fi
done
