#!/bin/sh
# usage: tools/seed_sweep.sh <tier> <seed> [<seed> ...] : every claimed check under each seed, from a scratch copy of /verif
# (one copy per invocation, so that several sweeps and work in /verif can run side by side); results in out/seed_sweep.txt
cd "$(dirname "$0")/.." || exit 2
tier=$1; shift
V=/tmp/vsweep_$$
mkdir -p $V && rsync -a --exclude .git --exclude out --exclude seeded ./ $V/ && mkdir -p $V/out
for s in "$@"; do
  for c in $(python3 -c "import json; print(' '.join(x['property_id'] for x in json.load(open('MANIFEST.json'))['checks']))"); do
    r=$(cd $V && VERIF_SEED=$s ./check $c --tier $tier 2>&1 | grep -E "^(VIOLATION|HARNESS|# |C[0-9]+ tier)" | cut -c1-300 | tr '\n' ' ')
    echo "seed=$s $r" >> out/seed_sweep.txt
  done
done
rm -rf $V
