(* E-model of the bookkeeping of the coupled thermohydraulic solver
   (srlife.thermal.ThermohydraulicsThermalSolver): validation that every panel
   is in exactly one flow path, pairing of flow-path results with panels and
   tubes on write-back, and the cycle-reset trigger.  Panel names are natural
   numbers here. *)
From Coq Require Import QArith Qround List Bool ZArith.
Import ListNotations.

Fixpoint memb (x : nat) (l : list nat) : bool :=
  match l with [] => false | y :: r => Nat.eqb x y || memb x r end.

Fixpoint nodupb (l : list nat) : bool :=
  match l with [] => true | x :: r => negb (memb x r) && nodupb r end.

Definition subsetb (a b : list nat) : bool := forallb (fun x => memb x b) a.

(* _setup: the list of panels over all paths has no duplicate and equals, as a
   set, the receiver's panel names *)
Inductive setup_result := Accept | DupPanel | MissingPanel.

Definition setup (names : list nat) (paths : list (list nat)) : setup_result :=
  let all := concat paths in
  if negb (nodupb all) then DupPanel
  else if subsetb all names && subsetb names all then Accept else MissingPanel.

(* write-back: the j-th panel declared in a path receives the j-th block of
   results, its k-th tube the k-th row *)
Definition writeback {A} (declared : list nat) (blocks : list (list A)) : list (nat * list A) :=
  combine declared blocks.

(* cycle-reset trigger on exact times: t is a whole multiple of the period *)
Definition cycle_end (t period : Q) : bool :=
  let q := (t / period)%Q in Qeq_bool (inject_Z (Qfloor q)) q.
