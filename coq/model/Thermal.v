(* E-model of one backward-Euler (or steady) step of
   srlife.thermal.FiniteDifferenceImplicitThermalProblem: the equations that the
   assembled system M T = R encodes, written per grid node in index form.

   Indices are GHOSTED: real nodes are 1..nr, 1..nt, 1..nz; 0 and n+1 are
   ghosts.  In 1D has_t = has_z = false (and j = k = 0 throughout), in 2D
   has_z = false (k = 0).  Coefficient tables cc (diffusivity, or conductivity
   in steady mode) and kk (conductivity) are given on the ghosted grid, as the
   code evaluates the material on the ghosted previous field.              *)
From Coq Require Import QArith Qabs List Bool ZArith.
Import ListNotations.
Open Scope Q_scope.

Definition field := nat -> nat -> nat -> Q.
Definition wdata := nat -> nat -> Q.           (* wall data at (j, k) *)

Inductive wall :=
| Ins
| Fixed (g : wdata)
| Flux (q : wdata)
| Conv (h tf : wdata).

Record cfg := mkCfg {
  nr : nat; nt : nat; nz : nat;
  has_t : bool; has_z : bool;
  dr : Q; dth : Q; dz : Q; dt : Q;
  ri : Q;                                  (* radius of real node i = 1 *)
  steady : bool;
  cc : field; kk : field;
  inner : wall; outer : wall
}.

Definition rad (c : cfg) (i : nat) : Q := ri c + (inject_Z (Z.of_nat i) - 1) * dr c.
Definition rh (c : cfg) (i : nat) : Q := (rad c i + rad c (S i)) / 2.       (* half node i+1/2 *)
Definition ch_r (c : cfg) (i j k : nat) : Q := (cc c i j k + cc c (S i) j k) / 2.
Definition ch_t (c : cfg) (i j k : nat) : Q := (cc c i j k + cc c i (S j) k) / 2.
Definition ch_z (c : cfg) (i j k : nat) : Q := (cc c i j k + cc c i j (S k)) / 2.

(* conductances of the three-point stencils (as they multiply differences) *)
Definition g_r (c : cfg) (i j k : nat) : Q := rh c i * ch_r c i j k / (dr c * dr c).          (* between i and i+1, before / r_i *)
Definition g_t (c : cfg) (i j k : nat) : Q := ch_t c i j k / (dth c * dth c).                 (* between j and j+1, before / r_i^2 *)
Definition g_z (c : cfg) (i j k : nat) : Q := ch_z c i j k / (dz c * dz c).                   (* between k and k+1 *)

Definition L_r (c : cfg) (T : field) (i j k : nat) : Q :=
  (g_r c i j k * (T (S i) j k - T i j k) - g_r c (pred i) j k * (T i j k - T (pred i) j k)) / rad c i.
Definition L_t (c : cfg) (T : field) (i j k : nat) : Q :=
  if has_t c then
    (g_t c i j k * (T i (S j) k - T i j k) - g_t c i (pred j) k * (T i j k - T i (pred j) k)) / (rad c i * rad c i)
  else 0.
Definition L_z (c : cfg) (T : field) (i j k : nat) : Q :=
  if has_z c then
    g_z c i j k * (T i j (S k) - T i j k) - g_z c i j (pred k) * (T i j k - T i j (pred k))
  else 0.

Definition Lap (c : cfg) (T : field) (i j k : nat) : Q := L_r c T i j k + L_t c T i j k + L_z c T i j k.

(* residual of the row of a real node: transient  T - dt*A T = T0 ; steady  -A T = 0 *)
Definition res_node (c : cfg) (T0 T : field) (i j k : nat) : Q :=
  if steady c then - Lap c T i j k
  else (T i j k - T0 i j k) - dt c * Lap c T i j k.

(* residuals of the ghost rows *)
Definition res_inner (c : cfg) (T : field) (j k : nat) : Q :=
  match inner c with
  | Ins => T 1%nat j k - T 0%nat j k
  | Fixed g => T 1%nat j k - g j k
  | Flux q => (T 1%nat j k - T 0%nat j k) + dr c * q j k / kk c 1%nat j k
  | Conv h tf => (T 1%nat j k - T 0%nat j k) - dr c * h j k * (T 1%nat j k - tf j k) / kk c 1%nat j k
  end.

Definition res_outer (c : cfg) (T : field) (j k : nat) : Q :=
  let n := nr c in
  match outer c with
  | Ins => T n j k - T (S n) j k
  | Fixed g => T n j k - g j k
  | Flux q => (T n j k - T (S n) j k) + dr c * q j k / kk c n j k
  | Conv h tf => (T n j k - T (S n) j k) - dr c * h j k * (T n j k - tf j k) / kk c n j k
  end.

(* index ranges *)
Definition jrange (c : cfg) : list nat := if has_t c then seq 1 (nt c) else [0%nat].
Definition krange (c : cfg) : list nat := if has_z c then seq 1 (nz c) else [0%nat].
Definition irange (c : cfg) : list nat := seq 1 (nr c).

(* ---- the equations, as a proposition ----------------------------------- *)
Definition Eqs (c : cfg) (T0 T : field) : Prop :=
  (forall i j k, In i (irange c) -> In j (jrange c) -> In k (krange c) -> res_node c T0 T i j k == 0) /\
  (forall j k, In j (jrange c) -> In k (krange c) -> res_inner c T j k == 0 /\ res_outer c T j k == 0) /\
  (has_t c = true -> forall i k, In i (irange c) -> In k (krange c) ->
       T i 0%nat k == T i (nt c) k /\ T i (S (nt c)) k == T i 1%nat k) /\
  (has_z c = true -> forall i j, In i (irange c) -> In j (jrange c) ->
       T i j 0%nat == T i j 1%nat /\ T i j (S (nz c)) == T i j (nz c)).

(* ---- executable certificate check --------------------------------------- *)
Definition fld (l : list (list (list Q))) : field :=
  fun i j k => nth k (nth j (nth i l []) []) 0.
Definition wdt (l : list (list Q)) : wdata := fun j k => nth k (nth j l []) 0.

Definition small (tol : Q) (res mag : Q) : bool := Qle_bool (Qabs res) (tol * mag).

(* magnitude used to scale the tolerance of a row: the largest |T| in the
   stencil times (1 + dt * sum of |coefficients|) *)
Definition mag_node (c : cfg) (T0 T : field) (i j k : nat) : Q :=
  let a := Qabs (T i j k) + Qabs (T0 i j k) + Qabs (T (S i) j k) + Qabs (T (pred i) j k)
           + Qabs (T i (S j) k) + Qabs (T i (pred j) k) + Qabs (T i j (S k)) + Qabs (T i j (pred k)) in
  let s := (Qabs (g_r c i j k) + Qabs (g_r c (pred i) j k)) / Qabs (rad c i)
           + (if has_t c then (Qabs (g_t c i j k) + Qabs (g_t c i (pred j) k)) / (rad c i * rad c i) else 0)
           + (if has_z c then Qabs (g_z c i j k) + Qabs (g_z c i j (pred k)) else 0) in
  a * (1 + (if steady c then 1 else dt c) * s) + 1.

Definition mag_wall (c : cfg) (T : field) (w : wall) (i0 i1 : nat) (j k : nat) : Q :=
  let a := Qabs (T i0 j k) + Qabs (T i1 j k) in
  match w with
  | Ins => a + 1
  | Fixed g => a + Qabs (g j k) + 1
  | Flux q => a + Qabs (dr c * q j k / kk c i1 j k) + 1
  | Conv h tf => a + Qabs (dr c * h j k / kk c i1 j k) * (Qabs (T i1 j k) + Qabs (tf j k)) + 1
  end.

Definition check_step (tol : Q) (c : cfg) (T0 T : field) : bool :=
  forallb (fun i => forallb (fun j => forallb (fun k =>
     small tol (res_node c T0 T i j k) (mag_node c T0 T i j k)) (krange c)) (jrange c)) (irange c)
  && forallb (fun j => forallb (fun k =>
        small tol (res_inner c T j k) (mag_wall c T (inner c) 0%nat 1%nat j k)
        && small tol (res_outer c T j k) (mag_wall c T (outer c) (S (nr c)) (nr c) j k)) (krange c)) (jrange c)
  && (if has_t c then
        forallb (fun i => forallb (fun k =>
          small tol (T i 0%nat k - T i (nt c) k) (Qabs (T i 0%nat k) + 1)
          && small tol (T i (S (nt c)) k - T i 1%nat k) (Qabs (T i 1%nat k) + 1)) (krange c)) (irange c)
      else true)
  && (if has_z c then
        forallb (fun i => forallb (fun j =>
          small tol (T i j 0%nat - T i j 1%nat) (Qabs (T i j 1%nat) + 1)
          && small tol (T i j (S (nz c)) - T i j (nz c)) (Qabs (T i j (nz c)) + 1)) (jrange c)) (irange c)
      else true).

(* flattened degree-of-freedom numbering of the code (ghosted counts) *)
Definition dof (NT NZ : nat) (i j k : nat) : nat := (i * NT * NZ + j * NZ + k)%nat.
