(* E-model of the look-up logic of srlife.materials that is not arithmetic on
   real functions: selection of the fatigue curve by temperature and the
   cut-off clamp of the strain range (StructuralMaterial.cycles_to_fail), and
   the XML tree (de)serialisation (save_node / load_node). *)
From Coq Require Import QArith List Bool String.
Import ListNotations.

(* curves sorted by temperature: (T, cutoff).  Returns the index of the curve
   used and the strain range actually evaluated, or None above the hottest curve *)
Fixpoint select_curve (curves : list (Q * Q)) (temp erange : Q) (i : nat) : option (nat * Q) :=
  match curves with
  | [] => None
  | (T, cut) :: r =>
    if Qle_bool temp T then Some (i, if Qle_bool erange cut then cut else erange)
    else select_curve r temp erange (S i)
  end.

(* insertion sort by temperature, as numpy argsort orders the curves *)
Fixpoint insert_curve (c : Q * Q) (l : list (Q * Q)) : list (Q * Q) :=
  match l with
  | [] => [c]
  | d :: r => if Qle_bool (fst c) (fst d) then c :: l else d :: insert_curve c r
  end.
Definition sort_curves (l : list (Q * Q)) : list (Q * Q) := fold_right insert_curve [] l.

Definition cycles_selection (curves : list (Q * Q)) (temp erange : Q) : option (nat * Q) :=
  select_curve (sort_curves curves) temp erange 0.

(* ---- XML trees --------------------------------------------------------------------- *)
Inductive tree := Leaf (text : string) | Node (children : list (string * tree)).

(* save_node writes children in dictionary order; load_node collects them with
   ChainMap: on duplicate tags the FIRST child wins *)
Fixpoint lookup (k : string) (l : list (string * tree)) : option tree :=
  match l with
  | [] => None
  | (k', v) :: r => if String.eqb k k' then Some v else lookup k r
  end.

Fixpoint load_tree (t : tree) : tree :=
  match t with
  | Leaf s => Leaf s
  | Node ch => Node (rev (map (fun kv => (fst kv, load_tree (snd kv))) ch))
  end.
