(* E-model of structural.PythonTubeSolver.solve: the adaptive sub-increment
   loop.  Mirrors the code's branch structure; fractions of the step are
   carried in *doubled* units (T = 2 * 2^max_divide) so that the single
   halving that can happen in forced mode stays integral.

   Two variants:
     fixed = true  : a failed attempt is retried from the last accepted
                     state (there is a `continue` after the except block)
     fixed = false : the literal pinned code: after the except block the
                     loop falls through to `state_last = state_next;
                     cprog += inc` with the already halved increment.        *)
From Coq Require Import ZArith List Bool.
Import ListNotations.
Open Scope Z_scope.

Record attempt := mkAttempt {
  a_idx : nat;          (* attempt number, 0-based; its state_next has id S a_idx *)
  a_from_state : nat;   (* id of the state handed in as state_n (0 = step start) *)
  a_from : Z;           (* t_last as a fraction numerator, doubled units *)
  a_to : Z;             (* target fraction numerator, doubled units *)
  a_ok : bool           (* did the per-increment solve converge *)
}.

Inductive outcome := Return (final : nat) | Raise | OutOfFuel.

Record st := mkSt {
  cprog : Z; inc : Z; mdiv : Z; last : nat; tlast : Z
}.

Definition total (n : Z) : Z := 2 * 2 ^ n.

Fixpoint loop (fixed : bool) (n : Z) (fails : nat -> bool)
         (fuel : nat) (k : nat) (s : st) : outcome * list attempt :=
  match fuel with
  | O => (OutOfFuel, [])
  | S fuel' =>
    if cprog s <? total n then
      let target := cprog s + inc s in
      let a := mkAttempt k (last s) (tlast s) target (negb (fails k)) in
      if fails k then
        let inc' := inc s / 2 in
        let mdiv' := mdiv s + 1 in
        if mdiv' >=? n then (Raise, [a])
        else
          let s' := if fixed
                    then mkSt (cprog s) inc' mdiv' (last s) (tlast s)
                    else mkSt (cprog s + inc') inc' mdiv' (S k) target in
          let '(o, tr) := loop fixed n fails fuel' (S k) s' in (o, a :: tr)
      else
        let s' := mkSt (cprog s + inc s) (inc s) (mdiv s) (S k) target in
        let '(o, tr) := loop fixed n fails fuel' (S k) s' in (o, a :: tr)
    else
      ((if mdiv s >=? n then Raise else Return k), [])
  end.

Definition init (n : Z) (forced : bool) : st :=
  if forced then mkSt 0 2 (n - 1) 0%nat 0
  else mkSt 0 (total n) 0 0%nat 0.

Definition fuel_for (n : Z) : nat := Z.to_nat (total n + n + 2).

Definition run (fixed : bool) (n : Z) (forced : bool) (fails : nat -> bool)
  : outcome * list attempt :=
  loop fixed n fails (fuel_for n) 0%nat (init n forced).

(* failure oracle given as the list of failing attempt indices *)
Definition fails_of (l : list nat) (k : nat) : bool :=
  existsb (Nat.eqb k) l.

(* ---- executable comparison with a recorded implementation trace -------- *)
Definition attempt_eqb (a b : attempt) : bool :=
  Nat.eqb (a_idx a) (a_idx b) && Nat.eqb (a_from_state a) (a_from_state b)
  && (a_from a =? a_from b) && (a_to a =? a_to b) && Bool.eqb (a_ok a) (a_ok b).

Fixpoint trace_eqb (x y : list attempt) : bool :=
  match x, y with
  | [], [] => true
  | a :: x', b :: y' => attempt_eqb a b && trace_eqb x' y'
  | _, _ => false
  end.

Definition outcome_eqb (x y : outcome) : bool :=
  match x, y with
  | Return a, Return b => Nat.eqb a b
  | Raise, Raise => true
  | _, _ => false
  end.

Definition agrees (fixed : bool) (n : Z) (forced : bool) (failing : list nat)
           (o : outcome) (tr : list attempt) : bool :=
  let '(o', tr') := run fixed n forced (fails_of failing) in
  outcome_eqb o o' && trace_eqb tr tr'.

(* ---- the property, as a predicate on a trace ---------------------------
   Chain T st pos tr f : starting from accepted state [st] at fraction [pos],
   the attempts [tr] (a) all start from the currently accepted state and
   position, (b) advance only when they converged, by a strictly positive
   amount not beyond T, and (c) end exactly at T with [f] the state produced
   by the last converged attempt.                                           *)
Inductive Chain (T : Z) : nat -> Z -> list attempt -> nat -> Prop :=
| ch_done : forall st, Chain T st T [] st
| ch_ok : forall st pos a tr f,
    a_ok a = true -> a_from_state a = st -> a_from a = pos ->
    pos < a_to a -> a_to a <= T ->
    Chain T (S (a_idx a)) (a_to a) tr f ->
    Chain T st pos (a :: tr) f
| ch_fail : forall st pos a tr f,
    a_ok a = false -> a_from_state a = st -> a_from a = pos ->
    pos < a_to a -> a_to a <= T ->
    Chain T st pos tr f ->
    Chain T st pos (a :: tr) f.

(* executable version of the same predicate, used by the oracle on recorded
   implementation traces *)
Fixpoint chainb (T : Z) (st : nat) (pos : Z) (tr : list attempt) (f : nat) : bool :=
  match tr with
  | [] => (pos =? T) && Nat.eqb st f
  | a :: tr' =>
    Nat.eqb (a_from_state a) st && (a_from a =? pos) && (pos <? a_to a) && (a_to a <=? T)
    && (if a_ok a then chainb T (S (a_idx a)) (a_to a) tr' f else chainb T st pos tr' f)
  end.

Definition count_failed (tr : list attempt) : nat :=
  length (filter (fun a => negb (a_ok a)) tr).
