(* E-model of the iteration loops of srlife's solvers.  Each loop is a
   function of its parameters and of an oracle stream of the residual norms it
   observes (k-th call of la.norm / k-th Picard difference), with IEEE
   comparison semantics: every comparison with NaN is false. *)
From Coq Require Import QArith List Bool ZArith.
Import ListNotations.
Open Scope Q_scope.

Inductive ext := Fin (q : Q) | PInf | NaN.

(* a < b on non-negative extended values *)
Definition lt (a b : ext) : bool :=
  match a, b with
  | Fin x, Fin y => negb (Qle_bool y x)
  | Fin _, PInf => true
  | _, _ => false
  end.

Definition is_nan (a : ext) : bool := match a with NaN => true | _ => false end.

(* a / b for non-negative a, b *)
Definition ediv (a b : ext) : ext :=
  match a, b with
  | NaN, _ | _, NaN => NaN
  | PInf, PInf => NaN
  | PInf, Fin _ => PInf
  | Fin _, PInf => Fin 0
  | Fin x, Fin y =>
      if Qeq_bool y 0 then (if Qeq_bool x 0 then NaN else PInf) else Fin (x / y)
  end.

Inductive outcome := Ret (calls : nat) (value : ext) | Raise (calls : nat).
(* calls = number of norm evaluations consumed; value = the norm attached to
   the iterate that is returned *)

Definition conv (atol rtol : ext) (nr nr0 : ext) : bool := lt nr atol || lt (ediv nr nr0) rtol.

(* backtracking line search shared by solvers.newton and the FEM Newton loop:
   consumes up to max_search observations starting at index p; stops at the
   first one below nR_last; returns (next index, last observed norm) *)
Fixpoint linesearch (obs : nat -> ext) (nlast : ext) (p : nat) (n : nat) (cur : ext) : nat * ext :=
  match n with
  | O => (p, cur)
  | S n' => let v := obs p in if lt v nlast then (S p, v) else linesearch obs nlast (S p) n' v
  end.

(* ---- solvers.newton --------------------------------------------------------- *)
(* obs 0 is the initial norm.  check-then-update; for/else raises when the
   range is exhausted (also when the last update converged) *)
Fixpoint newton_loop (atol rtol : ext) (ls : bool) (msearch : nat) (obs : nat -> ext) (nr0 : ext)
         (iters : nat) (p : nat) (nr : ext) : outcome :=
  match iters with
  | O => Raise p
  | S it =>
    if conv atol rtol nr nr0 then Ret p nr
    else if ls
         then let '(p', v) := linesearch obs nr p msearch nr in
              newton_loop atol rtol ls msearch obs nr0 it p' v
         else newton_loop atol rtol ls msearch obs nr0 it (S p) (obs p)
  end.

Definition newton (atol rtol : ext) (miters : nat) (ls : bool) (msearch : nat) (obs : nat -> ext) : outcome :=
  newton_loop atol rtol ls msearch obs (obs 0%nat) miters 1%nat (obs 0%nat).

(* where the iterate ends up when every Newton direction is the unit step (the scripted runs return
   dx = 1): a line search that succeeds at its t-th trial, or runs out after t = max_search trials,
   leaves x_last - 1/2^(t-1); without a search every update subtracts the full step *)
Fixpoint ls_trials (obs : nat -> ext) (nlast : ext) (p : nat) (n : nat) : nat :=
  match n with
  | O => O
  | S n' => if lt (obs p) nlast then 1%nat else S (ls_trials obs nlast (S p) n')
  end.

Definition ls_step (t : nat) : Q := match t with O => 0 | S k => 1 / inject_Z (2 ^ Z.of_nat k) end.

Fixpoint newton_pos (atol rtol : ext) (ls : bool) (msearch : nat) (obs : nat -> ext) (nr0 : ext)
         (iters : nat) (p : nat) (nr : ext) (x : Q) : Q :=
  match iters with
  | O => x
  | S it =>
    if conv atol rtol nr nr0 then x
    else if ls
         then let '(p', v) := linesearch obs nr p msearch nr in
              newton_pos atol rtol ls msearch obs nr0 it p' v (x - ls_step (ls_trials obs nr p msearch))
         else newton_pos atol rtol ls msearch obs nr0 it (S p) (obs p) (x - 1)
  end.

Definition newton_x (atol rtol : ext) (miters : nat) (ls : bool) (msearch : nat) (obs : nat -> ext) (x0 : Q) : Q :=
  newton_pos atol rtol ls msearch obs (obs 0%nat) miters 1%nat (obs 0%nat) x0.

(* ---- thermal.solve_step ------------------------------------------------------ *)
(* one norm per pass; convergence is only accepted from the second pass on *)
Fixpoint thermal_loop (atol rtol : ext) (obs : nat -> ext) (iters : nat) (i : nat) : outcome :=
  match iters with
  | O => Raise i
  | S it =>
    let nr := obs i in
    if conv atol rtol nr (obs 0%nat) && negb (Nat.eqb i 0) then Ret (S i) nr
    else thermal_loop atol rtol obs it (S i)
  end.

Definition thermal_step (atol rtol : ext) (miter : nat) (obs : nat -> ext) : outcome :=
  thermal_loop atol rtol obs miter 0%nat.

(* ---- flowpath.FlowPath.solve -------------------------------------------------- *)
(* update-then-check with an explicit NaN test *)
Fixpoint flow_loop (atol rtol : ext) (obs : nat -> ext) (iters : nat) (p : nat) : outcome :=
  match iters with
  | O => Raise p
  | S it =>
    let nr := obs p in
    if is_nan nr then Raise (S p)
    else if conv atol rtol nr (obs 0%nat) then Ret (S p) nr
    else flow_loop atol rtol obs it (S p)
  end.

Definition flowpath_solve (atol rtol : ext) (miter : nat) (obs : nat -> ext) : outcome :=
  flow_loop atol rtol obs miter 1%nat.

(* ---- structural.PythonSolver.solve (FEM Newton) -------------------------------- *)
Fixpoint fem_loop (atol rtol : ext) (msearch : nat) (obs : nat -> ext) (nr0 : ext)
         (iters : nat) (p : nat) (nr : ext) : outcome :=
  match iters with
  | O => Raise p
  | S it =>
    if lt nr0 atol then Ret p nr
    else let '(p', v) := linesearch obs nr p msearch nr in
         if conv atol rtol v nr0 then Ret p' v
         else fem_loop atol rtol msearch obs nr0 it p' v
  end.

Definition fem_newton (atol rtol : ext) (miter msearch : nat) (obs : nat -> ext) : outcome :=
  fem_loop atol rtol msearch obs (obs 0%nat) miter 1%nat (obs 0%nat).

(* ---- Picard iteration of the coupled thermohydraulic solver --------------------- *)
Record pobs := mkP { fluid_abs : ext; temp_abs : ext; fluid_rel : ext; temp_rel : ext }.

Definition picard_conv (atol rtol : ext) (o : pobs) : bool :=
  (lt (fluid_abs o) atol && lt (temp_abs o) atol) || (lt (fluid_rel o) rtol && lt (temp_rel o) rtol).

Inductive poutcome := PRet (iter : nat) | PRaise.

Fixpoint picard_loop (atol rtol : ext) (obs : nat -> pobs) (iters : nat) (j : nat) : poutcome :=
  match iters with
  | O => PRaise
  | S it => if picard_conv atol rtol (obs j) then PRet j else picard_loop atol rtol obs it (S j)
  end.

Definition picard (atol rtol : ext) (miter : nat) (obs : nat -> pobs) : poutcome :=
  picard_loop atol rtol obs miter 0%nat.

(* ---- comparison helpers for the correspondence ----------------------------------- *)
Definition obs_of (l : list ext) (k : nat) : ext := nth k l NaN.

Definition ext_eqb (a b : ext) : bool :=
  match a, b with
  | Fin x, Fin y => Qeq_bool x y
  | PInf, PInf => true
  | NaN, NaN => true
  | _, _ => false
  end.

Definition outcome_eqb (a b : outcome) : bool :=
  match a, b with
  | Ret c v, Ret c' v' => Nat.eqb c c' && ext_eqb v v'
  | Raise c, Raise c' => Nat.eqb c c'
  | _, _ => false
  end.

Definition poutcome_eqb (a b : poutcome) : bool :=
  match a, b with
  | PRet i, PRet j => Nat.eqb i j
  | PRaise, PRaise => true
  | _, _ => false
  end.
