(* E-model of the tube mesh ordering and of the pressure load the structural
   solver applies (srlife.structural mesh2D/mesh3D, State.define_boundary, the
   external force form).  nat for indices, Q for geometry. *)
From Coq Require Import QArith Qabs List Bool ZArith Arith.
Import ListNotations.

(* ---- node numbering in tube order ------------------------------------------------------ *)
Definition idx2 (nt i j : nat) : nat := i * nt + j.
Definition idx3 (nt nz i j k : nat) : nat := i * (nt * nz) + j * nz + k.

(* corner nodes of the cell (i, j[, k]) in the order the meshers list them *)
Definition cell2 (nt i j : nat) : list nat :=
  [idx2 nt i j; idx2 nt i (S j mod nt); idx2 nt (S i) (S j mod nt); idx2 nt (S i) j].
Definition cell3 (nt nz i j k : nat) : list nat :=
  [idx3 nt nz (S i) (S j mod nt) k; idx3 nt nz i (S j mod nt) k; idx3 nt nz (S i) (S j mod nt) (S k);
   idx3 nt nz (S i) j k; idx3 nt nz i (S j mod nt) (S k); idx3 nt nz i j k; idx3 nt nz (S i) j (S k); idx3 nt nz i j (S k)].

(* the whole connectivity, element (i, j[, k]) in the order i, j, k *)
Definition conn2d (nr nt : nat) : list (list nat) :=
  flat_map (fun i => map (fun j => cell2 nt i j) (seq 0 nt)) (seq 0 (nr - 1)).
Definition conn3d (nr nt nz : nat) : list (list nat) :=
  flat_map (fun i => flat_map (fun j => map (fun k => cell3 nt nz i j k) (seq 0 (nz - 1))) (seq 0 nt)) (seq 0 (nr - 1)).

Open Scope Q_scope.

(* ---- pressure on a closed polygon (the inner surface, counter-clockwise) ---------------- *)
Definition vec := (Q * Q)%type.
Definition vadd (a b : vec) : vec := (fst a + fst b, snd a + snd b).
Definition vsub (a b : vec) : vec := (fst a - fst b, snd a - snd b).
Definition vscale (s : Q) (a : vec) : vec := (s * fst a, s * snd a).
Definition veq (a b : vec) : Prop := fst a == fst b /\ snd a == snd b.
Definition dot (a b : vec) : Q := fst a * fst b + snd a * snd b.
Definition cross (a b : vec) : Q := fst a * snd b - snd a * fst b.

Definition sumQ (l : list Q) : Q := fold_right Qplus 0 l.
Definition vsum (l : list vec) : vec := (sumQ (map fst l), sumQ (map snd l)).

Definition rot1 {A} (l : list A) : list A := match l with [] => [] | x :: r => r ++ [x] end.
Definition rotr1 {A} (l : list A) : list A := match l with [] => [] | x :: _ => last l x :: removelast l end.

Definition edges (ps : list vec) : list vec := map (fun ab => vsub (snd ab) (fst ab)) (combine ps (rot1 ps)).

(* force of the pressure p on the facet with edge vector e (per unit height): p times the
   facet length along the normal pointing away from the axis *)
Definition facet_force (p : Q) (e : vec) : vec := (p * snd e, - p * fst e).

(* consistent nodal load of linear elements: half of each adjacent facet *)
Definition nodal_force (p : Q) (prev next : vec) : vec := vscale (1 # 2) (facet_force p (vsub next prev)).
Definition nodal_forces (p : Q) (ps : list vec) : list vec :=
  map (fun pn => nodal_force p (fst pn) (snd pn)) (combine (rotr1 ps) (rot1 ps)).

(* axial distribution in 3D: trapezoidal weights of the axial stations *)
Fixpoint diffs (zs : list Q) : list Q :=
  match zs with
  | a :: ((b :: _) as r) => (b - a) :: diffs r
  | _ => []
  end.
Fixpoint zipadd (a b : list Q) : list Q :=
  match a, b with x :: a', y :: b' => (x + y) :: zipadd a' b' | _, _ => [] end.
Definition trap_weights (zs : list Q) : list Q :=
  map (fun w => w / 2) (zipadd (0 :: diffs zs) (diffs zs ++ [0])).

(* ---- which boundary facets carry the pressure ------------------------------------------- *)
(* a facet is selected when the radius of its midpoint is below the limit *)
Definition selected (limit radius : Q) : bool := negb (Qle_bool limit radius).

(* ---- comparison helpers ------------------------------------------------------------------- *)
Definition closeb (tol scale m i : Q) : bool := Qle_bool (Qabs (m - i)) (tol * scale).
Fixpoint close_vecs (tol scale : Q) (m i : list vec) : bool :=
  match m, i with
  | [], [] => true
  | a :: m', b :: i' => closeb tol scale (fst a) (fst b) && closeb tol scale (snd a) (snd b) && close_vecs tol scale m' i'
  | _, _ => false
  end.
Fixpoint nat_lists_eqb (a b : list (list nat)) : bool :=
  match a, b with
  | [], [] => true
  | x :: a', y :: b' => (if list_eq_dec Nat.eq_dec x y then true else false) && nat_lists_eqb a' b'
  | _, _ => false
  end.
