(* E-model of the pointwise part of the generalised-plane-strain stiffness
   (PythonSolver.calculate_axial_from_stress): the row C_zz.. of the material
   tangent contracted with the condensed in-plane strain.  Over Q. *)
From Coq Require Import QArith List Bool String.
Import ListNotations.
Open Scope Q_scope.

Definition ten := nat -> nat -> Q.
Definition sum3 (f : nat -> Q) : Q := f 0%nat + f 1%nat + f 2%nat.
(* C_zzkl e_kl over all k, l *)
Definition full_contract (c e : ten) : Q := sum3 (fun k => sum3 (fun l => c k l * e k l)).
(* the diagonal terms only *)
Definition trace_contract (c e : ten) : Q := sum3 (fun k => c k k * e k k).

(* d(sigma_zz)/d(eps_zz) at a point: direct term minus the relaxation through the in-plane strains *)
Definition gps_point (czzzz : Q) (c e : ten) : Q := czzzz - full_contract c e.

(* numpy einsum signatures that compute full_contract over the leading two axes *)
Definition is_full_contraction (sig : string) : bool := String.eqb sig "ijkl,ijkl->kl".
