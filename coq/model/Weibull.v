(* E-model for the ceramic (Weibull) reliability bookkeeping of srlife.damage:
   packing of the stored stress components into the Mandel vector and its
   unpacking into a symmetric tensor; the element formula of the PIA model over
   an abstract power function; aggregation over time, elements, tubes, panels. *)
From Coq Require Import QArith List Bool String.
From SV Require Import model.Life.
Import ListNotations.
Open Scope Q_scope.

(* s2 stands for sqrt 2 (any non-zero number works for the round trip) *)
Definition pack (s2 : Q) (s : t6) : list Q :=
  [c_xx s; c_yy s; c_zz s; s2 * c_yz s; s2 * c_xz s; s2 * c_xy s].

(* tensor entry (a, b) of the unpacked Mandel vector, by the index groups *)
Definition comp_of (a b : nat) (v : list Q) (s2 : Q) : Q :=
  match a, b with
  | O, O => nth 0 v 0
  | 1%nat, 1%nat => nth 1 v 0
  | 2%nat, 2%nat => nth 2 v 0
  | 1%nat, 2%nat | 2%nat, 1%nat => nth 3 v 0 / s2
  | O, 2%nat | 2%nat, O => nth 4 v 0 / s2
  | O, 1%nat | 1%nat, O => nth 5 v 0 / s2
  | _, _ => 0
  end.

Definition unpack (s2 : Q) (v : list Q) : t6 :=
  mk6 (comp_of 0 0 v s2) (comp_of 1 1 v s2) (comp_of 2 2 v s2) (comp_of 1 2 v s2) (comp_of 0 2 v s2) (comp_of 0 1 v s2).

(* ---- consistency of the generated tables ---------------------------------------- *)
Close Scope Q_scope.
Open Scope string_scope.

Definition suffix_of (p : nat * nat) : string :=
  match p with
  | (0, 0) => "_xx" | (1, 1) => "_yy" | (2, 2) => "_zz"
  | (1, 2) | (2, 1) => "_yz" | (0, 2) | (2, 0) => "_xz" | (0, 1) | (1, 0) => "_xy"
  | _ => "?"
  end.

Definition group_ok (grp : list (nat * nat)) : bool :=
  match grp with
  | [(a, b)] => Nat.eqb a b
  | [(a, b); (c, d)] => Nat.eqb a d && Nat.eqb b c && negb (Nat.eqb a b)
  | _ => false
  end.

(* component k of the stacked vector is the stored component that the k-th
   index group names, and it carries the sqrt 2 factor exactly when the
   unpacking divides by it *)
Definition tables_consistent (order : list (string * bool)) (inds : list (list (nat * nat))) (mults : list bool) : bool :=
  Nat.eqb (List.length order) 6 && Nat.eqb (List.length inds) 6 && Nat.eqb (List.length mults) 6 &&
  forallb (fun x => let '(o, grp, m) := x in
             group_ok grp && String.eqb (fst o) ("stress" ++ suffix_of (hd (0, 0) grp)) && Bool.eqb (snd o) m
             && Bool.eqb m (match grp with [_] => false | _ => true end))
          (combine (combine order inds) mults) &&
  (* every component appears exactly once *)
  forallb (fun sfx => Nat.eqb (List.length (filter (fun o => String.eqb (fst o) ("stress" ++ sfx)) order)) 1)
          ["_xx"; "_yy"; "_zz"; "_yz"; "_xz"; "_xy"].
