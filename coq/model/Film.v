(* E-model of srlife.thermohydraulics.thermalfluid.ThermalFluidMaterial:
   temperature clipping, Reynolds and Prandtl numbers from the property
   polynomials, the laminar / turbulent selection and the floor on the film
   coefficient.  The turbulent Nusselt number (Gnielinski: logarithm and real
   powers) enters as a function gn of (Re, Pr). *)
From Coq Require Import QArith Qabs Qminmax List Bool.
Import ListNotations.
Open Scope Q_scope.

(* numpy.polyval: coefficients from the highest power down, Horner *)
Definition polyval (p : list Q) (x : Q) : Q := fold_left (fun acc c => acc * x + c) p 0.

Record fluid := mkFluidM {
  cp_poly : list Q; rho_poly : list Q; mu_poly : list Q; k_poly : list Q;
  film_min : Q; T_max : Q; T_min : Q; laminar_cutoff : Q; laminar_value : Q
}.

Definition T_eff (f : fluid) (T : Q) : Q := Qmax (Qmin T (T_max f)) (T_min f).

Definition cp (f : fluid) (T : Q) : Q := polyval (cp_poly f) T.
Definition rho (f : fluid) (T : Q) : Q := polyval (rho_poly f) (T_eff f T).   (* density clips internally *)
Definition mu (f : fluid) (T : Q) : Q := polyval (mu_poly f) T.
Definition kc (f : fluid) (T : Q) : Q := polyval (k_poly f) T.

Definition reynolds (f : fluid) (T u r : Q) : Q := rho f T * u * 2 * r / mu f T.
Definition prandtl (f : fluid) (T : Q) : Q := cp f T * mu f T / kc f T.

Definition Qlt_bool (a b : Q) : bool := negb (Qle_bool b a).

Definition nusselt (gn : Q -> Q -> Q) (f : fluid) (T u r : Q) : Q :=
  let re := reynolds f (T_eff f T) u r in
  let pr := prandtl f (T_eff f T) in
  if Qlt_bool re (laminar_cutoff f) then laminar_value f else gn re pr.

Definition film (gn : Q -> Q -> Q) (f : fluid) (T u r : Q) : Q :=
  Qmax (nusselt gn f T u r * kc f T / (2 * r)) (film_min f).

Definition close (tol : Q) (m i : Q) : bool := Qle_bool (Qabs (m - i)) (tol * (1 + Qabs i)).
