(* E-model of saving a record to a keyed store and loading it back: a record
   is a function from field keys to values, `save` writes one entry per key of
   the class's key list, `load` looks every key up again.  Values carry a
   dynamic type tag because HDF5 attributes come back as NumPy scalars. *)
From Coq Require Import List String Bool ZArith.
Import ListNotations.
Open Scope string_scope.

Inductive value :=
| PyInt (z : Z) | NpInt (z : Z)            (* Python int / numpy.int64 *)
| PyFloat (bits : Z) | NpFloat (bits : Z)  (* floats by their bit pattern *)
| Str (s : string)
| Arr (shape : list nat) (bits : list Z)
| Missing.

(* what h5py hands back for a stored value *)
Definition h5_roundtrip (v : value) : value :=
  match v with
  | PyInt z => NpInt z
  | PyFloat b => NpFloat b
  | other => other
  end.

(* equality up to the numeric tower *)
Definition same_value (a b : value) : bool :=
  match a, b with
  | PyInt x, PyInt y | PyInt x, NpInt y | NpInt x, PyInt y | NpInt x, NpInt y => Z.eqb x y
  | PyFloat x, PyFloat y | PyFloat x, NpFloat y | NpFloat x, PyFloat y | NpFloat x, NpFloat y => Z.eqb x y
  | Str x, Str y => String.eqb x y
  | Arr s x, Arr t y => (if list_eq_dec Nat.eq_dec s t then true else false) && (if list_eq_dec Z.eq_dec x y then true else false)
  | Missing, Missing => true
  | _, _ => false
  end.

Definition store := list (string * value).

Fixpoint lookup (k : string) (s : store) : value :=
  match s with
  | [] => Missing
  | (k', v) :: r => if String.eqb k k' then v else lookup k r
  end.

Definition save (keys : list string) (rec : string -> value) : store :=
  map (fun k => (k, h5_roundtrip (rec k))) keys.

Definition load (keys : list string) (s : store) : string -> value :=
  fun k => if existsb (String.eqb k) keys then lookup k s else Missing.

(* connection option as the spring conversion sees it after a reload *)
Definition is_numeric (v : value) : bool :=
  match v with PyInt _ | NpInt _ | PyFloat _ | NpFloat _ => true | _ => false end.

(* helpers for the generated tables *)
Fixpoint assoc (k : string) (l : list (string * list string)) : list string :=
  match l with [] => [] | (k', v) :: r => if String.eqb k k' then v else assoc k r end.

Fixpoint assoc1 (k : string) (l : list (string * string)) : option string :=
  match l with [] => None | (k', v) :: r => if String.eqb k k' then Some v else assoc1 k r end.

Definition mem (x : string) (l : list string) : bool := existsb (String.eqb x) l.
Definition subset (a b : list string) : bool := forallb (fun x => mem x b) a.
