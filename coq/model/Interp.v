(* E-model of the boundary-condition evaluators of srlife/receiver.py:
   regular-grid multilinear interpolation with linear extrapolation
   (scipy RegularGridInterpolator, bounds_error=False, fill_value=None),
   range-checked 1-D interpolation (scipy interp1d), the periodic closure of
   the circumferential grid, the scalar/array dispatch of _make_ifn, the
   constructor shape tests and Tube.set_bc's isclose test.  Everything over Q. *)
From Coq Require Import QArith Qabs Qround List Bool ZArith.
Import ListNotations.
Open Scope Q_scope.

Definition lin (x0 y0 x1 y1 x : Q) : Q := y0 + (y1 - y0) * ((x - x0) / (x1 - x0)).

(* cell search as in scipy: first cell whose right end is >= x, clipped to the
   last cell; outside the grid the end cells extrapolate linearly *)
Fixpoint interp1 (xs ys : list Q) (x : Q) : Q :=
  match xs, ys with
  | x0 :: xs', y0 :: ys' =>
      match xs', ys' with
      | x1 :: xr, y1 :: _ =>
          match xr with
          | [] => lin x0 y0 x1 y1 x
          | _ => if Qle_bool x x1 then lin x0 y0 x1 y1 x else interp1 xs' ys' x
          end
      | _, _ => y0
      end
  | _, _ => 0
  end.

(* interp1d semantics: outside [first, last] is an error *)
Definition first_last (xs : list Q) : option (Q * Q) :=
  match xs with
  | [] => None
  | x0 :: _ => Some (x0, last xs x0)
  end.

Definition interp1_checked (xs ys : list Q) (x : Q) : option Q :=
  match first_last xs with
  | Some (a, b) => if Qle_bool a x && Qle_bool x b then Some (interp1 xs ys x) else None
  | None => None
  end.

(* (time, z) data: list over time of rows over z *)
Definition interp2 (ts zs : list Q) (data : list (list Q)) (t z : Q) : Q :=
  interp1 ts (map (fun row => interp1 zs row z) data) t.

(* (time, theta, z) data *)
Definition interp3 (ts us zs : list Q) (data : list (list (list Q))) (t u z : Q) : Q :=
  interp1 ts (map (fun plane => interp1 us (map (fun row => interp1 zs row z) plane) u) data) t.

(* ---- circumferential direction, angle as a fraction u of a turn --------- *)
Fixpoint ugrid_from (k : nat) (n : nat) (nt : positive) : list Q :=
  match n with
  | O => []
  | S n' => (Z.of_nat k # nt) :: ugrid_from (S k) n' nt
  end.

(* closed grid 0, 1/nt, ..., (nt-1)/nt, 1 *)
Definition ugrid_closed (nt : positive) : list Q := ugrid_from 0 (S (Pos.to_nat nt)) nt.

(* fractional part, as numpy.mod(theta, 2 pi) does for the angle *)
Definition frac (u : Q) : Q := u - inject_Z (Qfloor u).

Definition close_plane (plane : list (list Q)) : list (list Q) :=
  match plane with
  | [] => []
  | r0 :: _ => plane ++ [r0]
  end.

Definition interp3_periodic (ts : list Q) (nt : positive) (zs : list Q)
           (data : list (list (list Q))) (t u z : Q) : Q :=
  interp3 ts (ugrid_closed nt) zs (map close_plane data) t (frac u) z.

(* the pinned code before the repair: open grid, no wrap (extrapolates in the
   seam cell) *)
Definition ugrid_open (nt : positive) : list Q := ugrid_from 0 (Pos.to_nat nt) nt.
Definition interp3_open (ts : list Q) (nt : positive) (zs : list Q)
           (data : list (list (list Q))) (t u z : Q) : Q :=
  interp3 ts (ugrid_open nt) zs data t u z.

(* ---- scalar / array dispatch of _make_ifn ------------------------------ *)
Inductive arg := Sc (q : Q) | Ar (l : list Q).
Inductive res := RSc (q : Q) | RAr (l : list Q) | RErr.

Definition is_sc (a : arg) : bool := match a with Sc _ => true | Ar _ => false end.

Definition arg_len (a : arg) : option nat := match a with Sc _ => None | Ar l => Some (length l) end.

Definition arg_at (a : arg) (i : nat) : Q :=
  match a with Sc q => q | Ar l => nth i l 0 end.

(* shape of the result = shape of the first array argument; every array
   argument must be at least that long (numpy raises IndexError otherwise) *)
Fixpoint first_len (args : list arg) : option nat :=
  match args with
  | [] => None
  | a :: r => match arg_len a with Some n => Some n | None => first_len r end
  end.

Definition lens_ok (n : nat) (args : list arg) : bool :=
  forallb (fun a => match arg_len a with Some m => Nat.eqb m n | None => true end) args.

Definition dispatch (base : list Q -> Q) (args : list arg) : res :=
  if forallb is_sc args then RSc (base (map (fun a => arg_at a 0) args))
  else match first_len args with
       | None => RErr
       | Some n =>
         if lens_ok n args
         then RAr (map (fun i => base (map (fun a => arg_at a i) args)) (seq 0 n))
         else RErr
       end.

(* ---- shape tests of the constructors ----------------------------------- *)
Definition shape := list nat.
Fixpoint shape_eqb (a b : shape) : bool :=
  match a, b with
  | [], [] => true
  | x :: a', y :: b' => Nat.eqb x y && shape_eqb a' b'
  | _, _ => false
  end.

Inductive kind := KFlux | KFixed | KConv | KFilm | KPressure.

(* documented data shapes; ntime nt nz are the constructor arguments *)
Definition documented (k : kind) (ntime nt nz : nat) : list shape :=
  match k with
  | KFlux | KFixed => [[ntime; nt; nz]]
  | KConv => [[ntime; nz]]
  | KFilm => [[nz]; [nz]]          (* fluid_T and film *)
  | KPressure => [[ntime]]
  end.

Definition ctor_accepts (k : kind) (ntime nt nz : nat) (given : list shape) : bool :=
  (fix go (d g : list shape) : bool :=
     match d, g with
     | [], [] => true
     | s :: d', t :: g' => shape_eqb s t && go d' g'
     | _, _ => false
     end) (documented k ntime nt nz) given.

(* ---- Tube.set_bc: numpy.isclose(a, b) with default tolerances ----------- *)
Definition isclose (a b : Q) : bool :=
  Qle_bool (Qabs (a - b)) ((1 # 100000000) + (1 # 100000) * Qabs b).

Definition set_bc_accepts (inner : bool) (tube_r tube_t tube_h bc_r bc_h : Q) : bool :=
  isclose bc_r (if inner then tube_r - tube_t else tube_r) && isclose bc_h tube_h.

(* ---- comparison helper for the correspondence --------------------------- *)
Definition close (tol : Q) (model impl : Q) : bool :=
  Qle_bool (Qabs (model - impl)) (tol * (1 + Qabs impl)).

Definition close_res (tol : Q) (m : res) (kind_ok : bool) (impl : list Q) : bool :=
  match m with
  | RSc q => kind_ok && match impl with [v] => close tol q v | _ => false end
  | RAr l => kind_ok && Nat.eqb (length l) (length impl)
             && forallb (fun p => close tol (fst p) (snd p)) (combine l impl)
  | RErr => false
  end.
