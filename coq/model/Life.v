(* E-model of srlife.damage.TimeFractionInteractionDamage (metallic life):
   per-point per-day creep and fatigue damage from result histories, lumped
   and last-cycle extrapolation, envelope membership, the crossing that the
   root find locates, and the two minima.  Over Q; material laws enter as
   functions of (temperature, von Mises stress SQUARED) and (temperature,
   equivalent strain range SQUARED): sqrt is monotone, so maxima and
   comparisons are unchanged and everything stays rational. *)
From Coq Require Import QArith Qabs Qround List Bool ZArith.
Import ListNotations.
Open Scope Q_scope.

Definition Qlt_bool (a b : Q) : bool := negb (Qle_bool b a).

(* ---- interaction envelope: (0,1) - (xk,yk) - (1,0) ----------------------- *)
Definition inside (xk yk df dc : Q) : bool :=
  if Qlt_bool df xk
  then Qle_bool dc ((yk - 1) / (xk - 0) * (df - 0) + 1)
  else Qle_bool dc ((0 - yk) / (1 - xk) * (df - xk) + yk).

(* ---- tensors in the stored order xx yy zz yz xz xy ------------------------ *)
Record t6 := mk6 { c_xx : Q; c_yy : Q; c_zz : Q; c_yz : Q; c_xz : Q; c_xy : Q }.

(* von Mises stress squared, as written in creep_damage *)
Definition vm2 (s : t6) : Q :=
  ((c_xx s - c_yy s) * (c_xx s - c_yy s) + (c_yy s - c_zz s) * (c_yy s - c_zz s)
   + (c_zz s - c_xx s) * (c_zz s - c_xx s)
   + 6 * (c_xy s * c_xy s + c_yz s * c_yz s + c_xz s * c_xz s)) / 2.

Definition sub6 (a b : t6) : t6 :=
  mk6 (c_xx a - c_xx b) (c_yy a - c_yy b) (c_zz a - c_zz b) (c_yz a - c_yz b) (c_xz a - c_xz b) (c_xy a - c_xy b).

(* equivalent strain range squared between two strain samples, as in
   cycle_fatigue: shear components doubled (engineering shear), nu = 1/2:
   (sqrt2 / (2 (1 + nu)))^2 = 2/9 *)
Definition eng (e : t6) : t6 := mk6 (c_xx e) (c_yy e) (c_zz e) (2 * c_yz e) (2 * c_xz e) (2 * c_xy e).

Definition eqrange2 (a b : t6) : Q :=
  let d := sub6 (eng b) (eng a) in
  (2 # 9) * ((c_xx d - c_yy d) * (c_xx d - c_yy d) + (c_yy d - c_zz d) * (c_yy d - c_zz d)
             + (c_zz d - c_xx d) * (c_zz d - c_xx d)
             + (3 # 2) * (c_yz d * c_yz d + c_xz d * c_xz d + c_xy d * c_xy d)).

Definition Qmax_list (l : list Q) (d : Q) : Q := fold_right (fun x m => if Qle_bool m x then x else m) d l.

(* max over ordered pairs of samples (starts from 0 as the code does) *)
Definition max_range2 (samples : list t6) : Q :=
  Qmax_list (flat_map (fun a => map (fun b => eqrange2 a b) samples) samples) 0.

(* ---- one represented day of one material point ---------------------------- *)
(* creep: steps ending in the day, each (dt, temperature, stress at step end) *)
Definition creep_day (tR : Q -> Q -> Q) (steps : list (Q * Q * t6)) : Q :=
  fold_right (fun st acc => let '(dt, T, s) := st in dt / tR T (vm2 s) + acc) 0 steps.

(* fatigue: the day's samples (temperature, mechanical strain) *)
Definition fatigue_day (Nf : Q -> Q -> Q) (samples : list (Q * t6)) : Q :=
  match samples with
  | [] => 0
  | (T0, _) :: _ =>
    let Tmax := Qmax_list (map fst samples) T0 in
    1 / Nf Tmax (max_range2 (map snd samples))
  end.

(* ---- cycle identification: indices with times mod period = 0 -------------- *)
Definition Qmod0 (t p : Q) : bool :=
  let q := t / p in Qeq_bool (inject_Z (Qfloor q)) q.

Fixpoint cycle_inds (times : list Q) (p : Q) (i : nat) : list nat :=
  match times with
  | [] => []
  | t :: r => if Qmod0 t p then i :: cycle_inds r p (S i) else cycle_inds r p (S i)
  end.

Definition id_cycles (times : list Q) (p : Q) (days : nat) : option (list nat) :=
  let l := cycle_inds times p 0 in
  if Nat.eqb (length l) (S days) then Some l else None.

(* ---- extrapolation --------------------------------------------------------- *)
Definition sumQ (l : list Q) : Q := fold_right Qplus 0 l.
Definition mean (l : list Q) : Q := sumQ l / inject_Z (Z.of_nat (length l)).

Definition extrap_lump (D : list Q) (N : Q) : Q := N * sumQ D / inject_Z (Z.of_nat (length D)).

(* "last": N truncated to an integer n; n < len-1: sum of the first n days,
   else sum of all but the last day + last day * n *)
Definition extrap_last (D : list Q) (n : Z) : Q :=
  if (n <? Z.of_nat (length D) - 1)%Z then sumQ (firstn (Z.to_nat n) D)
  else sumQ (removelast D) + last D 0 * inject_Z n.

(* ---- life of one point ------------------------------------------------------ *)
Inductive res := Zero | Cross (n : Q) | Inf.

Definition rep_max : Q := 1000000.

(* crossing of the ray N |-> (N mf, N mc) with the envelope *)
Definition cross_lump (xk yk mf mc : Q) : Q :=
  let s1 := (1 - yk) / xk in
  let n1 := 1 / (mc + s1 * mf) in
  if Qlt_bool (n1 * mf) xk then n1
  else let s2 := yk / (1 - xk) in (yk + s2 * xk) / (mc + s2 * mf).

Definition point_life_lump (xk yk : Q) (Dc Df : list Q) : res :=
  let mf := mean Df in let mc := mean Dc in
  if negb (inside xk yk (1 * mf) (1 * mc)) then Zero
  else if inside xk yk (rep_max * mf) (rep_max * mc) then Inf
  else Cross (cross_lump xk yk mf mc).

(* "last": the root find ends at the first integer repetition count that is
   outside; located by bisection on the (antitone) membership *)
Fixpoint bisect (P : Z -> bool) (lo hi : Z) (fuel : nat) : Z :=
  (* invariant: P lo = true, P hi = false; returns the first false *)
  match fuel with
  | O => hi
  | S f => if (hi - lo <=? 1)%Z then hi
           else let mid := ((lo + hi) / 2)%Z in
                if P mid then bisect P mid hi f else bisect P lo mid f
  end.

Definition point_life_last (xk yk : Q) (Dc Df : list Q) : res :=
  let P := fun n : Z => inside xk yk (extrap_last Df n) (extrap_last Dc n) in
  if negb (P 1%Z) then Zero
  else if P 1000000%Z then Inf
  else Cross (inject_Z (bisect P 1 1000000 40)).

(* ---- minima ------------------------------------------------------------------ *)
Definition res_le (a b : res) : bool :=
  match a, b with
  | Zero, _ => true
  | _, Inf => true
  | Cross x, Cross y => Qle_bool x y
  | _, _ => false
  end.

Definition res_min (a b : res) : res := if res_le a b then a else b.
Definition min_res (l : list res) : res := fold_right res_min Inf l.

(* a tube = list of points, a point = (per-day creep damages, per-day fatigue damages) *)
Definition tube_life (lump : bool) (xk yk : Q) (pts : list (list Q * list Q)) : res :=
  min_res (map (fun p => if lump then point_life_lump xk yk (fst p) (snd p)
                         else point_life_last xk yk (fst p) (snd p)) pts).

Definition receiver_life (lump : bool) (xk yk : Q) (tubes : list (list (list Q * list Q))) : res :=
  min_res (map (tube_life lump xk yk) tubes).

(* ---- comparison helpers for the correspondence ------------------------------- *)
Definition close (tol : Q) (m i : Q) : bool := Qle_bool (Qabs (m - i)) (tol * (1 + Qabs i)).

(* implementation results: 0 -> Zero, +inf -> Inf (flag), else a number *)
Definition res_agrees (tol : Q) (m : res) (is_inf : bool) (v : Q) : bool :=
  match m with
  | Zero => negb is_inf && Qeq_bool v 0
  | Inf => is_inf
  | Cross n => negb is_inf && close tol n v
  end.
