(* E-model of srlife.thermohydraulics.flowpath: link residuals (inlet, simple
   panel, manifold), the chain's residual vector, tube velocities and the
   reported fluid temperature profiles.  Over Q; the fluid laws cp, rho, film
   are arguments; pi is a rational parameter (the float numpy.pi). *)
From Coq Require Import QArith Qabs List Bool ZArith.
Import ListNotations.
Open Scope Q_scope.

Definition sumQ (l : list Q) : Q := fold_right Qplus 0 l.
Definition qnat (n : nat) : Q := inject_Z (Z.of_nat n).

Record fluid := mkFluid { cp : Q -> Q; rho : Q -> Q; film : Q -> Q -> Q -> Q }.

Record panel := mkPanel {
  weights : list Q;                       (* tube multipliers *)
  ri : Q; ht : Q;                         (* inner radius, height *)
  ntheta : nat; zs : list Q;              (* circumferential count, axial stations 0..h *)
  metal : list (list (list Q))            (* per tube, per theta, per z: inner-wall metal temperature *)
}.

Definition ntube (p : panel) : Q := sumQ (weights p).
Definition nzs (p : panel) : nat := length (zs p).
Definition dz (p : panel) : Q := ht p / qnat (nzs p).
Definition dtheta (pi : Q) (p : panel) : Q := 2 * pi / qnat (ntheta p).

Definition tmean (tin tout : Q) : Q := (tout + tin) / 2.

(* flow velocity in one tube *)
Definition velocity (pi : Q) (f : fluid) (p : panel) (mdot tin tout : Q) : Q :=
  mdot / (ntube p * pi * rho f (tmean tin tout) * (ri p * ri p)).

(* reported fluid temperature along a tube: linear from the panel inlet to the tube outlet *)
Definition fluid_temps (p : panel) (tin tout : Q) : list Q :=
  map (fun z => (tout - tin) / ht p * z + tin) (zs p).

Definition q_mass (f : fluid) (p : panel) (mdot tin : Q) (w tout : Q) : Q :=
  w * mdot / ntube p * cp f (tmean tin tout) * (tout - tin).

Definition q_conv (pi : Q) (f : fluid) (p : panel) (mdot tin : Q) (w tout : Q) (tm : list (list Q)) : Q :=
  let h := film f (tmean tin tout) (velocity pi f p mdot tin tout) (ri p) in
  let tf := fluid_temps p tin tout in
  ri p * dz p * dtheta pi p *
  sumQ (map (fun row => sumQ (map (fun mt => w * h * (fst mt - snd mt)) (combine row tf))) tm).

Fixpoint zip3 {A B C} (a : list A) (b : list B) (c : list C) : list (A * B * C) :=
  match a, b, c with
  | x :: a', y :: b', z :: c' => (x, y, z) :: zip3 a' b' c'
  | _, _, _ => []
  end.

Definition panel_residual (pi : Q) (f : fluid) (p : panel) (mdot tin : Q) (touts : list Q) : list Q :=
  map (fun t => let '(w, tout, tm) := t in q_mass f p mdot tin w tout - q_conv pi f p mdot tin w tout tm)
      (zip3 (weights p) touts (metal p)).

Definition manifold_residual (p : panel) (touts : list Q) (tman : Q) : Q :=
  sumQ (map (fun wt => fst wt * snd wt) (combine (weights p) touts)) / ntube p - tman.

(* the chain: T = [start] ++ (tube outlets ++ [manifold]) per panel, in order *)
Fixpoint chain_residual (pi : Q) (f : fluid) (mdot : Q) (panels : list panel) (tin : Q) (T : list Q) : list Q :=
  match panels with
  | [] => []
  | p :: ps =>
    let n := length (weights p) in
    let touts := firstn n T in
    let tman := nth n T 0 in
    panel_residual pi f p mdot tin touts ++ [manifold_residual p touts tman]
    ++ chain_residual pi f mdot ps tman (skipn (S n) T)
  end.

Definition path_residual (pi : Q) (f : fluid) (mdot inlet : Q) (panels : list panel) (T : list Q) : list Q :=
  match T with
  | [] => []
  | t0 :: rest => (t0 - inlet) :: chain_residual pi f mdot panels t0 rest
  end.

(* what recover_tube_results reports, panel by panel *)
Fixpoint recover (pi : Q) (f : fluid) (mdot : Q) (panels : list panel) (tin : Q) (T : list Q)
  : list (list Q * list (list Q)) :=
  match panels with
  | [] => []
  | p :: ps =>
    let n := length (weights p) in
    let touts := firstn n T in
    let tman := nth n T 0 in
    (map (fun tout => velocity pi f p mdot tin tout) touts, map (fun tout => fluid_temps p tin tout) touts)
    :: recover pi f mdot ps tman (skipn (S n) T)
  end.

Definition path_recover pi f mdot panels (T : list Q) :=
  match T with [] => [] | t0 :: rest => recover pi f mdot panels t0 rest end.

(* comparison helpers *)
Definition close (tol : Q) (m i : Q) : bool :=
  Qle_bool (Qabs (m - i)) (tol * (1 + Qabs i)).

Fixpoint close_list (tol : Q) (m i : list Q) : bool :=
  match m, i with
  | [], [] => true
  | a :: m', b :: i' => close tol a b && close_list tol m' i'
  | _, _ => false
  end.

(* residuals are compared relative to the magnitude of the two heat terms *)
Definition close_abs (tol scale : Q) (m i : Q) : bool := Qle_bool (Qabs (m - i)) (tol * scale).
