(* E-model of the axisymmetric (1D) finite-element equations srlife assembles
   (structural.PythonSolver: internal force form  v' s_rr - v s_rr / r + v s_tt / r,
   strains  e_rr = u', e_tt = u / r, imposed e_zz, Hooke's law on the mechanical
   strain, pressure on the inner node, axial force 2 pi sum s_zz r w h) for linear
   two-node elements and any quadrature rule (scikit-fem's points and weights are
   passed in as the rationals their floats are).  Over Q. *)
From Coq Require Import QArith Qabs List Bool ZArith.
Import ListNotations.
Open Scope Q_scope.

Record gauss := mkG { xi : Q; wt : Q }.
(* what is known at one quadrature point of one element *)
Record gpdata := mkD { th : Q; lam : Q; mu : Q }.

Definition sumQ (l : list Q) : Q := fold_right Qplus 0 l.

(* stresses (rr, tt, zz) at a quadrature point of the element [r0, r1] with nodal displacements u0, u1 *)
Definition gp_stress (ez r0 r1 u0 u1 : Q) (g : gauss) (d : gpdata) : Q * Q * Q :=
  let h := r1 - r0 in
  let rg := r0 + xi g * h in
  let er := (u1 - u0) / h in
  let et := ((1 - xi g) * u0 + xi g * u1) / rg in
  let tr := (er - th d) + (et - th d) + (ez - th d) in
  (lam d * tr + 2 * mu d * (er - th d), lam d * tr + 2 * mu d * (et - th d), lam d * tr + 2 * mu d * (ez - th d)).

(* contribution of one quadrature point to the internal force on the two nodes of its element *)
Definition gp_force (r0 r1 : Q) (g : gauss) (s : Q * Q * Q) : Q * Q :=
  let '(srr, stt, _) := s in
  let h := r1 - r0 in
  let rg := r0 + xi g * h in
  let m := wt g * h in
  (m * ((- 1 / h) * srr - (1 - xi g) * srr / rg + (1 - xi g) * stt / rg),
   m * ((1 / h) * srr - xi g * srr / rg + xi g * stt / rg)).

Definition gp_axial (r0 r1 : Q) (g : gauss) (s : Q * Q * Q) : Q :=
  let '(_, _, szz) := s in (r0 + xi g * (r1 - r0)) * (wt g * (r1 - r0)) * szz.

(* element loop: rs, us nodal radii and displacements; ds the data of every quadrature point per element *)
Fixpoint elem_forces (ez : Q) (gs : list gauss) (rs us : list Q) (ds : list (list gpdata)) : list (Q * Q) :=
  match rs, us, ds with
  | r0 :: ((r1 :: _) as rs'), u0 :: ((u1 :: _) as us'), d :: ds' =>
      let fs := map (fun gd => gp_force r0 r1 (fst gd) (gp_stress ez r0 r1 u0 u1 (fst gd) (snd gd))) (combine gs d) in
      (sumQ (map fst fs), sumQ (map snd fs)) :: elem_forces ez gs rs' us' ds'
  | _, _, _ => []
  end.

(* nodal internal force: right part of the element on the left plus left part of the element on the right *)
Fixpoint assemble (prev : Q) (fs : list (Q * Q)) : list Q :=
  match fs with
  | [] => [prev]
  | (a, b) :: r => (prev + a) :: assemble b r
  end.

Definition internal_force (ez : Q) (gs : list gauss) (rs us : list Q) (ds : list (list gpdata)) : list Q :=
  assemble 0 (elem_forces ez gs rs us ds).

(* residual: internal minus external; the pressure p pushes the inner node outwards *)
Definition residual (p ez : Q) (gs : list gauss) (rs us : list Q) (ds : list (list gpdata)) : list Q :=
  match internal_force ez gs rs us ds with
  | [] => []
  | f0 :: r => (f0 - p) :: r
  end.

Fixpoint elem_axial (ez : Q) (gs : list gauss) (rs us : list Q) (ds : list (list gpdata)) : Q :=
  match rs, us, ds with
  | r0 :: ((r1 :: _) as rs'), u0 :: ((u1 :: _) as us'), d :: ds' =>
      sumQ (map (fun gd => gp_axial r0 r1 (fst gd) (gp_stress ez r0 r1 u0 u1 (fst gd) (snd gd))) (combine gs d))
      + elem_axial ez gs rs' us' ds'
  | _, _, _ => 0
  end.
(* axial force = 2 pi * elem_axial; pi is supplied by the caller *)

(* the same equilibrium statement for stresses that are given (any material): internal force of the stored
   stresses minus the pressure on the inner node *)
Fixpoint elem_forces_s (gs : list gauss) (rs : list Q) (ss : list (list (Q * Q * Q))) : list (Q * Q) :=
  match rs, ss with
  | r0 :: ((r1 :: _) as rs'), s :: ss' =>
      let fs := map (fun gd => gp_force r0 r1 (fst gd) (snd gd)) (combine gs s) in
      (sumQ (map fst fs), sumQ (map snd fs)) :: elem_forces_s gs rs' ss'
  | _, _ => []
  end.

Definition residual_s (p : Q) (gs : list gauss) (rs : list Q) (ss : list (list (Q * Q * Q))) : list Q :=
  match assemble 0 (elem_forces_s gs rs ss) with
  | [] => []
  | f0 :: r => (f0 - p) :: r
  end.

Fixpoint elem_axial_s (gs : list gauss) (rs : list Q) (ss : list (list (Q * Q * Q))) : Q :=
  match rs, ss with
  | r0 :: ((r1 :: _) as rs'), s :: ss' =>
      sumQ (map (fun gd => gp_axial r0 r1 (fst gd) (snd gd)) (combine gs s)) + elem_axial_s gs rs' ss'
  | _, _ => 0
  end.

(* all stresses, element by element, point by point *)
Fixpoint all_stresses (ez : Q) (gs : list gauss) (rs us : list Q) (ds : list (list gpdata)) : list (list (Q * Q * Q)) :=
  match rs, us, ds with
  | r0 :: ((r1 :: _) as rs'), u0 :: ((u1 :: _) as us'), d :: ds' =>
      map (fun gd => gp_stress ez r0 r1 u0 u1 (fst gd) (snd gd)) (combine gs d) :: all_stresses ez gs rs' us' ds'
  | _, _, _ => []
  end.

(* comparison helpers *)
Definition small (tol scale x : Q) : bool := Qle_bool (Qabs x) (tol * scale).
Definition close3 (tol scale : Q) (a b : Q * Q * Q) : bool :=
  let '(a1, a2, a3) := a in let '(b1, b2, b3) := b in
  small tol scale (a1 - b1) && small tol scale (a2 - b2) && small tol scale (a3 - b3).
Fixpoint close_stresses (tol scale : Q) (m i : list (list (Q * Q * Q))) : bool :=
  match m, i with
  | [], [] => true
  | a :: m', b :: i' =>
      (fix go (x y : list (Q * Q * Q)) : bool :=
         match x, y with [], [] => true | p :: x', q :: y' => close3 tol scale p q && go x' y' | _, _ => false end) a b
      && close_stresses tol scale m' i'
  | _, _ => false
  end.
