(* E-model of the strain bookkeeping of srlife.structural at one quadrature
   point: thermal strain history (trapezoidal CTE times temperature change,
   PythonSolver.calculate_mechanical_strain), the sub-increments of the
   adaptive integration (PythonTubeSolver.solve / _setup_state), the strain
   partition and symmetric tensors, isotropic linear elasticity.  Over Q. *)
From Coq Require Import QArith Qabs List Bool ZArith.
From SV Require Import model.Interp.
Import ListNotations.
Open Scope Q_scope.

(* ---- thermal strain: a scalar history per quadrature point ------------------------- *)
Definition th_step (a : Q -> Q) (th T0 T1 : Q) : Q := th + (a T1 + a T0) / 2 * (T1 - T0).

(* thermal strains after each of the temperatures Ts, starting from (th, T0) *)
Fixpoint th_hist (a : Q -> Q) (th T0 : Q) (Ts : list Q) : list Q :=
  match Ts with
  | [] => []
  | T1 :: r => let th' := th_step a th T0 T1 in th' :: th_hist a th' T1 r
  end.

Definition th_end (a : Q -> Q) (th T0 : Q) (Ts : list Q) : Q := last (th_hist a th T0 Ts) th.

(* the temperatures visited inside one stored step when it is cut into n equal
   sub-increments: T_n + (T_np1 - T_n) * (k / n), k = 1..n *)
Definition qnat (n : nat) : Q := inject_Z (Z.of_nat n).
Definition sub_temps (n : nat) (T0 T1 : Q) : list Q :=
  map (fun k => T0 + (T1 - T0) * (qnat k / qnat n)) (seq 1 n).

(* stored history when every step i is cut into (nth i subs 1) sub-increments *)
Fixpoint th_hist_sub (a : Q -> Q) (th T0 : Q) (Ts : list Q) (subs : list nat) : list Q :=
  match Ts with
  | [] => []
  | T1 :: r =>
      let n := match subs with [] => 1%nat | n :: _ => n end in
      let th' := th_end a th T0 (sub_temps n T0 T1) in
      th' :: th_hist_sub a th' T1 r (tl subs)
  end.

(* NEML's PiecewiseLinearInterpolate: clamped outside the table *)
Definition clamp (lo hi x : Q) : Q := if Qle_bool x lo then lo else if Qle_bool hi x then hi else x.
Definition alpha_pw (xs ys : list Q) (T : Q) : Q :=
  match xs, ys with
  | [_], [y] => y
  | x0 :: _, _ => interp1 xs ys (clamp x0 (last xs x0) T)
  | [], _ => 0
  end.

(* ---- tensors -------------------------------------------------------------------------- *)
Record sym := mkSym { c_xx : Q; c_yy : Q; c_zz : Q; c_yz : Q; c_xz : Q; c_xy : Q }.
Definition ten := nat -> nat -> Q.

Definition full (s : sym) : ten := fun i j =>
  match i, j with
  | 0%nat, 0%nat => c_xx s | 1%nat, 1%nat => c_yy s | 2%nat, 2%nat => c_zz s
  | 1%nat, 2%nat | 2%nat, 1%nat => c_yz s | 0%nat, 2%nat | 2%nat, 0%nat => c_xz s | 0%nat, 1%nat | 1%nat, 0%nat => c_xy s
  | _, _ => 0
  end.

Definition sym_grad (g : ten) : ten := fun i j => (g i j + g j i) / 2.
Definition iso (x : Q) : ten := fun i j => if Nat.eqb i j then x else 0.
Definition tsub (a b : ten) : ten := fun i j => a i j - b i j.
Definition tadd (a b : ten) : ten := fun i j => a i j + b i j.
Definition teq (a b : ten) : Prop := forall i j, (i < 3)%nat -> (j < 3)%nat -> a i j == b i j.
Definition symmetric (a : ten) : Prop := forall i j, a i j == a j i.
Definition trace (a : ten) : Q := a 0%nat 0%nat + a 1%nat 1%nat + a 2%nat 2%nat.

(* isotropic linear elasticity *)
Definition hooke (lam mu : Q) (e : ten) : ten := fun i j => (if Nat.eqb i j then lam * trace e else 0) + 2 * mu * e i j.

(* ---- generic time stepping: results stored after each input ---------------------------- *)
Section Scan.
  Context {St Inp : Type}.
  Variable step : St -> Inp -> St.
  Fixpoint scan (s : St) (l : list Inp) : list St :=
    match l with [] => [] | x :: r => let s' := step s x in s' :: scan s' r end.
End Scan.

(* ---- comparison helpers for the correspondence runs ------------------------------------ *)
Definition closeb (tol scale m i : Q) : bool := Qle_bool (Qabs (m - i)) (tol * scale).

Fixpoint close_listb (tol scale : Q) (m i : list Q) : bool :=
  match m, i with
  | [], [] => true
  | a :: m', b :: i' => closeb tol scale a b && close_listb tol scale m' i'
  | _, _ => false
  end.

Definition qmax (a b : Q) : Q := if Qle_bool a b then b else a.
Definition maxabs (l : list Q) : Q := fold_right (fun x m => qmax (Qabs x) m) 0 l.
