(* E-model of how srlife spreads work over worker processes and stores results
   (managers.solve_heat_transfer_tube, thermal.solve_metal, system.solve with its
   copy-back, spring.RJ, damage.determine_life / determine_reliability, receiver
   paging).  Workers receive copies and run a pure function; what can vary from run
   to run is which worker takes which item and the order in which they finish. *)
From Coq Require Import List Arith Bool PeanoNat.
Import ListNotations.

Section Pool.
  Context {A B : Type}.
  Variable f : A -> B.

  (* one execution of an ordered pool map: the items finish in the order `finish`
     (indices into xs), each computed by whichever worker; the pool hands the
     results back by submission index *)
  Definition completions (xs : list A) (finish : list nat) (dflt : A) : list (nat * B) :=
    map (fun i => (i, f (nth i xs dflt))) finish.

  Fixpoint lookup (i : nat) (done : list (nat * B)) : option B :=
    match done with
    | [] => None
    | (j, v) :: r => if Nat.eqb i j then Some v else lookup i r
    end.

  Definition collect (n : nat) (done : list (nat * B)) : list (option B) :=
    map (fun i => lookup i done) (seq 0 n).

  (* sequential execution *)
  Definition sequential (xs : list A) : list (option B) := map (fun x => Some (f x)) xs.
End Pool.

(* ---- copy-back of sub-problem results into the receiver's tubes -------------------------- *)
Section Store.
  Context {V : Type}.
  Definition store := nat -> V.
  Definition update (s : store) (k : nat) (v : V) : store := fun j => if Nat.eqb j k then v else s j.
  (* every solved sub-problem returns (tube id, results) pairs; they are written back one by one *)
  Definition copy_back (s : store) (rs : list (nat * V)) : store := fold_left (fun st kv => update st (fst kv) (snd kv)) rs s.
End Store.

(* ---- paged results: one file per (prefix, field) ------------------------------------------------ *)
Section Paging.
  Context {V : Type}.
  Definition files := (nat * nat) -> V.                     (* (prefix, field) -> contents *)
  Definition fwrite (fs : files) (k : nat * nat) (v : V) : files :=
    fun k' => if (Nat.eqb (fst k') (fst k) && Nat.eqb (snd k') (snd k))%bool then v else fs k'.
  (* a write of tube t to its field, through the prefix numbering pre *)
  Record wr := mkWr { w_tube : nat; w_field : nat; w_val : V }.
  Definition paged (pre : nat -> nat) (fs : files) (ws : list wr) : files :=
    fold_left (fun st w => fwrite st (pre (w_tube w), w_field w) (w_val w)) ws fs.
  (* what tube t reads back *)
  Definition pread (pre : nat -> nat) (fs : files) (t fld : nat) : V := fs (pre t, fld).
  (* the same writes into per-tube dictionaries held in memory *)
  Definition inmem (d : files) (ws : list wr) : files :=
    fold_left (fun st w => fwrite st (w_tube w, w_field w) (w_val w)) ws d.
End Paging.
