(* E-model of the 2D (generalised plane strain) finite-element equations of srlife.structural.PythonSolver on bilinear
   quadrilaterals: isoparametric map of the reference square [0,1]^2, small strains of the nodal displacements at the
   quadrature points, Hooke's law with an isotropic thermal strain and a prescribed axial strain, the internal nodal
   forces and the axial force.  Over Q; meant to be evaluated at the implementation's output (nodes, connectivity,
   quadrature rule, displacements, stresses are data). *)
From Coq Require Import QArith Qabs List Bool.
Import ListNotations.
Open Scope Q_scope.

(* sums are kept in lowest terms (Qred), otherwise the denominators of an evaluation on float data multiply up *)
Definition sumQ (l : list Q) : Q := fold_right (fun x acc => Qred (x + acc)) 0 l.
Definition vec := (Q * Q)%type.

Record gauss2 := mkG2 { gx : Q; gy : Q; gw : Q }.                 (* reference point and weight *)
Record gp2 := mkD2 { th2 : Q; lam2 : Q; mu2 : Q }.                (* thermal strain and Lame constants at a point *)
Record stress2 := mkS2 { sxx : Q; syy : Q; szz : Q; sxy : Q }.

(* derivatives of the four bilinear shape functions (1-x)(1-y), x(1-y), xy, (1-x)y with respect to (x, y) of the
   reference square *)
Definition dshape (x y : Q) : list vec := [(-(1 - y), -(1 - x)); (1 - y, - x); (y, x); (- y, 1 - x)].

Definition dotl (a b : list Q) : Q := sumQ (map (fun ab => fst ab * snd ab) (combine a b)).

(* Jacobian of the map: ((dX/dx, dX/dy), (dY/dx, dY/dy)) for element nodes ns *)
Definition jac (ns : list vec) (x y : Q) : Q * Q * Q * Q :=
  let d := dshape x y in
  (dotl (map fst d) (map fst ns), dotl (map snd d) (map fst ns), dotl (map fst d) (map snd ns), dotl (map snd d) (map snd ns)).

Definition detj (j : Q * Q * Q * Q) : Q := let '(a, b, c, d) := j in a * d - b * c.

(* physical derivatives of the shape functions *)
Definition dphys (ns : list vec) (x y : Q) : list vec :=
  let '(a, b, c, d) := jac ns x y in
  let dt := a * d - b * c in
  map (fun dn => (Qred ((fst dn * d - snd dn * c) / dt), Qred ((- fst dn * b + snd dn * a) / dt))) (dshape x y).

(* strains (exx, eyy, engineering gxy) of the nodal displacements us at a point *)
Definition strain2 (ns us : list vec) (x y : Q) : Q * Q * Q :=
  let dp := dphys ns x y in
  (dotl (map fst dp) (map fst us), dotl (map snd dp) (map snd us),
   dotl (map snd dp) (map fst us) + dotl (map fst dp) (map snd us)).

Definition hooke2 (ez : Q) (e : Q * Q * Q) (d : gp2) : stress2 :=
  let '(exx, eyy, gxy) := e in
  let tr := (exx - th2 d) + (eyy - th2 d) + (ez - th2 d) in
  mkS2 (lam2 d * tr + 2 * mu2 d * (exx - th2 d)) (lam2 d * tr + 2 * mu2 d * (eyy - th2 d))
       (lam2 d * tr + 2 * mu2 d * (ez - th2 d)) (mu2 d * gxy).

Definition gp_stress2 (ez : Q) (ns us : list vec) (g : gauss2) (d : gp2) : stress2 :=
  hooke2 ez (strain2 ns us (gx g) (gy g)) d.

(* contribution of one quadrature point to the four nodal forces of its element *)
Definition gp_forces2 (ns : list vec) (g : gauss2) (s : stress2) : list vec :=
  let wd := Qred (gw g * Qabs (detj (jac ns (gx g) (gy g)))) in       (* the measure of the map, whatever the node orientation *)
  map (fun dn => (Qred (wd * (sxx s * fst dn + sxy s * snd dn)), Qred (wd * (sxy s * fst dn + syy s * snd dn)))) (dphys ns (gx g) (gy g)).

Definition vadd (a b : vec) : vec := (Qred (fst a + fst b), Qred (snd a + snd b)).
Fixpoint vsum4 (l : list (list vec)) : list vec :=
  match l with
  | [] => [(0, 0); (0, 0); (0, 0); (0, 0)]
  | f :: r => map (fun ab => vadd (fst ab) (snd ab)) (combine f (vsum4 r))
  end.

Definition elem_forces2 (ns : list vec) (gs : list gauss2) (ss : list stress2) : list vec :=
  vsum4 (map (fun gsd => gp_forces2 ns (fst gsd) (snd gsd)) (combine gs ss)).

Definition pick {A} (d : A) (l : list A) (ids : list nat) : list A := map (fun i => nth i l d) ids.

(* global internal forces: the element forces are computed once, then summed at every node over the elements that
   contain it *)
Definition elem_table (nodes : list vec) (conn : list (list nat)) (gs : list gauss2) (ss : list (list stress2))
  : list (list (nat * vec)) :=
  map (fun es => let '(el, s) := es in combine el (elem_forces2 (pick (0, 0) nodes el) gs s)) (combine conn ss).

Definition node_force (tab : list (list (nat * vec))) (n : nat) : vec :=
  fold_right vadd (0, 0)
    (map (fun row => fold_right vadd (0, 0) (map (fun af => if Nat.eqb (fst af) n then snd af else (0, 0)) row)) tab).

Definition internal2 (nodes : list vec) (conn : list (list nat)) (gs : list gauss2) (ss : list (list stress2)) : list vec :=
  let tab := elem_table nodes conn gs ss in
  map (node_force tab) (seq 0 (length nodes)).

(* stresses the model computes from the nodal displacements *)
Definition all_stresses2 (ez : Q) (nodes disp : list vec) (conn : list (list nat)) (gs : list gauss2) (ds : list (list gp2))
  : list (list stress2) :=
  map (fun ed => let '(el, d) := ed in
                 map (fun gd => gp_stress2 ez (pick (0, 0) nodes el) (pick (0, 0) disp el) (fst gd) (snd gd)) (combine gs d))
      (combine conn ds).

(* axial force: integral of s_zz over the section *)
Definition axial2 (nodes : list vec) (conn : list (list nat)) (gs : list gauss2) (ss : list (list stress2)) : Q :=
  sumQ (map (fun es => let '(el, s) := es in
                       let ns := pick (0, 0) nodes el in
                       sumQ (map (fun gsd => gw (fst gsd) * Qabs (detj (jac ns (gx (fst gsd)) (gy (fst gsd)))) * szz (snd gsd)) (combine gs s)))
            (combine conn ss)).

(* residual: internal minus external nodal forces (ext has one entry per node) *)
Definition residual2 (nodes : list vec) (conn : list (list nat)) (gs : list gauss2) (ss : list (list stress2)) (ext : list vec) : list vec :=
  map (fun ie => (fst (fst ie) - fst (snd ie), snd (fst ie) - snd (snd ie))) (combine (internal2 nodes conn gs ss) ext).

Definition small (tol scale x : Q) : bool := Qle_bool (Qabs x) (tol * scale).
Definition small_vecs (tol scale : Q) (l : list vec) : bool := forallb (fun v => small tol scale (fst v) && small tol scale (snd v)) l.
Definition close_s2 (tol scale : Q) (a b : stress2) : bool :=
  small tol scale (sxx a - sxx b) && small tol scale (syy a - syy b) && small tol scale (szz a - szz b) && small tol scale (sxy a - sxy b).
Fixpoint close_stresses2 (tol scale : Q) (m i : list (list stress2)) : bool :=
  match m, i with
  | [], [] => true
  | a :: m', b :: i' => Nat.eqb (length a) (length b) && forallb (fun ab => close_s2 tol scale (fst ab) (snd ab)) (combine a b) && close_stresses2 tol scale m' i'
  | _, _ => false
  end.
