(* E-model of the receiver spring system (srlife.system / srlife.spring) for the
   network that make_network builds: root - panel manifolds - tube tops - tube
   bottoms (fixed).  A connection option is a linear spring, a rigid link or a
   disconnect; a tube seen from the network is an affine spring
   force = kt * d + f0 in its top displacement d.  Over Q. *)
From Coq Require Import QArith Qabs List Bool ZArith.
Import ListNotations.
Open Scope Q_scope.

Inductive opt := Lin (k : Q) | Rigid | Cut.

Record tube := mkTube { kt : Q; f0 : Q }.
Record panel := mkPanel { popt : opt; tubes : list tube }.
Record receiver := mkRec { ropt : opt; panels : list panel }.

(* a displacement field on the original (un-reduced) network *)
Record field := mkField { u_root : Q; u_man : nat -> Q; u_top : nat -> nat -> Q }.

Definition sumQ (l : list Q) : Q := fold_right Qplus 0 l.

Fixpoint mapi_from {A B} (f : nat -> A -> B) (i : nat) (l : list A) : list B :=
  match l with [] => [] | x :: r => f i x :: mapi_from f (S i) r end.
Definition mapi {A B} (f : nat -> A -> B) (l : list A) : list B := mapi_from f 0 l.

(* force a tube exerts on its top node (it resists the top displacement) *)
Definition tube_force (t : tube) (d : Q) : Q := - (kt t * d + f0 t).

(* net force on the top node (p,q) and on manifold p from what hangs below it *)
Definition top_residual (pn : panel) (um ut : Q) (t : tube) : Q :=
  match popt pn with
  | Lin k => - k * (ut - um) + tube_force t ut
  | Rigid => 0                       (* merged into the manifold cluster *)
  | Cut => tube_force t ut
  end.

Definition below_manifold (pn : panel) (um : Q) (uts : list Q) : Q :=
  match popt pn with
  | Lin k => sumQ (map (fun ut => k * (ut - um)) uts)
  | Rigid => sumQ (map (fun tu => tube_force (fst tu) (snd tu)) (combine (tubes pn) uts))
  | Cut => 0
  end.

Definition tops (u : field) (p : nat) (pn : panel) : list Q := mapi (fun q _ => u_top u p q) (tubes pn).

(* ---- equilibrium of the un-reduced network ---------------------------------- *)
Definition compatible (r : receiver) (u : field) : Prop :=
  (ropt r = Rigid -> forall p, (p < length (panels r))%nat -> u_man u p == u_root u) /\
  (forall p pn, nth_error (panels r) p = Some pn -> popt pn = Rigid ->
     forall q, (q < length (tubes pn))%nat -> u_top u p q == u_man u p).

Definition tops_balanced (r : receiver) (u : field) : Prop :=
  forall p pn q t, nth_error (panels r) p = Some pn -> nth_error (tubes pn) q = Some t ->
    top_residual pn (u_man u p) (u_top u p q) t == 0.

Definition manifold_residual (r : receiver) (u : field) (p : nat) (pn : panel) : Q :=
  match ropt r with
  | Lin K => - K * (u_man u p - u_root u) + below_manifold pn (u_man u p) (tops u p pn)
  | Rigid => 0
  | Cut => below_manifold pn (u_man u p) (tops u p pn)
  end.

Definition root_residual (r : receiver) (u : field) : Q :=
  match ropt r with
  | Lin K => sumQ (mapi (fun p _ => K * (u_man u p - u_root u)) (panels r))
  | Rigid => sumQ (mapi (fun p pn => below_manifold pn (u_man u p) (tops u p pn)) (panels r))
  | Cut => 0
  end.

Definition Equil (r : receiver) (u : field) : Prop :=
  compatible r u /\ tops_balanced r u /\
  (forall p pn, nth_error (panels r) p = Some pn -> manifold_residual r u p pn == 0) /\
  root_residual r u == 0.

(* ---- the edge force assembly of spring.fj -------------------------------------- *)
(* contribution of one edge between dofs ii and jj (ii <> jj) carrying the spring
   law f: returns (force on ii, force on jj) *)
Definition fj (f : Q -> Q) (ii jj : nat) (dii djj : Q) : Q * Q :=
  let ss := if Nat.ltb jj ii then 1 else -1 in
  let frc := f ((djj - dii) * ss) in
  ((- frc) * ss, frc * ss).

(* ---- executable certificate ------------------------------------------------------- *)
Definition small (tol scale x : Q) : bool := Qle_bool (Qabs x) (tol * scale).

(* reconstruct manifold and root displacements from the tube-top displacements
   the implementation reports, then test every balance *)
Definition man_from_tops (pn : panel) (uts : list Q) (ur : Q) : Q :=
  match popt pn, tubes pn, uts with
  | Rigid, _, ut :: _ => ut
  | Lin k, t :: _, ut :: _ => ut + (kt t * ut + f0 t) / k
  | _, _, _ => ur
  end.

Definition is_cut (o : opt) : bool := match o with Cut => true | _ => false end.

Definition root_from (r : receiver) (utops : list (list Q)) : Q :=
  let ms := map (fun pu => man_from_tops (fst pu) (snd pu) 0)
                (filter (fun pu => negb (is_cut (popt (fst pu)))) (combine (panels r) utops)) in
  match ropt r, ms with
  | Cut, _ => 0
  | _, [] => 0
  | Rigid, m :: _ => m
  | Lin _, _ => sumQ ms / inject_Z (Z.of_nat (length ms))
  end.

Definition field_of (r : receiver) (utops : list (list Q)) : field :=
  let ur := root_from r utops in
  mkField ur
          (fun p => man_from_tops (nth p (panels r) (mkPanel Cut [])) (nth p utops []) ur)
          (fun p q => nth q (nth p utops []) 0).

Definition scale_of (r : receiver) (utops : list (list Q)) : Q :=
  1 + sumQ (map (fun pu => sumQ (map (fun tu => Qabs (kt (fst tu) * snd tu) + Qabs (f0 (fst tu)))
                                     (combine (tubes (fst pu)) (snd pu))))
                (combine (panels r) utops)).

Definition opt_k (o : opt) : Q := match o with Lin k => Qabs k | _ => 0 end.

Definition equilb (tol : Q) (r : receiver) (utops : list (list Q)) : bool :=
  let u := field_of r utops in
  let sc := scale_of r utops * (1 + opt_k (ropt r)) in
  Nat.eqb (length utops) (length (panels r)) &&
  forallb (fun x => x) (mapi (fun p pn =>
     Nat.eqb (length (nth p utops [])) (length (tubes pn)) &&
     (* compatibility *)
     (match popt pn with
      | Rigid => forallb (fun ut => small tol sc (ut - u_man u p)) (nth p utops [])
      | _ => true end) &&
     (match ropt r with Rigid => small tol sc (u_man u p - u_root u) | _ => true end) &&
     (* tube tops *)
     forallb (fun x => x) (mapi (fun q t => small tol (sc * (1 + opt_k (popt pn))) (top_residual pn (u_man u p) (u_top u p q) t)) (tubes pn)) &&
     (* manifold *)
     small tol (sc * (1 + opt_k (popt pn))) (manifold_residual r u p pn)) (panels r)) &&
  small tol (sc * (1 + sumQ (map (fun pn => opt_k (popt pn)) (panels r)))) (root_residual r u).
