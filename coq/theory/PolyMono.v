(* Real polynomials of degree <= 4: strictly negative derivative on an interval
   implies strictly decreasing there (mean value theorem from Coquelicot). *)
From Coq Require Import Reals Lra.
From Coquelicot Require Import Coquelicot.
Open Scope R_scope.

Definition q4 (c0 c1 c2 c3 c4 y : R) : R := c4 * y ^ 4 + c3 * y ^ 3 + c2 * y ^ 2 + c1 * y + c0.
Definition dq4 (c1 c2 c3 c4 y : R) : R := 4 * c4 * y ^ 3 + 3 * c3 * y ^ 2 + 2 * c2 * y + c1.

Lemma q4_is_derive c0 c1 c2 c3 c4 y : is_derive (q4 c0 c1 c2 c3 c4) y (dq4 c1 c2 c3 c4 y).
Proof. unfold q4, dq4. auto_derive; [exact I | ring]. Qed.

Theorem q4_decreasing c0 c1 c2 c3 c4 lo hi :
  (forall t, lo <= t <= hi -> dq4 c1 c2 c3 c4 t < 0) ->
  forall x y, lo <= x -> x < y -> y <= hi -> q4 c0 c1 c2 c3 c4 y < q4 c0 c1 c2 c3 c4 x.
Proof.
  intros Hd x y Hx Hxy Hy.
  assert (G : - q4 c0 c1 c2 c3 c4 x < - q4 c0 c1 c2 c3 c4 y).
  { apply (incr_function_le (fun t => - q4 c0 c1 c2 c3 c4 t) (Finite lo) (Finite hi) (fun t => - dq4 c1 c2 c3 c4 t)).
    - intros t Ht1 Ht2. apply (is_derive_opp (q4 c0 c1 c2 c3 c4) t (dq4 c1 c2 c3 c4 t)). apply q4_is_derive.
    - intros t Ht1 Ht2. cbn in Ht1, Ht2. specialize (Hd t (conj Ht1 Ht2)). lra.
    - exact Hx.
    - exact Hxy.
    - exact Hy. }
  lra.
Qed.

(* with a positive numerator polynomial, P / T decreases in T > 0 *)
Lemma ratio_decreasing_in_T (P T1 T2 : R) : 0 < P -> 0 < T1 -> T1 < T2 -> P / T2 < P / T1.
Proof.
  intros HP H1 H12. unfold Rdiv. apply Rmult_lt_compat_l; [exact HP|].
  apply Rinv_lt_contravar; [apply Rmult_lt_0_compat; lra | exact H12].
Qed.
