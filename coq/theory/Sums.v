(* Finite sums of rationals over lists of indices: extensionality, linearity,
   exchange of the order of summation, telescoping. *)
From Coq Require Import QArith List Lia Lqa.
Import ListNotations.
Open Scope Q_scope.

Fixpoint sumL {A : Type} (f : A -> Q) (l : list A) : Q :=
  match l with
  | [] => 0
  | x :: r => f x + sumL f r
  end.

Lemma sumL_ext {A} (f g : A -> Q) l :
  (forall x, In x l -> f x == g x) -> sumL f l == sumL g l.
Proof.
  induction l as [|x r IH]; intros H; cbn [sumL]; [reflexivity|].
  rewrite (H x) by (left; reflexivity). rewrite IH; [reflexivity|].
  intros y Hy. apply H. right. exact Hy.
Qed.

Lemma sumL_plus {A} (f g : A -> Q) l : sumL (fun x => f x + g x) l == sumL f l + sumL g l.
Proof. induction l as [|x r IH]; cbn [sumL]; [ring | rewrite IH; ring]. Qed.

Lemma sumL_minus {A} (f g : A -> Q) l : sumL (fun x => f x - g x) l == sumL f l - sumL g l.
Proof. induction l as [|x r IH]; cbn [sumL]; [ring | rewrite IH; ring]. Qed.

Lemma sumL_scale {A} (c : Q) (f : A -> Q) l : sumL (fun x => c * f x) l == c * sumL f l.
Proof. induction l as [|x r IH]; cbn [sumL]; [ring | rewrite IH; ring]. Qed.

Lemma sumL_zero {A} (l : list A) : sumL (fun _ => 0) l == 0.
Proof. induction l as [|x r IH]; cbn [sumL]; [reflexivity | rewrite IH; ring]. Qed.

Lemma sumL_zero_ext {A} (f : A -> Q) l : (forall x, In x l -> f x == 0) -> sumL f l == 0.
Proof. intros H. rewrite (sumL_ext f (fun _ => 0) l H). apply sumL_zero. Qed.

Lemma sumL_swap {A B} (f : A -> B -> Q) (l1 : list A) (l2 : list B) :
  sumL (fun x => sumL (fun y => f x y) l2) l1 == sumL (fun y => sumL (fun x => f x y) l1) l2.
Proof.
  induction l1 as [|x r IH]; cbn [sumL].
  - symmetry. apply sumL_zero.
  - rewrite IH. rewrite <- sumL_plus. reflexivity.
Qed.

Lemma sumL_nonneg {A} (f : A -> Q) l : (forall x, In x l -> 0 <= f x) -> 0 <= sumL f l.
Proof.
  induction l as [|x r IH]; intros H; cbn [sumL]; [lra|].
  assert (0 <= f x) by (apply H; left; reflexivity).
  assert (0 <= sumL f r) by (apply IH; intros y Hy; apply H; right; exact Hy). lra.
Qed.

Lemma sumL_le {A} (f g : A -> Q) l : (forall x, In x l -> f x <= g x) -> sumL f l <= sumL g l.
Proof.
  induction l as [|x r IH]; intros H; cbn [sumL]; [lra|].
  assert (f x <= g x) by (apply H; left; reflexivity).
  assert (sumL f r <= sumL g r) by (apply IH; intros y Hy; apply H; right; exact Hy). lra.
Qed.

(* telescoping over 1..n *)
Lemma sumL_telescope (F : nat -> Q) (n : nat) :
  sumL (fun i => F i - F (pred i)) (seq 1 n) == F n - F 0%nat.
Proof.
  assert (G : forall a, sumL (fun i => F i - F (pred i)) (seq (S a) n) == F (a + n)%nat - F a).
  { induction n as [|n IH]; intros a; cbn [seq sumL].
    - rewrite Nat.add_0_r. ring.
    - rewrite (IH (S a)). cbn [pred]. replace (S a + n)%nat with (a + S n)%nat by lia. ring. }
  apply (G 0%nat).
Qed.

Lemma sumL_single {A} (f : A -> Q) (x : A) : sumL f [x] == f x.
Proof. cbn [sumL]. ring. Qed.

(* a maximiser exists on a non-empty list *)
Lemma argmax_exists {A} (f : A -> Q) (l : list A) :
  l <> [] -> exists a, In a l /\ forall b, In b l -> f b <= f a.
Proof.
  induction l as [|x r IH]; intros H; [congruence|].
  destruct r as [|y r'].
  - exists x. split; [left; reflexivity|]. intros b [<-|[]]. lra.
  - destruct IH as (a & Ha & Hmax); [discriminate|].
    destruct (Qlt_le_dec (f a) (f x)) as [Hlt | Hle].
    + exists x. split; [left; reflexivity|]. intros b [<-|Hb]; [lra|]. specialize (Hmax b Hb). lra.
    + exists a. split; [right; exact Ha|]. intros b [<-|Hb]; [exact Hle | apply Hmax; exact Hb].
Qed.
