(* Property C08 — results do not depend on thread count, paging or progress
   options.  Statements only; proofs in proofs/SchedProofs.v; the tables are
   coq/gen/Dispatch.v, regenerated from srlife on every run.

   What is proved: an ordered pool map returns the sequential result for every
   order in which the workers finish (any permutation), so two schedules agree;
   writing solved sub-problems back into the receiver gives each tube its own
   results whatever the order and grouping of the sub-problems (distinct tubes);
   paged storage under an injective prefix numbering behaves exactly like the
   per-tube dictionaries held in memory -- and a numbering that shares a prefix
   does not (refuted); numbering the tubes of the whole receiver consecutively
   is injective.  From the source: every pool call is an ordered map / imap over
   the receiver's tubes, edges or sub-problems and its results are paired with
   the same sequence; the prefix is the global tube number; copy_results takes
   over every result dictionary a tube owns; the progress decorator passes the
   iterator through.  That the worker function is pure (process isolation,
   pickling of the tube state) and floating-point sums are taken in list order
   is checked by running the pipeline under different configurations in
   harness/props/c08.py. *)
From Coq Require Import List String Bool Permutation.
From SV Require Import model.Sched proofs.SchedProofs gen.Dispatch.
Import ListNotations.

Theorem C08_pool_map_is_sequential :
  forall (A B : Type) (f : A -> B) (xs : list A) (finish : list nat) (dflt : A),
  Permutation finish (seq 0 (List.length xs)) ->
  collect (List.length xs) (completions f xs finish dflt) = sequential f xs.
Proof. exact @pool_map_is_sequential. Qed.
Print Assumptions C08_pool_map_is_sequential.

Theorem C08_schedule_independent :
  forall (A B : Type) (f : A -> B) xs fin1 fin2 d,
  Permutation fin1 (seq 0 (List.length xs)) -> Permutation fin2 (seq 0 (List.length xs)) ->
  collect (List.length xs) (completions f xs fin1 d) = collect (List.length xs) (completions f xs fin2 d).
Proof. exact @pool_map_schedule_independent. Qed.
Print Assumptions C08_schedule_independent.

Theorem C08_copy_back_gives_each_tube_its_results :
  forall (V : Type) (rs : list (nat * V)) s k v, NoDup (map fst rs) -> In (k, v) rs -> copy_back s rs k = v.
Proof. exact @copy_back_lookup. Qed.
Print Assumptions C08_copy_back_gives_each_tube_its_results.

Theorem C08_copy_back_leaves_other_tubes :
  forall (V : Type) (rs : list (nat * V)) s k, ~ In k (map fst rs) -> copy_back s rs k = s k.
Proof. exact @copy_back_notin. Qed.
Print Assumptions C08_copy_back_leaves_other_tubes.

Theorem C08_copy_back_order_independent :
  forall (V : Type) (rs rs' : list (nat * V)) s k, NoDup (map fst rs) -> Permutation rs rs' -> copy_back s rs k = copy_back s rs' k.
Proof. exact @copy_back_order_independent. Qed.
Print Assumptions C08_copy_back_order_independent.

Theorem C08_paged_is_in_memory :
  forall (V : Type) (pre : nat -> nat) (ws : list (@wr V)) fs d t fld,
  (forall a b, pre a = pre b -> a = b) -> agree pre fs d -> pread pre (paged pre fs ws) t fld = inmem d ws (t, fld).
Proof. exact @paged_reads_own_values. Qed.
Print Assumptions C08_paged_is_in_memory.

Theorem C08_shared_prefix_refuted :
  exists (pre : nat -> nat) (ws : list (@wr nat)) t fld,
    pread pre (paged pre (fun _ => 0) ws) t fld <> inmem (fun _ => 0) ws (t, fld).
Proof. exact shared_prefix_refuted. Qed.
Print Assumptions C08_shared_prefix_refuted.

Theorem C08_global_numbering_injective :
  forall sizes p q p' q', p < List.length sizes -> p' < List.length sizes -> q < nth p sizes 0 -> q' < nth p' sizes 0 ->
  global_number sizes p q = global_number sizes p' q' -> p = p' /\ q = q'.
Proof. exact global_number_injective. Qed.
Print Assumptions C08_global_numbering_injective.

Definition ordered_method (m : string) : bool := String.eqb m "imap" || String.eqb m "map".

Theorem C08_source_facts :
  forallb (fun c => ordered_method (snd (fst c))) pool_calls = true /\
  Nat.leb 6 (List.length pool_calls) = true /\
  results_paired_in_order = true /\
  numbering = "global"%string /\
  forallb (fun d => existsb (String.eqb d) copied_dicts) tube_dicts = true /\
  progress_is_passthrough = true.
Proof. repeat split; reflexivity. Qed.
Print Assumptions C08_source_facts.
