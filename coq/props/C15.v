(* Property C15 — strain bookkeeping, free expansion and causality.  Statements
   only; proofs in proofs/StrainProofs.v and proofs/StrainGen.v; the gen_* terms
   and the dump/copy tables are coq/gen/StrainBook.v, regenerated from
   structural.py on every run.

   What is proved, for every temperature history, expansion law and number of
   steps: the code's thermal-strain update is the model's trapezoidal step on the
   diagonal and the identity off it (isotropy); total = mechanical + thermal;
   sym_grad / isotropic / difference tensors and the Hooke stress are symmetric;
   no thermal strain where the temperature never changed; alpha * (T - T0) for a
   constant coefficient (and the closed form for an affine one); what is stored
   for the first k steps is a function of the first k inputs (scan); cutting
   steps into sub-increments changes nothing when the trapezoidal rule is exact
   for the coefficient (constant, affine) -- and does otherwise (refuted); a
   strain equal to the thermal strain gives zero stress, and only that one does.
   The finite-element solve itself (scikit-fem, NEML) is tied by the
   differential runs of harness/props/c15.py, not proved. *)
From Coq Require Import QArith List Bool String.
From SV Require Import model.Strain proofs.StrainProofs gen.StrainBook proofs.StrainGen model.FE1D proofs.FE1DProofs.
Import ListNotations.

Theorem C15_code_step_is_model_step :
  forall a th T0 T1, (gen_th_step 1 th (a T0) (a T1) T0 T1 == th_step a th T0 T1)%Q.
Proof. exact gen_th_step_diagonal. Qed.
Print Assumptions C15_code_step_is_model_step.

Theorem C15_thermal_strain_isotropic :
  forall th c0 c1 T0 T1, (gen_th_step 0 th c0 c1 T0 T1 == th)%Q.
Proof. exact gen_th_step_offdiagonal. Qed.
Print Assumptions C15_thermal_strain_isotropic.

Theorem C15_partition : forall e th, (gen_mech e th + th == e)%Q.
Proof. exact gen_partition. Qed.
Print Assumptions C15_partition.

Theorem C15_partition_tensor : forall e th, teq (tadd (tsub e th) th) e.
Proof. exact partition. Qed.
Print Assumptions C15_partition_tensor.

Theorem C15_mechanical_symmetric : forall g x, symmetric (tsub (sym_grad g) (iso x)).
Proof. exact mechanical_symmetric. Qed.
Print Assumptions C15_mechanical_symmetric.

Theorem C15_stress_symmetric : forall lam mu e, symmetric e -> symmetric (hooke lam mu e).
Proof. exact hooke_symmetric. Qed.
Print Assumptions C15_stress_symmetric.

Theorem C15_stored_components_symmetric : forall s, symmetric (full s).
Proof. exact full_symmetric. Qed.
Print Assumptions C15_stored_components_symmetric.

Theorem C15_tables : dump_tables_ok = true /\ copy_complete = true.
Proof. split; reflexivity. Qed.
Print Assumptions C15_tables.

Theorem C15_unchanged_temperature_no_thermal_strain :
  forall a Tref Ts th T0, (T0 == Tref)%Q -> (forall T, In T Ts -> (T == Tref)%Q) ->
  forall x, In x (th_hist a th T0 Ts) -> (x == th)%Q.
Proof. exact th_hist_unchanged. Qed.
Print Assumptions C15_unchanged_temperature_no_thermal_strain.

Theorem C15_constant_coefficient :
  forall c Ts th T0 k, (k < List.length Ts)%nat ->
  (nth k (th_hist (fun _ => c) th T0 Ts) 0 == th + c * (nth k Ts 0 - T0))%Q.
Proof. exact th_hist_constant. Qed.
Print Assumptions C15_constant_coefficient.

Theorem C15_affine_coefficient :
  forall p q Ts th T0 k, (k < List.length Ts)%nat ->
  (nth k (th_hist (fun T => p + q * T) th T0 Ts) 0 == th + p * (nth k Ts 0 - T0) + q * (nth k Ts 0 * nth k Ts 0 - T0 * T0) / 2)%Q.
Proof. exact th_hist_affine. Qed.
Print Assumptions C15_affine_coefficient.

Theorem C15_causality_thermal :
  forall a k th T0 Ts, firstn k (th_hist a th T0 Ts) = th_hist a th T0 (firstn k Ts).
Proof. exact th_hist_firstn. Qed.
Print Assumptions C15_causality_thermal.

Theorem C15_causality_scan :
  forall (St Inp : Type) (step : St -> Inp -> St) s l1 l2 l2',
  firstn (List.length l1) (scan step s (l1 ++ l2)) = firstn (List.length l1) (scan step s (l1 ++ l2')).
Proof. exact @scan_prefix_independent. Qed.
Print Assumptions C15_causality_scan.

Theorem C15_subdivision_independent :
  forall p q Ts subs th T0 k, Forall (fun n => (0 < n)%nat) subs -> (k < List.length Ts)%nat ->
  (nth k (th_hist_sub (fun T => p + q * T) th T0 Ts subs) 0 == nth k (th_hist (fun T => p + q * T) th T0 Ts) 0)%Q.
Proof. exact subdivision_independent_affine. Qed.
Print Assumptions C15_subdivision_independent.

Theorem C15_subdivision_general_refuted :
  exists a : Q -> Q, ~ (th_end a 0 0 (sub_temps 2 0 1) == th_step a 0 0 1)%Q.
Proof. exact subdivision_dependent_refuted. Qed.
Print Assumptions C15_subdivision_general_refuted.

Theorem C15_sub_increments_end_at_the_step :
  (forall cprog inc tprog, ~ (tprog == 0)%Q -> (cprog + inc == tprog)%Q -> (gen_sf cprog inc tprog == 1)%Q) /\
  (forall T0 T1, (gen_T T0 T1 1 == T1 /\ gen_t T0 T1 1 == T1 /\ gen_dtop T1 1 == T1)%Q).
Proof. split; [exact gen_sf_last | exact gen_T_end]. Qed.
Print Assumptions C15_sub_increments_end_at_the_step.

Theorem C15_free_expansion :
  forall lam mu x e, teq e (iso x) -> teq (hooke lam mu (tsub e (iso x))) (fun _ _ => 0%Q).
Proof. exact free_expansion_no_stress. Qed.
Print Assumptions C15_free_expansion.

Theorem C15_only_free_expansion_is_stress_free :
  forall lam mu x e, (0 < mu)%Q -> (0 < 3 * lam + 2 * mu)%Q ->
  teq (hooke lam mu (tsub e (iso x))) (fun _ _ => 0%Q) -> teq e (iso x).
Proof. exact no_stress_only_free_expansion. Qed.
Print Assumptions C15_only_free_expansion_is_stress_free.

(* non-vacuity: a concrete history meets the hypotheses *)
Example C15_example :
  (nth 1 (th_hist (fun T => 1 # 100000) 0 300 [400; 350]) 0 == (1 # 100000) * (350 - 300))%Q.
Proof. vm_compute. reflexivity. Qed.

(* free expansion at the level of the discrete equations: u = c r with axial strain c and thermal strain c at every
   quadrature point leaves no nodal force, on every mesh, with every quadrature rule and every elastic data *)
Theorem C15_free_expansion_solves_the_discrete_equations :
  forall c gs rs ds, mesh_ok gs rs -> Forall (Forall (fun d => (FE1D.th d == c)%Q)) ds ->
  all_zero (internal_force c gs rs (map (Qmult c) rs) ds).
Proof. exact free_expansion_is_a_discrete_solution. Qed.
Print Assumptions C15_free_expansion_solves_the_discrete_equations.
