(* Property C18 — the film coefficient follows the documented correlation and is
   physically admissible.  Statements only; proofs in proofs/FilmProofs.v.  The
   Gnielinski expression itself (logarithm, real powers) is a parameter gn of
   the model; its value and its monotonicity in Re on the documented box are
   validated against an independent evaluation by harness/props/c18.py. *)
From Coq Require Import QArith Qminmax List Bool.
From SV Require Import model.Film proofs.FilmProofs.
Open Scope Q_scope.

Theorem C18_T_effective_in_window : forall f T, T_min f <= T_max f -> T_min f <= T_eff f T <= T_max f.
Proof. exact T_eff_in_window. Qed.
Print Assumptions C18_T_effective_in_window.

Theorem C18_T_effective_identity_inside : forall f T, T_min f <= T <= T_max f -> T_eff f T == T.
Proof. exact T_eff_identity_inside. Qed.
Print Assumptions C18_T_effective_identity_inside.

Theorem C18_T_effective_idempotent : forall f T, T_min f <= T_max f -> T_eff f (T_eff f T) == T_eff f T.
Proof. exact T_eff_idempotent. Qed.
Print Assumptions C18_T_effective_idempotent.

Theorem C18_film_floor : forall gn f T u r, film_min f <= film gn f T u r.
Proof. exact film_floor. Qed.
Print Assumptions C18_film_floor.

Theorem C18_film_positive : forall gn f T u r, 0 < film_min f -> 0 < film gn f T u r.
Proof. exact film_positive. Qed.
Print Assumptions C18_film_positive.

Theorem C18_laminar_value :
  forall gn f T u r, reynolds f (T_eff f T) u r < laminar_cutoff f -> nusselt gn f T u r = laminar_value f.
Proof. exact laminar_value_below_cutoff. Qed.
Print Assumptions C18_laminar_value.

Theorem C18_turbulent_is_correlation :
  forall gn f T u r, laminar_cutoff f <= reynolds f (T_eff f T) u r ->
  nusselt gn f T u r = gn (reynolds f (T_eff f T) u r) (prandtl f (T_eff f T)).
Proof. exact turbulent_is_correlation. Qed.
Print Assumptions C18_turbulent_is_correlation.

Theorem C18_reynolds_linear_in_u : forall f T u r c, reynolds f T (c * u) r == c * reynolds f T u r.
Proof. exact reynolds_linear_in_u. Qed.
Print Assumptions C18_reynolds_linear_in_u.

Theorem C18_film_monotone_in_u_turbulent_partial :
  forall gn f T u u' r,
  (forall re re' pr, laminar_cutoff f <= re -> re <= re' -> gn re pr <= gn re' pr) ->
  0 < rho f (T_eff f T) -> 0 < mu f (T_eff f T) -> 0 < r -> 0 <= kc f T ->
  u <= u' -> laminar_cutoff f <= reynolds f (T_eff f T) u r ->
  film gn f T u r <= film gn f T u' r.
Proof. exact film_monotone_in_u_turbulent. Qed.
Print Assumptions C18_film_monotone_in_u_turbulent_partial.
