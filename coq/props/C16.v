(* Property C16 — saving and reloading a receiver changes nothing.  Statements
   only.  Generic round-trip facts about model/H5.v; the facts about the
   source are in props/C16_fields.v. *)
From Coq Require Import List String Bool ZArith.
From SV Require Import model.H5 proofs.H5Proofs.
Import ListNotations.
Open Scope string_scope.

Theorem C16_roundtrip_values :
  forall keys rec k, In k keys -> same_value (load keys (save keys rec) k) (rec k) = true.
Proof. exact roundtrip_values. Qed.
Print Assumptions C16_roundtrip_values.

Theorem C16_roundtrip_nothing_invented :
  forall keys rec k, ~ In k keys -> load keys (save keys rec) k = Missing.
Proof. exact roundtrip_nothing_invented. Qed.
Print Assumptions C16_roundtrip_nothing_invented.

Theorem C16_numeric_option_survives_reload : forall v, is_numeric (h5_roundtrip v) = is_numeric v.
Proof. exact numeric_survives_reload. Qed.
Print Assumptions C16_numeric_option_survives_reload.

Theorem C16_ordered_container_order : forall keys rec, map fst (save keys rec) = keys.
Proof. exact ordered_container_order. Qed.
Print Assumptions C16_ordered_container_order.

