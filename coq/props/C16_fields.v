(* Property C16, second part: facts about the persisted classes of receiver.py and
   convert_to_spring as they are now, read from coq/gen/H5Fields.v, which
   harness/translators/h5fields.py regenerates on every run. *)
From Coq Require Import List String Bool ZArith.
From SV Require Import model.H5 gen.H5Fields.
Import ListNotations.
Open Scope string_scope.

(* ---- the source as it is now ------------------------------------------------------ *)
(* every key a class writes is read back by its loader (the type tag is read by
   the dispatching loader), and nothing is read that was not written *)
Theorem C16_saved_keys_are_loaded :
  forallb (fun cs => subset (snd cs) ("attr:type" :: assoc (fst cs) loaded_keys)) saved_keys = true.
Proof. reflexivity. Qed.
Print Assumptions C16_saved_keys_are_loaded.

Theorem C16_loaded_keys_are_saved :
  forallb (fun cl => subset (snd cl) (assoc (fst cl) saved_keys)) loaded_keys = true.
Proof. reflexivity. Qed.
Print Assumptions C16_loaded_keys_are_saved.

(* every attribute a constructor creates is written by save, except the declared
   runtime-only / derived ones *)
Theorem C16_fields_covered :
  forallb (fun ca => subset (snd ca) (assoc (fst ca) written_attrs ++ assoc (fst ca) not_persisted)) ctor_attrs = true.
Proof. reflexivity. Qed.
Print Assumptions C16_fields_covered.

(* panels, tubes and flow paths are stored in insertion-ordered containers *)
Theorem C16_containers_ordered :
  forallb (fun x => snd x) ordered_containers = true /\ List.length ordered_containers = 3%nat.
Proof. split; reflexivity. Qed.
Print Assumptions C16_containers_ordered.

(* the loader dispatches every saved type tag to the class that wrote it *)
Theorem C16_bc_dispatch_total :
  forallb (fun ct => match assoc1 (snd ct) load_dispatch with Some c => String.eqb c (fst ct) | None => false end)
          type_strings = true /\ List.length type_strings = 4%nat.
Proof. split; reflexivity. Qed.
Print Assumptions C16_bc_dispatch_total.

(* the spring conversion accepts every real number type, so a reloaded
   numpy scalar is treated like the Python number that was saved *)
Theorem C16_spring_accepts_numpy_numbers :
  mem spring_numeric_test ["numbers.Real"; "numbers.Number"; "(numbers.Real,)"] = true.
Proof. reflexivity. Qed.
Print Assumptions C16_spring_accepts_numpy_numbers.
