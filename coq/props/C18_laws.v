(* Property C18, the film-coefficient laws as they stand in thermalfluid.py (coq/gen/FilmLaws.v, regenerated from
   the source on every run) are those of the model the theorems of C18.v are about.  Statements only; proofs in
   proofs/FilmLawsProofs.v. *)
From Coq Require Import QArith Qminmax List Bool String.
From SV Require Import model.Film gen.FilmLaws proofs.FilmLawsProofs.
Import ListNotations.

Theorem C18_source_window_is_model : forall f T, gen_T_eff f T = T_eff f T.
Proof. exact gen_T_eff_is_model. Qed.
Print Assumptions C18_source_window_is_model.

Theorem C18_source_properties_are_model :
  forall f T, gen_cp f T = cp f T /\ gen_rho f T = rho f T /\ gen_mu f T = mu f T /\ gen_k f T = kc f T.
Proof. exact gen_properties_are_model. Qed.
Print Assumptions C18_source_properties_are_model.

Theorem C18_source_reynolds_is_model : forall f T u r, gen_reynolds f T u r = reynolds f T u r.
Proof. exact gen_reynolds_is_model. Qed.
Print Assumptions C18_source_reynolds_is_model.

Theorem C18_source_prandtl_is_model : forall f T, gen_prandtl f T = prandtl f T.
Proof. exact gen_prandtl_is_model. Qed.
Print Assumptions C18_source_prandtl_is_model.

Theorem C18_source_selection_is_model : forall gn f T u r, gen_nusselt gn f T u r = nusselt gn f T u r.
Proof. exact gen_nusselt_is_model. Qed.
Print Assumptions C18_source_selection_is_model.

Theorem C18_source_film_is_model : forall gn f T u r, gen_film gn f T u r = film gn f T u r.
Proof. exact gen_film_is_model. Qed.
Print Assumptions C18_source_film_is_model.

Theorem C18_source_gnielinski_text :
  gen_friction_source = "(0.79*jnp.log(re)-1.64)**(-2.0)"%string /\
  gen_gnielinski_source = "f/8.0*(re-1000.0)*pr/(1.0+12.7*(f/8.0)**0.5*(pr**(2.0/3.0)-1.0))"%string.
Proof. exact gen_gnielinski_text. Qed.
Print Assumptions C18_source_gnielinski_text.

Theorem C18_source_defaults :
  gen_defaults = [("film_min"%string, 1 # 100000000); ("T_max"%string, 2000 # 1); ("T_min"%string, 0 # 1);
                  ("laminar_cutoff"%string, 2000 # 1); ("laminar_value"%string, 401 # 100)]%Q
  /\ forallb (fun kv => String.eqb (fst kv) (snd kv)) gen_stored = true.
Proof. exact gen_defaults_are_documented. Qed.
Print Assumptions C18_source_defaults.
