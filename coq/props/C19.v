(* Property C19 — boundary-condition objects interpolate their data faithfully
   and validate shapes.  Statements only; proofs in proofs/InterpProofs.v.
   The model (model/Interp.v) is tied to srlife/receiver.py by the typed
   correspondence of harness/props/c19.py. *)
From Coq Require Import QArith Qabs List Bool ZArith Qminmax.
From SV Require Import model.Interp proofs.InterpProofs.
Import ListNotations.
Open Scope Q_scope.

(* exactly the stored datum at a grid time, grid angle and grid height *)
Theorem C19_grid_exact :
  forall ts (nt : positive) zs data a b c,
  increasing ts -> increasing zs -> (2 <= length ts)%nat -> (2 <= length zs)%nat ->
  length data = length ts -> well_shaped3 (Pos.to_nat nt) (length zs) data ->
  (a < length ts)%nat -> (b < Pos.to_nat nt)%nat -> (c < length zs)%nat ->
  interp3_periodic ts nt zs data (nth a ts 0) (Z.of_nat b # nt) (nth c zs 0)
  == nth c (nth b (nth a data []) []) 0.
Proof. exact periodic_grid_exact. Qed.
Print Assumptions C19_grid_exact.

(* along each axis: the stored datum at grid points, between the neighbouring
   data inside a cell *)
Theorem C19_axis_grid_exact :
  forall xs ys i, increasing xs -> length ys = length xs -> (2 <= length xs)%nat -> (i < length xs)%nat ->
  interp1 xs ys (nth i xs 0) == nth i ys 0.
Proof. exact interp1_grid_exact. Qed.
Print Assumptions C19_axis_grid_exact.

Theorem C19_between_neighbours :
  forall xs ys i x, increasing xs -> length ys = length xs -> (S i < length xs)%nat ->
  nth i xs 0 <= x <= nth (S i) xs 0 ->
  Qmin (nth i ys 0) (nth (S i) ys 0) <= interp1 xs ys x <= Qmax (nth i ys 0) (nth (S i) ys 0).
Proof. exact interp1_between. Qed.
Print Assumptions C19_between_neighbours.

(* periodic in the circumferential angle (u = theta / 2 pi) *)
Theorem C19_periodic :
  forall ts nt zs data t u z (k : Z),
  interp3_periodic ts nt zs data t (u + inject_Z k) z == interp3_periodic ts nt zs data t u z.
Proof. exact periodic. Qed.
Print Assumptions C19_periodic.

(* across the seam the last and the FIRST column are interpolated *)
Theorem C19_seam_uses_first_column :
  forall (nt : positive) (ys : list Q) (y0 u : Q),
  length ys = Pos.to_nat nt -> hd 0 ys = y0 -> (Z.pos nt - 1 # nt) <= u <= 1 ->
  Qmin (last ys 0) y0 <= interp1 (ugrid_closed nt) (ys ++ [y0]) u <= Qmax (last ys 0) y0.
Proof. exact seam_between. Qed.
Print Assumptions C19_seam_uses_first_column.

(* a single value for scalar arguments; array arguments give the element-wise
   scalar values *)
Theorem C19_scalar_returns_scalar :
  forall base args, forallb is_sc args = true ->
  dispatch base args = RSc (base (map (fun a => arg_at a 0) args)).
Proof. exact dispatch_scalar. Qed.
Print Assumptions C19_scalar_returns_scalar.

Theorem C19_vector_agrees_with_scalar :
  forall base args l, dispatch base args = RAr l ->
  exists n, first_len args = Some n /\ length l = n /\
  forall i, (i < n)%nat -> dispatch base (scalar_query args i) = RSc (nth i l 0).
Proof. exact dispatch_vector. Qed.
Print Assumptions C19_vector_agrees_with_scalar.

(* constructors accept exactly the documented shapes *)
Theorem C19_ctor_accepts_iff_documented :
  forall k ntime nt nz given,
  ctor_accepts k ntime nt nz given = true <-> given = documented k ntime nt nz.
Proof. exact ctor_accepts_iff. Qed.
Print Assumptions C19_ctor_accepts_iff_documented.

(* attaching: a matching radius and height is accepted, a mismatch beyond
   numpy.isclose's default tolerance is rejected *)
Theorem C19_set_bc_accepts_match :
  forall (inner : bool) (r t h : Q), set_bc_accepts inner r t h (if inner then r - t else r) h = true.
Proof. exact set_bc_accepts_match. Qed.
Print Assumptions C19_set_bc_accepts_match.

Theorem C19_set_bc_rejects_mismatch :
  forall (inner : bool) (r t h bc_r bc_h : Q),
  let target := if inner then r - t else r in
  ((1 # 100000000) + (1 # 100000) * Qabs target < Qabs (bc_r - target)
   \/ (1 # 100000000) + (1 # 100000) * Qabs h < Qabs (bc_h - h)) ->
  set_bc_accepts inner r t h bc_r bc_h = false.
Proof. exact set_bc_rejects_mismatch. Qed.
Print Assumptions C19_set_bc_rejects_mismatch.

(* the pinned code before the repair (open theta grid, no wrap) left the
   range of the data in the seam cell *)
Theorem C19_pinned_open_grid_refuted :
  exists ts zs data t u z,
    let v := interp3_open ts 4 zs data t u z in
    Qle_bool v 16 = false /\ Qle_bool (interp3_periodic ts 4 zs data t u z) 16 = true
    /\ Qle_bool 1 (interp3_periodic ts 4 zs data t u z) = true.
Proof. exact open_grid_refuted. Qed.
Print Assumptions C19_pinned_open_grid_refuted.
