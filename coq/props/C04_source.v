(* Property C04, the edge force assembly as it stands in spring.py is the model's fj, and the residual selection and the
   network topology of system.py are the ones model/Spring.v's equilibrium statement is written for
   (coq/gen/SpringNet.v, regenerated from the source on every run).  Statements only; proofs in proofs/SpringNetProofs.v. *)
From Coq Require Import QArith List Bool String Arith.
From SV Require Import model.Spring gen.SpringNet proofs.SpringNetProofs.
Import ListNotations.

Theorem C04_source_edge_assembly_is_model : forall f ii jj dii djj, gen_fj f ii jj dii djj = fj f ii jj dii djj.
Proof. exact gen_fj_is_model. Qed.
Print Assumptions C04_source_edge_assembly_is_model.

Theorem C04_source_edge_jacobian_stencil :
  gen_fj_jacobian = [("J[ii,ii]", "k"); ("J[ii,jj]", "-k"); ("J[jj,ii]", "-k"); ("J[jj,jj]", "k")]%string.
Proof. exact gen_fj_jacobian_is_symmetric_stencil. Qed.
Print Assumptions C04_source_edge_jacobian_stencil.

Theorem C04_source_residual_and_topology : gen_network_sources = expected_network_sources.
Proof. exact gen_network_sources_are_modelled. Qed.
Print Assumptions C04_source_residual_and_topology.
