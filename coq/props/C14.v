(* Property C14 — the flow-path solution balances heat and mass at every link.
   Statements only; proofs in proofs/FlowPathProofs.v.  The model
   (model/FlowPath.v) is tied to srlife/thermohydraulics/flowpath.py by
   harness/props/c14.py. *)
From Coq Require Import QArith List Bool ZArith.
From SV Require Import model.FlowPath proofs.FlowPathProofs.
Import ListNotations.
Open Scope Q_scope.

(* zero residual of the whole chain <=> first node = inlet, and for every panel
   in the declared order: every tube's heat balance with the previous node as
   inlet, and the manifold mixing rule *)
Theorem C14_zero_residual_iff_balances :
  forall pi f mdot inlet panels t0 rest,
  all_zero (path_residual pi f mdot inlet panels (t0 :: rest)) <->
  t0 == inlet /\ chain_balanced pi f mdot panels t0 rest.
Proof. exact zero_residual_iff_balances. Qed.
Print Assumptions C14_zero_residual_iff_balances.

(* per tube: enthalpy gained by the fluid = convective heat received from the wall *)
Theorem C14_tube_balance :
  forall pi f p mdot tin w tout tm, ~ w == 0 ->
  (q_mass f p mdot tin w tout - q_conv pi f p mdot tin w tout tm == 0 <->
   enthalpy_gain f p mdot tin tout == wall_heat pi f p mdot tin tout tm).
Proof. exact tube_balance. Qed.
Print Assumptions C14_tube_balance.

Theorem C14_manifold_mean :
  forall p touts tman, manifold_residual p touts tman == 0 <->
  tman == sumQ (map (fun wt => fst wt * snd wt) (combine (weights p) touts)) / ntube p.
Proof. exact manifold_mean. Qed.
Print Assumptions C14_manifold_mean.

(* the reported velocities carry exactly the prescribed mass flow, split in
   proportion to the multipliers *)
Theorem C14_mass_split :
  forall pi f p mdot tin touts,
  ~ ntube p == 0 -> ~ pi == 0 -> ~ ri p == 0 -> (forall tout, In tout touts -> ~ rho f (tmean tin tout) == 0) ->
  length touts = length (weights p) ->
  sumQ (map (fun wt => fst wt * (rho f (tmean tin (snd wt)) * velocity pi f p mdot tin (snd wt) * (pi * (ri p * ri p))))
            (combine (weights p) touts)) == mdot.
Proof. exact mass_split. Qed.
Print Assumptions C14_mass_split.

Theorem C14_tube_carries_its_share :
  forall pi f p mdot tin tout, ~ ntube p == 0 -> ~ pi == 0 -> ~ ri p == 0 -> ~ rho f (tmean tin tout) == 0 ->
  rho f (tmean tin tout) * velocity pi f p mdot tin tout * (pi * (ri p * ri p)) == mdot / ntube p.
Proof. exact velocity_mass. Qed.
Print Assumptions C14_tube_carries_its_share.

(* the reported fluid temperature is affine in z, from the panel inlet at z = 0
   to the tube outlet at z = h *)
Theorem C14_linear_profile :
  forall p tin tout, ~ ht p == 0 -> forall k z, nth_error (zs p) k = Some z ->
  exists v, nth_error (fluid_temps p tin tout) k = Some v /\ v == tin + (tout - tin) * (z / ht p).
Proof. exact linear_profile. Qed.
Print Assumptions C14_linear_profile.
