(* Property C18, the correlation itself: the Gnielinski expression as written in
   thermalfluid.nusselt is non-decreasing in the Reynolds number from Re = 1000
   on for every Prandtl number >= 1 -- the hypothesis of
   C18_film_monotone_in_u_turbulent_partial, discharged over the reals.
   Statements only; proofs in proofs/Gnielinski.v. *)
From Coq Require Import Reals.
From SV Require Import proofs.Gnielinski.
Open Scope R_scope.

Theorem C18_gnielinski_monotone_in_reynolds :
  forall pr x y, 1 <= pr -> 1000 <= x -> x <= y ->
  gnu x pr (Rpower pr (2 / 3) - 1) <= gnu y pr (Rpower pr (2 / 3) - 1).
Proof. exact gnielinski_monotone. Qed.
Print Assumptions C18_gnielinski_monotone_in_reynolds.

Theorem C18_gnielinski_monotone_general :
  forall pr q x y, 0 <= pr -> 0 <= q -> 1000 <= x -> x <= y -> gnu x pr q <= gnu y pr q.
Proof. exact gnielinski_monotone_in_re. Qed.
Print Assumptions C18_gnielinski_monotone_general.

Theorem C18_gnielinski_is_the_code_expression :
  forall re, 1000 <= re -> gg re = / (ga re * ga re) / 8.
Proof. exact gg_is_f_over_8. Qed.
Print Assumptions C18_gnielinski_is_the_code_expression.
