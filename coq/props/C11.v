(* Property C11 — the reported axial stiffness is the derivative of the reported
   axial force, and positive.  Statements only; proofs in proofs/Schur.v
   (MathComp matrices over an arbitrary field).

   The structural solver eliminates the free dofs u from the linearised system
       A u + B d = f            (equilibrium of the free dofs)
       r(d) = C u + D d - g     (reactions on the dofs carrying the imposed d)
   and reports e^T (D - C A^-1 B) e.  What is proved, for all sizes: the eliminated
   u is the unique equilibrium; r is affine in d with slope the Schur complement, so
   the reported number is exactly the difference quotient of the summed reaction; it
   is positive whenever the system's energy is.  (For 1D/2D the imposed quantity is
   the axial strain: A the in-plane stiffness, B and C the tangent column/row C_..zz
   and C_zz.., D the integral of C_zzzz -- the same theorem with m = 1.)
   That the nonlinear force of the implementation has this derivative at the
   converged state is checked by difference quotients in harness/props/c11.py. *)
From mathcomp Require Import all_ssreflect all_algebra.
From SV Require Import proofs.Schur.
Import GRing.Theory Num.Theory.
Local Open Scope ring_scope.

Theorem C11_eliminated_dofs_in_equilibrium :
  forall (F : fieldType) (n m : nat) (A : 'M[F]_n) (B : 'M[F]_(n, m)) (f : 'cV[F]_n), A \in unitmx ->
  forall d : 'cV[F]_m, A *m usol A B f d + B *m d = f /\ (forall u, A *m u + B *m d = f -> u = usol A B f d).
Proof. move=> F n m A B f HA d; split; [exact: usol_equilibrium | exact: usol_unique]. Qed.
Print Assumptions C11_eliminated_dofs_in_equilibrium.

Theorem C11_reaction_slope_is_schur_complement :
  forall (F : fieldType) (n m : nat) (A : 'M[F]_n) (B : 'M[F]_(n, m)) (C : 'M[F]_(m, n)) (D : 'M[F]_m)
         (f : 'cV[F]_n) (g : 'cV[F]_m), A \in unitmx ->
  forall d1 d2 : 'cV[F]_m, react A B C D f g d2 - react A B C D f g d1 = schur A B C D *m (d2 - d1).
Proof. move=> F n m A B C D f g HA d1 d2; exact: react_affine. Qed.
Print Assumptions C11_reaction_slope_is_schur_complement.

Theorem C11_reported_stiffness_is_difference_quotient :
  forall (F : fieldType) (n m : nat) (A : 'M[F]_n) (B : 'M[F]_(n, m)) (C : 'M[F]_(m, n)) (D : 'M[F]_m)
         (f : 'cV[F]_n) (g : 'cV[F]_m), A \in unitmx ->
  forall (e : 'cV[F]_m) (s1 s2 : F),
  e^T *m (react A B C D f g (s2 *: e) - react A B C D f g (s1 *: e)) = (s2 - s1) *: (e^T *m schur A B C D *m e).
Proof. move=> F n m A B C D f g HA e s1 s2; exact: react_scalar. Qed.
Print Assumptions C11_reported_stiffness_is_difference_quotient.

Theorem C11_stiffness_positive :
  forall (F : numFieldType) (n m : nat) (A : 'M[F]_n) (B : 'M[F]_(n, m)) (C : 'M[F]_(m, n)) (D : 'M[F]_m), A \in unitmx ->
  (forall (u : 'cV[F]_n) (d : 'cV[F]_m), d != 0 -> 0 < (u^T *m (A *m u + B *m d) + d^T *m (C *m u + D *m d)) 0 0) ->
  forall d : 'cV[F]_m, d != 0 -> 0 < (d^T *m schur A B C D *m d) 0 0.
Proof. move=> F n m A B C D HA Hpos d; exact: schur_positive. Qed.
Print Assumptions C11_stiffness_positive.
