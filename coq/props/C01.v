(* Property C01 — metallic life is the envelope crossing of the worst material
   point.  Statements only; proofs in proofs/LifeProofs.v, proofs/LifeMin.v,
   proofs/LifeInvariance.v.  The model (model/Life.v) is tied to
   srlife/damage.py and srlife/materials.py by harness/props/c01.py. *)
From Coq Require Import QArith List Bool ZArith.
From SV Require Import model.Life proofs.LifeProofs proofs.LifeMin proofs.LifeInvariance proofs.LifeLast.
Import ListNotations.
Open Scope Q_scope.

(* along the damage ray of a point, envelope membership is antitone in the
   number of repetitions: what makes "the crossing" well defined *)
Theorem C01_inside_ray_antitone :
  forall xk yk, 0 < xk < 1 -> 0 < yk < 1 -> forall f c N N',
  0 <= f -> 0 <= c -> 0 <= N -> N <= N' ->
  inside xk yk (N' * f) (N' * c) = true -> inside xk yk (N * f) (N * c) = true.
Proof. exact inside_ray_antitone. Qed.
Print Assumptions C01_inside_ray_antitone.

(* the closed-form crossing is exactly the boundary of membership *)
Theorem C01_cross_is_boundary :
  forall xk yk, 0 < xk < 1 -> 0 < yk < 1 -> forall mf mc, 0 <= mf -> 0 <= mc -> 0 < mf + mc ->
  forall N, 0 <= N -> (inside xk yk (N * mf) (N * mc) = true <-> N <= cross_lump xk yk mf mc).
Proof. exact cross_lump_spec. Qed.
Print Assumptions C01_cross_is_boundary.

(* one point: 0 / unbounded / finite, in terms of membership only *)
Theorem C01_point_zero_iff :
  forall xk yk mf mc, life_of xk yk mf mc = Zero <-> in_at xk yk mf mc 1 = false.
Proof. exact life_of_zero_iff. Qed.
Print Assumptions C01_point_zero_iff.

Theorem C01_point_inf_iff :
  forall xk yk mf mc, life_of xk yk mf mc = Inf <-> in_at xk yk mf mc 1 = true /\ in_at xk yk mf mc rep_max = true.
Proof. exact life_of_inf_iff. Qed.
Print Assumptions C01_point_inf_iff.

Theorem C01_point_cross :
  forall xk yk, 0 < xk < 1 -> 0 < yk < 1 -> forall mf mc n, damages_ok mf mc -> life_of xk yk mf mc = Cross n ->
  1 <= n /\ n < rep_max /\ forall N, 0 <= N -> (in_at xk yk mf mc N = true <-> N <= n).
Proof. exact life_of_cross. Qed.
Print Assumptions C01_point_cross.

(* the receiver: smallest over tubes and points; below it everything is
   inside, above a finite life the arg-min point is outside *)
Theorem C01_life_below_all_inside :
  forall xk yk, 0 < xk < 1 -> 0 < yk < 1 -> forall tubes n N,
  (forall t p, In t tubes -> In p t -> pt_ok p) ->
  res_le (Cross n) (receiver_life true xk yk tubes) = true ->
  0 <= N -> N <= n -> N <= rep_max ->
  forall t p, In t tubes -> In p t -> pt_in xk yk p N = true.
Proof. exact life_below_all_inside. Qed.
Print Assumptions C01_life_below_all_inside.

Theorem C01_life_above_some_outside :
  forall xk yk, 0 < xk < 1 -> 0 < yk < 1 -> forall tubes n N,
  (forall t p, In t tubes -> In p t -> pt_ok p) ->
  receiver_life true xk yk tubes = Cross n -> n < N ->
  exists t p, In t tubes /\ In p t /\ pt_in xk yk p N = false.
Proof. exact life_above_some_outside. Qed.
Print Assumptions C01_life_above_some_outside.

Theorem C01_life_zero_iff :
  forall xk yk tubes,
  receiver_life true xk yk tubes = Zero <-> exists t p, In t tubes /\ In p t /\ pt_in xk yk p 1 = false.
Proof. exact life_zero_iff. Qed.
Print Assumptions C01_life_zero_iff.

Theorem C01_life_inf_iff :
  forall xk yk tubes,
  receiver_life true xk yk tubes = Inf <->
  forall t p, In t tubes -> In p t -> pt_in xk yk p 1 = true /\ pt_in xk yk p rep_max = true.
Proof. exact life_inf_iff. Qed.
Print Assumptions C01_life_inf_iff.

(* last-cycle extrapolation: the reported value is the first repetition count
   that is outside, given that membership is antitone in the count (true for
   non-negative per-day damages; that monotonicity of extrap_last is not
   proved here, hence "partial") *)
Theorem C01_last_boundary_partial :
  forall P : Z -> bool, (forall a b, (a <= b)%Z -> P b = true -> P a = true) ->
  P 1%Z = true -> P 1000000%Z = false ->
  let r := bisect P 1 1000000 40 in (1 < r <= 1000000)%Z /\ P (r - 1)%Z = true /\ P r = false.
Proof. exact last_boundary. Qed.
Print Assumptions C01_last_boundary_partial.

(* the last-cycle rule in full, for non-negative per-day damages: the reported life is the first
   repetition count outside the envelope *)
Theorem C01_last_cycle_life :
  forall xk yk : Q, (0 < xk < 1)%Q -> (0 < yk < 1)%Q ->
  forall Dc Df : list Q, nonneg Dc -> nonneg Df ->
  member xk yk Dc Df 1 = true -> member xk yk Dc Df 1000000 = false ->
  exists r : Z, point_life_last xk yk Dc Df = Cross (inject_Z r) /\ (1 < r <= 1000000)%Z /\
    (forall n, (0 <= n < r)%Z -> member xk yk Dc Df n = true) /\ (forall n, (r <= n)%Z -> member xk yk Dc Df n = false).
Proof. exact last_cycle_life. Qed.
Print Assumptions C01_last_cycle_life.

Theorem C01_last_cycle_damage_monotone :
  forall D a b, nonneg D -> (0 <= a <= b)%Z -> (extrap_last D a <= extrap_last D b)%Q.
Proof. exact extrap_last_mono. Qed.
Print Assumptions C01_last_cycle_damage_monotone.
