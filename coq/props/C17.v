(* Property C17 — solvers fail loudly.  Statements only; proofs in
   proofs/LoopsProofs.v.  The facts about the source's parameter plumbing are in
   props/C17_plumbing.v. *)
From Coq Require Import QArith List Bool ZArith String.
From SV Require Import model.Loops proofs.LoopsProofs.
Import ListNotations.

(* a returned value meets the tolerance test and is not NaN; a zero budget
   raises; a criterion that is never met raises -- for every budget, tolerance
   and observation stream *)
Theorem C17_newton_returns_converged :
  forall atol rtol miters ls ms obs c v,
  newton atol rtol miters ls ms obs = Ret c v -> conv atol rtol v (obs 0%nat) = true /\ v <> NaN.
Proof. exact newton_returns_converged. Qed.
Print Assumptions C17_newton_returns_converged.

Theorem C17_newton_exhaustion_raises :
  forall atol rtol miters ls ms obs, (forall k, conv atol rtol (obs k) (obs 0%nat) = false) ->
  exists c, newton atol rtol miters ls ms obs = Raise c.
Proof. exact newton_exhaustion_raises. Qed.
Print Assumptions C17_newton_exhaustion_raises.

Theorem C17_thermal_returns_converged :
  forall atol rtol miter obs c v,
  thermal_step atol rtol miter obs = Ret c v -> conv atol rtol v (obs 0%nat) = true /\ v <> NaN.
Proof. exact thermal_returns_converged. Qed.
Print Assumptions C17_thermal_returns_converged.

Theorem C17_thermal_exhaustion_raises :
  forall atol rtol miter obs, (forall k, conv atol rtol (obs k) (obs 0%nat) = false) ->
  exists c, thermal_step atol rtol miter obs = Raise c.
Proof. exact thermal_exhaustion_raises. Qed.
Print Assumptions C17_thermal_exhaustion_raises.

Theorem C17_flowpath_returns_converged :
  forall atol rtol miter obs c v,
  flowpath_solve atol rtol miter obs = Ret c v -> conv atol rtol v (obs 0%nat) = true /\ v <> NaN.
Proof. exact flowpath_returns_converged. Qed.
Print Assumptions C17_flowpath_returns_converged.

Theorem C17_flowpath_exhaustion_raises :
  forall atol rtol miter obs, (forall k, conv atol rtol (obs k) (obs 0%nat) = false) ->
  exists c, flowpath_solve atol rtol miter obs = Raise c.
Proof. exact flowpath_exhaustion_raises. Qed.
Print Assumptions C17_flowpath_exhaustion_raises.

Theorem C17_fem_returns_converged :
  forall atol rtol miter ms obs c v,
  fem_newton atol rtol miter ms obs = Ret c v -> conv atol rtol v (obs 0%nat) = true /\ v <> NaN.
Proof. exact fem_returns_converged. Qed.
Print Assumptions C17_fem_returns_converged.

Theorem C17_fem_exhaustion_raises :
  forall atol rtol miter ms obs, (forall k, conv atol rtol (obs k) (obs 0%nat) = false) ->
  exists c, fem_newton atol rtol miter ms obs = Raise c.
Proof. exact fem_exhaustion_raises. Qed.
Print Assumptions C17_fem_exhaustion_raises.

Theorem C17_picard_returns_converged :
  forall atol rtol miter obs j,
  picard atol rtol miter obs = PRet j -> picard_conv atol rtol (obs j) = true /\ (j < miter)%nat.
Proof. exact picard_returns_converged. Qed.
Print Assumptions C17_picard_returns_converged.

Theorem C17_picard_exhaustion_raises :
  forall atol rtol miter obs, (forall j, picard_conv atol rtol (obs j) = false) -> picard atol rtol miter obs = PRaise.
Proof. exact picard_exhaustion_raises. Qed.
Print Assumptions C17_picard_exhaustion_raises.

Theorem C17_miter0_raises :
  forall atol rtol ls ms obs pobs,
  (exists c, newton atol rtol 0 ls ms obs = Raise c) /\ (exists c, thermal_step atol rtol 0 obs = Raise c) /\
  (exists c, flowpath_solve atol rtol 0 obs = Raise c) /\ (exists c, fem_newton atol rtol 0 ms obs = Raise c) /\
  picard atol rtol 0 pobs = PRaise.
Proof.
  intros. repeat split;
    [apply newton_miter0_raises | apply thermal_miter0_raises | apply flowpath_miter0_raises | apply fem_miter0_raises].
Qed.
Print Assumptions C17_miter0_raises.


(* the iterate handed back by newton when every direction is the unit step: without a line search one
   full step per residual evaluation consumed; with one, each step is between 0 and the full step *)
Theorem C17_newton_iterate_without_search :
  forall atol rtol ms obs nr0 iters p nr x c v,
  newton_loop atol rtol false ms obs nr0 iters p nr = Ret c v ->
  (newton_pos atol rtol false ms obs nr0 iters p nr x == x - inject_Z (Z.of_nat c - Z.of_nat p))%Q /\ (p <= c)%nat.
Proof. exact newton_pos_no_search. Qed.
Print Assumptions C17_newton_iterate_without_search.

Theorem C17_line_search_step_bounds : forall t ms, (t <= ms)%nat -> (0 <= ls_step t <= 1)%Q.
Proof. exact ls_step_bounds. Qed.
Print Assumptions C17_line_search_step_bounds.
