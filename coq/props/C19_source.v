(* Property C19, the grids, periodic wrap, interpolation methods, scalar / vector dispatch and constructor shape tests as
   they stand in receiver.py (coq/gen/BCFacts.v, regenerated from the source on every run) are the documented forms the
   model of C19.v is written for.  Statement only; proof in proofs/BCFactsProofs.v. *)
From Coq Require Import List String.
From SV Require Import gen.BCFacts proofs.BCFactsProofs.

Theorem C19_source_grids_wraps_and_shape_tests : gen_bc_facts = expected_bc_facts.
Proof. exact gen_bc_facts_are_documented. Qed.
Print Assumptions C19_source_grids_wraps_and_shape_tests.
