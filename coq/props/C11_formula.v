(* Property C11, the formulas as they stand in structural.py (coq/gen/AxialStiff.v,
   regenerated on every run): the generalised-plane-strain stiffness contracts the
   whole tangent row with the condensed strain (the diagonal terms alone are enough
   only without shear coupling -- refuted otherwise), is weighted and divided by the
   height as in the model, and force/stiffness are recomputed after every converged
   Newton solve.  Statements only; proofs in proofs/AxialStiffProofs.v. *)
From Coq Require Import QArith List Bool String.
From SV Require Import model.AxialStiff gen.AxialStiff proofs.AxialStiffProofs.

Theorem C11_contraction_is_full : is_full_contraction gen_contraction = true.
Proof. exact gen_contraction_is_full. Qed.
Print Assumptions C11_contraction_is_full.

Theorem C11_gps_point_is_model :
  forall czzzz c e dx h, (gen_gps_point (full_contract c e) czzzz dx h == gps_point czzzz c e * dx / h)%Q.
Proof. exact gen_gps_point_is_model. Qed.
Print Assumptions C11_gps_point_is_model.

Theorem C11_trace_suffices_without_shear_coupling :
  forall c e, (forall k l, k <> l -> (c k l == 0)%Q) -> (trace_contract c e == full_contract c e)%Q.
Proof. exact trace_suffices_without_shear_coupling. Qed.
Print Assumptions C11_trace_suffices_without_shear_coupling.

Theorem C11_trace_contraction_refuted : exists c e, ~ (trace_contract c e == full_contract c e)%Q.
Proof. exact trace_contraction_refuted. Qed.
Print Assumptions C11_trace_contraction_refuted.

Theorem C11_always_postprocessed : gen_postprocessed_always = true.
Proof. exact gen_always_postprocessed. Qed.
Print Assumptions C11_always_postprocessed.
