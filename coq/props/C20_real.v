(* Property C20, the real-valued part: monotonicity of every shipped rupture and
   fatigue correlation (coq/gen/MaterialData.v, regenerated on every run), by
   interval arithmetic (Coq-Interval) and the mean value theorem.  Statements only;
   proofs in proofs/MaterialReal.v.  (Kept apart from props/C20.v because coqchk,
   which has no virtual machine, cannot replay the interval computations in
   practical time; coqc checks them in about a minute.) *)
From Coq Require Import QArith Reals List Bool String.
From SV Require Import theory.PolyMono gen.MaterialData proofs.MaterialReal.
Import ListNotations.

(* rupture: log10 tR = P(log10 stress) / T - C.  For every shipped rupture
   correlation, on 1 .. 1000 MPa: P decreases with stress and P / T with temperature *)
Theorem C20_rupture_decreasing_in_stress :
  Forall (fun p => let '(_, (c0, c1, c2, c3)) := p in
          forall x y, (stress_lo <= x -> x < y -> y <= stress_hi -> q4 c0 c1 c2 c3 0 y < q4 c0 c1 c2 c3 0 x)%R) rupture_polys.
Proof. exact rupture_decreasing_in_stress. Qed.
Print Assumptions C20_rupture_decreasing_in_stress.

Theorem C20_rupture_decreasing_in_temperature :
  Forall (fun p => let '(_, (c0, c1, c2, c3)) := p in
          forall x T1 T2, (stress_lo <= x <= stress_hi -> 0 < T1 -> T1 < T2 ->
          q4 c0 c1 c2 c3 0 x / T2 < q4 c0 c1 c2 c3 0 x / T1)%R) rupture_polys.
Proof. exact rupture_decreasing_in_temperature. Qed.
Print Assumptions C20_rupture_decreasing_in_temperature.

(* fatigue: log10 Nf = Q(log10 range) decreases from the cut-off to a range of 5e-2 *)
Theorem C20_fatigue_decreasing_in_range :
  Forall (fun p => let '(_, (c0, c1, c2, c3, c4), ylo) := p in
          forall x y, (ylo <= x -> x < y -> y <= strain_hi -> q4 c0 c1 c2 c3 c4 y < q4 c0 c1 c2 c3 c4 x)%R) fatigue_polys.
Proof. exact fatigue_decreasing_in_range. Qed.
Print Assumptions C20_fatigue_decreasing_in_range.

