(* Property C13, distance of the discrete steady profile to the logarithmic one.
   Across a cell the discrete solution climbs by G / r_mid (C13_steady_profile_partial),
   the logarithmic one with the same heat flow by (G / dr) ln(r_out / r_in); they
   differ by a relative x^2/3 .. x^2/(3(1-x^2)), x = dr / (2 r_mid): second order.
   Statements only; proofs in proofs/LogProfile.v (classical reals). *)
From Coq Require Import Reals.
From SV Require Import proofs.LogProfile.
Open Scope R_scope.

Theorem C13_log_series_bounds :
  forall x, 0 <= x < 1 ->
  2 * x + 2 / 3 * (x * x * x) <= ln ((1 + x) / (1 - x)) <= 2 * x + 2 / 3 * (x * x * x) / (1 - x * x).
Proof. intros x Hx. split; [exact (Lg_lower x Hx) | exact (Lg_upper x Hx)]. Qed.
Print Assumptions C13_log_series_bounds.

Theorem C13_cell_climb_second_order :
  forall G dr rmid, 0 < dr -> dr / 2 < rmid -> 0 <= G ->
  let x := dr / (2 * rmid) in
  let discrete := G / rmid in
  let exact := G / dr * ln ((rmid + dr / 2) / (rmid - dr / 2)) in
  discrete * (1 + x * x / 3) <= exact <= discrete * (1 + x * x / (3 * (1 - x * x))).
Proof. exact cell_climb_second_order. Qed.
Print Assumptions C13_cell_climb_second_order.
