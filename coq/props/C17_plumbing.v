(* Property C17, second part: documented solver parameters take effect and the
   generic Newton routine's defaults are the documented ones.  These are facts
   about coq/gen/Plumbing.v, which harness/translators/plumbing.py regenerates
   from /repo's source on every run. *)
From Coq Require Import QArith List Bool ZArith String.
From SV Require Import gen.Plumbing.
Import ListNotations.

(* ---- facts about the source as it is now (generated) ---------------------------- *)
(* every documented solver parameter of the listed entry points is read *)
Theorem C17_no_ignored_solver_parameter : unused_solver_params = [].
Proof. reflexivity. Qed.
Print Assumptions C17_no_ignored_solver_parameter.

(* every solver attribute is fed by a parameter or a parameter-set key, never
   by a constant *)
Definition param_driven (s : src) : bool := match s with SParam _ | SPset _ => true | _ => false end.
Theorem C17_attributes_are_parameter_driven :
  forallb (fun x => param_driven (snd x)) attr_sources = true.
Proof. reflexivity. Qed.
Print Assumptions C17_attributes_are_parameter_driven.

(* the spring network hands its own tolerances and budget to the generic Newton routine *)
Theorem C17_calls_pass_own_attributes :
  forallb (fun x => let '(_, _, given, wanted) := x in String.eqb given wanted) call_plumbing = true.
Proof. reflexivity. Qed.
Print Assumptions C17_calls_pass_own_attributes.

(* the generic Newton routine's defaults are the documented ones *)
Theorem C17_newton_defaults_match_doc :
  forallb (fun x => let '((k, a), (k', d)) := x in String.eqb k k' && Qeq_bool a d)
          (combine newton_defaults newton_documented) = true
  /\ List.length newton_defaults = List.length newton_documented.
Proof. split; reflexivity. Qed.
Print Assumptions C17_newton_defaults_match_doc.
