(* Property C09 — life responds correctly to rotation, repetition, scaling and
   worse loads.  Statements only; proofs in proofs/LifeInvariance.v and
   proofs/LifeMin.v. *)
From Coq Require Import QArith List Bool ZArith Permutation.
From SV Require Import model.Life proofs.LifeProofs proofs.LifeMin proofs.LifeInvariance.
Import ListNotations.
Open Scope Q_scope.

(* the two load measures are unchanged when stresses / strains are expressed in
   rotated axes (R^T R = I; proper or improper) *)
Theorem C09_vm_rotation_invariant :
  forall R s, orth R -> vm2 (rot R s) == vm2 s.
Proof. exact vm2_rotation_invariant. Qed.
Print Assumptions C09_vm_rotation_invariant.

Theorem C09_eqrange_rotation_invariant :
  forall R a b, orth R -> eqrange2 (rot R a) (rot R b) == eqrange2 a b.
Proof. exact eqrange2_rotation_invariant. Qed.
Print Assumptions C09_eqrange_rotation_invariant.

(* a constant strain offset changes no strain range *)
Theorem C09_strain_offset_invariant :
  forall a b o, eqrange2 (add6 a o) (add6 b o) == eqrange2 a b.
Proof. exact eqrange2_offset_invariant. Qed.
Print Assumptions C09_strain_offset_invariant.

(* reordering tubes, elements or quadrature points *)
Theorem C09_life_perm_invariant :
  forall l l', Permutation l l' -> res_equiv (min_res l) (min_res l').
Proof. exact min_res_perm. Qed.
Print Assumptions C09_life_perm_invariant.

(* the same day represented d times (lumped extrapolation uses the mean) *)
Theorem C09_lump_repeat_invariant :
  forall D d, (1 <= d)%nat -> D <> [] -> mean (repeat_list D d) == mean D.
Proof. exact mean_repeat_invariant. Qed.
Print Assumptions C09_lump_repeat_invariant.

(* multiplying every per-cycle damage by lam divides the crossing by lam *)
Theorem C09_lump_scale :
  forall xk yk mf mc lam, 0 < lam -> 0 < xk < 1 -> 0 < yk < 1 -> 0 <= mf -> 0 <= mc -> 0 < mf + mc ->
  cross_lump xk yk (lam * mf) (lam * mc) == cross_lump xk yk mf mc / lam.
Proof. exact cross_lump_scale. Qed.
Print Assumptions C09_lump_scale.

(* larger per-cycle damages never give a longer life; adding a tube never
   increases the life *)
Theorem C09_life_antitone :
  forall xk yk, 0 < xk < 1 -> 0 < yk < 1 -> forall mf mc mf' mc',
  damages_ok mf mc -> mf <= mf' -> mc <= mc' ->
  res_le (life_of xk yk mf' mc') (life_of xk yk mf mc) = true.
Proof. exact life_of_antitone. Qed.
Print Assumptions C09_life_antitone.

Theorem C09_add_tube :
  forall x l, res_le (min_res (x :: l)) (min_res l) = true.
Proof. exact min_res_cons. Qed.
Print Assumptions C09_add_tube.
