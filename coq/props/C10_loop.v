(* Property C10, the branch arithmetic and the control skeleton of the adaptive sub-increment loop as they stand in
   structural.py (coq/gen/AdaptiveLoop.v, regenerated from the source on every run) are those of the model the theorems of
   C10.v are about (the model counts progress in doubled units: enc).  Statements only; proofs in
   proofs/AdaptiveLoopProofs.v. *)
From Coq Require Import ZArith QArith List Bool String.
From SV Require Import model.Adaptive gen.AdaptiveLoop proofs.AdaptiveLoopProofs.
Import ListNotations.

Theorem C10_source_initialisation_is_model :
  forall n forced, let '(c, i, m) := gen_init n forced in enc (init n forced) c i m.
Proof. exact init_encodes. Qed.
Print Assumptions C10_source_initialisation_is_model.

Theorem C10_source_loop_guard_is_model :
  forall n s c i m, enc s c i m -> (cprog s <? total n)%Z = gen_continue n c.
Proof. exact guard_is_model. Qed.
Print Assumptions C10_source_loop_guard_is_model.

Theorem C10_source_target_fraction_is_model :
  forall n s c i m, (0 <= n)%Z -> enc s c i m ->
  (inject_Z (cprog s + inc s) / inject_Z (total n) == gen_target n c i)%Q.
Proof. exact target_is_model. Qed.
Print Assumptions C10_source_target_fraction_is_model.

Theorem C10_source_success_branch_is_model :
  forall s c i m, enc s c i m -> enc (mkSt (cprog s + inc s) (inc s) (mdiv s) (S 0) 0) (gen_ok_cprog c i) i m.
Proof. exact success_is_model. Qed.
Print Assumptions C10_source_success_branch_is_model.

Theorem C10_source_failure_branch_is_model :
  forall s c i m, enc s c i m -> Z.even (inc s) = true ->
  (inject_Z (inc s / 2) == 2 * gen_fail_inc i)%Q /\ (mdiv s + 1)%Z = gen_fail_mdiv m.
Proof. exact failure_is_model. Qed.
Print Assumptions C10_source_failure_branch_is_model.

Theorem C10_source_give_up_tests_are_model :
  forall n m, gen_give_up n m = (m >=? n)%Z /\ gen_final_raise n m = (m >=? n)%Z.
Proof. exact give_up_and_final_tests_are_model. Qed.
Print Assumptions C10_source_give_up_tests_are_model.

Theorem C10_source_control_skeleton :
  gen_loop_sources =
  [("start_state", "state_last=state_n.copy()"); ("start_time", "t_last=tube.times[i-1]");
   ("next_state", "state_next,p_next,t_next=self._setup_state(sf,tube,i,state_n)");
   ("handler", "RuntimeError:inc/=2;mdiv+=1;ifmdiv>=self.max_divide:break;continue");
   ("accepted", "state_last=state_next;t_last=t_next;p_last=p_next;cprog+=inc");
   ("attempt_arguments", "state_last,t_last,p_last,state_next,t_next,p_next,dtop*sf,self.solver_options");
   ("after_loop", "ifmdiv>=self.max_divide:raiseRuntimeError('Adaptiveintegrationfailed');returnstate_next")]%string.
Proof. exact gen_loop_skeleton. Qed.
Print Assumptions C10_source_control_skeleton.
