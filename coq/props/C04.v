(* Property C04 — the receiver spring system is in equilibrium for every
   connection option.  Statements only; proofs in proofs/SpringProofs.v.  The
   model (model/Spring.v) states equilibrium on the UN-reduced network; the
   implementation's reduced solve is tied to it by the certificate of
   harness/props/c04.py (every option assignment, exhaustive for small receivers).
   Uniqueness of what every tube sees (proofs/SpringUnique.v): with positive
   stiffnesses any two equilibria give every tube the same top displacement. *)
From Coq Require Import QArith List Bool ZArith.
From SV Require Import model.Spring proofs.SpringProofs proofs.SpringUnique.
Import ListNotations.
Open Scope Q_scope.

Theorem C04_assembly_orientation_invariant :
  forall (f : Q -> Q) ii jj dii djj, (forall x y, x == y -> f x == f y) -> ii <> jj ->
  fst (fj f ii jj dii djj) == snd (fj f jj ii djj dii) /\ snd (fj f ii jj dii djj) == fst (fj f jj ii djj dii).
Proof. exact fj_orientation_invariant. Qed.
Print Assumptions C04_assembly_orientation_invariant.

Theorem C04_numeric_edge_force :
  forall k lo hi dlo dhi, (lo < hi)%nat ->
  fst (fj (fun d => k * d) hi lo dhi dlo) == k * (dhi - dlo) /\ snd (fj (fun d => k * d) hi lo dhi dlo) == - (k * (dhi - dlo)).
Proof. exact fj_linear. Qed.
Print Assumptions C04_numeric_edge_force.

Theorem C04_rigid_tubes_share_displacement :
  forall r u, Equil r u -> forall p pn q q',
  nth_error (panels r) p = Some pn -> popt pn = Rigid ->
  (q < length (tubes pn))%nat -> (q' < length (tubes pn))%nat -> u_top u p q == u_top u p q'.
Proof. exact rigid_tubes_share_displacement. Qed.
Print Assumptions C04_rigid_tubes_share_displacement.

Theorem C04_disconnected_tube_alone :
  forall r u, Equil r u -> forall p pn q t,
  nth_error (panels r) p = Some pn -> popt pn = Cut -> nth_error (tubes pn) q = Some t ->
  kt t * u_top u p q + f0 t == 0.
Proof. exact disconnected_tube_alone. Qed.
Print Assumptions C04_disconnected_tube_alone.

Theorem C04_numeric_connection_carries :
  forall r u, Equil r u -> forall p pn q t k,
  nth_error (panels r) p = Some pn -> popt pn = Lin k -> nth_error (tubes pn) q = Some t ->
  k * (u_man u p - u_top u p q) == kt t * u_top u p q + f0 t.
Proof. exact numeric_connection_carries. Qed.
Print Assumptions C04_numeric_connection_carries.

Theorem C04_manifold_balance :
  forall r u, Equil r u -> forall p pn K,
  nth_error (panels r) p = Some pn -> ropt r = Lin K ->
  K * (u_man u p - u_root u) == below_manifold pn (u_man u p) (tops u p pn).
Proof. exact manifold_balance. Qed.
Print Assumptions C04_manifold_balance.

Theorem C04_disconnected_panel_balance :
  forall r u, Equil r u -> forall p pn,
  nth_error (panels r) p = Some pn -> ropt r = Cut -> below_manifold pn (u_man u p) (tops u p pn) == 0.
Proof. exact disconnected_panel_balance. Qed.
Print Assumptions C04_disconnected_panel_balance.

(* uniqueness: with positive stiffnesses any two equilibria give every tube the same top displacement *)
Theorem C04_tube_tops_unique :
  forall r u v, good_receiver r -> Equil r u -> Equil r v ->
  forall p pn q t, nth_error (panels r) p = Some pn -> nth_error (tubes pn) q = Some t -> u_top u p q == u_top v p q.
Proof. exact tube_tops_unique. Qed.
Print Assumptions C04_tube_tops_unique.

(* seen from its manifold a panel is a spring of non-negative stiffness *)
Theorem C04_panel_is_a_spring :
  forall r u v, good_receiver r -> Equil r u -> Equil r v ->
  forall p pn, nth_error (panels r) p = Some pn ->
  below_manifold pn (u_man u p) (tops u p pn) - below_manifold pn (u_man v p) (tops v p pn)
    == - panel_stiffness pn * (u_man u p - u_man v p) /\ 0 <= panel_stiffness pn.
Proof. exact panel_is_spring. Qed.
Print Assumptions C04_panel_is_a_spring.

Example C04_hypotheses_satisfiable : good_receiver ex_receiver.
Proof. exact ex_receiver_good. Qed.
