(* Property C02 — solid heat transfer conserves energy.  Statements only;
   proofs in proofs/ThermalConservation.v.  The model (model/Thermal.v) is tied
   to srlife/thermal.py by the per-step certificate of harness/props/c02.py. *)
From Coq Require Import QArith List Bool ZArith.
From SV Require Import theory.Sums model.Thermal proofs.ThermalConservation.
Import ListNotations.
Open Scope Q_scope.

(* change of stored heat (weight r, per unit dr dtheta dz) over one step =
   dt * what enters through the two radial ghost layers; the circumferential
   seam and the axial ends contribute nothing *)
Theorem C02_step_conserves :
  forall c T0 T, steady c = false -> rad_pos c -> tables_periodic c -> Eqs c T0 T ->
  sum3 c (fun i j k => rad c i * (T i j k - T0 i j k)) ==
  dt c * sum_jk c (fun j k => wall_in_inner c T j k + wall_in_outer c T j k).
Proof. exact step_conserves. Qed.
Print Assumptions C02_step_conserves.

(* the exchange terms are what the wall conditions prescribe: nothing for an
   insulated wall, flux times the half-node factor, film coefficient times the
   fluid-wall difference *)
Theorem C02_inner_exchange :
  forall c T0 T, Eqs c T0 T -> forall j k, In j (jrange c) -> In k (krange c) ->
  0 < kk c 1%nat j k -> 0 < dr c ->
  wall_in_inner c T j k ==
  match inner c with
  | Ins => 0
  | Fixed _ => wall_in_inner c T j k
  | Flux q => rh c 0%nat * ch_r c 0%nat j k * q j k / (kk c 1%nat j k * dr c)
  | Conv h tf => rh c 0%nat * ch_r c 0%nat j k * (h j k * (tf j k - T 1%nat j k)) / (kk c 1%nat j k * dr c)
  end.
Proof. exact inner_exchange. Qed.
Print Assumptions C02_inner_exchange.

Theorem C02_outer_exchange :
  forall c T0 T, Eqs c T0 T -> forall j k, In j (jrange c) -> In k (krange c) ->
  0 < kk c (nr c) j k -> 0 < dr c ->
  wall_in_outer c T j k ==
  match outer c with
  | Ins => 0
  | Fixed _ => wall_in_outer c T j k
  | Flux q => rh c (nr c) * ch_r c (nr c) j k * q j k / (kk c (nr c) j k * dr c)
  | Conv h tf => rh c (nr c) * ch_r c (nr c) j k * (h j k * (tf j k - T (nr c) j k)) / (kk c (nr c) j k * dr c)
  end.
Proof. exact outer_exchange. Qed.
Print Assumptions C02_outer_exchange.

(* insulated walls: exact *)
Theorem C02_insulated_exact :
  forall c T0 T, steady c = false -> rad_pos c -> tables_periodic c -> Eqs c T0 T ->
  inner c = Ins -> outer c = Ins -> coeffs_pos c -> 0 < dr c ->
  sum3 c (fun i j k => rad c i * (T i j k - T0 i j k)) == 0.
Proof. exact insulated_exact. Qed.
Print Assumptions C02_insulated_exact.

(* non-negative prescribed flux on either wall never lowers the stored heat *)
Theorem C02_flux_heats :
  forall c T0 T, steady c = false -> rad_pos c -> tables_periodic c -> Eqs c T0 T ->
  coeffs_pos c -> 0 < dr c -> 0 < dt c -> dr c < 2 * ri c ->
  wall_nonneg_flux (inner c) -> wall_nonneg_flux (outer c) ->
  0 <= sum3 c (fun i j k => rad c i * (T i j k - T0 i j k)).
Proof. exact flux_heats. Qed.
Print Assumptions C02_flux_heats.

(* the discrete input is flux times the true area up to the factor
   1 -/+ dr/(2 r): the error is proportional to dr / r and vanishes under
   refinement *)
Theorem C02_inner_radius_factor :
  forall c, ~ ri c == 0 -> rh c 0%nat == rad c 1%nat * (1 - dr c / (2 * ri c)).
Proof. exact inner_radius_factor. Qed.
Print Assumptions C02_inner_radius_factor.

Theorem C02_outer_radius_factor :
  forall c n, ~ rad c n == 0 -> rh c n == rad c n * (1 + dr c / (2 * rad c n)).
Proof. exact outer_radius_factor. Qed.
Print Assumptions C02_outer_radius_factor.
