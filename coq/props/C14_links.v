(* Property C14, the link equations as they stand in flowpath.py (coq/gen/FlowLinks.v,
   regenerated from the source on every run) are those of the model the balance
   theorems of C14.v and the energy theorem of C07.v are about.  Statements only;
   proofs in proofs/FlowLinksProofs.v. *)
From Coq Require Import QArith List Bool String.
From SV Require Import model.FlowPath gen.FlowLinks proofs.FlowLinksProofs.
Import ListNotations.

Theorem C14_source_tube_count_is_model : forall p, gen_ntube p = ntube p.
Proof. exact gen_ntube_is_model. Qed.
Print Assumptions C14_source_tube_count_is_model.

Theorem C14_source_cells_are_model : forall pi p, gen_dz p = dz p /\ gen_dtheta pi p = dtheta pi p.
Proof. exact gen_cells_are_model. Qed.
Print Assumptions C14_source_cells_are_model.

Theorem C14_source_velocity_is_model :
  forall pi f p mdot tin tout, gen_velocity pi f p mdot tin tout = velocity pi f p mdot tin tout.
Proof. exact gen_velocity_is_model. Qed.
Print Assumptions C14_source_velocity_is_model.

Theorem C14_source_fluid_temperatures_are_model :
  forall p tin tout, gen_fluid_temps p tin tout = fluid_temps p tin tout.
Proof. exact gen_fluid_temps_is_model. Qed.
Print Assumptions C14_source_fluid_temperatures_are_model.

Theorem C14_source_enthalpy_gain_is_model :
  forall f p mdot tin w tout, gen_q_mass f p mdot tin w tout = q_mass f p mdot tin w tout.
Proof. exact gen_q_mass_is_model. Qed.
Print Assumptions C14_source_enthalpy_gain_is_model.

Theorem C14_source_convective_heat_is_model :
  forall pi f p mdot tin w tout tm, gen_q_conv pi f p mdot tin w tout tm = q_conv pi f p mdot tin w tout tm.
Proof. exact gen_q_conv_is_model. Qed.
Print Assumptions C14_source_convective_heat_is_model.

Theorem C14_source_panel_residual_is_model :
  forall pi f p mdot tin touts,
  panel_residual pi f p mdot tin touts =
  map (fun t => let '(w, tout, tm) := t in gen_panel_residual pi f p mdot tin w tout tm) (zip3 (weights p) touts (metal p)).
Proof. exact gen_panel_residual_is_model. Qed.
Print Assumptions C14_source_panel_residual_is_model.

Theorem C14_source_manifold_residual_is_model :
  forall p touts tman, gen_manifold_residual p touts tman = manifold_residual p touts tman.
Proof. exact gen_manifold_residual_is_model. Qed.
Print Assumptions C14_source_manifold_residual_is_model.

Theorem C14_source_start_residual_is_model :
  forall pi f mdot inlet panels t0 rest,
  path_residual pi f mdot inlet panels (t0 :: rest) = gen_start_residual inlet t0 :: chain_residual pi f mdot panels t0 rest.
Proof. exact gen_start_residual_is_model. Qed.
Print Assumptions C14_source_start_residual_is_model.

Theorem C14_source_axial_stations_are_linspace :
  gen_zs_source = "np.linspace(0, self.h, self.metal_temp.shape[3])"%string.
Proof. exact gen_zs_are_linspace. Qed.
Print Assumptions C14_source_axial_stations_are_linspace.

(* the flow path reads the inner-wall node of the wall solver's ghosted field (radial index 1), on the real
   circumferential and axial nodes; multipliers are the weights, r - t the inner radius *)
Theorem C14_source_wall_temperature_is_inner_node :
  forallb (fun r => match radial_index (snd r) with Some i => String.eqb i "1" | None => false end) gen_metal_slices = true
  /\ map fst gen_metal_slices = ["3D"; "2D"; "1D"]%string.
Proof. exact gen_metal_is_inner_wall. Qed.
Print Assumptions C14_source_wall_temperature_is_inner_node.

Theorem C14_source_wall_temperature_on_real_nodes :
  gen_metal_slices = [("3D", ["..."; "1"; "1:-1"; "1:-1"]); ("2D", [":"; "1"; "1:-1"; "None"]); ("1D", [":"; "1"; "None"; "None"])]%string.
Proof. exact gen_metal_real_nodes. Qed.
Print Assumptions C14_source_wall_temperature_on_real_nodes.

Theorem C14_source_panel_inputs :
  gen_panel_inputs = [("weights", "np.array([float(tube.multiplier) for tube in panel.tubes.values()])");
                      ("ri", "np.array([tube.r - tube.t for tube in panel.tubes.values()])[0]");
                      ("h", "np.array([tube.h for tube in panel.tubes.values()])[0]");
                      ("metal_temps", "np.swapaxes(np.array(metal_temps), 0, 1)")]%string.
Proof. exact gen_panel_inputs_are_documented. Qed.
Print Assumptions C14_source_panel_inputs.
