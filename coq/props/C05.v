(* Property C05 — ceramic reliability obeys the Weibull laws and is
   frame-indifferent.  Statements only; proofs in proofs/WeibullProofs.v,
   proofs/WeibullLaws.v; the table facts are about coq/gen/WeibullTables.v,
   regenerated from damage.py on every run.

   What is proved: the stacked vector unpacks to the stored tensor (and the
   generated tables are consistent with that); tr, tr(.^2), tr(.^3) of the
   stress -- hence its principal values -- are invariant under every orthogonal
   change of axes; for the crack-shape independent element formula over any
   power function with the usual laws: log R <= 0, R in (0,1], compressive
   states give exactly 1, linear in volume, homogeneous of degree m at zero
   service time, not increasing when stresses are scaled up; panel / overall
   aggregation is a product of powers; the service-time substitution
   s0(t) = ((smax^N g t)/B + smax^(N-2))^(1/(N-2)) every model applies equals the
   peak stress at t = 0, grows with t and so never increases a reliability.  The
   eigenvalue solver, the orientation quadratures of the six shape-dependent models,
   the value of the cycle factor g (a quadrature) and the uniaxial reduction are
   validated on the implementation by harness/props/c05.py, not proved. *)
From Coq Require Import QArith Reals List Bool String Lra.
From SV Require Import model.Life proofs.LifeInvariance model.Weibull proofs.WeibullProofs proofs.WeibullLaws proofs.RealPower gen.WeibullTables proofs.Lame.
Import ListNotations.

Theorem C05_assembled_tensor_is_stress :
  forall s2 s, (~ s2 == 0)%Q ->
  let r := unpack s2 (pack s2 s) in
  (c_xx r == c_xx s /\ c_yy r == c_yy s /\ c_zz r == c_zz s /\ c_yz r == c_yz s /\ c_xz r == c_xz s /\ c_xy r == c_xy s)%Q.
Proof. exact unpack_pack. Qed.
Print Assumptions C05_assembled_tensor_is_stress.

Theorem C05_tables_consistent : tables_consistent stack_order mandel_inds mandel_sqrt2 = true.
Proof. reflexivity. Qed.
Print Assumptions C05_tables_consistent.

Theorem C05_pinned_code_refuted :
  exists s, let r := unpack 2 [c_xx s; c_yy s; c_zz s; c_yz s; c_xz s; c_xy s] in (~ c_xy r == c_xy s)%Q.
Proof. exact unpack_without_factor_refuted. Qed.
Print Assumptions C05_pinned_code_refuted.

Theorem C05_invariants_rotation_invariant :
  forall R s, orth R -> (tr (rot R s) == tr s /\ tr2 (rot R s) == tr2 s /\ tr3 (rot R s) == tr3 s)%Q.
Proof. exact invariants_rotation_invariant. Qed.
Print Assumptions C05_invariants_rotation_invariant.

Theorem C05_logR_nonpos :
  forall pw : R -> R -> R, (forall x m, 0 <= x -> 0 <= pw x m)%R ->
  forall k V m p, (0 <= k -> 0 <= V -> pia pw k V m p <= 0)%R.
Proof. exact pia_nonpos. Qed.
Print Assumptions C05_logR_nonpos.

Theorem C05_reliability_in_0_1 : forall x, (x <= 0 -> 0 < exp x <= 1)%R.
Proof. exact reliability_in_0_1. Qed.
Print Assumptions C05_reliability_in_0_1.

Theorem C05_compressive_is_one :
  forall pw : R -> R -> R, (forall m, pw 0 m = 0)%R ->
  forall k V m p, (forall x, In x p -> x <= 0)%R -> pia pw k V m p = 0%R.
Proof. exact pia_compressive_is_zero. Qed.
Print Assumptions C05_compressive_is_one.

Theorem C05_volume_linear :
  forall pw k V V' m p, pia pw k (V + V') m p = (pia pw k V m p + pia pw k V' m p)%R.
Proof. exact pia_volume_linear. Qed.
Print Assumptions C05_volume_linear.

Theorem C05_zero_time_homogeneous :
  forall pw : R -> R -> R, (forall l x m, 0 <= l -> 0 <= x -> pw (l * x) m = pw l m * pw x m)%R ->
  forall k V m p l, (0 <= l)%R -> pia pw k V m (map (Rmult l) p) = (pw l m * pia pw k V m p)%R.
Proof. exact pia_homogeneous. Qed.
Print Assumptions C05_zero_time_homogeneous.

Theorem C05_scale_antitone :
  forall pw : R -> R -> R, (forall x m, 0 <= x -> 0 <= pw x m)%R ->
  (forall l x m, 0 <= l -> 0 <= x -> pw (l * x) m = pw l m * pw x m)%R -> (forall l m, 1 <= l -> 1 <= pw l m)%R ->
  forall k V m p l, (0 <= k -> 0 <= V -> 1 <= l -> pia pw k V m (map (Rmult l) p) <= pia pw k V m p)%R.
Proof. exact pia_scale_antitone. Qed.
Print Assumptions C05_scale_antitone.

(* service time: the substituted stress equals the peak stress at t = 0, is never below it ... *)
Theorem C05_zero_service_time_uses_peak_stress :
  forall pw : R -> R -> R, (forall x a, 0 <= x -> 0 < a -> pw (pw x a) (/ a) = x)%R ->
  forall N B g smax, (0 <= smax -> 2 < N -> sig0 pw N B g 0 smax = smax)%R.
Proof. exact sig0_zero_time. Qed.
Print Assumptions C05_zero_service_time_uses_peak_stress.

Theorem C05_service_stress_not_below_peak :
  forall pw : R -> R -> R, (forall x m, 0 <= x -> 0 <= pw x m)%R -> (forall x y m, 0 <= x -> x <= y -> pw x m <= pw y m)%R ->
  (forall x a, 0 <= x -> 0 < a -> pw (pw x a) (/ a) = x)%R ->
  forall N B g t smax, (0 <= smax -> 0 <= g -> 0 < B -> 0 <= t -> 2 < N -> smax <= sig0 pw N B g t smax)%R.
Proof. exact sig0_ge_peak. Qed.
Print Assumptions C05_service_stress_not_below_peak.

(* ... and a longer service time never increases a reliability *)
Theorem C05_longer_service_never_increases_reliability :
  forall pw : R -> R -> R, (forall x m, 0 <= x -> 0 <= pw x m)%R -> (forall x y m, 0 <= x -> x <= y -> pw x m <= pw y m)%R ->
  forall k V m N B t t' pg, (0 <= k -> 0 <= V -> 0 < B -> 0 <= t -> t <= t' ->
  (forall sg, In sg pg -> 0 <= fst sg /\ 0 <= snd sg) ->
  logR_t pw k V m N B t' pg <= logR_t pw k V m N B t pg)%R.
Proof. exact logR_time_antitone. Qed.
Print Assumptions C05_longer_service_never_increases_reliability.

Theorem C05_zero_service_time_is_static_law :
  forall pw : R -> R -> R, (forall x a, 0 <= x -> 0 < a -> pw (pw x a) (/ a) = x)%R ->
  forall k V m N B pg, (2 < N)%R -> (forall sg, In sg pg -> 0 <= fst sg)%R ->
  logR_t pw k V m N B 0 pg = (- k * V * sumR (map (fun sg => pw (fst sg) m) pg))%R.
Proof. exact logR_zero_time. Qed.
Print Assumptions C05_zero_service_time_is_static_law.

Theorem C05_cycle_factor_nonneg :
  forall pw : R -> R -> R, (forall x m, 0 <= x -> 0 <= pw x m)%R ->
  forall N T wr, (0 < T)%R -> (forall x, In x wr -> 0 <= fst x /\ 0 <= snd x)%R ->
  (0 <= sumR (map (fun x => fst x * pw (snd x) N) wr) / T)%R.
Proof. exact cycle_factor_nonneg. Qed.
Print Assumptions C05_cycle_factor_nonneg.

(* the power function of these laws can be the real power: x^m on x >= 0, m > 0 satisfies every hypothesis *)
Theorem C05_laws_hold_for_the_real_power :
  ((forall x m, 0 <= x -> 0 <= rpow x m) /\
   (forall m, rpow 0 m = 0) /\
   (forall x y m, 0 <= x -> x <= y -> rpow x m <= rpow y m) /\
   (forall l x m, 0 <= l -> 0 <= x -> rpow (l * x) m = rpow l m * rpow x m) /\
   (forall l m, 1 <= l -> 1 <= rpow l m) /\
   (forall x a, 0 <= x -> 0 < a -> rpow (rpow x a) (/ a) = x) /\
   (forall x m, 0 < x -> 0 < m -> rpow x m = Rpower x m))%R.
Proof. exact real_power_satisfies_the_laws. Qed.
Print Assumptions C05_laws_hold_for_the_real_power.

(* ... so, for instance, with real powers a longer service never increases a reliability *)
Theorem C05_longer_service_real_powers :
  forall k V m N B t t' pg, (0 <= k -> 0 <= V -> 0 < B -> 0 <= t -> t <= t' ->
  (forall sg, In sg pg -> 0 <= fst sg /\ 0 <= snd sg) ->
  logR_t rpow k V m N B t' pg <= logR_t rpow k V m N B t pg)%R.
Proof. exact (logR_time_antitone rpow rpow_nonneg rpow_mono). Qed.
Print Assumptions C05_longer_service_real_powers.

Theorem C05_aggregation :
  forall l : list (nat * R),
  exp (sumR (map (fun mx => (INR (fst mx) * snd mx)%R) l)) = prodR (map (fun mx => (exp (snd mx) ^ fst mx)%R) l).
Proof. exact exp_weighted_sum. Qed.
Print Assumptions C05_aggregation.

(* all eight models at zero service time: the element formula over an orientation grid with any
   positively homogeneous equivalent stress *)
Theorem C05_all_models_logR_nonpos :
  forall pw : R -> R -> R, (forall x m, 0 <= x -> 0 <= pw x m)%R ->
  forall (O : Type) (se : R * R * R -> O -> R) c V m p grid,
  (0 <= c)%R -> (0 <= V)%R -> (forall ow, In ow grid -> 0 <= snd ow)%R -> (logR pw O se c V m p grid <= 0)%R.
Proof. exact logR_nonpos. Qed.
Print Assumptions C05_all_models_logR_nonpos.

Theorem C05_all_models_volume_linear :
  forall pw (O : Type) (se : R * R * R -> O -> R) c V V' m p grid,
  logR pw O se c (V + V') m p grid = (logR pw O se c V m p grid + logR pw O se c V' m p grid)%R.
Proof. exact logR_volume_linear. Qed.
Print Assumptions C05_all_models_volume_linear.

Theorem C05_all_models_zero_time_homogeneous :
  forall pw : R -> R -> R, (forall l x m, 0 <= l -> 0 <= x -> pw (l * x) m = pw l m * pw x m)%R ->
  forall (O : Type) (se : R * R * R -> O -> R), (forall l p o, 0 <= l -> se (scale3 l p) o = l * se p o)%R ->
  forall c V m p grid l, (0 <= l)%R -> logR pw O se c V m (scale3 l p) grid = (pw l m * logR pw O se c V m p grid)%R.
Proof. exact logR_homogeneous. Qed.
Print Assumptions C05_all_models_zero_time_homogeneous.

Theorem C05_all_models_scale_antitone :
  forall pw : R -> R -> R, (forall x m, 0 <= x -> 0 <= pw x m)%R ->
  (forall l x m, 0 <= l -> 0 <= x -> pw (l * x) m = pw l m * pw x m)%R -> (forall l m, 1 <= l -> 1 <= pw l m)%R ->
  forall (O : Type) (se : R * R * R -> O -> R), (forall l p o, 0 <= l -> se (scale3 l p) o = l * se p o)%R ->
  forall c V m p grid l, (0 <= c)%R -> (0 <= V)%R -> (forall ow, In ow grid -> 0 <= snd ow)%R -> (1 <= l)%R ->
  (logR pw O se c V m (scale3 l p) grid <= logR pw O se c V m p grid)%R.
Proof. exact logR_scale_antitone. Qed.
Print Assumptions C05_all_models_scale_antitone.

(* the equivalent stresses of the models are such functions: MTS and Shetty (se_half b), coplanar
   strain energy (se_cse b), averaged normal stress (se_normal) *)
Theorem C05_equivalent_stresses_homogeneous :
  (forall b l p o, 0 <= l -> se_half b (scale3 l p) o = l * se_half b p o)%R /\
  (forall b l p o, 0 <= l -> se_cse b (scale3 l p) o = l * se_cse b p o)%R /\
  (forall l p o, 0 <= l -> se_normal (scale3 l p) o = l * se_normal p o)%R.
Proof. split; [exact se_half_homogeneous | split; [exact se_cse_homogeneous | exact se_normal_homogeneous]]. Qed.
Print Assumptions C05_equivalent_stresses_homogeneous.

Theorem C05_compressive_no_tensile_normal :
  forall p o : R * R * R,
  (let '(a, b, c) := p in a <= 0 /\ b <= 0 /\ c <= 0)%R -> (let '(c1, c2, c3) := o in 0 <= c1 /\ 0 <= c2 /\ 0 <= c3)%R ->
  pos (se_normal p o) = 0%R.
Proof. exact compressive_no_tensile_normal. Qed.
Print Assumptions C05_compressive_no_tensile_normal.

(* non-vacuity: the hypotheses on the power function are satisfiable (x |-> x^2) *)
Example C05_power_hypotheses_satisfiable :
  let pw := fun (x m : R) => (x * x)%R in
  (forall x m, 0 <= x -> 0 <= pw x m)%R /\ (forall m, pw 0 m = 0)%R /\
  (forall l x m, 0 <= l -> 0 <= x -> pw (l * x) m = pw l m * pw x m)%R /\ (forall l m, 1 <= l -> 1 <= pw l m)%R.
Proof.
  cbv zeta. repeat split; intros.
  - apply Rmult_le_pos; assumption.
  - apply Rmult_0_l.
  - ring.
  - replace 1%R with (1 * 1)%R by ring. apply Rmult_le_compat; lra.
Qed.

(* element volumes (Tube.element_volumes, formulas regenerated from receiver.py): the trapezoid formula of
   the code is the difference of two polygon sectors *)
Theorem C05_element_area_formula :
  forall ri ro th, (0 <= ri <= ro)%R -> (0 <= th <= PI)%R ->
  let a := (2 * ri * sin (th / 2))%R in let b := (2 * ro * sin (th / 2))%R in
  ((a + b) / 2 * sqrt ((ro - ri) * (ro - ri) - ((b - a) / 2) * ((b - a) / 2)) = (ro * ro - ri * ri) / 2 * sin th)%R.
Proof. exact element_area_formula. Qed.
Print Assumptions C05_element_area_formula.

Theorem C05_volume_formulas_as_modelled : volume_formulas_as_modelled = true.
Proof. reflexivity. Qed.
Print Assumptions C05_volume_formulas_as_modelled.
