(* Property C03 — tube stress solution in equilibrium, agreeing across 1D/2D/3D,
   pressure load on the inner surface only.  Statements only; proofs in
   proofs/TubeMechProofs.v (mesh ordering, pressure load; the gen_* terms are
   coq/gen/TubeMesh.v, regenerated from structural.py on every run) and
   proofs/Lame.v (closed form, classical reals).

   What is proved: the generated 2D/3D connectivity lists exactly the cells of the
   (r, theta, z) grid in tube node order, every node index is in range, the eight
   corners of a cell are distinct, the numbering is injective; the pressure on a
   closed polygonal surface has zero resultant, each facet carries p times its
   length along its outward normal (no other component), the nodal loads are the
   halves of the adjacent facets, the axial weights add up to the height; the
   facet limit of the code separates the inner-surface facets from every other
   boundary facet (chord-midpoint radii by trigonometry over R); the 1D window
   holds the inner node only; the closed-form generalised-plane-strain field
   satisfies radial equilibrium for every temperature profile, its constants
   follow from the two surface conditions, the axial response has slope E.
   That the finite-element solution converges to that field and that the three
   abstractions agree is checked on the implementation by harness/props/c03.py. *)
From Coq Require Import QArith Reals List Bool.
From Coquelicot Require Import Coquelicot.
From SV Require Import model.TubeMech gen.TubeMesh proofs.TubeMechProofs proofs.Lame model.FE1D proofs.FE1DProofs.
Import ListNotations.

Theorem C03_conn3d_is_the_cell_table :
  forall nr nt nz el, In el (gen_conn3d nr nt nz) <-> exists i j k, (i < nr - 1 /\ j < nt /\ k < nz - 1)%nat /\ el = cell3 nt nz i j k.
Proof. exact gen_conn3d_cells. Qed.
Print Assumptions C03_conn3d_is_the_cell_table.

Theorem C03_conn2d_is_the_cell_table :
  forall nr nt el, In el (gen_conn2d nr nt) <-> exists i j, (i < nr - 1 /\ j < nt)%nat /\ el = cell2 nt i j.
Proof. exact gen_conn2d_cells. Qed.
Print Assumptions C03_conn2d_is_the_cell_table.

Theorem C03_generated_connectivity_is_the_model :
  (forall nr nt nz, gen_conn3d nr nt nz = conn3d nr nt nz) /\ (forall nr nt, gen_conn2d nr nt = conn2d nr nt).
Proof. split; [exact gen_conn3d_is_model | exact gen_conn2d_is_model]. Qed.
Print Assumptions C03_generated_connectivity_is_the_model.

Theorem C03_cells_name_existing_nodes :
  forall nr nt nz i j k n, (i < nr - 1 -> j < nt -> k < nz - 1 -> In n (cell3 nt nz i j k) -> n < nr * nt * nz)%nat.
Proof. exact cell3_in_range. Qed.
Print Assumptions C03_cells_name_existing_nodes.

Theorem C03_cell_corners_distinct :
  forall nt nz i j k, (2 <= nt)%nat -> (j < nt)%nat -> (S k < nz)%nat -> NoDup (cell3 nt nz i j k).
Proof. exact cell3_distinct. Qed.
Print Assumptions C03_cell_corners_distinct.

Theorem C03_numbering_injective :
  forall nt nz i j k i' j' k', (j < nt -> k < nz -> j' < nt -> k' < nz ->
  idx3 nt nz i j k = idx3 nt nz i' j' k' -> i = i' /\ j = j' /\ k = k')%nat.
Proof. exact idx3_injective. Qed.
Print Assumptions C03_numbering_injective.

Theorem C03_pressure_resultant_zero : forall p ps, veq (vsum (map (facet_force p) (edges ps))) (0, 0)%Q.
Proof. exact pressure_resultant_zero. Qed.
Print Assumptions C03_pressure_resultant_zero.

Theorem C03_facet_load_is_pressure_times_length :
  forall p e, (dot (facet_force p e) (facet_force p e) == p * p * dot e e)%Q /\ (dot (facet_force p e) e == 0)%Q.
Proof. intros p e. split; [exact (facet_force_magnitude p e) | exact (facet_force_normal p e)]. Qed.
Print Assumptions C03_facet_load_is_pressure_times_length.

Theorem C03_facet_load_points_outward :
  forall p a b, (dot (facet_force p (vsub b a)) (vscale (1 # 2) (vadd a b)) == p * cross a b)%Q.
Proof. exact facet_force_outward. Qed.
Print Assumptions C03_facet_load_points_outward.

Theorem C03_nodal_load_partition :
  forall p a b c, veq (nodal_force p a c) (vadd (vscale (1 # 2) (facet_force p (vsub b a))) (vscale (1 # 2) (facet_force p (vsub c b)))).
Proof. exact nodal_is_half_of_neighbours. Qed.
Print Assumptions C03_nodal_load_partition.

Theorem C03_axial_weights_total : forall z0 zs, (sumQ (trap_weights (z0 :: zs)) == last zs z0 - z0)%Q.
Proof. exact trap_weights_total. Qed.
Print Assumptions C03_axial_weights_total.

Theorem C03_pressure_facets_are_the_inner_surface :
  forall r t nr c rho, (0 < c)%Q -> (0 < t)%Q -> (1 < nr)%Q ->
  let ri := (r - t)%Q in let dr := (t / (nr - 1))%Q in
  ((rho == ri * c)%Q -> selected (gen_limit r t gen_tol nr c) rho = true) /\
  (((ri + dr / 2) * c <= rho)%Q -> selected (gen_limit r t gen_tol nr c) rho = false).
Proof. exact selection_is_inner_surface. Qed.
Print Assumptions C03_pressure_facets_are_the_inner_surface.

Theorem C03_facet_midpoint_radii :
  (forall rho a b, ((rho * cos a + rho * cos b) / 2) ^ 2 + ((rho * sin a + rho * sin b) / 2) ^ 2 = (rho * cos ((a - b) / 2)) ^ 2)%R /\
  (forall r1 r2 a b,
     ((r1 * cos a + r1 * cos b + r2 * cos a + r2 * cos b) / 4) ^ 2 + ((r1 * sin a + r1 * sin b + r2 * sin a + r2 * sin b) / 4) ^ 2
     = ((r1 + r2) / 2 * cos ((a - b) / 2)) ^ 2)%R.
Proof. split; [exact chord_midpoint_radius | exact face_centre_radius]. Qed.
Print Assumptions C03_facet_midpoint_radii.

Theorem C03_pressure_window_1d :
  forall r t x, (0 < t)%Q ->
  ((x == r - t)%Q -> (gen_lo1d r t gen_tol < x /\ x < gen_hi1d r t gen_tol)%Q) /\
  ((r - t + t * gen_tol <= x)%Q -> ~ (x < gen_hi1d r t gen_tol)%Q).
Proof. exact window_1d. Qed.
Print Assumptions C03_pressure_window_1d.

Theorem C03_traction : forall p n, (gen_traction p n == - (p * n))%Q.
Proof. exact traction_is_minus_pn. Qed.
Print Assumptions C03_traction.

Theorem C03_closed_form_in_equilibrium :
  forall lam mu alpha, (lam + 2 * mu <> 0)%R ->
  forall T T' J : R -> R, (forall r, (0 < r)%R -> is_derive T r (T' r)) -> (forall r, (0 < r)%R -> is_derive J r (r * T r)%R) ->
  forall C1 C2 ez r, (0 < r)%R ->
  is_derive (srr lam mu alpha T J C1 C2 ez) r (- (srr lam mu alpha T J C1 C2 ez r - stt lam mu alpha T J C1 C2 ez r) / r)%R.
Proof. exact radial_equilibrium. Qed.
Print Assumptions C03_closed_form_in_equilibrium.

Theorem C03_closed_form_surface_conditions :
  forall mu kJo p ri ro A B : R, (0 < ri < ro)%R -> (mu <> 0)%R ->
  (B = (p + 2 * mu * kJo / (ro * ro)) * (ri * ri) * (ro * ro) / (ro * ro - ri * ri))%R ->
  (A = (2 * mu * kJo + B) / (ro * ro))%R ->
  (A - B / (ri * ri) = - p /\ A - (2 * mu * kJo + B) / (ro * ro) = 0)%R.
Proof. exact lame_constants. Qed.
Print Assumptions C03_closed_form_surface_conditions.

Theorem C03_in_plane_stress_sum :
  forall lam mu alpha, (lam + 2 * mu <> 0)%R ->
  forall T T' J : R -> R, (forall r, (0 < r)%R -> is_derive T r (T' r)) -> (forall r, (0 < r)%R -> is_derive J r (r * T r)%R) ->
  forall C1 C2 ez r, (0 < r)%R ->
  is_derive (fun x => x * x * srr lam mu alpha T J C1 C2 ez x)%R r
            (r * (srr lam mu alpha T J C1 C2 ez r + stt lam mu alpha T J C1 C2 ez r))%R.
Proof. exact plane_stress_sum. Qed.
Print Assumptions C03_in_plane_stress_sum.

Theorem C03_axial_slope_is_youngs_modulus :
  forall lam mu : R, (lam + mu <> 0)%R ->
  let E := (mu * (3 * lam + 2 * mu) / (lam + mu))%R in
  forall A ez T2, (lam * ((A - lam * ez) / (lam + mu) + ez) + 2 * mu * ez - T2 = E * ez + lam * A / (lam + mu) - T2)%R.
Proof. exact axial_slope. Qed.
Print Assumptions C03_axial_slope_is_youngs_modulus.

(* the axisymmetric finite-element equations (model/FE1D.v; the 1D results of the implementation are certified
   against them in exact arithmetic by harness/props/c03.py) *)
Theorem C03_fe1d_nodal_forces_sum_to_the_hoop_pull :
  forall r0 r1 g srr stt szz, ~ (r1 - r0 == 0)%Q -> ~ (r0 + xi g * (r1 - r0) == 0)%Q ->
  (fst (gp_force r0 r1 g (srr, stt, szz)) + snd (gp_force r0 r1 g (srr, stt, szz))
   == wt g * (r1 - r0) * (stt - srr) / (r0 + xi g * (r1 - r0)))%Q.
Proof. exact gp_force_sum. Qed.
Print Assumptions C03_fe1d_nodal_forces_sum_to_the_hoop_pull.

Theorem C03_fe1d_hooke_differences :
  forall ez r0 r1 u0 u1 g d,
  let '(srr, stt, szz) := gp_stress ez r0 r1 u0 u1 g d in
  let er := ((u1 - u0) / (r1 - r0))%Q in
  let et := (((1 - xi g) * u0 + xi g * u1) / (r0 + xi g * (r1 - r0)))%Q in
  (srr - stt == 2 * mu d * (er - et) /\ szz - stt == 2 * mu d * (ez - et))%Q.
Proof. exact gp_stress_differences. Qed.
Print Assumptions C03_fe1d_hooke_differences.
