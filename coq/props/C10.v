(* Property C10 — a structural step succeeds only through converged,
   contiguous sub-increments.  Statements only; proofs live in
   proofs/AdaptiveProofs.v.  The model is tied to
   structural.PythonTubeSolver.solve by the exhaustive trace correspondence of
   harness/props/c10.py. *)
From Coq Require Import ZArith List.
From SV Require Import model.Adaptive proofs.AdaptiveProofs.
Import ListNotations.
Open Scope Z_scope.

(* every returned state was reached through a chain of attempts in which each
   attempt starts at the currently accepted (state, fraction), only converged
   attempts advance, each advance is strictly positive and within the step,
   and the chain ends at exactly the end of the step *)
Theorem C10_success_is_converged_contiguous :
  forall n forced fails f tr, 1 <= n ->
    run true n forced fails = (Return f, tr) ->
    Chain (total n) 0%nat 0 tr f.
Proof. exact success_is_converged_contiguous. Qed.
Print Assumptions C10_success_is_converged_contiguous.

(* the accepted attempts on their own follow one another without gaps,
   overlaps or zero-length steps *)
Theorem C10_accepted_contiguous :
  forall T st pos tr f, Chain T st pos tr f -> Contig T st pos (accepted tr) f.
Proof. exact chain_accepted. Qed.
Print Assumptions C10_accepted_contiguous.

(* a failed sub-increment is never a starting point *)
Theorem C10_failed_never_start :
  forall T st pos tr f, Chain T st pos tr f ->
  forall a, In a tr ->
    a_from_state a = st \/ exists b, In b tr /\ a_ok b = true /\ a_from_state a = S (a_idx b).
Proof. exact chain_starts_converged. Qed.
Print Assumptions C10_failed_never_start.

(* exhaustion raises, and only exhaustion raises *)
Theorem C10_raise_iff_exhausted :
  forall n forced fails o tr, 1 <= n ->
    run true n forced fails = (o, tr) ->
    let allowed := if forced then 1 else n in
    (o = Raise <-> Z.of_nat (count_failed tr) = allowed) /\
    ((exists f, o = Return f) <-> Z.of_nat (count_failed tr) < allowed).
Proof. exact raise_iff_exhausted. Qed.
Print Assumptions C10_raise_iff_exhausted.

(* the fuel of the model is never exhausted: the loop terminates *)
Theorem C10_model_terminates :
  forall n forced fails tr, 1 <= n -> run true n forced fails <> (OutOfFuel, tr).
Proof. exact never_out_of_fuel. Qed.
Print Assumptions C10_model_terminates.

(* the executable trace predicate used by the oracle is sound for Chain *)
Theorem C10_chainb_sound :
  forall T tr st pos f, chainb T st pos tr f = true -> Chain T st pos tr f.
Proof. exact chainb_sound. Qed.
Print Assumptions C10_chainb_sound.

(* the code as pinned (no `continue` after the except block) violates it *)
Theorem C10_pinned_code_refuted :
  exists fails f tr, run false 4 false fails = (Return f, tr)
                     /\ chainb (total 4) 0%nat 0 tr f = false.
Proof. exact literal_refuted. Qed.
Print Assumptions C10_pinned_code_refuted.
