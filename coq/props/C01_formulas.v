(* Properties C01 / C09, the metallic-life formulas as they stand in damage.py and materials.py
   (coq/gen/LifeFormulas.v, regenerated from the source on every run) are those of the model the theorems of C01.v
   and C09.v are about.  Statements only; proofs in proofs/LifeFormulasProofs.v. *)
From Coq Require Import QArith List Bool String ZArith.
From SV Require Import model.Life gen.LifeFormulas proofs.LifeFormulasProofs.
Import ListNotations.

Theorem C01_source_envelope_test_is_model : forall xk yk df dc, gen_inside xk yk df dc = inside xk yk df dc.
Proof. exact gen_inside_is_model. Qed.
Print Assumptions C01_source_envelope_test_is_model.

Theorem C01_source_von_mises_is_model : forall s, gen_vm2 s = vm2 s.
Proof. exact gen_vm2_is_model. Qed.
Print Assumptions C01_source_von_mises_is_model.

Theorem C01_source_strain_range_is_model :
  forall a b, (eqrange2 a b == (2 # 9) * gen_eq_radicand (sub6 (eng b) (eng a)))%Q.
Proof. exact gen_eq_radicand_is_model. Qed.
Print Assumptions C01_source_strain_range_is_model.

Theorem C01_source_strain_range_prefactor : (2 / ((2 * (1 + (1 # 2))) * (2 * (1 + (1 # 2)))) == 2 # 9)%Q.
Proof. exact prefactor_squared. Qed.
Print Assumptions C01_source_strain_range_prefactor.

Theorem C01_source_engineering_shear :
  gen_strain_table = [("mechanical_strain_xx"%string, 1 # 1); ("mechanical_strain_yy"%string, 1 # 1); ("mechanical_strain_zz"%string, 1 # 1);
                      ("mechanical_strain_yz"%string, 2 # 1); ("mechanical_strain_xz"%string, 2 # 1); ("mechanical_strain_xy"%string, 2 # 1)]%Q
  /\ forall e, eng e = mk6 (c_xx e) (c_yy e) (c_zz e) (2 * c_yz e) (2 * c_xz e) (2 * c_xy e)%Q.
Proof. exact gen_strain_table_is_eng. Qed.
Print Assumptions C01_source_engineering_shear.

Theorem C01_source_lump_rule_is_model :
  forall D N, extrap_lump D N = gen_extrap_lump (sumQ D) (inject_Z (Z.of_nat (List.length D))) N.
Proof. exact gen_extrap_lump_is_model. Qed.
Print Assumptions C01_source_lump_rule_is_model.

Theorem C01_source_repetition_bounds :
  gen_rep_defaults = [("rep_min"%string, 1 # 1); ("rep_max"%string, 1000000 # 1)]%Q /\ (rep_max = 1000000)%Q.
Proof. exact gen_rep_defaults_are_model. Qed.
Print Assumptions C01_source_repetition_bounds.

Theorem C01_source_formulas_are_modelled : gen_sources = expected_sources.
Proof. exact gen_sources_are_modelled. Qed.
Print Assumptions C01_source_formulas_are_modelled.
