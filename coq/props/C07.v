(* Property C07 — the coupled fluid-solid thermal solution is energy-consistent.
   Statements only; proofs in proofs/CoupledProofs.v, proofs/ThermalConservation.v,
   proofs/FlowPathProofs.v, proofs/LoopsProofs.v.

   What is proved about the models: the flow-path validation accepts exactly the
   partitions; write-back follows the declared panel order; in steady solid mode
   the heat entering a tube's outer wall leaves through its inner wall (discrete
   identity); along a path every tube's fluid gains exactly the heat its wall
   gives (C14); k identical tubes of multiplier m and one tube of multiplier k*m
   have the same balance; the reset trigger fires exactly at whole periods; the
   Picard loop returns only when its criterion holds (C17).  The factor between
   the solid's inner-wall exchange (half-node radius) and the fluid's wall
   integral (true radius) is (1 + dr/2r_o) / (1 - dr/2r_i) for the whole tube; it
   is used as the tolerance of the energy oracle and validated, not proved as a
   single theorem about the coupled fixed point. *)
From Coq Require Import QArith List Bool ZArith.
From SV Require Import theory.Sums model.Thermal model.FlowPath model.Coupled model.Loops
     proofs.ThermalConservation proofs.FlowPathProofs proofs.CoupledProofs proofs.LoopsProofs.
Import ListNotations.

Theorem C07_setup_accepts_iff_partition :
  forall names paths, NoDup names ->
  (setup names paths = Accept <->
   (forall n, In n names -> count_occ Nat.eq_dec (concat paths) n = 1%nat) /\
   (forall x, In x (concat paths) -> In x names)).
Proof. exact setup_accepts_iff_partition. Qed.
Print Assumptions C07_setup_accepts_iff_partition.

Theorem C07_writeback_pairs_declared_order :
  forall (A : Type) (declared : list nat) (blocks : list (list A)) j p b,
  nth_error declared j = Some p -> nth_error blocks j = Some b ->
  nth_error (writeback declared blocks) j = Some (p, b).
Proof. exact @writeback_pairs_declared_order. Qed.
Print Assumptions C07_writeback_pairs_declared_order.

(* steady solid mode: what enters through the outer wall leaves through the inner wall *)
Theorem C07_steady_tube_heat_balance :
  forall c T0 T, steady c = true -> rad_pos c -> tables_periodic c -> Eqs c T0 T ->
  (sum_jk c (fun j k => wall_in_inner c T j k + wall_in_outer c T j k) == 0)%Q.
Proof. exact steady_conserves. Qed.
Print Assumptions C07_steady_tube_heat_balance.

(* the fluid enters at the prescribed inlet temperature, panels are traversed in
   declared order with the previous manifold as inlet, every tube's fluid gains
   what its wall gives *)
Theorem C07_path_balances :
  forall pi f mdot inlet panels t0 rest,
  all_zero (path_residual pi f mdot inlet panels (t0 :: rest)) <->
  (t0 == inlet)%Q /\ chain_balanced pi f mdot panels t0 rest.
Proof. exact zero_residual_iff_balances. Qed.
Print Assumptions C07_path_balances.

Theorem C07_multiplier_merge :
  forall pi f (p1 p2 : panel) mdot tin tout tm,
  (ntube p1 == ntube p2)%Q -> ri p1 = ri p2 -> ht p1 = ht p2 -> zs p1 = zs p2 -> ntheta p1 = ntheta p2 ->
  (forall x y z, (x == y)%Q -> (film f x z (ri p1) == film f y z (ri p1))%Q) ->
  (forall t x y, (x == y)%Q -> (film f t x (ri p1) == film f t y (ri p1))%Q) ->
  (enthalpy_gain f p1 mdot tin tout == enthalpy_gain f p2 mdot tin tout)%Q /\
  (wall_heat pi f p1 mdot tin tout tm == wall_heat pi f p2 mdot tin tout tm)%Q.
Proof. exact multiplier_merge. Qed.
Print Assumptions C07_multiplier_merge.

Theorem C07_reset_at_cycle_ends :
  forall (period : Q) (n : Z), ~ (period == 0)%Q -> cycle_end (inject_Z n * period) period = true.
Proof. exact cycle_end_at_multiples. Qed.
Print Assumptions C07_reset_at_cycle_ends.

Theorem C07_reset_only_at_cycle_ends :
  forall (t period : Q), ~ (period == 0)%Q -> cycle_end t period = true -> exists n : Z, (t == inject_Z n * period)%Q.
Proof. exact cycle_end_only_at_multiples. Qed.
Print Assumptions C07_reset_only_at_cycle_ends.

Theorem C07_picard_returns_only_converged :
  forall atol rtol miter obs j,
  picard atol rtol miter obs = PRet j -> picard_conv atol rtol (obs j) = true /\ (j < miter)%nat.
Proof. exact picard_returns_converged. Qed.
Print Assumptions C07_picard_returns_only_converged.
