(* Property C07 — the coupled fluid-solid thermal solution is energy-consistent.
   Statements only; proofs in proofs/CoupledProofs.v, proofs/ThermalConservation.v,
   proofs/FlowPathProofs.v, proofs/LoopsProofs.v.

   What is proved about the models: the flow-path validation accepts exactly the
   partitions; write-back follows the declared panel order; in steady solid mode
   the heat entering a tube's outer wall leaves through its inner wall (discrete
   identity); along a path every tube's fluid gains exactly the heat its wall
   gives (C14); k identical tubes of multiplier m and one tube of multiplier k*m
   have the same balance; the reset trigger fires exactly at whole periods; the
   Picard loop returns only when its criterion holds (C17).  The energy clause
   through the coupled fixed point (proofs/CoupledEnergy.v): when the wall solver's
   steady equations hold with the film condition the coupled solver builds for a
   tube (that tube's film coefficient and reported fluid temperatures) and the tube's
   link of the flow path is balanced on the wall temperatures the solid returned, the
   enthalpy the fluid gains in the tube is the heat entering its outer surface times
   its multiplier times the half-node factor (r_i / (r_i - dr/2)) ((r_o + dr/2) / r_o),
   which lies in [1, 1 + 4 dr / r_i]: the radial discretisation error of the clause.
   Hypotheses: constant conductivity, a film coefficient that does not vary along
   the tube (with a temperature-dependent film the solid uses the local and the flow
   path the mean value). *)
From Coq Require Import QArith List Bool ZArith.
From SV Require Import theory.Sums model.Thermal model.FlowPath model.Coupled model.Loops
     proofs.ThermalConservation proofs.FlowPathProofs proofs.CoupledProofs proofs.LoopsProofs proofs.CoupledEnergy.
Import ListNotations.

Theorem C07_setup_accepts_iff_partition :
  forall names paths, NoDup names ->
  (setup names paths = Accept <->
   (forall n, In n names -> count_occ Nat.eq_dec (concat paths) n = 1%nat) /\
   (forall x, In x (concat paths) -> In x names)).
Proof. exact setup_accepts_iff_partition. Qed.
Print Assumptions C07_setup_accepts_iff_partition.

Theorem C07_writeback_pairs_declared_order :
  forall (A : Type) (declared : list nat) (blocks : list (list A)) j p b,
  nth_error declared j = Some p -> nth_error blocks j = Some b ->
  nth_error (writeback declared blocks) j = Some (p, b).
Proof. exact @writeback_pairs_declared_order. Qed.
Print Assumptions C07_writeback_pairs_declared_order.

(* steady solid mode: what enters through the outer wall leaves through the inner wall *)
Theorem C07_steady_tube_heat_balance :
  forall c T0 T, steady c = true -> rad_pos c -> tables_periodic c -> Eqs c T0 T ->
  (sum_jk c (fun j k => wall_in_inner c T j k + wall_in_outer c T j k) == 0)%Q.
Proof. exact steady_conserves. Qed.
Print Assumptions C07_steady_tube_heat_balance.

(* ... with a film condition inside and a prescribed flux outside, in the quantities the flow path uses *)
Theorem C07_solid_passes_outer_heat_to_film :
  forall c T0 T hf kc tfk q, steady c = true -> rad_pos c -> tables_periodic c -> Eqs c T0 T ->
  inner c = Conv (fun _ _ => hf) (fun _ k => tfk k) -> outer c = Flux q ->
  (0 < kc)%Q -> (forall i j k, cc c i j k == kc)%Q -> (forall i j k, kk c i j k == kc)%Q -> (0 < Thermal.dr c)%Q ->
  (hf * rh c 0%nat * sum_jk c (fun j k => T 1%nat j k - tfk k) == rh c (nr c) * sum_jk c q)%Q.
Proof. exact solid_inner_equals_outer. Qed.
Print Assumptions C07_solid_passes_outer_heat_to_film.

(* the energy clause for one tube, through the coupled fixed point *)
Theorem C07_tube_energy_balance :
  forall c T0 T kc q pi f p mdot tin w tout tfk,
  steady c = true -> rad_pos c -> tables_periodic c -> Eqs c T0 T ->
  inner c = Conv (fun _ _ => film f (tmean tin tout) (velocity pi f p mdot tin tout) (FlowPath.ri p)) (fun _ k => tfk k) ->
  outer c = Flux q ->
  (0 < kc)%Q -> (forall i j k, cc c i j k == kc)%Q -> (forall i j k, kk c i j k == kc)%Q -> (0 < Thermal.dr c)%Q ->
  fluid_temps p tin tout = map tfk (krange c) -> (0 < rh c 0%nat)%Q ->
  (q_mass f p mdot tin w tout == q_conv pi f p mdot tin w tout (metal_of c T))%Q ->
  (q_mass f p mdot tin w tout ==
   w * (FlowPath.ri p / rh c 0%nat) * rh c (nr c) * (FlowPath.dz p * dtheta pi p) * sum_jk c q)%Q.
Proof. exact tube_energy_balance. Qed.
Print Assumptions C07_tube_energy_balance.

Theorem C07_energy_factor_is_half_node :
  forall c rip, (rip == Thermal.ri c)%Q -> (0 < rh c 0%nat)%Q -> (0 < rad c (nr c))%Q ->
  ((rip / rh c 0%nat) * rh c (nr c) == half_node_factor (Thermal.ri c) (rad c (nr c)) (Thermal.dr c) * rad c (nr c))%Q.
Proof. exact tube_factor_is_half_node. Qed.
Print Assumptions C07_energy_factor_is_half_node.

Theorem C07_energy_factor_within_radial_discretisation :
  forall ri ro dr, (0 < dr)%Q -> (dr <= ri)%Q -> (ri <= ro)%Q ->
  (1 <= half_node_factor ri ro dr /\ half_node_factor ri ro dr <= 1 + 4 * dr / ri)%Q.
Proof. exact half_node_factor_bounds. Qed.
Print Assumptions C07_energy_factor_within_radial_discretisation.

(* the fluid enters at the prescribed inlet temperature, panels are traversed in
   declared order with the previous manifold as inlet, every tube's fluid gains
   what its wall gives *)
Theorem C07_path_balances :
  forall pi f mdot inlet panels t0 rest,
  all_zero (path_residual pi f mdot inlet panels (t0 :: rest)) <->
  (t0 == inlet)%Q /\ chain_balanced pi f mdot panels t0 rest.
Proof. exact zero_residual_iff_balances. Qed.
Print Assumptions C07_path_balances.

Theorem C07_multiplier_merge :
  forall pi f (p1 p2 : panel) mdot tin tout tm,
  (ntube p1 == ntube p2)%Q -> ri p1 = ri p2 -> ht p1 = ht p2 -> zs p1 = zs p2 -> ntheta p1 = ntheta p2 ->
  (forall x y z, (x == y)%Q -> (film f x z (ri p1) == film f y z (ri p1))%Q) ->
  (forall t x y, (x == y)%Q -> (film f t x (ri p1) == film f t y (ri p1))%Q) ->
  (enthalpy_gain f p1 mdot tin tout == enthalpy_gain f p2 mdot tin tout)%Q /\
  (wall_heat pi f p1 mdot tin tout tm == wall_heat pi f p2 mdot tin tout tm)%Q.
Proof. exact multiplier_merge. Qed.
Print Assumptions C07_multiplier_merge.

Theorem C07_reset_at_cycle_ends :
  forall (period : Q) (n : Z), ~ (period == 0)%Q -> cycle_end (inject_Z n * period) period = true.
Proof. exact cycle_end_at_multiples. Qed.
Print Assumptions C07_reset_at_cycle_ends.

Theorem C07_reset_only_at_cycle_ends :
  forall (t period : Q), ~ (period == 0)%Q -> cycle_end t period = true -> exists n : Z, (t == inject_Z n * period)%Q.
Proof. exact cycle_end_only_at_multiples. Qed.
Print Assumptions C07_reset_only_at_cycle_ends.

Theorem C07_picard_returns_only_converged :
  forall atol rtol miter obs j,
  picard atol rtol miter obs = PRet j -> picard_conv atol rtol (obs j) = true /\ (j < miter)%nat.
Proof. exact picard_returns_converged. Qed.
Print Assumptions C07_picard_returns_only_converged.
