(* Property C13 — every wall boundary-condition kind reproduces the steady
   cylinder solution.  Statements only; proofs in proofs/ThermalSteady.v.
   What is proved: the discrete steady profile in closed form (constant
   half-node heat flow), that it is a fixed point of the transient step, and
   that every transient step is non-expansive towards it.  The distance of the
   discrete profile from the logarithmic one (midpoint rule for 1/r) and strict
   convergence for long times are validated numerically by the oracle of
   harness/props/c13.py, not proved. *)
From Coq Require Import QArith List Bool ZArith.
From SV Require Import theory.Sums model.Thermal proofs.ThermalConservation
     proofs.ThermalMaxPrinciple proofs.ThermalSteady.
Import ListNotations.
Open Scope Q_scope.

Theorem C13_steady_flux_constant :
  forall c T0 T a k, steady c = true -> has_t c = false -> has_z c = false ->
  const_tables c a k -> 0 < a -> 0 < dr c -> rad_pos c -> Eqs c T0 T ->
  forall i, (i <= nr c)%nat ->
  rh c i * (T (S i) 0%nat 0%nat - T i 0%nat 0%nat) == rh c 0%nat * (T 1%nat 0%nat 0%nat - T 0%nat 0%nat 0%nat).
Proof. exact steady_flux_constant. Qed.
Print Assumptions C13_steady_flux_constant.

Theorem C13_steady_profile_partial :
  forall c T0 T a k, steady c = true -> has_t c = false -> has_z c = false ->
  const_tables c a k -> 0 < a -> 0 < dr c -> rad_pos c -> Eqs c T0 T ->
  (forall m, 0 < rh c m) ->
  forall i, (1 <= i <= S (nr c))%nat ->
  T i 0%nat 0%nat == T 1%nat 0%nat 0%nat
     + rh c 0%nat * (T 1%nat 0%nat 0%nat - T 0%nat 0%nat 0%nat) * sumL (fun m => 1 / rh c m) (seq 1 (i - 1)).
Proof. exact steady_profile. Qed.
Print Assumptions C13_steady_profile_partial.

Theorem C13_steady_is_fixed_point :
  forall c T0 T (q k dt0 dt' : Q),
  Eqs (retable c true dt0 (fun _ _ _ => k)) T0 T ->
  Eqs (retable c false dt' (fun _ _ _ => q * k)) T T.
Proof. exact steady_is_fixed_point. Qed.
Print Assumptions C13_steady_is_fixed_point.

Theorem C13_transient_nonexpansive :
  forall c Ts T0 T (M : Q), good c -> wall_h_nonneg c (inner c) -> wall_h_nonneg c (outer c) ->
  wall_no_flux (inner c) -> wall_no_flux (outer c) ->
  Eqs c Ts Ts -> Eqs c T0 T ->
  (forall i j k, real c i j k -> - M <= T0 i j k - Ts i j k <= M) ->
  forall i j k, real c i j k -> - M <= T i j k - Ts i j k <= M.
Proof. exact transient_nonexpansive. Qed.
Print Assumptions C13_transient_nonexpansive.
