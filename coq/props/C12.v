(* Property C12 — the thermal solution is rotation-equivariant and consistent
   across abstractions.  Statements only; proofs in proofs/ThermalEquivariance.v
   and proofs/ThermalMaxPrinciple.v. *)
From Coq Require Import QArith List Bool ZArith.
From SV Require Import theory.Sums model.Thermal proofs.ThermalConservation
     proofs.ThermalMaxPrinciple proofs.ThermalEquivariance.
Import ListNotations.
Open Scope Q_scope.

(* rotating tables, wall data and previous field by one circumferential cell
   rotates a solution by one cell (any number of cells by iteration) *)
Theorem C12_shift_equivariant :
  forall c T0 T, has_t c = true -> (2 <= nt c)%nat -> Eqs c T0 T ->
  (forall i k, In i (irange c) -> In k (krange c) -> periodic_at c (cc c) i k) ->
  Eqs (shift c) (shF (nt c) T0) (shF (nt c) T).
Proof. exact shift_equivariant. Qed.
Print Assumptions C12_shift_equivariant.

(* ... and changes nothing else: the rotated problem has no other solution *)
Theorem C12_shift_solution_is_shifted :
  forall c T0 T T', has_t c = true -> (2 <= nt c)%nat -> good c ->
  wall_h_nonneg c (inner c) -> wall_h_nonneg c (outer c) ->
  (forall i k, In i (irange c) -> In k (krange c) -> periodic_at c (cc c) i k) ->
  (forall i j k, 0 < cc c i (sg (nt c) j) k /\ 0 < kk c i (sg (nt c) j) k) ->
  Eqs c T0 T -> Eqs (shift c) (shF (nt c) T0) T' ->
  forall i j k, real c i j k -> T' i j k == T i (sg (nt c) j) k.
Proof. exact shift_solution_is_shifted. Qed.
Print Assumptions C12_shift_solution_is_shifted.

(* axisymmetric data: the 1D solution, copied to every ray, solves the 2D step *)
Theorem C12_axisym_2D_is_1D :
  forall c1 T0 T nt' dth', has_t c1 = false -> Eqs c1 T0 T ->
  Eqs (axisym_of c1 nt' dth') (lift_t T0) (lift_t T).
Proof. exact axisym_2D_is_1D. Qed.
Print Assumptions C12_axisym_2D_is_1D.

(* axially uniform data: the 2D solution, copied to every plane, solves the 3D step *)
Theorem C12_uniform_3D_is_2D :
  forall c2 T0 T nz' dz', has_z c2 = false -> Eqs c2 T0 T ->
  Eqs (zuniform_of c2 nz' dz') (lift_z T0) (lift_z T).
Proof. exact uniform_3D_is_2D. Qed.
Print Assumptions C12_uniform_3D_is_2D.

(* superposition for fixed coefficient tables *)
Theorem C12_superposition :
  forall c wi1 wo1 wi2 wo2 wi wo A0 A B0 B,
  walls_add wi1 wi2 wi -> walls_add wo1 wo2 wo ->
  Eqs (with_walls c wi1 wo1) A0 A -> Eqs (with_walls c wi2 wo2) B0 B ->
  Eqs (with_walls c wi wo) (addF A0 B0) (addF A B).
Proof. exact Eqs_add. Qed.
Print Assumptions C12_superposition.

(* the flattened (r, theta, z) numbering is a bijection onto [0, NR*NT*NZ) *)
Theorem C12_dof_injective :
  forall NT NZ i j k i' j' k', (j < NT)%nat -> (k < NZ)%nat -> (j' < NT)%nat -> (k' < NZ)%nat ->
  dof NT NZ i j k = dof NT NZ i' j' k' -> i = i' /\ j = j' /\ k = k'.
Proof. exact dof_injective. Qed.
Print Assumptions C12_dof_injective.

Theorem C12_dof_surjective :
  forall NR NT NZ d, (d < NR * NT * NZ)%nat ->
  exists i j k, (i < NR)%nat /\ (j < NT)%nat /\ (k < NZ)%nat /\ dof NT NZ i j k = d.
Proof. exact dof_surjective. Qed.
Print Assumptions C12_dof_surjective.
