(* Properties C02 / C06 / C12 / C13, the finite-difference system as it stands in thermal.py
   (coq/gen/ThermalStencil.v, regenerated from the source on every run) is the proposition Eqs of model/Thermal.v
   that the conservation, maximum-principle, equivariance and steady-profile theorems are about.  Statements only;
   proofs in proofs/ThermalStencilProofs.v. *)
From Coq Require Import QArith List Bool String.
From SV Require Import model.Thermal gen.ThermalStencil proofs.ThermalStencilProofs.
Import ListNotations.

(* the three diagonals of each direction, read at the row's own index, give the model's difference operators *)
Theorem C02_source_radial_operator_is_model :
  forall c T i j k, (1 <= i)%nat -> ~ (rad c i == 0)%Q -> ~ (dr c == 0)%Q -> (gen_radial_row c 1 T i j k == L_r c T i j k)%Q.
Proof. exact gen_radial_row_is_model. Qed.
Print Assumptions C02_source_radial_operator_is_model.

Theorem C02_source_circumferential_operator_is_model :
  forall c T i j k, ~ (rad c i == 0)%Q -> has_t c = true -> (1 <= j)%nat -> ~ (dth c == 0)%Q ->
  (gen_circ_row c 1 T i j k == L_t c T i j k)%Q.
Proof. exact gen_circ_row_is_model. Qed.
Print Assumptions C02_source_circumferential_operator_is_model.

Theorem C02_source_axial_operator_is_model :
  forall c T i j k, has_z c = true -> (1 <= k)%nat -> ~ (dz c == 0)%Q -> (gen_axial_row c 1 T i j k == L_z c T i j k)%Q.
Proof. exact gen_axial_row_is_model. Qed.
Print Assumptions C02_source_axial_operator_is_model.

(* row of M T - R of solve_step at a real node, steady and transient *)
Theorem C02_source_node_row_is_model :
  forall c T0 T i j k, (1 <= i)%nat -> ~ (rad c i == 0)%Q -> ~ (dr c == 0)%Q ->
  (has_t c = true -> (1 <= j)%nat /\ ~ (dth c == 0)%Q) -> (has_z c = true -> (1 <= k)%nat /\ ~ (dz c == 0)%Q) ->
  (gen_node_row c 1 T0 T i j k == res_node c T0 T i j k)%Q.
Proof. exact gen_node_row_is_model. Qed.
Print Assumptions C02_source_node_row_is_model.

(* ghost rows of the inner and outer wall for every kind of wall condition *)
Theorem C02_source_inner_wall_rows_are_model :
  forall c T j k, ~ (kk c 1%nat j k == 0)%Q -> (wall_inner_row c T j k == res_inner c T j k)%Q.
Proof. exact gen_inner_rows_are_model. Qed.
Print Assumptions C02_source_inner_wall_rows_are_model.

Theorem C02_source_outer_wall_rows_are_model :
  forall c T j k, ~ (kk c (nr c) j k == 0)%Q -> (wall_outer_row c T j k == res_outer c T j k)%Q.
Proof. exact gen_outer_rows_are_model. Qed.
Print Assumptions C02_source_outer_wall_rows_are_model.

(* the whole system of the code is the model's Eqs *)
Theorem C02_source_system_is_model_equations :
  forall c T0 T, grid_ok c -> (code_system c T0 T <-> Eqs c T0 T).
Proof. exact code_system_is_model_equations. Qed.
Print Assumptions C02_source_system_is_model_equations.

Theorem C02_source_step_facts :
  gen_step_sources = [("coefficient_steady", "self.c=self.k"); ("coefficient_transient", "self.c=self.a");
                      ("conductivity", "self.material.conductivity(T).reshape(self.fdim)");
                      ("substep_start", "time-dt"); ("substep_length", "dt/self.substep"); ("substep_time", "t_n+dti*i");
                      ("substep_chain", "self.solve_step(T,t,dti)"); ("substep_range", "range(1,self.substep+1)");
                      ("dof", "i*self.nt*self.nz+j*self.nz+k");
                      ("ghost_rows", "M=self._ID_BC()+self._OD_BC();ifself.ndim>1:M+=self._left_BC()+self._right_BC();ifself.ndim>2:M+=self._top_BC()+self._bot_BC();returnM");
                      ("axial_rhs", "self.ndim>2")]%string.
Proof. exact gen_step_sources_are_modelled. Qed.
Print Assumptions C02_source_step_facts.
