(* Property C20 — shipped material data load and behave monotonically.
   Statements only.  The data are coq/gen/MaterialData.v, regenerated from
   /repo/srlife/data on every run by harness/translators/matdata.py; proofs in
   proofs/MaterialProofs.v (rationals).  The monotonicity of the shipped rupture and
   fatigue correlations (reals, Coq-Interval + Coquelicot) is in props/C20_real.v. *)
From Coq Require Import QArith List Bool String.
From SV Require Import model.Interp proofs.InterpProofs model.Life model.Materials
     gen.MaterialData proofs.MaterialProofs.
Import ListNotations.

(* every tabulated conductivity, diffusivity, film coefficient, ceramic strength,
   modulus and fatigue parameter: abscissae strictly increasing, values positive *)
Theorem C20_tables_positive_increasing : forallb table_ok pw_tables = true.
Proof. exact tables_positive_increasing. Qed.
Print Assumptions C20_tables_positive_increasing.

Theorem C20_scalars_positive : forallb (fun s => negb (Qle_bool (snd s) 0)) pos_scalars = true.
Proof. exact scalars_positive. Qed.
Print Assumptions C20_scalars_positive.

(* hence the interpolated property is positive over the whole tabulated range *)
Theorem C20_piecewise_positive :
  forall xs ys x, increasing xs -> List.length ys = List.length xs -> (2 <= List.length xs)%nat ->
  (forall y, In y ys -> (0 < y)%Q) -> (nth 0 xs 0 <= x <= last xs 0)%Q -> (0 < interp1 xs ys x)%Q.
Proof. exact piecewise_positive. Qed.
Print Assumptions C20_piecewise_positive.

(* tabulated models return their table values at the table points *)
Theorem C20_table_exact :
  forall xs ys i, increasing xs -> List.length ys = List.length xs -> (2 <= List.length xs)%nat -> (i < List.length xs)%nat ->
  (interp1 xs ys (nth i xs 0) == nth i ys 0)%Q.
Proof. exact interp1_grid_exact. Qed.
Print Assumptions C20_table_exact.

(* interaction envelopes: knee strictly inside the unit square, the boundary
   passes through (0,1), the knee and (1,0) *)
Theorem C20_envelopes_through_points : forallb envelope_ok envelopes = true.
Proof. exact envelopes_through_points. Qed.
Print Assumptions C20_envelopes_through_points.

Theorem C20_envelope_points :
  forall xk yk, (0 < xk < 1)%Q -> (0 < yk < 1)%Q ->
  inside xk yk 0 1 = true /\ inside xk yk xk yk = true /\ inside xk yk 1 0 = true /\
  (forall e, (0 < e)%Q -> inside xk yk 0 (1 + e) = false /\ inside xk yk xk (yk + e) = false /\ inside xk yk 1 e = false).
Proof. exact envelope_points. Qed.
Print Assumptions C20_envelope_points.

(* curve selection: the first curve whose temperature is not below the query,
   strain range clamped from below by THAT curve's cut-off *)
Theorem C20_fatigue_selection :
  forall curves temp erange i j e, select_curve curves temp erange i = Some (j, e) ->
  exists T cut, nth_error curves (j - i) = Some (T, cut) /\ (i <= j)%nat /\ (temp <= T)%Q /\
    (forall k T' c', (k < j - i)%nat -> nth_error curves k = Some (T', c') -> (T' < temp)%Q) /\
    ((erange <= cut)%Q /\ e = cut \/ (cut < erange)%Q /\ e = erange).
Proof. exact select_curve_spec. Qed.
Print Assumptions C20_fatigue_selection.

(* XML (de)serialisation of a dictionary with distinct keys *)
Theorem C20_xml_roundtrip :
  forall k ch, NoDup (map fst ch) ->
  match load_tree (Node ch) with
  | Node ch' => lookup k ch' = option_map load_tree (lookup k ch)
  | Leaf _ => False
  end.
Proof. exact xml_roundtrip_lookup. Qed.
Print Assumptions C20_xml_roundtrip.
