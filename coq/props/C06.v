(* Property C06 — solid temperatures obey the discrete maximum principle, for
   every step size.  Statements only; proofs in proofs/ThermalMaxPrinciple.v
   and proofs/ThermalWitness.v. *)
From Coq Require Import QArith List Bool ZArith.
From SV Require Import theory.Sums model.Thermal proofs.ThermalConservation
     proofs.ThermalMaxPrinciple proofs.ThermalWitness.
Import ListNotations.
Open Scope Q_scope.

(* between the smallest and largest of the previous temperatures, the
   prescribed wall temperatures and the fluid temperatures; dt > 0 arbitrary *)
Theorem C06_max_principle :
  forall c T0 T b B, good c -> Eqs c T0 T ->
  (forall i j k, real c i j k -> b <= T0 i j k <= B) ->
  wall_within c (inner c) b B -> wall_within c (outer c) b B ->
  forall i j k, real c i j k -> b <= T i j k <= B.
Proof. exact max_principle. Qed.
Print Assumptions C06_max_principle.

(* one-sided versions, which also admit prescribed flux of the right sign:
   non-negative heat input never cools a node below the earlier minimum *)
Theorem C06_lower_bound :
  forall c T0 T b, good c -> Eqs c T0 T ->
  (forall i j k, real c i j k -> b <= T0 i j k) ->
  wall_lower c (inner c) b -> wall_lower c (outer c) b ->
  forall i j k, real c i j k -> b <= T i j k.
Proof. exact lower_bound. Qed.
Print Assumptions C06_lower_bound.

Theorem C06_upper_bound :
  forall c T0 T B, good c -> Eqs c T0 T ->
  (forall i j k, real c i j k -> T0 i j k <= B) ->
  wall_upper c (inner c) B -> wall_upper c (outer c) B ->
  forall i j k, real c i j k -> T i j k <= B.
Proof. exact upper_bound. Qed.
Print Assumptions C06_upper_bound.

(* an insulated tube keeps a uniform field uniform, for ever *)
Theorem C06_uniform_stays_uniform :
  forall c T0 T u, good c -> Eqs c T0 T -> inner c = Ins -> outer c = Ins ->
  (forall i j k, real c i j k -> T0 i j k == u) ->
  forall i j k, real c i j k -> T i j k == u.
Proof. exact uniform_stays_uniform. Qed.
Print Assumptions C06_uniform_stays_uniform.

Theorem C06_uniform_for_ever :
  forall (cs : list cfg) (Ts : nat -> field) (u : Q),
  (forall n c, nth_error cs n = Some c ->
      good c /\ inner c = Ins /\ outer c = Ins /\ Eqs c (Ts n) (Ts (S n)) /\
      (forall c', In c' cs -> forall i j k, real c' i j k <-> real c i j k)) ->
  (forall c, In c cs -> forall i j k, real c i j k -> Ts 0%nat i j k == u) ->
  forall n c, (n <= length cs)%nat -> In c cs -> forall i j k, real c i j k -> Ts n i j k == u.
Proof. exact uniform_for_ever. Qed.
Print Assumptions C06_uniform_for_ever.

(* the implicit system has at most one solution on the real nodes *)
Theorem C06_unique_solution :
  forall c T0 Ta Tb, good c -> wall_h_nonneg c (inner c) -> wall_h_nonneg c (outer c) ->
  Eqs c T0 Ta -> Eqs c T0 Tb -> forall i j k, real c i j k -> Ta i j k == Tb i j k.
Proof. exact unique_solution. Qed.
Print Assumptions C06_unique_solution.

(* the executable certificate used by the correspondence is sound *)
Theorem C06_certificate_sound :
  forall c T0 T, check_step 0 c T0 T = true -> Eqs c T0 T.
Proof. exact check_step_sound. Qed.
Print Assumptions C06_certificate_sound.

(* hypothesis H1 (dr < 2 r_inner, part of [good]) cannot be dropped: thick tube,
   coarse radial grid, convective inner wall -> the wall node overshoots *)
Theorem C06_needs_H1_refuted :
  exists c T0 T,
    steady c = false /\ 0 < dt c /\ 0 < dr c /\ coeffs_pos c /\ 0 < ri c /\
    ~ (dr c < 2 * ri c) /\ Eqs c T0 T /\
    (forall i j k, real c i j k -> 300 <= T0 i j k <= 500) /\
    wall_within c (inner c) 300 500 /\ wall_within c (outer c) 300 500 /\
    exists i j k, real c i j k /\ 500 < T i j k.
Proof. exact max_principle_needs_H1. Qed.
Print Assumptions C06_needs_H1_refuted.
