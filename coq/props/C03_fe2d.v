(* Property C03, the bilinear-quadrilateral model (model/FE2D.v) whose equations the 2D results are certified against on
   every run (harness/props/c03.py: nodal force residual, Hooke's law on the stored displacements, axial force) is a
   consistent finite-element model: on every non-degenerate element the physical shape-function derivatives sum to zero and
   reproduce the coordinates, every linear displacement field has its constant strain (patch test), and the nodal forces of
   any stress at a point balance.  Statements only; proofs in proofs/FE2DProofs.v. *)
From Coq Require Import QArith List Bool.
From SV Require Import model.FE2D proofs.FE2DProofs.
Import ListNotations.

Definition quad (x1 y1 x2 y2 x3 y3 x4 y4 : Q) : list vec := [(x1, y1); (x2, y2); (x3, y3); (x4, y4)].
Definition det_at (x1 y1 x2 y2 x3 y3 x4 y4 x y : Q) : Q :=
  ((-(1 - y) * x1 + (1 - y) * x2 + y * x3 + - y * x4) * (-(1 - x) * y1 + - x * y2 + x * y3 + (1 - x) * y4)
   - (-(1 - x) * x1 + - x * x2 + x * x3 + (1 - x) * x4) * (-(1 - y) * y1 + (1 - y) * y2 + y * y3 + - y * y4))%Q.

Theorem C03_fe2d_jacobian_determinant :
  forall x1 y1 x2 y2 x3 y3 x4 y4 x y,
  (detj (jac (quad x1 y1 x2 y2 x3 y3 x4 y4) x y) == det_at x1 y1 x2 y2 x3 y3 x4 y4 x y)%Q.
Proof. exact detj_explicit. Qed.
Print Assumptions C03_fe2d_jacobian_determinant.

Theorem C03_fe2d_derivatives_sum_to_zero :
  forall x1 y1 x2 y2 x3 y3 x4 y4 x y, ~ (det_at x1 y1 x2 y2 x3 y3 x4 y4 x y == 0)%Q ->
  (sumQ (map fst (dphys (quad x1 y1 x2 y2 x3 y3 x4 y4) x y)) == 0 /\
   sumQ (map snd (dphys (quad x1 y1 x2 y2 x3 y3 x4 y4) x y)) == 0)%Q.
Proof. exact derivatives_sum_to_zero. Qed.
Print Assumptions C03_fe2d_derivatives_sum_to_zero.

Theorem C03_fe2d_derivatives_reproduce_coordinates :
  forall x1 y1 x2 y2 x3 y3 x4 y4 x y, ~ (det_at x1 y1 x2 y2 x3 y3 x4 y4 x y == 0)%Q ->
  let ns := quad x1 y1 x2 y2 x3 y3 x4 y4 in
  (dotl (map fst (dphys ns x y)) (map fst ns) == 1 /\ dotl (map fst (dphys ns x y)) (map snd ns) == 0 /\
   dotl (map snd (dphys ns x y)) (map fst ns) == 0 /\ dotl (map snd (dphys ns x y)) (map snd ns) == 1)%Q.
Proof. exact derivatives_reproduce_coordinates. Qed.
Print Assumptions C03_fe2d_derivatives_reproduce_coordinates.

Theorem C03_fe2d_patch_test :
  forall x1 y1 x2 y2 x3 y3 x4 y4 x y, ~ (det_at x1 y1 x2 y2 x3 y3 x4 y4 x y == 0)%Q ->
  forall a11 a12 a21 a22 b1 b2,
  let ns := quad x1 y1 x2 y2 x3 y3 x4 y4 in
  let us := map (fun n : vec => (a11 * fst n + a12 * snd n + b1, a21 * fst n + a22 * snd n + b2)%Q) ns in
  (fst (fst (strain2 ns us x y)) == a11 /\ snd (fst (strain2 ns us x y)) == a22 /\ snd (strain2 ns us x y) == a12 + a21)%Q.
Proof. exact patch_test. Qed.
Print Assumptions C03_fe2d_patch_test.

Theorem C03_fe2d_point_forces_balance :
  forall x1 y1 x2 y2 x3 y3 x4 y4 x y, ~ (det_at x1 y1 x2 y2 x3 y3 x4 y4 x y == 0)%Q ->
  forall w s,
  let f := gp_forces2 (quad x1 y1 x2 y2 x3 y3 x4 y4) (mkG2 x y w) s in
  (sumQ (map fst f) == 0 /\ sumQ (map snd f) == 0)%Q.
Proof. exact point_forces_balance. Qed.
Print Assumptions C03_fe2d_point_forces_balance.
