model/Adaptive.vo model/Adaptive.glob model/Adaptive.v.beautified model/Adaptive.required_vo: model/Adaptive.v 
model/Adaptive.vio: model/Adaptive.v 
model/Adaptive.vos model/Adaptive.vok model/Adaptive.required_vos: model/Adaptive.v 
proofs/AdaptiveProofs.vo proofs/AdaptiveProofs.glob proofs/AdaptiveProofs.v.beautified proofs/AdaptiveProofs.required_vo: proofs/AdaptiveProofs.v model/Adaptive.vo
proofs/AdaptiveProofs.vio: proofs/AdaptiveProofs.v model/Adaptive.vio
proofs/AdaptiveProofs.vos proofs/AdaptiveProofs.vok proofs/AdaptiveProofs.required_vos: proofs/AdaptiveProofs.v model/Adaptive.vos
model/Interp.vo model/Interp.glob model/Interp.v.beautified model/Interp.required_vo: model/Interp.v 
model/Interp.vio: model/Interp.v 
model/Interp.vos model/Interp.vok model/Interp.required_vos: model/Interp.v 
proofs/InterpProofs.vo proofs/InterpProofs.glob proofs/InterpProofs.v.beautified proofs/InterpProofs.required_vo: proofs/InterpProofs.v model/Interp.vo
proofs/InterpProofs.vio: proofs/InterpProofs.v model/Interp.vio
proofs/InterpProofs.vos proofs/InterpProofs.vok proofs/InterpProofs.required_vos: proofs/InterpProofs.v model/Interp.vos
theory/Sums.vo theory/Sums.glob theory/Sums.v.beautified theory/Sums.required_vo: theory/Sums.v 
theory/Sums.vio: theory/Sums.v 
theory/Sums.vos theory/Sums.vok theory/Sums.required_vos: theory/Sums.v 
theory/PolyMono.vo theory/PolyMono.glob theory/PolyMono.v.beautified theory/PolyMono.required_vo: theory/PolyMono.v 
theory/PolyMono.vio: theory/PolyMono.v 
theory/PolyMono.vos theory/PolyMono.vok theory/PolyMono.required_vos: theory/PolyMono.v 
model/Thermal.vo model/Thermal.glob model/Thermal.v.beautified model/Thermal.required_vo: model/Thermal.v 
model/Thermal.vio: model/Thermal.v 
model/Thermal.vos model/Thermal.vok model/Thermal.required_vos: model/Thermal.v 
model/Life.vo model/Life.glob model/Life.v.beautified model/Life.required_vo: model/Life.v 
model/Life.vio: model/Life.v 
model/Life.vos model/Life.vok model/Life.required_vos: model/Life.v 
model/Loops.vo model/Loops.glob model/Loops.v.beautified model/Loops.required_vo: model/Loops.v 
model/Loops.vio: model/Loops.v 
model/Loops.vos model/Loops.vok model/Loops.required_vos: model/Loops.v 
model/FlowPath.vo model/FlowPath.glob model/FlowPath.v.beautified model/FlowPath.required_vo: model/FlowPath.v 
model/FlowPath.vio: model/FlowPath.v 
model/FlowPath.vos model/FlowPath.vok model/FlowPath.required_vos: model/FlowPath.v 
model/Coupled.vo model/Coupled.glob model/Coupled.v.beautified model/Coupled.required_vo: model/Coupled.v 
model/Coupled.vio: model/Coupled.v 
model/Coupled.vos model/Coupled.vok model/Coupled.required_vos: model/Coupled.v 
model/Spring.vo model/Spring.glob model/Spring.v.beautified model/Spring.required_vo: model/Spring.v 
model/Spring.vio: model/Spring.v 
model/Spring.vos model/Spring.vok model/Spring.required_vos: model/Spring.v 
model/H5.vo model/H5.glob model/H5.v.beautified model/H5.required_vo: model/H5.v 
model/H5.vio: model/H5.v 
model/H5.vos model/H5.vok model/H5.required_vos: model/H5.v 
model/Film.vo model/Film.glob model/Film.v.beautified model/Film.required_vo: model/Film.v 
model/Film.vio: model/Film.v 
model/Film.vos model/Film.vok model/Film.required_vos: model/Film.v 
model/Materials.vo model/Materials.glob model/Materials.v.beautified model/Materials.required_vo: model/Materials.v 
model/Materials.vio: model/Materials.v 
model/Materials.vos model/Materials.vok model/Materials.required_vos: model/Materials.v 
model/Weibull.vo model/Weibull.glob model/Weibull.v.beautified model/Weibull.required_vo: model/Weibull.v model/Life.vo
model/Weibull.vio: model/Weibull.v model/Life.vio
model/Weibull.vos model/Weibull.vok model/Weibull.required_vos: model/Weibull.v model/Life.vos
model/Strain.vo model/Strain.glob model/Strain.v.beautified model/Strain.required_vo: model/Strain.v model/Interp.vo
model/Strain.vio: model/Strain.v model/Interp.vio
model/Strain.vos model/Strain.vok model/Strain.required_vos: model/Strain.v model/Interp.vos
model/TubeMech.vo model/TubeMech.glob model/TubeMech.v.beautified model/TubeMech.required_vo: model/TubeMech.v 
model/TubeMech.vio: model/TubeMech.v 
model/TubeMech.vos model/TubeMech.vok model/TubeMech.required_vos: model/TubeMech.v 
proofs/ThermalConservation.vo proofs/ThermalConservation.glob proofs/ThermalConservation.v.beautified proofs/ThermalConservation.required_vo: proofs/ThermalConservation.v theory/Sums.vo model/Thermal.vo
proofs/ThermalConservation.vio: proofs/ThermalConservation.v theory/Sums.vio model/Thermal.vio
proofs/ThermalConservation.vos proofs/ThermalConservation.vok proofs/ThermalConservation.required_vos: proofs/ThermalConservation.v theory/Sums.vos model/Thermal.vos
proofs/ThermalMaxPrinciple.vo proofs/ThermalMaxPrinciple.glob proofs/ThermalMaxPrinciple.v.beautified proofs/ThermalMaxPrinciple.required_vo: proofs/ThermalMaxPrinciple.v theory/Sums.vo model/Thermal.vo proofs/ThermalConservation.vo
proofs/ThermalMaxPrinciple.vio: proofs/ThermalMaxPrinciple.v theory/Sums.vio model/Thermal.vio proofs/ThermalConservation.vio
proofs/ThermalMaxPrinciple.vos proofs/ThermalMaxPrinciple.vok proofs/ThermalMaxPrinciple.required_vos: proofs/ThermalMaxPrinciple.v theory/Sums.vos model/Thermal.vos proofs/ThermalConservation.vos
proofs/ThermalWitness.vo proofs/ThermalWitness.glob proofs/ThermalWitness.v.beautified proofs/ThermalWitness.required_vo: proofs/ThermalWitness.v theory/Sums.vo model/Thermal.vo proofs/ThermalConservation.vo proofs/ThermalMaxPrinciple.vo
proofs/ThermalWitness.vio: proofs/ThermalWitness.v theory/Sums.vio model/Thermal.vio proofs/ThermalConservation.vio proofs/ThermalMaxPrinciple.vio
proofs/ThermalWitness.vos proofs/ThermalWitness.vok proofs/ThermalWitness.required_vos: proofs/ThermalWitness.v theory/Sums.vos model/Thermal.vos proofs/ThermalConservation.vos proofs/ThermalMaxPrinciple.vos
proofs/ThermalEquivariance.vo proofs/ThermalEquivariance.glob proofs/ThermalEquivariance.v.beautified proofs/ThermalEquivariance.required_vo: proofs/ThermalEquivariance.v theory/Sums.vo model/Thermal.vo proofs/ThermalConservation.vo proofs/ThermalMaxPrinciple.vo
proofs/ThermalEquivariance.vio: proofs/ThermalEquivariance.v theory/Sums.vio model/Thermal.vio proofs/ThermalConservation.vio proofs/ThermalMaxPrinciple.vio
proofs/ThermalEquivariance.vos proofs/ThermalEquivariance.vok proofs/ThermalEquivariance.required_vos: proofs/ThermalEquivariance.v theory/Sums.vos model/Thermal.vos proofs/ThermalConservation.vos proofs/ThermalMaxPrinciple.vos
proofs/ThermalSteady.vo proofs/ThermalSteady.glob proofs/ThermalSteady.v.beautified proofs/ThermalSteady.required_vo: proofs/ThermalSteady.v theory/Sums.vo model/Thermal.vo proofs/ThermalConservation.vo proofs/ThermalMaxPrinciple.vo
proofs/ThermalSteady.vio: proofs/ThermalSteady.v theory/Sums.vio model/Thermal.vio proofs/ThermalConservation.vio proofs/ThermalMaxPrinciple.vio
proofs/ThermalSteady.vos proofs/ThermalSteady.vok proofs/ThermalSteady.required_vos: proofs/ThermalSteady.v theory/Sums.vos model/Thermal.vos proofs/ThermalConservation.vos proofs/ThermalMaxPrinciple.vos
proofs/LifeProofs.vo proofs/LifeProofs.glob proofs/LifeProofs.v.beautified proofs/LifeProofs.required_vo: proofs/LifeProofs.v model/Life.vo
proofs/LifeProofs.vio: proofs/LifeProofs.v model/Life.vio
proofs/LifeProofs.vos proofs/LifeProofs.vok proofs/LifeProofs.required_vos: proofs/LifeProofs.v model/Life.vos
proofs/LifeMin.vo proofs/LifeMin.glob proofs/LifeMin.v.beautified proofs/LifeMin.required_vo: proofs/LifeMin.v model/Life.vo proofs/LifeProofs.vo
proofs/LifeMin.vio: proofs/LifeMin.v model/Life.vio proofs/LifeProofs.vio
proofs/LifeMin.vos proofs/LifeMin.vok proofs/LifeMin.required_vos: proofs/LifeMin.v model/Life.vos proofs/LifeProofs.vos
proofs/LifeInvariance.vo proofs/LifeInvariance.glob proofs/LifeInvariance.v.beautified proofs/LifeInvariance.required_vo: proofs/LifeInvariance.v model/Life.vo proofs/LifeProofs.vo proofs/LifeMin.vo
proofs/LifeInvariance.vio: proofs/LifeInvariance.v model/Life.vio proofs/LifeProofs.vio proofs/LifeMin.vio
proofs/LifeInvariance.vos proofs/LifeInvariance.vok proofs/LifeInvariance.required_vos: proofs/LifeInvariance.v model/Life.vos proofs/LifeProofs.vos proofs/LifeMin.vos
proofs/LoopsProofs.vo proofs/LoopsProofs.glob proofs/LoopsProofs.v.beautified proofs/LoopsProofs.required_vo: proofs/LoopsProofs.v model/Loops.vo
proofs/LoopsProofs.vio: proofs/LoopsProofs.v model/Loops.vio
proofs/LoopsProofs.vos proofs/LoopsProofs.vok proofs/LoopsProofs.required_vos: proofs/LoopsProofs.v model/Loops.vos
proofs/FlowPathProofs.vo proofs/FlowPathProofs.glob proofs/FlowPathProofs.v.beautified proofs/FlowPathProofs.required_vo: proofs/FlowPathProofs.v model/FlowPath.vo
proofs/FlowPathProofs.vio: proofs/FlowPathProofs.v model/FlowPath.vio
proofs/FlowPathProofs.vos proofs/FlowPathProofs.vok proofs/FlowPathProofs.required_vos: proofs/FlowPathProofs.v model/FlowPath.vos
proofs/CoupledProofs.vo proofs/CoupledProofs.glob proofs/CoupledProofs.v.beautified proofs/CoupledProofs.required_vo: proofs/CoupledProofs.v model/Coupled.vo model/FlowPath.vo proofs/FlowPathProofs.vo
proofs/CoupledProofs.vio: proofs/CoupledProofs.v model/Coupled.vio model/FlowPath.vio proofs/FlowPathProofs.vio
proofs/CoupledProofs.vos proofs/CoupledProofs.vok proofs/CoupledProofs.required_vos: proofs/CoupledProofs.v model/Coupled.vos model/FlowPath.vos proofs/FlowPathProofs.vos
proofs/SpringProofs.vo proofs/SpringProofs.glob proofs/SpringProofs.v.beautified proofs/SpringProofs.required_vo: proofs/SpringProofs.v model/Spring.vo
proofs/SpringProofs.vio: proofs/SpringProofs.v model/Spring.vio
proofs/SpringProofs.vos proofs/SpringProofs.vok proofs/SpringProofs.required_vos: proofs/SpringProofs.v model/Spring.vos
proofs/H5Proofs.vo proofs/H5Proofs.glob proofs/H5Proofs.v.beautified proofs/H5Proofs.required_vo: proofs/H5Proofs.v model/H5.vo
proofs/H5Proofs.vio: proofs/H5Proofs.v model/H5.vio
proofs/H5Proofs.vos proofs/H5Proofs.vok proofs/H5Proofs.required_vos: proofs/H5Proofs.v model/H5.vos
proofs/FilmProofs.vo proofs/FilmProofs.glob proofs/FilmProofs.v.beautified proofs/FilmProofs.required_vo: proofs/FilmProofs.v model/Film.vo
proofs/FilmProofs.vio: proofs/FilmProofs.v model/Film.vio
proofs/FilmProofs.vos proofs/FilmProofs.vok proofs/FilmProofs.required_vos: proofs/FilmProofs.v model/Film.vos
proofs/MaterialProofs.vo proofs/MaterialProofs.glob proofs/MaterialProofs.v.beautified proofs/MaterialProofs.required_vo: proofs/MaterialProofs.v model/Interp.vo proofs/InterpProofs.vo model/Life.vo proofs/LifeProofs.vo model/Materials.vo gen/MaterialData.vo
proofs/MaterialProofs.vio: proofs/MaterialProofs.v model/Interp.vio proofs/InterpProofs.vio model/Life.vio proofs/LifeProofs.vio model/Materials.vio gen/MaterialData.vio
proofs/MaterialProofs.vos proofs/MaterialProofs.vok proofs/MaterialProofs.required_vos: proofs/MaterialProofs.v model/Interp.vos proofs/InterpProofs.vos model/Life.vos proofs/LifeProofs.vos model/Materials.vos gen/MaterialData.vos
proofs/MaterialReal.vo proofs/MaterialReal.glob proofs/MaterialReal.v.beautified proofs/MaterialReal.required_vo: proofs/MaterialReal.v theory/PolyMono.vo gen/MaterialData.vo
proofs/MaterialReal.vio: proofs/MaterialReal.v theory/PolyMono.vio gen/MaterialData.vio
proofs/MaterialReal.vos proofs/MaterialReal.vok proofs/MaterialReal.required_vos: proofs/MaterialReal.v theory/PolyMono.vos gen/MaterialData.vos
proofs/WeibullProofs.vo proofs/WeibullProofs.glob proofs/WeibullProofs.v.beautified proofs/WeibullProofs.required_vo: proofs/WeibullProofs.v model/Life.vo proofs/LifeInvariance.vo model/Weibull.vo
proofs/WeibullProofs.vio: proofs/WeibullProofs.v model/Life.vio proofs/LifeInvariance.vio model/Weibull.vio
proofs/WeibullProofs.vos proofs/WeibullProofs.vok proofs/WeibullProofs.required_vos: proofs/WeibullProofs.v model/Life.vos proofs/LifeInvariance.vos model/Weibull.vos
proofs/WeibullLaws.vo proofs/WeibullLaws.glob proofs/WeibullLaws.v.beautified proofs/WeibullLaws.required_vo: proofs/WeibullLaws.v 
proofs/WeibullLaws.vio: proofs/WeibullLaws.v 
proofs/WeibullLaws.vos proofs/WeibullLaws.vok proofs/WeibullLaws.required_vos: proofs/WeibullLaws.v 
proofs/StrainProofs.vo proofs/StrainProofs.glob proofs/StrainProofs.v.beautified proofs/StrainProofs.required_vo: proofs/StrainProofs.v model/Interp.vo model/Strain.vo
proofs/StrainProofs.vio: proofs/StrainProofs.v model/Interp.vio model/Strain.vio
proofs/StrainProofs.vos proofs/StrainProofs.vok proofs/StrainProofs.required_vos: proofs/StrainProofs.v model/Interp.vos model/Strain.vos
proofs/StrainGen.vo proofs/StrainGen.glob proofs/StrainGen.v.beautified proofs/StrainGen.required_vo: proofs/StrainGen.v model/Strain.vo proofs/StrainProofs.vo gen/StrainBook.vo
proofs/StrainGen.vio: proofs/StrainGen.v model/Strain.vio proofs/StrainProofs.vio gen/StrainBook.vio
proofs/StrainGen.vos proofs/StrainGen.vok proofs/StrainGen.required_vos: proofs/StrainGen.v model/Strain.vos proofs/StrainProofs.vos gen/StrainBook.vos
proofs/TubeMechProofs.vo proofs/TubeMechProofs.glob proofs/TubeMechProofs.v.beautified proofs/TubeMechProofs.required_vo: proofs/TubeMechProofs.v model/TubeMech.vo gen/TubeMesh.vo
proofs/TubeMechProofs.vio: proofs/TubeMechProofs.v model/TubeMech.vio gen/TubeMesh.vio
proofs/TubeMechProofs.vos proofs/TubeMechProofs.vok proofs/TubeMechProofs.required_vos: proofs/TubeMechProofs.v model/TubeMech.vos gen/TubeMesh.vos
proofs/Lame.vo proofs/Lame.glob proofs/Lame.v.beautified proofs/Lame.required_vo: proofs/Lame.v 
proofs/Lame.vio: proofs/Lame.v 
proofs/Lame.vos proofs/Lame.vok proofs/Lame.required_vos: proofs/Lame.v 
props/C01.vo props/C01.glob props/C01.v.beautified props/C01.required_vo: props/C01.v model/Life.vo proofs/LifeProofs.vo proofs/LifeMin.vo proofs/LifeInvariance.vo
props/C01.vio: props/C01.v model/Life.vio proofs/LifeProofs.vio proofs/LifeMin.vio proofs/LifeInvariance.vio
props/C01.vos props/C01.vok props/C01.required_vos: props/C01.v model/Life.vos proofs/LifeProofs.vos proofs/LifeMin.vos proofs/LifeInvariance.vos
props/C02.vo props/C02.glob props/C02.v.beautified props/C02.required_vo: props/C02.v theory/Sums.vo model/Thermal.vo proofs/ThermalConservation.vo
props/C02.vio: props/C02.v theory/Sums.vio model/Thermal.vio proofs/ThermalConservation.vio
props/C02.vos props/C02.vok props/C02.required_vos: props/C02.v theory/Sums.vos model/Thermal.vos proofs/ThermalConservation.vos
props/C03.vo props/C03.glob props/C03.v.beautified props/C03.required_vo: props/C03.v model/TubeMech.vo gen/TubeMesh.vo proofs/TubeMechProofs.vo proofs/Lame.vo
props/C03.vio: props/C03.v model/TubeMech.vio gen/TubeMesh.vio proofs/TubeMechProofs.vio proofs/Lame.vio
props/C03.vos props/C03.vok props/C03.required_vos: props/C03.v model/TubeMech.vos gen/TubeMesh.vos proofs/TubeMechProofs.vos proofs/Lame.vos
props/C04.vo props/C04.glob props/C04.v.beautified props/C04.required_vo: props/C04.v model/Spring.vo proofs/SpringProofs.vo
props/C04.vio: props/C04.v model/Spring.vio proofs/SpringProofs.vio
props/C04.vos props/C04.vok props/C04.required_vos: props/C04.v model/Spring.vos proofs/SpringProofs.vos
props/C05.vo props/C05.glob props/C05.v.beautified props/C05.required_vo: props/C05.v model/Life.vo proofs/LifeInvariance.vo model/Weibull.vo proofs/WeibullProofs.vo proofs/WeibullLaws.vo gen/WeibullTables.vo
props/C05.vio: props/C05.v model/Life.vio proofs/LifeInvariance.vio model/Weibull.vio proofs/WeibullProofs.vio proofs/WeibullLaws.vio gen/WeibullTables.vio
props/C05.vos props/C05.vok props/C05.required_vos: props/C05.v model/Life.vos proofs/LifeInvariance.vos model/Weibull.vos proofs/WeibullProofs.vos proofs/WeibullLaws.vos gen/WeibullTables.vos
props/C06.vo props/C06.glob props/C06.v.beautified props/C06.required_vo: props/C06.v theory/Sums.vo model/Thermal.vo proofs/ThermalConservation.vo proofs/ThermalMaxPrinciple.vo proofs/ThermalWitness.vo
props/C06.vio: props/C06.v theory/Sums.vio model/Thermal.vio proofs/ThermalConservation.vio proofs/ThermalMaxPrinciple.vio proofs/ThermalWitness.vio
props/C06.vos props/C06.vok props/C06.required_vos: props/C06.v theory/Sums.vos model/Thermal.vos proofs/ThermalConservation.vos proofs/ThermalMaxPrinciple.vos proofs/ThermalWitness.vos
props/C07.vo props/C07.glob props/C07.v.beautified props/C07.required_vo: props/C07.v theory/Sums.vo model/Thermal.vo model/FlowPath.vo model/Coupled.vo model/Loops.vo proofs/ThermalConservation.vo proofs/FlowPathProofs.vo proofs/CoupledProofs.vo proofs/LoopsProofs.vo
props/C07.vio: props/C07.v theory/Sums.vio model/Thermal.vio model/FlowPath.vio model/Coupled.vio model/Loops.vio proofs/ThermalConservation.vio proofs/FlowPathProofs.vio proofs/CoupledProofs.vio proofs/LoopsProofs.vio
props/C07.vos props/C07.vok props/C07.required_vos: props/C07.v theory/Sums.vos model/Thermal.vos model/FlowPath.vos model/Coupled.vos model/Loops.vos proofs/ThermalConservation.vos proofs/FlowPathProofs.vos proofs/CoupledProofs.vos proofs/LoopsProofs.vos
props/C09.vo props/C09.glob props/C09.v.beautified props/C09.required_vo: props/C09.v model/Life.vo proofs/LifeProofs.vo proofs/LifeMin.vo proofs/LifeInvariance.vo
props/C09.vio: props/C09.v model/Life.vio proofs/LifeProofs.vio proofs/LifeMin.vio proofs/LifeInvariance.vio
props/C09.vos props/C09.vok props/C09.required_vos: props/C09.v model/Life.vos proofs/LifeProofs.vos proofs/LifeMin.vos proofs/LifeInvariance.vos
props/C10.vo props/C10.glob props/C10.v.beautified props/C10.required_vo: props/C10.v model/Adaptive.vo proofs/AdaptiveProofs.vo
props/C10.vio: props/C10.v model/Adaptive.vio proofs/AdaptiveProofs.vio
props/C10.vos props/C10.vok props/C10.required_vos: props/C10.v model/Adaptive.vos proofs/AdaptiveProofs.vos
props/C12.vo props/C12.glob props/C12.v.beautified props/C12.required_vo: props/C12.v theory/Sums.vo model/Thermal.vo proofs/ThermalConservation.vo proofs/ThermalMaxPrinciple.vo proofs/ThermalEquivariance.vo
props/C12.vio: props/C12.v theory/Sums.vio model/Thermal.vio proofs/ThermalConservation.vio proofs/ThermalMaxPrinciple.vio proofs/ThermalEquivariance.vio
props/C12.vos props/C12.vok props/C12.required_vos: props/C12.v theory/Sums.vos model/Thermal.vos proofs/ThermalConservation.vos proofs/ThermalMaxPrinciple.vos proofs/ThermalEquivariance.vos
props/C13.vo props/C13.glob props/C13.v.beautified props/C13.required_vo: props/C13.v theory/Sums.vo model/Thermal.vo proofs/ThermalConservation.vo proofs/ThermalMaxPrinciple.vo proofs/ThermalSteady.vo
props/C13.vio: props/C13.v theory/Sums.vio model/Thermal.vio proofs/ThermalConservation.vio proofs/ThermalMaxPrinciple.vio proofs/ThermalSteady.vio
props/C13.vos props/C13.vok props/C13.required_vos: props/C13.v theory/Sums.vos model/Thermal.vos proofs/ThermalConservation.vos proofs/ThermalMaxPrinciple.vos proofs/ThermalSteady.vos
props/C14.vo props/C14.glob props/C14.v.beautified props/C14.required_vo: props/C14.v model/FlowPath.vo proofs/FlowPathProofs.vo
props/C14.vio: props/C14.v model/FlowPath.vio proofs/FlowPathProofs.vio
props/C14.vos props/C14.vok props/C14.required_vos: props/C14.v model/FlowPath.vos proofs/FlowPathProofs.vos
props/C15.vo props/C15.glob props/C15.v.beautified props/C15.required_vo: props/C15.v model/Strain.vo proofs/StrainProofs.vo gen/StrainBook.vo proofs/StrainGen.vo
props/C15.vio: props/C15.v model/Strain.vio proofs/StrainProofs.vio gen/StrainBook.vio proofs/StrainGen.vio
props/C15.vos props/C15.vok props/C15.required_vos: props/C15.v model/Strain.vos proofs/StrainProofs.vos gen/StrainBook.vos proofs/StrainGen.vos
props/C16.vo props/C16.glob props/C16.v.beautified props/C16.required_vo: props/C16.v model/H5.vo proofs/H5Proofs.vo
props/C16.vio: props/C16.v model/H5.vio proofs/H5Proofs.vio
props/C16.vos props/C16.vok props/C16.required_vos: props/C16.v model/H5.vos proofs/H5Proofs.vos
props/C16_fields.vo props/C16_fields.glob props/C16_fields.v.beautified props/C16_fields.required_vo: props/C16_fields.v model/H5.vo gen/H5Fields.vo
props/C16_fields.vio: props/C16_fields.v model/H5.vio gen/H5Fields.vio
props/C16_fields.vos props/C16_fields.vok props/C16_fields.required_vos: props/C16_fields.v model/H5.vos gen/H5Fields.vos
gen/Plumbing.vo gen/Plumbing.glob gen/Plumbing.v.beautified gen/Plumbing.required_vo: gen/Plumbing.v 
gen/Plumbing.vio: gen/Plumbing.v 
gen/Plumbing.vos gen/Plumbing.vok gen/Plumbing.required_vos: gen/Plumbing.v 
gen/H5Fields.vo gen/H5Fields.glob gen/H5Fields.v.beautified gen/H5Fields.required_vo: gen/H5Fields.v 
gen/H5Fields.vio: gen/H5Fields.v 
gen/H5Fields.vos gen/H5Fields.vok gen/H5Fields.required_vos: gen/H5Fields.v 
gen/MaterialData.vo gen/MaterialData.glob gen/MaterialData.v.beautified gen/MaterialData.required_vo: gen/MaterialData.v 
gen/MaterialData.vio: gen/MaterialData.v 
gen/MaterialData.vos gen/MaterialData.vok gen/MaterialData.required_vos: gen/MaterialData.v 
gen/WeibullTables.vo gen/WeibullTables.glob gen/WeibullTables.v.beautified gen/WeibullTables.required_vo: gen/WeibullTables.v 
gen/WeibullTables.vio: gen/WeibullTables.v 
gen/WeibullTables.vos gen/WeibullTables.vok gen/WeibullTables.required_vos: gen/WeibullTables.v 
gen/StrainBook.vo gen/StrainBook.glob gen/StrainBook.v.beautified gen/StrainBook.required_vo: gen/StrainBook.v 
gen/StrainBook.vio: gen/StrainBook.v 
gen/StrainBook.vos gen/StrainBook.vok gen/StrainBook.required_vos: gen/StrainBook.v 
gen/TubeMesh.vo gen/TubeMesh.glob gen/TubeMesh.v.beautified gen/TubeMesh.required_vo: gen/TubeMesh.v 
gen/TubeMesh.vio: gen/TubeMesh.v 
gen/TubeMesh.vos gen/TubeMesh.vok gen/TubeMesh.required_vos: gen/TubeMesh.v 
props/C17.vo props/C17.glob props/C17.v.beautified props/C17.required_vo: props/C17.v model/Loops.vo proofs/LoopsProofs.vo
props/C17.vio: props/C17.v model/Loops.vio proofs/LoopsProofs.vio
props/C17.vos props/C17.vok props/C17.required_vos: props/C17.v model/Loops.vos proofs/LoopsProofs.vos
props/C18.vo props/C18.glob props/C18.v.beautified props/C18.required_vo: props/C18.v model/Film.vo proofs/FilmProofs.vo
props/C18.vio: props/C18.v model/Film.vio proofs/FilmProofs.vio
props/C18.vos props/C18.vok props/C18.required_vos: props/C18.v model/Film.vos proofs/FilmProofs.vos
props/C17_plumbing.vo props/C17_plumbing.glob props/C17_plumbing.v.beautified props/C17_plumbing.required_vo: props/C17_plumbing.v gen/Plumbing.vo
props/C17_plumbing.vio: props/C17_plumbing.v gen/Plumbing.vio
props/C17_plumbing.vos props/C17_plumbing.vok props/C17_plumbing.required_vos: props/C17_plumbing.v gen/Plumbing.vos
props/C19.vo props/C19.glob props/C19.v.beautified props/C19.required_vo: props/C19.v model/Interp.vo proofs/InterpProofs.vo
props/C19.vio: props/C19.v model/Interp.vio proofs/InterpProofs.vio
props/C19.vos props/C19.vok props/C19.required_vos: props/C19.v model/Interp.vos proofs/InterpProofs.vos
props/C20.vo props/C20.glob props/C20.v.beautified props/C20.required_vo: props/C20.v theory/PolyMono.vo model/Interp.vo proofs/InterpProofs.vo model/Life.vo model/Materials.vo gen/MaterialData.vo proofs/MaterialProofs.vo proofs/MaterialReal.vo
props/C20.vio: props/C20.v theory/PolyMono.vio model/Interp.vio proofs/InterpProofs.vio model/Life.vio model/Materials.vio gen/MaterialData.vio proofs/MaterialProofs.vio proofs/MaterialReal.vio
props/C20.vos props/C20.vok props/C20.required_vos: props/C20.v theory/PolyMono.vos model/Interp.vos proofs/InterpProofs.vos model/Life.vos model/Materials.vos gen/MaterialData.vos proofs/MaterialProofs.vos proofs/MaterialReal.vos
