(* Every loop of model/Loops.v returns only a value that meets its criterion,
   never returns NaN, raises when its budget is zero and raises when the
   criterion is never met. *)
From Coq Require Import QArith List Bool ZArith Lia.
From SV Require Import model.Loops.
Import ListNotations.

Lemma lt_nan_l b : lt NaN b = false.
Proof. reflexivity. Qed.

Lemma ediv_nan_l b : ediv NaN b = NaN.
Proof. destruct b; reflexivity. Qed.

Lemma conv_nan atol rtol nr0 : conv atol rtol NaN nr0 = false.
Proof. unfold conv. rewrite ediv_nan_l. reflexivity. Qed.

Lemma conv_not_nan atol rtol v nr0 : conv atol rtol v nr0 = true -> v <> NaN.
Proof. intros H E. subst. rewrite conv_nan in H. discriminate. Qed.

(* values produced by the line search are observations or the value it started from *)
Definition observed (obs : nat -> ext) (v : ext) : Prop := exists k, v = obs k.

Lemma linesearch_observed obs nlast : forall n p cur p' v,
  observed obs cur -> linesearch obs nlast p n cur = (p', v) -> observed obs v /\ (p <= p')%nat.
Proof.
  induction n as [|n IH]; intros p cur p' v Hc H; cbn [linesearch] in H.
  - inversion H; subst. split; [exact Hc | lia].
  - destruct (lt (obs p) nlast).
    + inversion H; subst. split; [exists p; reflexivity | lia].
    + apply IH in H; [|exists p; reflexivity]. destruct H. split; [assumption | lia].
Qed.

(* ---- solvers.newton ----------------------------------------------------------- *)
Lemma newton_loop_ret atol rtol ls ms obs nr0 : forall iters p nr c v,
  newton_loop atol rtol ls ms obs nr0 iters p nr = Ret c v -> conv atol rtol v nr0 = true.
Proof.
  induction iters as [|it IH]; intros p nr c v H; cbn [newton_loop] in H; [discriminate|].
  destruct (conv atol rtol nr nr0) eqn:E.
  - inversion H; subst. exact E.
  - destruct ls.
    + destruct (linesearch obs nr p ms nr) as [p' v']. eapply IH; exact H.
    + eapply IH; exact H.
Qed.

Theorem newton_returns_converged atol rtol miters ls ms obs c v :
  newton atol rtol miters ls ms obs = Ret c v -> conv atol rtol v (obs 0%nat) = true /\ v <> NaN.
Proof.
  intros H. unfold newton in H. apply newton_loop_ret in H. split; [exact H | eapply conv_not_nan; exact H].
Qed.

Theorem newton_miter0_raises atol rtol ls ms obs : exists c, newton atol rtol 0 ls ms obs = Raise c.
Proof. eexists. reflexivity. Qed.

Lemma newton_loop_exhaust atol rtol ls ms obs nr0 :
  (forall k, conv atol rtol (obs k) nr0 = false) ->
  forall iters p nr, observed obs nr -> exists c, newton_loop atol rtol ls ms obs nr0 iters p nr = Raise c.
Proof.
  intros Hn. induction iters as [|it IH]; intros p nr [k Hk]; cbn [newton_loop]; [eexists; reflexivity|].
  subst nr. rewrite Hn. destruct ls.
  - destruct (linesearch obs (obs k) p ms (obs k)) as [p' v'] eqn:L.
    apply linesearch_observed in L; [|exists k; reflexivity]. destruct L as [O _]. apply IH. exact O.
  - apply IH. exists p. reflexivity.
Qed.

Theorem newton_exhaustion_raises atol rtol miters ls ms obs :
  (forall k, conv atol rtol (obs k) (obs 0%nat) = false) ->
  exists c, newton atol rtol miters ls ms obs = Raise c.
Proof. intros H. unfold newton. apply newton_loop_exhaust; [exact H | exists 0%nat; reflexivity]. Qed.

(* ---- thermal.solve_step ---------------------------------------------------------- *)
Lemma thermal_loop_ret atol rtol obs : forall iters i c v,
  thermal_loop atol rtol obs iters i = Ret c v -> conv atol rtol v (obs 0%nat) = true /\ c = S (c - 1) /\ v = obs (c - 1)%nat.
Proof.
  induction iters as [|it IH]; intros i c v H; cbn [thermal_loop] in H; [discriminate|].
  destruct (conv atol rtol (obs i) (obs 0%nat) && negb (Nat.eqb i 0)) eqn:E.
  - inversion H; subst. apply andb_prop in E. destruct E as [E _].
    replace (S i - 1)%nat with i by lia. auto.
  - eapply IH; exact H.
Qed.

Theorem thermal_returns_converged atol rtol miter obs c v :
  thermal_step atol rtol miter obs = Ret c v -> conv atol rtol v (obs 0%nat) = true /\ v <> NaN.
Proof.
  intros H. apply thermal_loop_ret in H. destruct H as [H _]. split; [exact H | eapply conv_not_nan; exact H].
Qed.

Theorem thermal_miter0_raises atol rtol obs : exists c, thermal_step atol rtol 0 obs = Raise c.
Proof. eexists. reflexivity. Qed.

Theorem thermal_exhaustion_raises atol rtol miter obs :
  (forall k, conv atol rtol (obs k) (obs 0%nat) = false) -> exists c, thermal_step atol rtol miter obs = Raise c.
Proof.
  intros Hn. unfold thermal_step. generalize 0%nat.
  induction miter as [|it IH]; intros i; cbn [thermal_loop]; [eexists; reflexivity|].
  rewrite Hn. cbn [andb]. apply IH.
Qed.

(* ---- FlowPath.solve ---------------------------------------------------------------- *)
Lemma flow_loop_ret atol rtol obs : forall iters p c v,
  flow_loop atol rtol obs iters p = Ret c v -> conv atol rtol v (obs 0%nat) = true.
Proof.
  induction iters as [|it IH]; intros p c v H; cbn [flow_loop] in H; [discriminate|].
  destruct (is_nan (obs p)); [discriminate|].
  destruct (conv atol rtol (obs p) (obs 0%nat)) eqn:E.
  - inversion H; subst. exact E.
  - eapply IH; exact H.
Qed.

Theorem flowpath_returns_converged atol rtol miter obs c v :
  flowpath_solve atol rtol miter obs = Ret c v -> conv atol rtol v (obs 0%nat) = true /\ v <> NaN.
Proof. intros H. apply flow_loop_ret in H. split; [exact H | eapply conv_not_nan; exact H]. Qed.

Theorem flowpath_miter0_raises atol rtol obs : exists c, flowpath_solve atol rtol 0 obs = Raise c.
Proof. eexists. reflexivity. Qed.

Theorem flowpath_exhaustion_raises atol rtol miter obs :
  (forall k, conv atol rtol (obs k) (obs 0%nat) = false) -> exists c, flowpath_solve atol rtol miter obs = Raise c.
Proof.
  intros Hn. unfold flowpath_solve. generalize 1%nat.
  induction miter as [|it IH]; intros p; cbn [flow_loop]; [eexists; reflexivity|].
  destruct (is_nan (obs p)); [eexists; reflexivity|]. rewrite Hn. apply IH.
Qed.

(* ---- FEM Newton ----------------------------------------------------------------------- *)
Lemma fem_loop_ret atol rtol ms obs nr0 : forall iters p nr c v,
  fem_loop atol rtol ms obs nr0 iters p nr = Ret c v ->
  conv atol rtol v nr0 = true \/ (lt nr0 atol = true /\ v = nr).
Proof.
  induction iters as [|it IH]; intros p nr c v H; cbn [fem_loop] in H; [discriminate|].
  destruct (lt nr0 atol) eqn:E0.
  - inversion H; subst. right. split; reflexivity.
  - destruct (linesearch obs nr p ms nr) as [p' v'].
    destruct (conv atol rtol v' nr0) eqn:E.
    + inversion H; subst. left. exact E.
    + apply IH in H. destruct H as [H | [H _]]; [left; exact H | congruence].
Qed.

Theorem fem_returns_converged atol rtol miter ms obs c v :
  fem_newton atol rtol miter ms obs = Ret c v -> conv atol rtol v (obs 0%nat) = true /\ v <> NaN.
Proof.
  intros H. unfold fem_newton in H. apply fem_loop_ret in H.
  assert (C : conv atol rtol v (obs 0%nat) = true).
  { destruct H as [H | [H E]]; [exact H|]. subst v. unfold conv. rewrite H. reflexivity. }
  split; [exact C | eapply conv_not_nan; exact C].
Qed.

Theorem fem_miter0_raises atol rtol ms obs : exists c, fem_newton atol rtol 0 ms obs = Raise c.
Proof. eexists. reflexivity. Qed.

Theorem fem_exhaustion_raises atol rtol miter ms obs :
  (forall k, conv atol rtol (obs k) (obs 0%nat) = false) -> exists c, fem_newton atol rtol miter ms obs = Raise c.
Proof.
  intros Hn. unfold fem_newton.
  assert (L0 : lt (obs 0%nat) atol = false).
  { specialize (Hn 0%nat). unfold conv in Hn. apply orb_false_iff in Hn. tauto. }
  assert (G : forall iters p nr, observed obs nr ->
              exists c, fem_loop atol rtol ms obs (obs 0%nat) iters p nr = Raise c).
  { induction iters as [|it IH]; intros p nr O; cbn [fem_loop]; [eexists; reflexivity|].
    rewrite L0. destruct (linesearch obs nr p ms nr) as [p' v'] eqn:L.
    apply linesearch_observed in L; [|exact O]. destruct L as [[k Hk] _]. subst v'. rewrite Hn.
    apply IH. exists k. reflexivity. }
  apply G. exists 0%nat. reflexivity.
Qed.

(* ---- Picard ----------------------------------------------------------------------------- *)
Theorem picard_returns_converged atol rtol miter obs j :
  picard atol rtol miter obs = PRet j -> picard_conv atol rtol (obs j) = true /\ (j < miter)%nat.
Proof.
  unfold picard. assert (G : forall iters s, picard_loop atol rtol obs iters s = PRet j ->
                                picard_conv atol rtol (obs j) = true /\ (s <= j < s + iters)%nat).
  { induction iters as [|it IH]; intros s H; cbn [picard_loop] in H; [discriminate|].
    destruct (picard_conv atol rtol (obs s)) eqn:E.
    - inversion H; subst. split; [exact E | lia].
    - apply IH in H. destruct H. split; [assumption | lia]. }
  intros H. apply G in H. destruct H. split; [assumption | lia].
Qed.

Theorem picard_miter0_raises atol rtol obs : picard atol rtol 0 obs = PRaise.
Proof. reflexivity. Qed.

Theorem picard_exhaustion_raises atol rtol miter obs :
  (forall j, picard_conv atol rtol (obs j) = false) -> picard atol rtol miter obs = PRaise.
Proof.
  intros Hn. unfold picard. generalize 0%nat.
  induction miter as [|it IH]; intros s; cbn [picard_loop]; [reflexivity|]. rewrite Hn. apply IH.
Qed.

(* a NaN difference never satisfies the Picard criterion *)
Theorem picard_nan_not_converged atol rtol o :
  (fluid_abs o = NaN \/ temp_abs o = NaN) -> (fluid_rel o = NaN \/ temp_rel o = NaN) -> picard_conv atol rtol o = false.
Proof.
  intros [A | A] [B | B]; unfold picard_conv; rewrite A, B; cbn;
    repeat rewrite andb_false_r; reflexivity.
Qed.

(* ---- where the Newton iterate ends up (unit directions) ------------------------------------- *)
(* without a line search every consumed residual evaluation is one full step *)
Lemma newton_pos_no_search atol rtol ms obs nr0 : forall iters p nr x c v,
  newton_loop atol rtol false ms obs nr0 iters p nr = Ret c v ->
  (newton_pos atol rtol false ms obs nr0 iters p nr x == x - inject_Z (Z.of_nat c - Z.of_nat p))%Q /\ (p <= c)%nat.
Proof.
  induction iters as [|it IH]; intros p nr x c v H; cbn [newton_loop newton_pos] in *; [discriminate|].
  destruct (conv atol rtol nr nr0).
  - injection H as <- <-. split; [|lia]. rewrite Z.sub_diag. change (inject_Z 0) with 0%Q. ring.
  - destruct (IH (S p) (obs p) (x - 1)%Q c v H) as [E L]. split; [|lia].
    rewrite E. rewrite Nat2Z.inj_succ. unfold Z.succ.
    replace (Z.of_nat c - Z.of_nat p)%Z with ((Z.of_nat c - (Z.of_nat p + 1)) + 1)%Z by lia.
    rewrite inject_Z_plus. change (inject_Z 1) with 1%Q. ring.
Qed.

(* with a line search a step is never longer than the full step and never shorter than the last cut-back *)
Lemma ls_step_bounds t ms : (t <= ms)%nat -> (0 <= ls_step t <= 1)%Q.
Proof.
  intros _. destruct t as [|k]; cbn [ls_step]; [split; discriminate|].
  assert (P : (0 < 2 ^ Z.of_nat k)%Z) by (apply Z.pow_pos_nonneg; lia).
  assert (Q1 : (1 <= 2 ^ Z.of_nat k)%Z) by lia.
  assert (PQ : (0 < inject_Z (2 ^ Z.of_nat k))%Q) by (change 0%Q with (inject_Z 0); rewrite <- Zlt_Qlt; exact P).
  split.
  - apply Qle_shift_div_l; [exact PQ|]. rewrite Qmult_0_l. discriminate.
  - apply Qle_shift_div_r; [exact PQ|]. rewrite Qmult_1_l. change 1%Q with (inject_Z 1). rewrite <- Zle_Qle. exact Q1.
Qed.
