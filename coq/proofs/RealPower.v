(* The abstract power function of proofs/WeibullLaws.v has an instance: the real power x^m on x >= 0, m > 0
   (the only arguments the code raises to a power: Weibull moduli, fatigue exponents N, N - 2 and 1/(N - 2)).
   Outside m > 0 the instance is the identity, which also satisfies the laws; it is never evaluated there. *)
From Coq Require Import Reals Rpower Lra.
Open Scope R_scope.

Definition rpow (x m : R) : R :=
  if Rlt_dec 0 m then (if Rlt_dec 0 x then Rpower x m else 0) else x.

Lemma rpow_is_real_power x m : 0 < x -> 0 < m -> rpow x m = Rpower x m.
Proof. intros Hx Hm. unfold rpow. destruct (Rlt_dec 0 m); [|lra]. destruct (Rlt_dec 0 x); [reflexivity|lra]. Qed.

Lemma rpow_zero_base m : 0 < m -> rpow 0 m = 0.
Proof. intros Hm. unfold rpow. destruct (Rlt_dec 0 m); [|lra]. destruct (Rlt_dec 0 0); [lra|reflexivity]. Qed.

Lemma Rpower_pos x m : 0 < Rpower x m.
Proof. unfold Rpower. apply exp_pos. Qed.

Lemma rpow_nonneg x m : 0 <= x -> 0 <= rpow x m.
Proof.
  intros Hx. unfold rpow. destruct (Rlt_dec 0 m); [|exact Hx].
  destruct (Rlt_dec 0 x); [left; apply Rpower_pos|lra].
Qed.

Lemma rpow_zero m : rpow 0 m = 0.
Proof. unfold rpow. destruct (Rlt_dec 0 m); [|reflexivity]. destruct (Rlt_dec 0 0); [lra|reflexivity]. Qed.

Lemma rpow_mono x y m : 0 <= x -> x <= y -> rpow x m <= rpow y m.
Proof.
  intros Hx Hxy. unfold rpow. destruct (Rlt_dec 0 m) as [Hm|Hm]; [|exact Hxy].
  destruct (Rlt_dec 0 x) as [Px|Px].
  - destruct (Rlt_dec 0 y) as [Py|Py]; [|lra]. apply Rle_Rpower_l; lra.
  - destruct (Rlt_dec 0 y); [left; apply Rpower_pos|lra].
Qed.

Lemma rpow_mult l x m : 0 <= l -> 0 <= x -> rpow (l * x) m = rpow l m * rpow x m.
Proof.
  intros Hl Hx. unfold rpow. destruct (Rlt_dec 0 m) as [Hm|Hm]; [|reflexivity].
  destruct (Rlt_dec 0 l) as [Pl|Pl]; destruct (Rlt_dec 0 x) as [Px|Px].
  - assert (0 < l * x) by (apply Rmult_lt_0_compat; assumption).
    destruct (Rlt_dec 0 (l * x)); [|lra]. symmetry. apply Rpower_mult_distr; assumption.
  - assert (x = 0) by lra. subst x. rewrite Rmult_0_r. destruct (Rlt_dec 0 0); [lra|ring].
  - assert (l = 0) by lra. subst l. rewrite Rmult_0_l. destruct (Rlt_dec 0 0); [lra|ring].
  - assert (l = 0) by lra. subst l. rewrite Rmult_0_l. destruct (Rlt_dec 0 0); [lra|ring].
Qed.

Lemma Rpower_one m : Rpower 1 m = 1.
Proof. unfold Rpower. rewrite ln_1, Rmult_0_r. apply exp_0. Qed.

Lemma rpow_ge1 l m : 1 <= l -> 1 <= rpow l m.
Proof.
  intros Hl. unfold rpow. destruct (Rlt_dec 0 m) as [Hm|Hm]; [|exact Hl].
  destruct (Rlt_dec 0 l); [|lra]. rewrite <- (Rpower_one m). apply Rle_Rpower_l; lra.
Qed.

Lemma rpow_inv x a : 0 <= x -> 0 < a -> rpow (rpow x a) (/ a) = x.
Proof.
  intros Hx Ha. assert (Hia : 0 < / a) by (apply Rinv_0_lt_compat; exact Ha).
  unfold rpow. destruct (Rlt_dec 0 a); [|lra]. destruct (Rlt_dec 0 (/ a)); [|lra].
  destruct (Rlt_dec 0 x) as [Px|Px].
  - destruct (Rlt_dec 0 (Rpower x a)) as [_|N]; [|exfalso; apply N; apply Rpower_pos].
    rewrite Rpower_mult. replace (a * / a) with 1 by (field; lra). apply Rpower_1. exact Px.
  - destruct (Rlt_dec 0 0); lra.
Qed.

(* every law the Weibull theorems assume of the power function, together *)
Theorem real_power_satisfies_the_laws :
  (forall x m, 0 <= x -> 0 <= rpow x m) /\
  (forall m, rpow 0 m = 0) /\
  (forall x y m, 0 <= x -> x <= y -> rpow x m <= rpow y m) /\
  (forall l x m, 0 <= l -> 0 <= x -> rpow (l * x) m = rpow l m * rpow x m) /\
  (forall l m, 1 <= l -> 1 <= rpow l m) /\
  (forall x a, 0 <= x -> 0 < a -> rpow (rpow x a) (/ a) = x) /\
  (forall x m, 0 < x -> 0 < m -> rpow x m = Rpower x m).
Proof.
  repeat split.
  - exact rpow_nonneg. - exact rpow_zero. - exact rpow_mono. - exact rpow_mult. - exact rpow_ge1. - exact rpow_inv.
  - exact rpow_is_real_power.
Qed.
