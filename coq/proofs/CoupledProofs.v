From Coq Require Import QArith Qround List Bool ZArith Lia Lqa.
From SV Require Import model.Coupled model.FlowPath proofs.FlowPathProofs.
Import ListNotations.

Lemma memb_In x l : memb x l = true <-> In x l.
Proof.
  induction l as [|y r IH]; cbn [memb In]; [split; [discriminate | tauto]|].
  rewrite orb_true_iff, Nat.eqb_eq, IH. split; intros [H | H]; auto.
Qed.

Lemma nodupb_NoDup l : nodupb l = true <-> NoDup l.
Proof.
  induction l as [|x r IH]; cbn [nodupb]; [split; [constructor | reflexivity]|].
  rewrite andb_true_iff, negb_true_iff, IH. split.
  - intros [H1 H2]. constructor; [|exact H2]. intros C. apply memb_In in C. congruence.
  - intros H. inversion H; subst. split; [|assumption].
    destruct (memb x r) eqn:E; [apply memb_In in E; contradiction | reflexivity].
Qed.

Lemma subsetb_incl a b : subsetb a b = true <-> incl a b.
Proof.
  unfold subsetb, incl. rewrite forallb_forall. split; intros H x Hx; [apply memb_In | apply memb_In]; auto.
Qed.

(* accepted iff every panel of the receiver occurs in exactly one path, exactly
   once, and no path names an unknown panel *)
Theorem setup_accepts_iff_partition names paths : NoDup names ->
  (setup names paths = Accept <->
   (forall n, In n names -> count_occ Nat.eq_dec (concat paths) n = 1%nat) /\
   (forall x, In x (concat paths) -> In x names)).
Proof.
  intros Hn. unfold setup. destruct (nodupb (concat paths)) eqn:D; cbn [negb].
  - apply nodupb_NoDup in D.
    destruct (subsetb (concat paths) names && subsetb names (concat paths)) eqn:S.
    + apply andb_prop in S. destruct S as [S1 S2]. apply subsetb_incl in S1, S2.
      split; [intros _ | reflexivity]. split.
      * intros n Hin. apply NoDup_count_occ'; [exact D | apply S2; exact Hin].
      * intros x Hx. apply S1. exact Hx.
    + split; [discriminate|]. intros [H1 H2]. exfalso.
      apply andb_false_iff in S. destruct S as [S | S].
      * assert (incl (concat paths) names) by (intros x Hx; apply H2; exact Hx).
        apply subsetb_incl in H. congruence.
      * assert (incl names (concat paths)).
        { intros n Hin. apply (count_occ_In Nat.eq_dec). rewrite (H1 n Hin). lia. }
        apply subsetb_incl in H. congruence.
  - split; [discriminate|]. intros [H1 H2]. exfalso.
    assert (ND : NoDup (concat paths)).
    { apply (NoDup_count_occ Nat.eq_dec). intros x.
      destruct (in_dec Nat.eq_dec x (concat paths)) as [I | NI].
      - rewrite (H1 x (H2 x I)). lia.
      - apply (count_occ_not_In Nat.eq_dec) in NI. lia. }
    apply nodupb_NoDup in ND. congruence.
Qed.

(* write-back pairs results with panels in the DECLARED order *)
Theorem writeback_pairs_declared_order {A} (declared : list nat) (blocks : list (list A)) j p b :
  nth_error declared j = Some p -> nth_error blocks j = Some b ->
  nth_error (writeback declared blocks) j = Some (p, b).
Proof.
  unfold writeback. revert blocks j. induction declared as [|d ds IH]; intros blocks j Hd Hb.
  - destruct j; discriminate.
  - destruct blocks as [|b0 bs]; [destruct j; discriminate|].
    destruct j as [|j]; cbn in *.
    + inversion Hd; inversion Hb; subst. reflexivity.
    + apply IH; assumption.
Qed.

(* the trigger fires at every whole number of periods (on exact times) *)
Theorem cycle_end_at_multiples (period : Q) (n : Z) : ~ (period == 0)%Q ->
  cycle_end (inject_Z n * period) period = true.
Proof.
  intros Hp. unfold cycle_end.
  assert (E : (inject_Z n * period / period == inject_Z n)%Q) by (field; exact Hp).
  cbv zeta. apply Qeq_bool_iff. rewrite (Qfloor_comp _ _ E). rewrite E. rewrite Qfloor_Z. reflexivity.
Qed.

Theorem cycle_end_only_at_multiples (t period : Q) : ~ (period == 0)%Q ->
  cycle_end t period = true -> exists n : Z, (t == inject_Z n * period)%Q.
Proof.
  intros Hp H. unfold cycle_end in H. cbv zeta in H. apply Qeq_bool_iff in H.
  exists (Qfloor (t / period)). rewrite H. field. exact Hp.
Qed.

(* ---- one tube of multiplier k*m  =  k identical tubes of multiplier m ------------- *)
(* the heat balance of a tube depends on the panel only through the total
   number of physical tubes, the geometry and the tube's own wall field *)
Open Scope Q_scope.
Theorem multiplier_merge pi f (p1 p2 : panel) mdot tin tout tm :
  ntube p1 == ntube p2 -> ri p1 = ri p2 -> ht p1 = ht p2 -> zs p1 = zs p2 -> ntheta p1 = ntheta p2 ->
  (forall x y z, x == y -> film f x z (ri p1) == film f y z (ri p1)) ->
  (forall t x y, x == y -> film f t x (ri p1) == film f t y (ri p1)) ->
  enthalpy_gain f p1 mdot tin tout == enthalpy_gain f p2 mdot tin tout /\
  wall_heat pi f p1 mdot tin tout tm == wall_heat pi f p2 mdot tin tout tm.
Proof.
  intros Hn Hr Hh Hz Ht Hf1 Hf2.
  destruct p1 as [w1 r1 h1 n1 z1 m1], p2 as [w2 r2 h2 n2 z2 m2]. cbn [ri ht zs ntheta] in *. subst r2 h2 z2 n2.
  split.
  - unfold enthalpy_gain. rewrite Hn. reflexivity.
  - unfold wall_heat. cbv zeta. unfold dz, dtheta, nzs, fluid_temps. cbn [ri ht zs ntheta].
    assert (V : velocity pi f (mkPanel w1 r1 h1 n1 z1 m1) mdot tin tout == velocity pi f (mkPanel w2 r1 h1 n1 z1 m2) mdot tin tout).
    { unfold velocity. cbn [ri]. rewrite Hn. reflexivity. }
    pose proof (Hf2 (tmean tin tout) _ _ V) as Fh.
    set (a1 := film f (tmean tin tout) (velocity pi f (mkPanel w1 r1 h1 n1 z1 m1) mdot tin tout) r1) in *.
    set (a2 := film f (tmean tin tout) (velocity pi f (mkPanel w2 r1 h1 n1 z1 m2) mdot tin tout) r1) in *.
    assert (S : sumQ (map (fun row => sumQ (map (fun mt => a1 * (fst mt - snd mt))
                       (combine row (map (fun z => (tout - tin) / h1 * z + tin) z1)))) tm)
                == sumQ (map (fun row => sumQ (map (fun mt => a2 * (fst mt - snd mt))
                       (combine row (map (fun z => (tout - tin) / h1 * z + tin) z1)))) tm)).
    { apply sumQ_ext. intros row _. apply sumQ_ext. intros mt _. rewrite Fh. reflexivity. }
    rewrite S. reflexivity.
Qed.
