(* Invariances of the metallic-life model used by property C09: rotation of the
   coordinate axes, constant strain offsets, repetition of the represented
   day, scaling of the damages; and correctness of the integer bisection used
   for the last-cycle extrapolation. *)
From Coq Require Import QArith Qabs Qround List Bool ZArith Lia Lqa Nsatz.
From SV Require Import model.Life proofs.LifeProofs proofs.LifeMin.
Import ListNotations.
Open Scope Q_scope.

(* ---- rotations -------------------------------------------------------------- *)
Record m3 := mkM { r11 : Q; r12 : Q; r13 : Q; r21 : Q; r22 : Q; r23 : Q; r31 : Q; r32 : Q; r33 : Q }.

(* R^T R = I *)
Definition orth (R : m3) : Prop :=
  r11 R * r11 R + r21 R * r21 R + r31 R * r31 R == 1 /\
  r12 R * r12 R + r22 R * r22 R + r32 R * r32 R == 1 /\
  r13 R * r13 R + r23 R * r23 R + r33 R * r33 R == 1 /\
  r11 R * r12 R + r21 R * r22 R + r31 R * r32 R == 0 /\
  r11 R * r13 R + r21 R * r23 R + r31 R * r33 R == 0 /\
  r12 R * r13 R + r22 R * r23 R + r32 R * r33 R == 0.

(* S' = R S R^T for the symmetric tensor stored as (xx yy zz yz xz xy) *)
Definition rot (R : m3) (s : t6) : t6 :=
  let sxx := c_xx s in let syy := c_yy s in let szz := c_zz s in
  let syz := c_yz s in let sxz := c_xz s in let sxy := c_xy s in
  let a11 := r11 R * sxx + r12 R * sxy + r13 R * sxz in
  let a12 := r11 R * sxy + r12 R * syy + r13 R * syz in
  let a13 := r11 R * sxz + r12 R * syz + r13 R * szz in
  let a21 := r21 R * sxx + r22 R * sxy + r23 R * sxz in
  let a22 := r21 R * sxy + r22 R * syy + r23 R * syz in
  let a23 := r21 R * sxz + r22 R * syz + r23 R * szz in
  let a31 := r31 R * sxx + r32 R * sxy + r33 R * sxz in
  let a32 := r31 R * sxy + r32 R * syy + r33 R * syz in
  let a33 := r31 R * sxz + r32 R * syz + r33 R * szz in
  mk6 (a11 * r11 R + a12 * r12 R + a13 * r13 R)
      (a21 * r21 R + a22 * r22 R + a23 * r23 R)
      (a31 * r31 R + a32 * r32 R + a33 * r33 R)
      (a21 * r31 R + a22 * r32 R + a23 * r33 R)
      (a11 * r31 R + a12 * r32 R + a13 * r33 R)
      (a11 * r21 R + a12 * r22 R + a13 * r23 R).

Definition tr (s : t6) : Q := c_xx s + c_yy s + c_zz s.
Definition tr2 (s : t6) : Q :=
  c_xx s * c_xx s + c_yy s * c_yy s + c_zz s * c_zz s
  + 2 * (c_yz s * c_yz s + c_xz s * c_xz s + c_xy s * c_xy s).
Definition sq (s : t6) : t6 :=
  mk6 (c_xx s * c_xx s + c_xy s * c_xy s + c_xz s * c_xz s)
      (c_xy s * c_xy s + c_yy s * c_yy s + c_yz s * c_yz s)
      (c_xz s * c_xz s + c_yz s * c_yz s + c_zz s * c_zz s)
      (c_xy s * c_xz s + c_yy s * c_yz s + c_yz s * c_zz s)
      (c_xx s * c_xz s + c_xy s * c_yz s + c_xz s * c_zz s)
      (c_xx s * c_xy s + c_xy s * c_yy s + c_xz s * c_yz s).

Lemma tr_rot R s : orth R -> tr (rot R s) == tr s.
Proof.
  intros (H1 & H2 & H3 & H4 & H5 & H6). destruct R, s. unfold tr, rot; cbn in *. nsatz.
Qed.

Lemma sq_rot_xx R s : orth R -> c_xx (sq (rot R s)) == c_xx (rot R (sq s)).
Proof. intros (H1 & H2 & H3 & H4 & H5 & H6). destruct R, s. unfold sq, rot; cbn in *. nsatz. Qed.
Lemma sq_rot_yy R s : orth R -> c_yy (sq (rot R s)) == c_yy (rot R (sq s)).
Proof. intros (H1 & H2 & H3 & H4 & H5 & H6). destruct R, s. unfold sq, rot; cbn in *. nsatz. Qed.
Lemma sq_rot_zz R s : orth R -> c_zz (sq (rot R s)) == c_zz (rot R (sq s)).
Proof. intros (H1 & H2 & H3 & H4 & H5 & H6). destruct R, s. unfold sq, rot; cbn in *. nsatz. Qed.

Lemma tr2_sq s : tr2 s == tr (sq s).
Proof. destruct s; unfold tr2, tr, sq; cbn. ring. Qed.

Lemma tr2_rot R s : orth R -> tr2 (rot R s) == tr2 s.
Proof.
  intros H. rewrite !tr2_sq.
  transitivity (tr (rot R (sq s))).
  - unfold tr. rewrite (sq_rot_xx R s H), (sq_rot_yy R s H), (sq_rot_zz R s H). reflexivity.
  - apply tr_rot. exact H.
Qed.

(* von Mises stress (squared) depends on the tensor only through tr and tr(.^2) *)
Lemma vm2_invariants s : vm2 s == (3 * tr2 s - tr s * tr s) / 2.
Proof. destruct s; unfold vm2, tr, tr2; cbn. field. Qed.

Theorem vm2_rotation_invariant R s : orth R -> vm2 (rot R s) == vm2 s.
Proof. intros H. rewrite !vm2_invariants. rewrite (tr2_rot R s H), (tr_rot R s H). reflexivity. Qed.

(* the equivalent strain range (squared) between two samples is 4/9 of the
   von Mises measure of the difference tensor (engineering shear = 2 * tensor shear) *)
Lemma eqrange2_vm2 a b : eqrange2 a b == (4 # 9) * vm2 (sub6 b a).
Proof. destruct a, b; unfold eqrange2, vm2, sub6, eng; cbn. field. Qed.

Lemma rot_sub6 R a b :
  vm2 (sub6 (rot R b) (rot R a)) == vm2 (rot R (sub6 b a)).
Proof. destruct R, a, b; unfold vm2, sub6, rot; cbn. field. Qed.

Theorem eqrange2_rotation_invariant R a b : orth R -> eqrange2 (rot R a) (rot R b) == eqrange2 a b.
Proof.
  intros H. rewrite !eqrange2_vm2. rewrite rot_sub6. rewrite (vm2_rotation_invariant R _ H). reflexivity.
Qed.

(* ---- constant strain offset ---------------------------------------------------- *)
Definition add6 (a o : t6) : t6 :=
  mk6 (c_xx a + c_xx o) (c_yy a + c_yy o) (c_zz a + c_zz o) (c_yz a + c_yz o) (c_xz a + c_xz o) (c_xy a + c_xy o).

Theorem eqrange2_offset_invariant a b o : eqrange2 (add6 a o) (add6 b o) == eqrange2 a b.
Proof.
  destruct a as [a1 a2 a3 a4 a5 a6], b as [b1 b2 b3 b4 b5 b6], o as [o1 o2 o3 o4 o5 o6].
  cbv [eqrange2 sub6 eng add6 c_xx c_yy c_zz c_yz c_xz c_xy]. ring.
Qed.

(* ---- repetition of the represented day (lumped) ---------------------------------- *)
Lemma sumQ_app a b : sumQ (a ++ b) == sumQ a + sumQ b.
Proof.
  unfold sumQ. induction a as [|x r IH]; cbn [app fold_right].
  - assert (E : forall z, z == 0 + z) by (intros; ring). apply E.
  - rewrite IH. ring.
Qed.

Fixpoint repeat_list (D : list Q) (d : nat) : list Q :=
  match d with O => [] | S d' => D ++ repeat_list D d' end.

Lemma sumQ_repeat D d : sumQ (repeat_list D d) == inject_Z (Z.of_nat d) * sumQ D.
Proof.
  induction d as [|d IH]; cbn [repeat_list].
  - cbn. ring.
  - rewrite sumQ_app, IH. rewrite Nat2Z.inj_succ. unfold Z.succ. rewrite inject_Z_plus. ring.
Qed.

Lemma length_repeat D d : length (repeat_list D d) = (d * length D)%nat.
Proof. induction d as [|d IH]; cbn [repeat_list]; [reflexivity | rewrite app_length, IH; lia]. Qed.

Theorem mean_repeat_invariant D d : (1 <= d)%nat -> D <> [] -> mean (repeat_list D d) == mean D.
Proof.
  intros Hd HD. unfold mean. rewrite sumQ_repeat, length_repeat.
  rewrite Nat2Z.inj_mul, inject_Z_mult.
  assert (0 < inject_Z (Z.of_nat d)) by (change 0 with (inject_Z 0); rewrite <- Zlt_Qlt; lia).
  assert (0 < inject_Z (Z.of_nat (length D))).
  { change 0 with (inject_Z 0). rewrite <- Zlt_Qlt. destruct D; [congruence | cbn [length]; lia]. }
  field. split; lra.
Qed.

(* ---- scaling of the damages (lumped) ----------------------------------------------- *)
Theorem cross_lump_scale xk yk mf mc lam :
  0 < lam -> 0 < xk < 1 -> 0 < yk < 1 -> 0 <= mf -> 0 <= mc -> 0 < mf + mc ->
  cross_lump xk yk (lam * mf) (lam * mc) == cross_lump xk yk mf mc / lam.
Proof.
  intros Hl Hx Hy Hf Hc Hp.
  (* both are the unique boundary of the same antitone predicate *)
  assert (Hf' : 0 <= lam * mf) by (apply Qmult_le_0_compat; lra).
  assert (Hc' : 0 <= lam * mc) by (apply Qmult_le_0_compat; lra).
  assert (Hp' : 0 < lam * mf + lam * mc).
  { assert (E : lam * mf + lam * mc == lam * (mf + mc)) by ring. rewrite E. apply Qmult_lt_0_compat; lra. }
  pose proof (cross_lump_spec xk yk Hx Hy mf mc Hf Hc Hp) as S.
  pose proof (cross_lump_spec xk yk Hx Hy (lam * mf) (lam * mc) Hf' Hc' Hp') as S'.
  set (n := cross_lump xk yk mf mc) in *. set (n' := cross_lump xk yk (lam * mf) (lam * mc)) in *.
  assert (Npos : 0 <= n).
  { destruct (Qlt_le_dec n 0) as [X | X]; [|exact X]. exfalso.
    assert (T : inside xk yk (0 * mf) (0 * mc) = true).
    { apply (inside_spec xk yk Hx). left. assert (0 * mf == 0) by ring. assert (0 * mc == 0) by ring.
      rewrite H, H0. split; lra. }
    apply (S 0) in T; lra. }
  assert (Npos' : 0 <= n').
  { destruct (Qlt_le_dec n' 0) as [X | X]; [|exact X]. exfalso.
    assert (T : inside xk yk (0 * (lam * mf)) (0 * (lam * mc)) = true).
    { apply (inside_spec xk yk Hx). left. assert (0 * (lam * mf) == 0) by ring. assert (0 * (lam * mc) == 0) by ring.
      rewrite H, H0. split; lra. }
    apply (S' 0) in T; lra. }
  assert (inside_compat : forall a b a' b', a == a' -> b == b' -> inside xk yk a b = inside xk yk a' b').
  { intros a b a' b' Ea Eb. unfold inside, Qlt_bool.
    assert (X1 : Qle_bool xk a = Qle_bool xk a').
    { destruct (Qle_bool xk a) eqn:U, (Qle_bool xk a') eqn:V; auto.
      - apply Qle_bool_iff in U. rewrite Ea in U. apply Qle_bool_iff in U. congruence.
      - apply Qle_bool_iff in V. rewrite <- Ea in V. apply Qle_bool_iff in V. congruence. }
    rewrite X1. destruct (negb (Qle_bool xk a')).
    + destruct (Qle_bool b _) eqn:U, (Qle_bool b' _) eqn:V; auto.
      * apply Qle_bool_iff in U. rewrite Ea, Eb in U. apply Qle_bool_iff in U. congruence.
      * apply Qle_bool_iff in V. rewrite <- Ea, <- Eb in V. apply Qle_bool_iff in V. congruence.
    + destruct (Qle_bool b _) eqn:U, (Qle_bool b' _) eqn:V; auto.
      * apply Qle_bool_iff in U. rewrite Ea, Eb in U. apply Qle_bool_iff in U. congruence.
      * apply Qle_bool_iff in V. rewrite <- Ea, <- Eb in V. apply Qle_bool_iff in V. congruence. }
  (* n' <= n / lam : take N = n' in S' then rescale *)
  assert (A : n' * lam <= n).
  { apply (S (n' * lam)); [apply Qmult_le_0_compat; lra|].
    rewrite (inside_compat _ _ (n' * (lam * mf)) (n' * (lam * mc))) by ring.
    apply (S' n'); lra. }
  assert (B : n / lam <= n').
  { apply (S' (n / lam)); [apply Qle_shift_div_l; lra|].
    rewrite (inside_compat _ _ (n * mf) (n * mc)) by (field; lra).
    apply (S n); lra. }
  assert (A2 : n' <= n / lam) by (apply Qle_shift_div_l; lra).
  lra.
Qed.

(* ---- integer bisection used for the last-cycle rule -------------------------------- *)
Lemma bisect_correct (P : Z -> bool) :
  (forall a b, (a <= b)%Z -> P b = true -> P a = true) ->
  forall fuel lo hi, P lo = true -> P hi = false -> (lo < hi)%Z -> (hi - lo <= 2 ^ Z.of_nat fuel)%Z ->
  let r := bisect P lo hi fuel in (lo < r <= hi)%Z /\ P (r - 1)%Z = true /\ P r = false.
Proof.
  intros Hanti. induction fuel as [|f IH]; intros lo hi Hlo Hhi Hlt Hsz; cbn [bisect].
  - cbn in Hsz. assert (hi = lo + 1)%Z by lia. subst. split; [lia|]. split; [|exact Hhi].
    replace (lo + 1 - 1)%Z with lo by lia. exact Hlo.
  - destruct (Z.leb_spec (hi - lo) 1).
    + assert (hi = lo + 1)%Z by lia. subst. split; [lia|]. split; [|exact Hhi].
      replace (lo + 1 - 1)%Z with lo by lia. exact Hlo.
    + assert (Hp : (2 ^ Z.of_nat (S f) = 2 * 2 ^ Z.of_nat f)%Z).
      { rewrite Nat2Z.inj_succ. rewrite Z.pow_succ_r by lia. reflexivity. }
      rewrite Hp in Hsz. set (pw := (2 ^ Z.of_nat f)%Z) in *.
      set (mid := ((lo + hi) / 2)%Z).
      assert (Hm : (lo < mid < hi)%Z /\ (hi - mid <= pw)%Z /\ (mid - lo <= pw)%Z).
      { unfold mid. pose proof (Z.div_mod (lo + hi) 2 ltac:(lia)).
        pose proof (Z.mod_pos_bound (lo + hi) 2 ltac:(lia)). lia. }
      destruct Hm as (Hm & Hs1 & Hs2).
      destruct (P mid) eqn:E.
      * destruct (IH mid hi E Hhi (proj2 Hm) Hs1) as (R1 & R2 & R3).
        split; [lia | split; assumption].
      * destruct (IH lo mid Hlo E (proj1 Hm) Hs2) as (R1 & R2 & R3).
        split; [lia | split; assumption].
Qed.

(* the search range of the last-cycle rule: first outside repetition count in (1, 10^6] *)
Lemma last_boundary (P : Z -> bool) :
  (forall a b, (a <= b)%Z -> P b = true -> P a = true) ->
  P 1%Z = true -> P 1000000%Z = false ->
  let r := bisect P 1 1000000 40 in (1 < r <= 1000000)%Z /\ P (r - 1)%Z = true /\ P r = false.
Proof.
  intros Ha H1 Hm. apply (bisect_correct P Ha 40%nat 1%Z 1000000%Z H1 Hm); [lia|].
  change (Z.of_nat 40) with 40%Z. assert (2 ^ 40 = 1099511627776)%Z by reflexivity. lia.
Qed.
