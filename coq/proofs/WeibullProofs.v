From Coq Require Import QArith List Bool String Lqa Nsatz.
From SV Require Import model.Life proofs.LifeInvariance model.Weibull.
Import ListNotations.
Open Scope Q_scope.

(* unpacking the stacked vector gives back the stored symmetric tensor *)
Theorem unpack_pack s2 s : ~ s2 == 0 ->
  let r := unpack s2 (pack s2 s) in
  c_xx r == c_xx s /\ c_yy r == c_yy s /\ c_zz r == c_zz s /\ c_yz r == c_yz s /\ c_xz r == c_xz s /\ c_xy r == c_xy s.
Proof.
  intros H. destruct s as [a b c d e f]. cbn. repeat split; try reflexivity; field; exact H.
Qed.

(* without the factor the shear components come back scaled: the pinned defect *)
Theorem unpack_without_factor_refuted :
  exists s, let r := unpack 2 [c_xx s; c_yy s; c_zz s; c_yz s; c_xz s; c_xy s] in ~ c_xy r == c_xy s.
Proof. exists (mk6 0 0 0 0 0 200). cbn. intros H. discriminate H. Qed.

(* ---- invariants under a change of axes ---------------------------------------------- *)
Definition dot6 (a b : t6) : Q :=
  c_xx a * c_xx b + c_yy a * c_yy b + c_zz a * c_zz b + 2 * (c_yz a * c_yz b + c_xz a * c_xz b + c_xy a * c_xy b).
Definition tr3 (s : t6) : Q := dot6 (sq s) s.

Lemma sq_rot_yz R s : orth R -> c_yz (sq (rot R s)) == c_yz (rot R (sq s)).
Proof. intros (H1 & H2 & H3 & H4 & H5 & H6). destruct R, s. unfold sq, rot; cbn in *. nsatz. Qed.
Lemma sq_rot_xz R s : orth R -> c_xz (sq (rot R s)) == c_xz (rot R (sq s)).
Proof. intros (H1 & H2 & H3 & H4 & H5 & H6). destruct R, s. unfold sq, rot; cbn in *. nsatz. Qed.
Lemma sq_rot_xy R s : orth R -> c_xy (sq (rot R s)) == c_xy (rot R (sq s)).
Proof. intros (H1 & H2 & H3 & H4 & H5 & H6). destruct R, s. unfold sq, rot; cbn in *. nsatz. Qed.

Lemma dot6_tr2 a b : dot6 a b == (tr2 (add6 a b) - tr2 a - tr2 b) / 2.
Proof. destruct a as [a1 a2 a3 a4 a5 a6], b as [b1 b2 b3 b4 b5 b6]. unfold dot6, tr2, add6; cbn. field. Qed.

Lemma tr2_compat a b :
  c_xx a == c_xx b -> c_yy a == c_yy b -> c_zz a == c_zz b -> c_yz a == c_yz b -> c_xz a == c_xz b -> c_xy a == c_xy b ->
  tr2 a == tr2 b.
Proof. intros H1 H2 H3 H4 H5 H6. unfold tr2. rewrite H1, H2, H3, H4, H5, H6. reflexivity. Qed.

Lemma rot_add R a b : tr2 (add6 (rot R a) (rot R b)) == tr2 (rot R (add6 a b)).
Proof.
  apply tr2_compat; destruct R, a as [a1 a2 a3 a4 a5 a6], b as [b1 b2 b3 b4 b5 b6]; unfold add6, rot; cbn; ring.
Qed.

Lemma dot6_rot R a b : orth R -> dot6 (rot R a) (rot R b) == dot6 a b.
Proof.
  intros H. rewrite !dot6_tr2. rewrite rot_add. rewrite !(tr2_rot R _ H). reflexivity.
Qed.

Lemma dot6_compat_l a a' b :
  c_xx a == c_xx a' -> c_yy a == c_yy a' -> c_zz a == c_zz a' -> c_yz a == c_yz a' -> c_xz a == c_xz a' -> c_xy a == c_xy a' ->
  dot6 a b == dot6 a' b.
Proof. intros H1 H2 H3 H4 H5 H6. unfold dot6. rewrite H1, H2, H3, H4, H5, H6. reflexivity. Qed.

Theorem tr3_rot R s : orth R -> tr3 (rot R s) == tr3 s.
Proof.
  intros H. unfold tr3.
  rewrite (dot6_compat_l (sq (rot R s)) (rot R (sq s)) (rot R s)
             (sq_rot_xx R s H) (sq_rot_yy R s H) (sq_rot_zz R s H) (sq_rot_yz R s H) (sq_rot_xz R s H) (sq_rot_xy R s H)).
  apply dot6_rot. exact H.
Qed.

(* the three power sums tr, tr(.^2), tr(.^3) -- hence the characteristic
   polynomial and the principal values -- are unchanged by any orthogonal change of axes *)
Theorem invariants_rotation_invariant R s : orth R ->
  tr (rot R s) == tr s /\ tr2 (rot R s) == tr2 s /\ tr3 (rot R s) == tr3 s.
Proof. intros H. repeat split; [apply tr_rot | apply tr2_rot | apply tr3_rot]; exact H. Qed.
