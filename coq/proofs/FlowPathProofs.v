(* Facts about the flow-path model (model/FlowPath.v): a zero residual is the
   per-tube heat balance, the manifold mixing rule and the inlet condition;
   the reported velocities carry exactly the prescribed mass flow; the
   reported fluid temperatures run linearly from panel inlet to tube outlet. *)
From Coq Require Import QArith Qabs List Bool ZArith Lia Lqa.
From SV Require Import model.FlowPath.
Import ListNotations.
Open Scope Q_scope.

Lemma sumQ_scale {A} (c : Q) (g : A -> Q) l : sumQ (map (fun x => c * g x) l) == c * sumQ (map g l).
Proof. unfold sumQ. induction l as [|x r IH]; cbn [map fold_right]; [ring | rewrite IH; ring]. Qed.

Lemma sumQ_ext {A} (f g : A -> Q) l : (forall x, In x l -> f x == g x) -> sumQ (map f l) == sumQ (map g l).
Proof.
  unfold sumQ. induction l as [|x r IH]; intros H; cbn [map fold_right]; [reflexivity|].
  rewrite (H x) by (left; reflexivity). rewrite IH; [reflexivity|]. intros y Hy. apply H. right. exact Hy.
Qed.

(* ---- one tube of a panel ------------------------------------------------------ *)
(* enthalpy gained by the fluid of ONE physical tube, and heat it receives from its wall *)
Definition enthalpy_gain (f : fluid) (p : panel) (mdot tin tout : Q) : Q :=
  mdot / ntube p * cp f (tmean tin tout) * (tout - tin).

Definition wall_heat (pi : Q) (f : fluid) (p : panel) (mdot tin tout : Q) (tm : list (list Q)) : Q :=
  let h := film f (tmean tin tout) (velocity pi f p mdot tin tout) (ri p) in
  ri p * dz p * dtheta pi p *
  sumQ (map (fun row => sumQ (map (fun mt => h * (fst mt - snd mt)) (combine row (fluid_temps p tin tout)))) tm).

Lemma q_mass_factor f p mdot tin w tout : q_mass f p mdot tin w tout == w * enthalpy_gain f p mdot tin tout.
Proof. unfold q_mass, enthalpy_gain. unfold Qdiv. ring. Qed.

Lemma q_conv_factor pi f p mdot tin w tout tm :
  q_conv pi f p mdot tin w tout tm == w * wall_heat pi f p mdot tin tout tm.
Proof.
  unfold q_conv, wall_heat. cbv zeta.
  set (h := film f (tmean tin tout) (velocity pi f p mdot tin tout) (ri p)).
  assert (E : sumQ (map (fun row => sumQ (map (fun mt => w * h * (fst mt - snd mt)) (combine row (fluid_temps p tin tout)))) tm)
              == w * sumQ (map (fun row => sumQ (map (fun mt => h * (fst mt - snd mt)) (combine row (fluid_temps p tin tout)))) tm)).
  { rewrite <- sumQ_scale. apply sumQ_ext. intros row _. rewrite <- sumQ_scale. apply sumQ_ext. intros mt _. ring. }
  rewrite E. ring.
Qed.

(* the residual of a tube vanishes exactly when the enthalpy gained by the fluid
   in that tube equals the convective heat it receives from the tube's wall *)
Theorem tube_balance pi f p mdot tin w tout tm : ~ w == 0 ->
  (q_mass f p mdot tin w tout - q_conv pi f p mdot tin w tout tm == 0 <->
   enthalpy_gain f p mdot tin tout == wall_heat pi f p mdot tin tout tm).
Proof.
  intros Hw. rewrite q_mass_factor, q_conv_factor. split; intros H.
  - assert (E : w * (enthalpy_gain f p mdot tin tout - wall_heat pi f p mdot tin tout tm) == 0) by lra.
    destruct (Qmult_integral _ _ E) as [Z | Z]; [contradiction | lra].
  - rewrite H. ring.
Qed.

(* the manifold temperature is the multiplier-weighted mean of the outlets *)
Theorem manifold_mean p touts tman :
  manifold_residual p touts tman == 0 <->
  tman == sumQ (map (fun wt => fst wt * snd wt) (combine (weights p) touts)) / ntube p.
Proof. unfold manifold_residual. split; intros H; lra. Qed.

(* ---- velocities carry the prescribed mass flow ----------------------------------- *)
Lemma velocity_mass pi f p mdot tin tout :
  ~ ntube p == 0 -> ~ pi == 0 -> ~ ri p == 0 -> ~ rho f (tmean tin tout) == 0 ->
  rho f (tmean tin tout) * velocity pi f p mdot tin tout * (pi * (ri p * ri p)) == mdot / ntube p.
Proof. intros. unfold velocity. field. repeat split; assumption. Qed.

Lemma sum_fst_combine (ws touts : list Q) : length touts = length ws ->
  sumQ (map (fun wt : Q * Q => fst wt) (combine ws touts)) == sumQ ws.
Proof.
  revert touts. induction ws as [|w ws IH]; intros touts Hlen; destruct touts as [|t ts]; cbn [length] in Hlen; try lia.
  - reflexivity.
  - cbn [combine map fst]. unfold sumQ in *. cbn [fold_right]. rewrite (IH ts) by lia. reflexivity.
Qed.

Theorem mass_split pi f p mdot tin : forall touts,
  ~ ntube p == 0 -> ~ pi == 0 -> ~ ri p == 0 -> (forall tout, In tout touts -> ~ rho f (tmean tin tout) == 0) ->
  length touts = length (weights p) ->
  sumQ (map (fun wt => fst wt * (rho f (tmean tin (snd wt)) * velocity pi f p mdot tin (snd wt) * (pi * (ri p * ri p))))
            (combine (weights p) touts)) == mdot.
Proof.
  intros touts Hn Hpi Hr Hrho Hlen.
  rewrite (sumQ_ext _ (fun wt => (mdot / ntube p) * fst wt)).
  - rewrite sumQ_scale.
    assert (E : sumQ (map (fun wt : Q * Q => fst wt) (combine (weights p) touts)) == ntube p)
      by (apply sum_fst_combine; exact Hlen).
    rewrite E. field. exact Hn.
  - intros [w t] Hin. cbn [fst snd].
    rewrite velocity_mass; auto; [ring|]. apply Hrho. apply in_combine_r in Hin. exact Hin.
Qed.

(* ---- reported fluid temperatures ---------------------------------------------------- *)
Theorem linear_profile p tin tout : ~ ht p == 0 ->
  forall k z, nth_error (zs p) k = Some z ->
  exists v, nth_error (fluid_temps p tin tout) k = Some v /\ v == tin + (tout - tin) * (z / ht p).
Proof.
  intros Hh k z Hk. unfold fluid_temps. rewrite nth_error_map, Hk. cbn [option_map].
  eexists. split; [reflexivity|]. field. exact Hh.
Qed.

Corollary profile_ends p tin tout z0 zl : ~ ht p == 0 ->
  (nth_error (zs p) 0 = Some z0 -> z0 == 0 ->
     exists v, nth_error (fluid_temps p tin tout) 0 = Some v /\ v == tin) /\
  (forall k, nth_error (zs p) k = Some zl -> zl == ht p ->
     exists v, nth_error (fluid_temps p tin tout) k = Some v /\ v == tout).
Proof.
  intros Hh. split.
  - intros H0 Z. destruct (linear_profile p tin tout Hh 0%nat z0 H0) as (v & Hv & E).
    exists v. split; [exact Hv|]. rewrite E, Z. field. exact Hh.
  - intros k Hk Z. destruct (linear_profile p tin tout Hh k zl Hk) as (v & Hv & E).
    exists v. split; [exact Hv|]. rewrite E, Z. field. exact Hh.
Qed.

(* ---- the chain ------------------------------------------------------------------------ *)
Definition all_zero (l : list Q) : Prop := Forall (fun x => x == 0) l.

Lemma all_zero_app a b : all_zero (a ++ b) <-> all_zero a /\ all_zero b.
Proof. unfold all_zero. apply Forall_app. Qed.

(* heat balance of every represented tube of a panel fed at temperature tin *)
Definition panel_balanced pi f p mdot tin (touts : list Q) : Prop :=
  all_zero (panel_residual pi f p mdot tin touts).

Fixpoint chain_balanced pi f mdot (panels : list panel) (tin : Q) (T : list Q) : Prop :=
  match panels with
  | [] => True
  | p :: ps =>
    let n := length (weights p) in
    panel_balanced pi f p mdot tin (firstn n T) /\
    manifold_residual p (firstn n T) (nth n T 0) == 0 /\
    chain_balanced pi f mdot ps (nth n T 0) (skipn (S n) T)
  end.

(* zero residual <=> inlet condition, and for every panel in order: tube
   balances with the PREVIOUS node as inlet, manifold mixing *)
Theorem zero_residual_iff_balances pi f mdot inlet panels t0 rest :
  all_zero (path_residual pi f mdot inlet panels (t0 :: rest)) <->
  t0 == inlet /\ chain_balanced pi f mdot panels t0 rest.
Proof.
  cbn [path_residual]. unfold all_zero at 1. rewrite Forall_cons_iff.
  assert (G : forall ps tin T, Forall (fun x => x == 0) (chain_residual pi f mdot ps tin T) <-> chain_balanced pi f mdot ps tin T).
  { induction ps as [|p ps IH]; intros tin T; cbn [chain_residual chain_balanced].
    - split; [auto | intros; constructor].
    - fold (all_zero (panel_residual pi f p mdot tin (firstn (length (weights p)) T) ++
                      [manifold_residual p (firstn (length (weights p)) T) (nth (length (weights p)) T 0)] ++
                      chain_residual pi f mdot ps (nth (length (weights p)) T 0) (skipn (S (length (weights p))) T))).
      rewrite all_zero_app, all_zero_app. unfold panel_balanced.
      unfold all_zero at 2. rewrite Forall_cons_iff. unfold all_zero at 2. rewrite IH.
      split; [intros (A & (B & _) & C); auto | intros (A & B & C); repeat split; auto]. }
  rewrite G. split; intros [A B]; split; auto; lra.
Qed.
