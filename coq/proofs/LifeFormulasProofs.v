(* The metallic-life formulas as they stand in damage.py / materials.py (coq/gen/LifeFormulas.v, regenerated from the
   source on every run) against the hand-written model of model/Life.v. *)
From Coq Require Import QArith List Bool String ZArith.
From SV Require Import model.Life gen.LifeFormulas.
Import ListNotations.
Open Scope Q_scope.

Lemma gen_inside_is_model xk yk df dc : gen_inside xk yk df dc = inside xk yk df dc.
Proof. reflexivity. Qed.

Lemma gen_vm2_is_model s : gen_vm2 s = vm2 s.
Proof. reflexivity. Qed.

(* equivalent strain range: eq = (sqrt 2 / (2 (1 + nu))) sqrt(radicand) with nu = 1/2, so eq^2 = (2/9) radicand, on the
   difference of the engineering strains (shear components doubled) taken as later sample minus earlier sample *)
Lemma prefactor_squared : 2 / ((2 * (1 + (1 # 2))) * (2 * (1 + (1 # 2)))) == 2 # 9.
Proof. reflexivity. Qed.

Lemma gen_eq_radicand_is_model a b : eqrange2 a b == (2 # 9) * gen_eq_radicand (sub6 (eng b) (eng a)).
Proof. unfold eqrange2, gen_eq_radicand. cbv zeta. field. Qed.

Lemma gen_strain_table_is_eng :
  gen_strain_table = [("mechanical_strain_xx"%string, 1 # 1); ("mechanical_strain_yy"%string, 1 # 1); ("mechanical_strain_zz"%string, 1 # 1);
                      ("mechanical_strain_yz"%string, 2 # 1); ("mechanical_strain_xz"%string, 2 # 1); ("mechanical_strain_xy"%string, 2 # 1)]
  /\ forall e, eng e = mk6 (c_xx e) (c_yy e) (c_zz e) (2 * c_yz e) (2 * c_xz e) (2 * c_xy e).
Proof. split; reflexivity. Qed.

Lemma gen_extrap_lump_is_model D N : extrap_lump D N = gen_extrap_lump (sumQ D) (inject_Z (Z.of_nat (List.length D))) N.
Proof. reflexivity. Qed.

Lemma gen_rep_defaults_are_model : gen_rep_defaults = [("rep_min"%string, 1 # 1); ("rep_max"%string, 1000000 # 1)] /\ rep_max = 1000000.
Proof. split; reflexivity. Qed.

(* the one-line formulas the model mirrors: rupture time at the step end over the step length (creep_day), the day sums
   between consecutive cycle ends, the range maximised from zero over ordered pairs (max_range2), the hottest temperature
   of the day, 1 / cycles to failure (fatigue_day), times mod period = 0 with days + 1 cycle ends (id_cycles), the
   last-cycle rule (extrap_last), the search between 1 and 10^6 repetitions with 0 / infinity outside
   (point_life_lump / point_life_last), minima over points and tubes *)
Definition expected_sources : list (string * string) := [("rupture_time", "material.time_to_rupture('averageRupture',tube.quadrature_results['temperature'],vm)");
  ("step_lengths", "np.diff(tube.times)");
  ("step_damage", "dts[:,np.newaxis,np.newaxis]/tR[1:]");
  ("creep_day_sum", "np.array([np.sum(time_dmg[inds[i]:inds[i+1]],axis=0)foriinrange(receiver.days)])");
  ("fatigue_day", "np.array([self.cycle_fatigue(np.array([ef*tube.quadrature_results[en][inds[i]:inds[i+1]]foren,efinzip(strain_names,strain_factors)]),tube.quadrature_results['temperature'][inds[i]:inds[i+1]],material)foriinrange(receiver.days)])");
  ("eq_prefactor", "np.sqrt(2)/(2*(1+nu))");
  ("strain_difference", "strains[:,j]-strains[:,i]");
  ("point_temperature", "np.max(temperatures,axis=0)");
  ("range_start", "np.zeros(pt_temps.shape)");
  ("range_update", "np.maximum(pt_eranges,eq)");
  ("fatigue_point", "1.0/material.cycles_to_fail('nominalFatigue',pt_temps[ind],pt_eranges[ind])");
  ("cycle_phase", "np.mod(tube.times,receiver.period)");
  ("cycle_ends", "list(np.where(tm==0)[0])");
  ("cycle_count_test", "len(inds)!=receiver.days+1");
  ("last_test", "N<len(D)-1");
  ("last_short", "np.sum(D[:N])");
  ("last_long", "np.sum(D[:-1])+D[-1]*N");
  ("search_zero_test", "notmaterial.inside_envelope('cfinteraction',Df(rep_min),Dc(rep_min))");
  ("search_zero_value", "0");
  ("search_inf_test", "material.inside_envelope('cfinteraction',Df(rep_max),Dc(rep_max))");
  ("search_inf_value", "np.inf");
  ("search_root", "opt.brentq(lambdaN:material.inside_envelope('cfinteraction',Df(N),Dc(N))-0.5,rep_min,rep_max)");
  ("tube_life", "min((self.calculate_max_cycles(self.make_extrapolate(c),self.make_extrapolate(f),material)forc,finzip(Dc.reshape(nc,-1).T,Df.reshape(nc,-1).T)))");
  ("receiver_life", "min(Ns)")]%string.

Lemma gen_sources_are_modelled : gen_sources = expected_sources.
Proof. reflexivity. Qed.
