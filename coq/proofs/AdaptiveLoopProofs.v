(* The branch arithmetic of the adaptive loop as it stands in structural.py (coq/gen/AdaptiveLoop.v, regenerated from the
   source on every run) against model/Adaptive.v.  The model carries the progress counters in doubled units (so that the
   one halving of the forced mode stays integral): a model state s encodes the code's (cprog, inc, mdiv) when
   cprog s = 2 cprog, inc s = 2 inc and the division counts agree. *)
From Coq Require Import ZArith QArith List Bool String Lia Lqa.
From SV Require Import model.Adaptive gen.AdaptiveLoop.
Import ListNotations.
Open Scope Q_scope.

Definition enc (s : st) (c i : Q) (m : Z) : Prop :=
  inject_Z (cprog s) == 2 * c /\ inject_Z (inc s) == 2 * i /\ mdiv s = m.

Lemma total_is_twice_tprog n : inject_Z (total n) == 2 * gen_tprog n.
Proof. unfold total, gen_tprog. rewrite inject_Z_mult. reflexivity. Qed.

Lemma tprog_pos n : (0 <= n)%Z -> 0 < gen_tprog n.
Proof.
  intros Hn. unfold gen_tprog. change 0 with (inject_Z 0). rewrite <- Zlt_Qlt. apply Z.pow_pos_nonneg; lia.
Qed.

(* the two initialisations *)
Lemma init_encodes n forced :
  let '(c, i, m) := gen_init n forced in enc (init n forced) c i m.
Proof.
  unfold gen_init, init, enc. destruct forced; cbn [cprog inc mdiv]; repeat split; reflexivity.
Qed.

(* the loop guard *)
Lemma guard_is_model n s c i m : enc s c i m -> (cprog s <? total n)%Z = gen_continue n c.
Proof.
  intros (Hc & _ & _). unfold gen_continue.
  destruct (Z.ltb_spec (cprog s) (total n)) as [L | G].
  - rewrite Zlt_Qlt, Hc, total_is_twice_tprog in L.
    destruct (Qle_bool (gen_tprog n) c) eqn:E; [|reflexivity].
    apply Qle_bool_iff in E. lra.
  - rewrite Zle_Qle, Hc, total_is_twice_tprog in G.
    assert (E : Qle_bool (gen_tprog n) c = true) by (apply Qle_bool_iff; lra).
    rewrite E. reflexivity.
Qed.

(* target of an attempt as a fraction of the step: the model's numerator over its total is the code's sf *)
Lemma target_is_model n s c i m : (0 <= n)%Z -> enc s c i m ->
  inject_Z (cprog s + inc s) / inject_Z (total n) == gen_target n c i.
Proof.
  intros Hn (Hc & Hi & _). pose proof (tprog_pos n Hn) as P.
  rewrite inject_Z_plus, Hc, Hi, total_is_twice_tprog. unfold gen_target. field. lra.
Qed.

(* a converged sub-increment advances the progress by the increment *)
Lemma success_is_model s c i m : enc s c i m ->
  enc (mkSt (cprog s + inc s) (inc s) (mdiv s) (S 0) 0) (gen_ok_cprog c i) i m.
Proof.
  intros (Hc & Hi & Hm). unfold enc, gen_ok_cprog. cbn [cprog inc mdiv].
  repeat split; [rewrite inject_Z_plus, Hc, Hi; ring|exact Hi|exact Hm].
Qed.

(* a failed one halves the increment and counts a division; the give-up test is the code's *)
Lemma failure_is_model s c i m : enc s c i m -> Z.even (inc s) = true ->
  inject_Z (inc s / 2) == 2 * gen_fail_inc i /\ (mdiv s + 1)%Z = gen_fail_mdiv m.
Proof.
  intros (_ & Hi & Hm) He. split; [|unfold gen_fail_mdiv; rewrite Hm; reflexivity].
  apply Z.even_spec in He. destruct He as [k Hk]. unfold gen_fail_inc.
  rewrite Hk in Hi |- *. rewrite (Z.mul_comm 2 k), Z.div_mul by lia.
  rewrite Z.mul_comm, inject_Z_mult in Hi. change (inject_Z 2) with 2 in Hi.
  assert (E : i == inject_Z k) by lra. rewrite E. field.
Qed.

Lemma give_up_and_final_tests_are_model n m : gen_give_up n m = (m >=? n)%Z /\ gen_final_raise n m = (m >=? n)%Z.
Proof. split; reflexivity. Qed.

(* the control skeleton: attempts start from the last accepted state; the handler catches the solver's RuntimeError,
   halves, counts, gives up or retries (continue) without accepting anything; acceptance moves state / time / pressure /
   progress together; an exhausted budget raises after the loop, otherwise the last state is returned *)
Lemma gen_loop_skeleton :
  gen_loop_sources =
  [("start_state", "state_last=state_n.copy()"); ("start_time", "t_last=tube.times[i-1]");
   ("next_state", "state_next,p_next,t_next=self._setup_state(sf,tube,i,state_n)");
   ("handler", "RuntimeError:inc/=2;mdiv+=1;ifmdiv>=self.max_divide:break;continue");
   ("accepted", "state_last=state_next;t_last=t_next;p_last=p_next;cprog+=inc");
   ("attempt_arguments", "state_last,t_last,p_last,state_next,t_next,p_next,dtop*sf,self.solver_options");
   ("after_loop", "ifmdiv>=self.max_divide:raiseRuntimeError('Adaptiveintegrationfailed');returnstate_next")]%string.
Proof. reflexivity. Qed.
