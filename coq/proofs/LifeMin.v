(* Minima over points and tubes; what the reported life means for every
   point; responses to permutation, scaling, repetition and worse loads. *)
From Coq Require Import QArith Qabs Qround List Bool ZArith Lia Lqa Permutation.
From SV Require Import model.Life proofs.LifeProofs.
Import ListNotations.
Open Scope Q_scope.

(* ---- order on results ------------------------------------------------------- *)
Lemma res_le_refl a : res_le a a = true.
Proof. destruct a; cbn; auto. apply Qle_bool_iff. lra. Qed.

Lemma res_le_trans a b c : res_le a b = true -> res_le b c = true -> res_le a c = true.
Proof.
  destruct a, b, c; cbn; auto; try discriminate.
  rewrite !Qle_bool_iff. intros. lra.
Qed.

Lemma res_le_total a b : res_le a b = true \/ res_le b a = true.
Proof.
  destruct a, b; cbn; auto.
  destruct (Qlt_le_dec n n0); [left | right]; apply Qle_bool_iff; lra.
Qed.

Lemma res_min_le_l a b : res_le (res_min a b) a = true.
Proof.
  unfold res_min. destruct (res_le a b) eqn:E; [apply res_le_refl|].
  destruct (res_le_total a b); congruence.
Qed.

Lemma res_min_le_r a b : res_le (res_min a b) b = true.
Proof. unfold res_min. destruct (res_le a b) eqn:E; [exact E | apply res_le_refl]. Qed.

Lemma res_min_glb a b c : res_le c a = true -> res_le c b = true -> res_le c (res_min a b) = true.
Proof. unfold res_min. destruct (res_le a b); auto. Qed.

Lemma min_res_le l : forall x, In x l -> res_le (min_res l) x = true.
Proof.
  induction l as [|y r IH]; intros x []; cbn [min_res fold_right].
  - subst. apply res_min_le_l.
  - eapply res_le_trans; [apply res_min_le_r | apply IH; assumption].
Qed.

Lemma min_res_glb l c : (forall x, In x l -> res_le c x = true) -> res_le c (min_res l) = true.
Proof.
  induction l as [|y r IH]; intros H; cbn [min_res fold_right].
  - destruct c; reflexivity.
  - apply res_min_glb; [apply H; left; reflexivity | apply IH; intros x Hx; apply H; right; exact Hx].
Qed.

Lemma min_res_cons_eq y r : min_res (y :: r) = res_min y (min_res r).
Proof. reflexivity. Qed.

Lemma min_res_attained l : min_res l = Inf \/ In (min_res l) l.
Proof.
  induction l as [|y r IH]; [left; reflexivity|].
  rewrite min_res_cons_eq. unfold res_min.
  destruct (res_le y (min_res r)) eqn:E.
  - right. left. reflexivity.
  - destruct IH as [I | I]; [|right; right; exact I].
    rewrite I in E. destruct y; discriminate.
Qed.

(* equivalence of results up to Qeq of the number *)
Definition res_equiv (a b : res) : Prop := res_le a b = true /\ res_le b a = true.

(* reordering the points (or tubes) does not change the minimum *)
Lemma min_res_perm l l' : Permutation l l' -> res_equiv (min_res l) (min_res l').
Proof.
  intros P. split; apply min_res_glb; intros x Hx; apply min_res_le.
  - eapply Permutation_in; [apply Permutation_sym; exact P | exact Hx].
  - eapply Permutation_in; [exact P | exact Hx].
Qed.

(* adding a tube (or point) never increases the life *)
Lemma min_res_cons x l : res_le (min_res (x :: l)) (min_res l) = true.
Proof. cbn [min_res fold_right]. apply res_min_le_r. Qed.

(* ---- one point, lumped extrapolation ------------------------------------------ *)
Section Point.
Variables xk yk : Q.
Hypothesis Hx : 0 < xk < 1.
Hypothesis Hy : 0 < yk < 1.

Definition damages_ok (mf mc : Q) : Prop := 0 <= mf /\ 0 <= mc.

(* membership of a point after N repetitions (lumped) *)
Definition in_at (mf mc N : Q) : bool := inside xk yk (N * mf) (N * mc).

Lemma in_at_zero_damage N : 0 <= N -> in_at 0 0 N = true.
Proof.
  intros HN. unfold in_at. apply (inside_spec xk yk Hx). left.
  assert (N * 0 == 0) by ring. split; [lra|].
  rewrite H. lra.
Qed.

Definition life_of (mf mc : Q) : res :=
  if negb (in_at mf mc 1) then Zero
  else if in_at mf mc rep_max then Inf
  else Cross (cross_lump xk yk mf mc).

Lemma point_life_lump_is Dc Df : point_life_lump xk yk Dc Df = life_of (mean Df) (mean Dc).
Proof. reflexivity. Qed.

(* the three outcomes, in terms of membership only *)
Theorem life_of_zero_iff mf mc : life_of mf mc = Zero <-> in_at mf mc 1 = false.
Proof.
  unfold life_of. destruct (in_at mf mc 1); cbn [negb]; split; intros H; try discriminate; auto.
  destruct (in_at mf mc rep_max); discriminate.
Qed.

Theorem life_of_inf_iff mf mc : life_of mf mc = Inf <-> in_at mf mc 1 = true /\ in_at mf mc rep_max = true.
Proof.
  unfold life_of. destruct (in_at mf mc 1); cbn [negb]; [|split; [discriminate | intros [? _]; discriminate]].
  destruct (in_at mf mc rep_max); split; intros H; auto; try discriminate. destruct H; discriminate.
Qed.

(* finite life: inside up to the life, outside beyond it, and the life lies in [1, 1e6) *)
Theorem life_of_cross mf mc n : damages_ok mf mc -> life_of mf mc = Cross n ->
  1 <= n /\ n < rep_max /\
  forall N, 0 <= N -> (in_at mf mc N = true <-> N <= n).
Proof.
  intros [Hf Hc] H. unfold life_of in H.
  destruct (in_at mf mc 1) eqn:E1; cbn [negb] in H; [|discriminate].
  destruct (in_at mf mc rep_max) eqn:E2; [discriminate|]. inversion H; subst n. clear H.
  assert (Hpos : 0 < mf + mc).
  { destruct (Qlt_le_dec 0 (mf + mc)) as [P | Z]; [exact P|].
    assert (mf == 0) by lra. assert (mc == 0) by lra.
    exfalso. unfold in_at in E2.
    assert (T : inside xk yk (rep_max * mf) (rep_max * mc) = true).
    { apply (inside_spec xk yk Hx). left. rewrite H, H0.
      assert (rep_max * 0 == 0) by ring. rewrite H1. split; lra. }
    congruence. }
  pose proof (cross_lump_spec xk yk Hx Hy mf mc Hf Hc Hpos) as S.
  split; [|split].
  - apply (S 1); [lra | exact E1].
  - destruct (Qlt_le_dec (cross_lump xk yk mf mc) rep_max) as [L | G]; [exact L|].
    assert (in_at mf mc rep_max = true) by (apply (S rep_max); [unfold rep_max; lra | exact G]). congruence.
  - intros N HN. apply (S N HN).
Qed.

(* larger damages never give a longer life *)
Theorem life_of_antitone mf mc mf' mc' :
  damages_ok mf mc -> mf <= mf' -> mc <= mc' -> res_le (life_of mf' mc') (life_of mf mc) = true.
Proof.
  intros [Hf Hc] Lf Lc.
  assert (M : forall N, 0 <= N -> in_at mf' mc' N = true -> in_at mf mc N = true).
  { intros N HN H. unfold in_at in *.
    apply (inside_mono xk yk Hx Hy (N * mf) (N * mc) (N * mf') (N * mc')); auto.
    - apply Qmult_le_0_compat; assumption.
    - rewrite (Qmult_comm N mf), (Qmult_comm N mf'). apply mul_le_l; assumption.
    - rewrite (Qmult_comm N mc), (Qmult_comm N mc'). apply mul_le_l; assumption. }
  destruct (life_of mf' mc') eqn:A; [reflexivity| |].
  - destruct (life_of mf mc) eqn:B.
    + exfalso. apply life_of_zero_iff in B.
      assert (D' : damages_ok mf' mc') by (split; lra).
      destruct (life_of_cross mf' mc' n D' A) as (H1 & _ & S).
      assert (in_at mf' mc' 1 = true) by (apply S; lra).
      assert (in_at mf mc 1 = true) by (apply M; [lra | assumption]). congruence.
    + cbn. apply Qle_bool_iff.
      assert (D' : damages_ok mf' mc') by (split; lra).
      destruct (life_of_cross mf' mc' n D' A) as (H1 & _ & S).
      destruct (life_of_cross mf mc n0 (conj Hf Hc) B) as (_ & _ & S0).
      apply S0; [lra|]. apply M; [lra|]. apply S; lra.
    + reflexivity.
  - apply life_of_inf_iff in A. destruct A as [A1 A2].
    assert (B1 : in_at mf mc 1 = true) by (apply M; [lra | exact A1]).
    assert (B2 : in_at mf mc rep_max = true) by (apply M; [unfold rep_max; lra | exact A2]).
    assert (life_of mf mc = Inf) by (apply life_of_inf_iff; split; assumption).
    rewrite H. reflexivity.
Qed.
End Point.

(* ---- the receiver --------------------------------------------------------------- *)
Section Receiver.
Variables xk yk : Q.
Hypothesis Hx : 0 < xk < 1.
Hypothesis Hy : 0 < yk < 1.

Definition point := (list Q * list Q)%type.
Definition pt_ok (p : point) : Prop := 0 <= mean (snd p) /\ 0 <= mean (fst p).
Definition pt_in (p : point) (N : Q) : bool := in_at xk yk (mean (snd p)) (mean (fst p)) N.

Definition all_points (tubes : list (list point)) : list point := concat tubes.

Lemma receiver_life_le_point tubes t p :
  In t tubes -> In p t ->
  res_le (receiver_life true xk yk tubes) (point_life_lump xk yk (fst p) (snd p)) = true.
Proof.
  intros Ht Hp. unfold receiver_life.
  eapply res_le_trans.
  - apply min_res_le. apply in_map. exact Ht.
  - unfold tube_life. apply min_res_le.
    apply (in_map (fun p0 : point => point_life_lump xk yk (fst p0) (snd p0)) t p Hp).
Qed.

Lemma receiver_life_attained tubes :
  receiver_life true xk yk tubes = Inf \/
  exists t p, In t tubes /\ In p t /\ receiver_life true xk yk tubes = point_life_lump xk yk (fst p) (snd p).
Proof.
  destruct (min_res_attained (map (tube_life true xk yk) tubes)) as [I | I]; [left; exact I|].
  apply in_map_iff in I. destruct I as (t & Et & Ht).
  change (tube_life true xk yk t) with
    (min_res (map (fun p : point => point_life_lump xk yk (fst p) (snd p)) t)) in Et.
  fold (receiver_life true xk yk tubes) in Et.
  destruct (min_res_attained (map (fun p : point => point_life_lump xk yk (fst p) (snd p)) t)) as [J | J].
  - left. rewrite <- Et. exact J.
  - apply in_map_iff in J. destruct J as (p & Ep & Hp). right. exists t, p. repeat split; auto.
    rewrite <- Et. symmetry. exact Ep.
Qed.

(* below the reported life every point of every tube is inside *)
Theorem life_below_all_inside tubes n N :
  (forall t p, In t tubes -> In p t -> pt_ok p) ->
  res_le (Cross n) (receiver_life true xk yk tubes) = true ->
  0 <= N -> N <= n -> N <= rep_max ->
  forall t p, In t tubes -> In p t -> pt_in p N = true.
Proof.
  intros Hok Hle HN HNn HNm t p Ht Hp.
  pose proof (receiver_life_le_point tubes t p Ht Hp) as L.
  pose proof (res_le_trans _ _ _ Hle L) as L2.
  rewrite point_life_lump_is in L2. unfold pt_in.
  destruct (life_of xk yk (mean (snd p)) (mean (fst p))) eqn:E; cbn in L2; [discriminate| |].
  - apply Qle_bool_iff in L2.
    destruct (life_of_cross xk yk Hx Hy _ _ n0 (Hok t p Ht Hp) E) as (_ & _ & S). apply S; lra.
  - apply life_of_inf_iff in E. destruct E as [_ E].
    destruct (Hok t p Ht Hp) as [Of Oc].
    unfold in_at in *. apply (inside_ray_antitone xk yk Hx Hy _ _ N rep_max); auto.
Qed.

(* above a finite reported life the arg-min point is outside *)
Theorem life_above_some_outside tubes n N :
  (forall t p, In t tubes -> In p t -> pt_ok p) ->
  receiver_life true xk yk tubes = Cross n -> n < N ->
  exists t p, In t tubes /\ In p t /\ pt_in p N = false.
Proof.
  intros Hok H HN.
  destruct (receiver_life_attained tubes) as [I | (t & p & Ht & Hp & E)]; [congruence|].
  exists t, p. repeat split; auto. rewrite H in E. symmetry in E. rewrite point_life_lump_is in E.
  destruct (life_of_cross xk yk Hx Hy _ _ n (Hok t p Ht Hp) E) as (H1 & _ & S).
  unfold pt_in. destruct (in_at xk yk (mean (snd p)) (mean (fst p)) N) eqn:X; [|reflexivity].
  apply S in X; lra.
Qed.

(* 0 exactly when one represented cycle already lies outside for some point *)
Theorem life_zero_iff tubes :
  receiver_life true xk yk tubes = Zero <-> exists t p, In t tubes /\ In p t /\ pt_in p 1 = false.
Proof.
  split.
  - intros H. destruct (receiver_life_attained tubes) as [I | (t & p & Ht & Hp & E)]; [congruence|].
    exists t, p. repeat split; auto. rewrite H in E. symmetry in E. rewrite point_life_lump_is in E.
    apply life_of_zero_iff in E. exact E.
  - intros (t & p & Ht & Hp & E).
    pose proof (receiver_life_le_point tubes t p Ht Hp) as L. rewrite point_life_lump_is in L.
    assert (Z : life_of xk yk (mean (snd p)) (mean (fst p)) = Zero) by (apply life_of_zero_iff; exact E).
    rewrite Z in L. destruct (receiver_life true xk yk tubes); cbn in L; auto; discriminate.
Qed.

(* unbounded exactly when every point is inside at 1 and at 10^6 repetitions *)
Theorem life_inf_iff tubes :
  receiver_life true xk yk tubes = Inf <->
  forall t p, In t tubes -> In p t -> pt_in p 1 = true /\ pt_in p rep_max = true.
Proof.
  split.
  - intros H t p Ht Hp.
    pose proof (receiver_life_le_point tubes t p Ht Hp) as L. rewrite H, point_life_lump_is in L.
    destruct (life_of xk yk (mean (snd p)) (mean (fst p))) eqn:E; cbn in L; try discriminate.
    apply life_of_inf_iff in E. exact E.
  - intros H. destruct (receiver_life_attained tubes) as [I | (t & p & Ht & Hp & E)]; [exact I|].
    rewrite E, point_life_lump_is. apply life_of_inf_iff. apply (H t p Ht Hp).
Qed.
End Receiver.
