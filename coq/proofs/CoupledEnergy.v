(* The energy clause of C07, for one tube, through the coupled fixed point.

   Solid side (model/Thermal.v, steady mode, constant conductivity): the wall
   solver sees a film-coefficient condition on the inner wall (film hf, fluid
   temperatures tfk k along the height) and a prescribed flux q on the outer
   wall.  Its discrete equations give

        hf * sum_jk (ri - dr/2) (T_1jk - tf_k)  =  sum_jk (ro + dr/2) q_jk.

   Fluid side (model/FlowPath.v): the tube's link residual is zero when the
   enthalpy gain q_mass equals q_conv = ri dz dtheta sum_jk w h (Tm_jk - tf_k),
   evaluated on the inner-wall metal temperatures Tm_jk = T_1jk the solid
   returned and on the same film coefficient and fluid temperatures.

   Together: the enthalpy the fluid gains in the tube is the heat entering the
   outer surface, times the multiplier, times the half-node factor
   (ri / (ri - dr/2)) ((ro + dr/2) / ro), which differs from 1 by at most
   4 dr / ri (the radial discretisation error of the clause).              *)
From Coq Require Import QArith Qabs List Bool ZArith Lia Lqa.
From SV Require Import theory.Sums model.Thermal proofs.ThermalConservation model.FlowPath.
Import ListNotations.
Open Scope Q_scope.

Section Solid.
Variables (c : cfg) (T0 T : field) (hf kc : Q) (tfk : nat -> Q) (q : wdata).
Hypothesis Hs : Thermal.steady c = true.
Hypothesis Hrad : rad_pos c.
Hypothesis Htab : tables_periodic c.
Hypothesis HE : Eqs c T0 T.
Hypothesis Hin : inner c = Conv (fun _ _ => hf) (fun _ k => tfk k).
Hypothesis Hout : outer c = Flux q.
Hypothesis Hk : 0 < kc.
Hypothesis Hcc : forall i j k, cc c i j k == kc.
Hypothesis Hkk : forall i j k, kk c i j k == kc.
Hypothesis Hdr : 0 < Thermal.dr c.

Lemma ch_r_const i j k : ch_r c i j k == kc.
Proof. unfold ch_r. rewrite !Hcc. field. Qed.

Lemma inner_term j k : In j (jrange c) -> In k (krange c) ->
  wall_in_inner c T j k == rh c 0%nat * (hf * (tfk k - T 1%nat j k)) / Thermal.dr c.
Proof.
  intros Hj Hkr.
  assert (Hp : 0 < kk c 1%nat j k) by (rewrite Hkk; exact Hk).
  pose proof (inner_exchange c T0 T HE j k Hj Hkr Hp Hdr) as X.
  rewrite Hin in X. rewrite X. rewrite ch_r_const, Hkk. field. split; lra.
Qed.

Lemma outer_term j k : In j (jrange c) -> In k (krange c) ->
  wall_in_outer c T j k == rh c (nr c) * q j k / Thermal.dr c.
Proof.
  intros Hj Hkr.
  assert (Hp : 0 < kk c (nr c) j k) by (rewrite Hkk; exact Hk).
  pose proof (outer_exchange c T0 T HE j k Hj Hkr Hp Hdr) as X.
  rewrite Hout in X. rewrite X. rewrite ch_r_const, Hkk. field. split; lra.
Qed.

Lemma sum_jk_ext (f g : nat -> nat -> Q) :
  (forall j k, In j (jrange c) -> In k (krange c) -> f j k == g j k) -> sum_jk c f == sum_jk c g.
Proof.
  intros H. unfold sum_jk. apply sumL_ext. intros j Hj. apply sumL_ext. intros k Hkr. apply H; assumption.
Qed.

Lemma sum_jk_scale (a : Q) (f : nat -> nat -> Q) : sum_jk c (fun j k => a * f j k) == a * sum_jk c f.
Proof.
  unfold sum_jk. rewrite <- sumL_scale. apply sumL_ext. intros j _. rewrite <- sumL_scale. reflexivity.
Qed.

Lemma sum_jk_plus (f g : nat -> nat -> Q) : sum_jk c (fun j k => f j k + g j k) == sum_jk c f + sum_jk c g.
Proof.
  unfold sum_jk. rewrite <- sumL_plus. apply sumL_ext. intros j _. rewrite <- sumL_plus. reflexivity.
Qed.

(* the wall solver passes the outer heat to the inner wall *)
Theorem solid_inner_equals_outer :
  hf * rh c 0%nat * sum_jk c (fun j k => T 1%nat j k - tfk k) == rh c (nr c) * sum_jk c q.
Proof.
  pose proof (steady_conserves c T0 T Hs Hrad Htab HE) as S.
  assert (E : sum_jk c (fun j k => wall_in_inner c T j k + wall_in_outer c T j k) ==
              sum_jk c (fun j k => (/ Thermal.dr c) * (rh c (nr c) * q j k - hf * rh c 0%nat * (T 1%nat j k - tfk k)))).
  { apply sum_jk_ext. intros j k Hj Hkr. rewrite inner_term, outer_term by assumption. field. lra. }
  rewrite E in S. rewrite sum_jk_scale in S.
  assert (S2 : sum_jk c (fun j k => rh c (nr c) * q j k - hf * rh c 0%nat * (T 1%nat j k - tfk k)) == 0).
  { assert (Hne : ~ / Thermal.dr c == 0).
    { intros Z. assert (Thermal.dr c * / Thermal.dr c == 1) by (field; lra). rewrite Z in H. lra. }
    destruct (Qmult_integral _ _ S) as [Z|Z]; [contradiction|exact Z]. }
  assert (E2 : sum_jk c (fun j k => rh c (nr c) * q j k - hf * rh c 0%nat * (T 1%nat j k - tfk k)) ==
               rh c (nr c) * sum_jk c q - hf * rh c 0%nat * sum_jk c (fun j k => T 1%nat j k - tfk k)).
  { assert (X : sum_jk c (fun j k => rh c (nr c) * q j k - hf * rh c 0%nat * (T 1%nat j k - tfk k)) ==
                sum_jk c (fun j k => rh c (nr c) * q j k + (-1) * (hf * rh c 0%nat * (T 1%nat j k - tfk k)))).
    { apply sum_jk_ext. intros j k _ _. cbv beta. ring. }
    rewrite X, sum_jk_plus, !sum_jk_scale. ring. }
  rewrite E2 in S2. lra.
Qed.

End Solid.

(* ---- the flow path's convective term on the wall field of the solid -------- *)
Lemma combine_map_same {A B C} (f : A -> B) (g : A -> C) (l : list A) :
  combine (map f l) (map g l) = map (fun x => (f x, g x)) l.
Proof. induction l as [|x l IH]; simpl; [reflexivity|rewrite IH; reflexivity]. Qed.

Lemma sumQ_map_sumL {A} (f : A -> Q) (l : list A) : sumQ (map f l) == sumL f l.
Proof. induction l as [|x l IH]; simpl; [reflexivity|rewrite IH; reflexivity]. Qed.

Definition metal_of (c : cfg) (T : field) : list (list Q) :=
  map (fun j => map (fun k => T 1%nat j k) (krange c)) (jrange c).

Lemma conv_sum_on_wall_field (c : cfg) (T : field) (tfk : nat -> Q) (w h : Q) :
  sumQ (map (fun row => sumQ (map (fun mt => w * h * (fst mt - snd mt)) (combine row (map tfk (krange c)))))
            (metal_of c T))
  == w * h * sum_jk c (fun j k => T 1%nat j k - tfk k).
Proof.
  unfold metal_of, sum_jk. rewrite map_map, sumQ_map_sumL.
  rewrite <- sumL_scale. apply sumL_ext. intros j _.
  rewrite combine_map_same, map_map, sumQ_map_sumL. cbn [fst snd].
  rewrite <- sumL_scale. reflexivity.
Qed.

Section Coupled.
Variables (c : cfg) (T0 T : field) (kc : Q) (q : wdata).
Variables (pi : Q) (f : fluid) (p : panel) (mdot tin w tout : Q).
Let hf := film f (tmean tin tout) (velocity pi f p mdot tin tout) (FlowPath.ri p).
Variable tfk : nat -> Q.
Hypothesis Hs : Thermal.steady c = true.
Hypothesis Hrad : rad_pos c.
Hypothesis Htab : tables_periodic c.
Hypothesis HE : Eqs c T0 T.
(* the wall condition the coupled solver builds: this tube's film coefficient and fluid temperatures *)
Hypothesis Hin : inner c = Conv (fun _ _ => hf) (fun _ k => tfk k).
Hypothesis Hout : outer c = Flux q.
Hypothesis Hk : 0 < kc.
Hypothesis Hcc : forall i j k, cc c i j k == kc.
Hypothesis Hkk : forall i j k, kk c i j k == kc.
Hypothesis Hdr : 0 < Thermal.dr c.
(* the flow path reads the fluid temperatures it reports, on the solid's axial stations *)
Hypothesis Htf : fluid_temps p tin tout = map tfk (krange c).
(* the half node inside the inner wall has a positive radius (H1 of C06) *)
Hypothesis Hh1 : 0 < rh c 0%nat.

Theorem tube_energy_balance :
  q_mass f p mdot tin w tout == q_conv pi f p mdot tin w tout (metal_of c T) ->
  q_mass f p mdot tin w tout ==
  w * (FlowPath.ri p / rh c 0%nat) * rh c (nr c) * (FlowPath.dz p * dtheta pi p) * sum_jk c q.
Proof.
  intros Hbal. rewrite Hbal. unfold q_conv. fold hf. rewrite Htf.
  rewrite conv_sum_on_wall_field.
  pose proof (solid_inner_equals_outer c T0 T hf kc tfk q Hs Hrad Htab HE Hin Hout Hk Hcc Hkk Hdr) as S.
  assert (X : hf * sum_jk c (fun j k => T 1%nat j k - tfk k) == rh c (nr c) * sum_jk c q / rh c 0%nat).
  { assert (Y : hf * rh c 0%nat * sum_jk c (fun j k => T 1%nat j k - tfk k) ==
                rh c 0%nat * (hf * sum_jk c (fun j k => T 1%nat j k - tfk k))) by ring.
    rewrite Y in S. rewrite <- S. field. lra. }
  assert (Z : FlowPath.ri p * FlowPath.dz p * dtheta pi p * (w * hf * sum_jk c (fun j k => T 1%nat j k - tfk k)) ==
              FlowPath.ri p * FlowPath.dz p * dtheta pi p * w * (hf * sum_jk c (fun j k => T 1%nat j k - tfk k))) by ring.
  rewrite Z, X. field. lra.
Qed.

End Coupled.

(* ---- the half-node factor is 1 up to the radial discretisation ------------- *)
Definition half_node_factor (ri ro dr : Q) : Q := (ri / (ri - (1#2) * dr)) * ((ro + (1#2) * dr) / ro).

Lemma half_node_factor_bounds (ri ro dr : Q) :
  0 < dr -> dr <= ri -> ri <= ro ->
  1 <= half_node_factor ri ro dr /\ half_node_factor ri ro dr <= 1 + 4 * dr / ri.
Proof.
  intros Hd Hri Hro. unfold half_node_factor.
  assert (Hri0 : 0 < ri) by lra. assert (Hro0 : 0 < ro) by lra.
  assert (Hden : 0 < ri - (1#2) * dr) by lra.
  assert (A : ri / (ri - (1#2) * dr) * ((ro + (1#2) * dr) / ro) == (ri * (ro + (1#2) * dr)) / ((ri - (1#2) * dr) * ro)).
  { field. split; lra. }
  rewrite A.
  assert (Hden2 : 0 < (ri - (1#2) * dr) * ro) by (apply Qmult_lt_0_compat; lra).
  assert (P0 : 0 <= dr * ro) by (apply Qmult_le_0_compat; lra).
  assert (P1 : 0 <= dr * ri) by (apply Qmult_le_0_compat; lra).
  assert (P2 : dr * dr <= dr * ri) by (rewrite (Qmult_comm dr ri); apply Qmult_le_compat_r; lra).
  assert (P3 : ri * ri <= ri * ro) by (rewrite (Qmult_comm ri ro); apply Qmult_le_compat_r; lra).
  split.
  - apply Qle_shift_div_l; [exact Hden2|]. lra.
  - apply Qle_shift_div_r; [exact Hden2|].
    assert (B : (1 + 4 * dr / ri) * ((ri - (1#2) * dr) * ro) == ((ri + 4 * dr) * (ri - (1#2) * dr) * ro) / ri) by (field; lra).
    rewrite B. apply Qle_shift_div_l; [exact Hri0|].
    (* ri ri (ro + dr/2) <= (ri + 4 dr)(ri - dr/2) ro *)
    assert (P5 : dr * dr * ro <= dr * ri * ro) by (apply Qmult_le_compat_r; lra).
    assert (P6 : ri * ri * dr <= ri * ro * dr) by (apply Qmult_le_compat_r; lra).
    assert (P7 : 0 <= dr * ri * ro) by (apply Qmult_le_0_compat; lra).
    lra.
Qed.

(* the factor of tube_energy_balance in terms of the tube's radii *)
Lemma tube_factor_is_half_node (c : cfg) (rip : Q) :
  rip == Thermal.ri c -> 0 < rh c 0%nat -> 0 < rad c (nr c) ->
  (rip / rh c 0%nat) * rh c (nr c) == half_node_factor (Thermal.ri c) (rad c (nr c)) (Thermal.dr c) * rad c (nr c).
Proof.
  intros Hr H0 Hro. unfold half_node_factor.
  assert (E0 : rh c 0%nat == Thermal.ri c - (1#2) * Thermal.dr c).
  { unfold rh, rad. change (inject_Z (Z.of_nat 0)) with 0. change (inject_Z (Z.of_nat 1)) with 1. field. }
  assert (En : rh c (nr c) == rad c (nr c) + (1#2) * Thermal.dr c).
  { unfold rh, rad. rewrite Nat2Z.inj_succ. unfold Z.succ. rewrite inject_Z_plus. change (inject_Z 1) with 1. field. }
  rewrite E0 in H0. rewrite Hr, E0, En. field. split; lra.
Qed.

(* ---- the hypotheses of the energy clause are satisfiable ----------------------
   1D tube, r_i = 1, dr = 1, two radial nodes, unit conductivity; film 1 against a
   fluid at 0 inside, unit flux outside.  Steady wall field T = (0, 5, 20/3, 23/3)
   on the ghosted grid.  The flow path has one tube of multiplier 1, height 2 and a
   single axial station, fluid entering and leaving at 0 with a film law equal to 1,
   so that the convective term is ri dz dtheta * 1 * (5 - 0) with pi := 3. *)
From SV Require Import proofs.ThermalMaxPrinciple proofs.ThermalWitness.

Definition ex_fluid : fluid := mkFluid (fun _ => 1) (fun _ => 1) (fun _ _ _ => 1).
Definition ex_panel : panel := mkPanel [1] 1 2 1 [0] [[[5]]].
Definition ex_tf : Q := Eval vm_compute in hd 0 (fluid_temps ex_panel 0 10).
Definition ex_cfg : cfg :=
  mkCfg 2 1 1 false false 1 1 1 1 1 true
        (fun _ _ _ => 1) (fun _ _ _ => 1)
        (Conv (fun _ _ => 1) (fun _ _ => ex_tf)) (Flux (fun _ _ => 1)).
Definition ex_T : field := fld [[[0]]; [[5]]; [[20 # 3]]; [[23 # 3]]].

(* mass flow 6, fluid entering at 0 and leaving at 10: q_mass = 6 * 1 * 10 = 60 = q_conv *)
Example energy_clause_is_not_vacuous :
  Thermal.steady ex_cfg = true /\ rad_pos ex_cfg /\ tables_periodic ex_cfg /\ Eqs ex_cfg ex_T ex_T /\
  0 < rh ex_cfg 0%nat /\
  fluid_temps ex_panel 0 10 = map (fun _ => ex_tf) (krange ex_cfg) /\
  inner ex_cfg = Conv (fun _ _ => film ex_fluid (tmean 0 10) (velocity 3 ex_fluid ex_panel 6 0 10) (FlowPath.ri ex_panel))
                      (fun _ _ => ex_tf) /\
  q_mass ex_fluid ex_panel 6 0 1 10 == q_conv 3 ex_fluid ex_panel 6 0 1 10 (metal_of ex_cfg ex_T) /\
  q_mass ex_fluid ex_panel 6 0 1 10 == 60 /\
  1 * (FlowPath.ri ex_panel / rh ex_cfg 0%nat) * rh ex_cfg (nr ex_cfg) * (FlowPath.dz ex_panel * dtheta 3 ex_panel)
    * sum_jk ex_cfg (fun _ _ => 1) == 60.
Proof.
  split; [reflexivity|]. split.
  { intros i Hi. simpl in Hi. destruct Hi as [<-|[<-|[]]]; vm_compute; reflexivity. }
  split. { intros H; discriminate H. }
  split. { apply check_step_sound. vm_compute. reflexivity. }
  split. { vm_compute. reflexivity. }
  split. { vm_compute. reflexivity. }
  split. { reflexivity. }
  split. { vm_compute. reflexivity. }
  split; vm_compute; reflexivity.
Qed.
