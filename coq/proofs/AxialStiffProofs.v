From Coq Require Import QArith List Bool String Lqa.
From SV Require Import model.AxialStiff gen.AxialStiff.
Import ListNotations.
Open Scope Q_scope.

(* the relaxation term is linear in the condensed strain: the stress change it stands for *)
Lemma full_contract_linear c e1 e2 a :
  full_contract c (fun k l => e1 k l + a * e2 k l) == full_contract c e1 + a * full_contract c e2.
Proof. unfold full_contract, sum3. ring. Qed.

(* a tangent row without shear coupling (isotropic elasticity): the diagonal terms are all there is *)
Theorem trace_suffices_without_shear_coupling c e :
  (forall k l, k <> l -> c k l == 0) -> trace_contract c e == full_contract c e.
Proof.
  intros H. unfold trace_contract, full_contract, sum3.
  rewrite (H 0%nat 1%nat), (H 0%nat 2%nat), (H 1%nat 0%nat), (H 1%nat 2%nat), (H 2%nat 0%nat), (H 2%nat 1%nat) by discriminate.
  ring.
Qed.

(* with shear coupling (a plastically flowing point under shear) they differ *)
Theorem trace_contraction_refuted : exists c e, ~ trace_contract c e == full_contract c e.
Proof.
  exists (fun k l => if Nat.eqb k l then 0 else 1), (fun k l => 1).
  vm_compute. discriminate.
Qed.

(* the code's pointwise expression is the model's, weighted and divided by the height *)
Theorem gen_gps_point_is_model czzzz c e dx h :
  gen_gps_point (full_contract c e) czzzz dx h == gps_point czzzz c e * dx / h.
Proof. unfold gen_gps_point, gps_point. unfold Qdiv. ring. Qed.

Theorem gen_contraction_is_full : is_full_contraction gen_contraction = true.
Proof. reflexivity. Qed.

Theorem gen_always_postprocessed : gen_postprocessed_always = true.
Proof. reflexivity. Qed.
