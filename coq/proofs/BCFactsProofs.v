(* The boundary-condition grids, wraps, interpolation methods and shape tests as they stand in receiver.py
   (coq/gen/BCFacts.v, regenerated from the source on every run) are the documented forms model/Interp.v is written
   for: nt angles 2 pi k / nt (k = 0 .. nt - 1), closed with the first column at 2 pi; nz stations from 0 to the height,
   both ends included; multilinear interpolation, clamped extension disabled by neither bounds error nor fill value;
   query angle reduced modulo 2 pi; all-scalar queries return a scalar; one shape test per constructor. *)
From Coq Require Import List String.
From SV Require Import gen.BCFacts.
Import ListNotations.

Definition expected_bc_facts : list (string * string) := [("surface_theta", "np.linspace(0,2*np.pi,self.nt+1)[:-1]");
  ("surface_z", "np.linspace(0,self.h,self.nz)");
  ("surface_return", "(self.times,ts,zs)");
  ("closed_grid", "(times,np.append(ts,2.0*np.pi),zs)");
  ("closed_data", "np.concatenate((data,data[:,:1]),axis=1)");
  ("closed_method", "'linear'");
  ("closed_bounds_error", "False");
  ("closed_fill_value", "None");
  ("query_wrap", "closed([x[0],np.mod(x[1],2.0*np.pi),x[2]])");
  ("query_dispatch", "_make_ifn(base)");
  ("dispatch_allscalar", "all(map(np.isscalar,mdata))");
  ("dispatch_anyscalar", "any(map(np.isscalar,mdata))");
  ("dispatch_scalar_value", "base(mdata)[0]");
  ("dispatch_mixed_fill", "[np.ones(shape)*dfordinmdata]");
  ("dispatch_vector_value", "_vector_interpolate(base,mdata)");
  ("HeatFluxBC_shape_test", "data.shape!=(len(self.times),nt,nz)");
  ("FixedTempBC_shape_test", "data.shape!=(len(self.times),nt,nz)");
  ("ConvectiveBC_shape_test", "data.shape!=(len(self.times),nz)");
  ("FilmCoefficientConvectiveBC_shape_test", "fluid_T.shape!=(nz,)orfilm.shape!=(nz,)");
  ("PressureBC_shape_test", "self.times.shape!=data.shape");
  ("convective_z", "np.linspace(0,self.h,self.nz)");
  ("convective_grid", "(self.times,zs)");
  ("convective_data", "self.data");
  ("convective_bounds_error", "False");
  ("convective_fill_value", "None");
  ("convective_method", "'linear'");
  ("film_z", "np.linspace(0,self.h,self.nz)");
  ("film_fluid", "inter.interp1d(zs,fluid_T)");
  ("film_film", "inter.interp1d(zs,film)");
  ("pressure_ifn", "inter.interp1d(self.times,self.data)")]%string.

Lemma gen_bc_facts_are_documented : gen_bc_facts = expected_bc_facts.
Proof. reflexivity. Qed.
