From Coq Require Import List Arith Bool PeanoNat Permutation Lia.
From SV Require Import model.Sched.
Import ListNotations.

(* ---- an ordered pool map gives the sequential result, whoever finishes when -------------------- *)
Lemma lookup_map_in {B} (g : nat -> B) i : forall l, In i l -> lookup i (map (fun j => (j, g j)) l) = Some (g i).
Proof.
  induction l as [|j l IH]; intros H; [destruct H|]. cbn [map lookup].
  destruct (Nat.eqb_spec i j) as [-> | NE]; [reflexivity|].
  apply IH. destruct H as [E | H]; [congruence | exact H].
Qed.

Lemma map_nth_seq {A C} (h : A -> C) (d : A) : forall xs, map (fun i => h (nth i xs d)) (seq 0 (length xs)) = map h xs.
Proof.
  induction xs as [|x xs IH]; [reflexivity|]. cbn [length seq map nth].
  f_equal. rewrite <- seq_shift, map_map. cbn [nth]. exact IH.
Qed.

Theorem pool_map_is_sequential {A B} (f : A -> B) (xs : list A) (finish : list nat) (dflt : A) :
  Permutation finish (seq 0 (length xs)) ->
  collect (length xs) (completions f xs finish dflt) = sequential f xs.
Proof.
  intros P. unfold collect, completions, sequential.
  rewrite <- (map_nth_seq (fun x => Some (f x)) dflt xs).
  apply map_ext_in. intros i Hi.
  apply (lookup_map_in (fun j => f (nth j xs dflt))).
  apply (Permutation_in i (Permutation_sym P)). exact Hi.
Qed.

(* two executions with different finishing orders agree *)
Corollary pool_map_schedule_independent {A B} (f : A -> B) xs fin1 fin2 d :
  Permutation fin1 (seq 0 (length xs)) -> Permutation fin2 (seq 0 (length xs)) ->
  collect (length xs) (completions f xs fin1 d) = collect (length xs) (completions f xs fin2 d).
Proof. intros P1 P2. rewrite !pool_map_is_sequential by assumption. reflexivity. Qed.

(* ---- copy-back ------------------------------------------------------------------------------------- *)
Lemma copy_back_notin {V} : forall (rs : list (nat * V)) s k, ~ In k (map fst rs) -> copy_back s rs k = s k.
Proof.
  induction rs as [|[k0 v0] rs IH]; intros s k H; [reflexivity|].
  cbn [copy_back fold_left fst snd]. change (copy_back (update s k0 v0) rs k = s k).
  rewrite IH by (intros X; apply H; right; exact X).
  unfold update. destruct (Nat.eqb_spec k k0) as [-> | NE]; [exfalso; apply H; left; reflexivity | reflexivity].
Qed.

Theorem copy_back_lookup {V} : forall (rs : list (nat * V)) s k v, NoDup (map fst rs) -> In (k, v) rs -> copy_back s rs k = v.
Proof.
  induction rs as [|[k0 v0] rs IH]; intros s k v ND H; [destruct H|].
  cbn [map fst] in ND. inversion ND as [|? ? Hnin ND']; subst.
  change (copy_back (update s k0 v0) rs k = v).
  destruct H as [E | H].
  - injection E as -> ->. rewrite copy_back_notin by exact Hnin. unfold update. rewrite Nat.eqb_refl. reflexivity.
  - apply IH; assumption.
Qed.

(* the receiver ends up the same whatever order (and grouping) the sub-problems come back in *)
Theorem copy_back_order_independent {V} (rs rs' : list (nat * V)) s k :
  NoDup (map fst rs) -> Permutation rs rs' -> copy_back s rs k = copy_back s rs' k.
Proof.
  intros ND P.
  assert (ND' : NoDup (map fst rs')) by (apply (Permutation_NoDup (Permutation_map fst P)); exact ND).
  destruct (in_dec Nat.eq_dec k (map fst rs)) as [I | NI].
  - apply in_map_iff in I. destruct I as ([k1 v] & E & I). cbn in E. subst k1.
    rewrite (copy_back_lookup rs s k v ND I).
    symmetry. apply copy_back_lookup; [exact ND' | apply (Permutation_in _ P); exact I].
  - rewrite copy_back_notin by exact NI. symmetry. apply copy_back_notin.
    intros X. apply NI. apply (Permutation_in k (Permutation_sym (Permutation_map fst P))). exact X.
Qed.

(* every tube of a solved sub-problem carries its own results, every other tube keeps its own *)
Corollary copy_back_groups {V} (groups : list (list (nat * V))) s k v :
  NoDup (map fst (concat groups)) -> In (k, v) (concat groups) -> copy_back s (concat groups) k = v.
Proof. intros ND I. apply copy_back_lookup; assumption. Qed.

(* ---- paging ---------------------------------------------------------------------------------------- *)
Definition agree {V} (pre : nat -> nat) (fs d : @files V) : Prop := forall t fld, fs (pre t, fld) = d (t, fld).

Theorem paged_is_in_memory {V} (pre : nat -> nat) :
  (forall a b, pre a = pre b -> a = b) ->
  forall (ws : list (@wr V)) fs d, agree pre fs d -> agree pre (paged pre fs ws) (inmem d ws).
Proof.
  intros Hinj. induction ws as [|w ws IH]; intros fs d Ha; [exact Ha|].
  cbn [paged inmem fold_left]. apply IH.
  intros t fld. unfold fwrite. cbn [fst snd].
  destruct (Nat.eqb_spec (pre t) (pre (w_tube w))) as [E | NE].
  - apply Hinj in E. subst t. rewrite Nat.eqb_refl. cbn [andb]. destruct (Nat.eqb fld (w_field w)); [reflexivity | apply Ha].
  - destruct (Nat.eqb_spec t (w_tube w)) as [E | _]; [subst t; congruence|]. cbn [andb]. apply Ha.
Qed.

Corollary paged_reads_own_values {V} (pre : nat -> nat) (ws : list (@wr V)) fs d t fld :
  (forall a b, pre a = pre b -> a = b) -> agree pre fs d -> pread pre (paged pre fs ws) t fld = inmem d ws (t, fld).
Proof. intros Hinj Ha. unfold pread. apply (paged_is_in_memory pre Hinj ws fs d Ha). Qed.

(* a numbering that gives two tubes the same prefix lets one overwrite the other *)
Theorem shared_prefix_refuted :
  exists (pre : nat -> nat) (ws : list (@wr nat)) t fld,
    pread pre (paged pre (fun _ => 0) ws) t fld <> inmem (fun _ => 0) ws (t, fld).
Proof.
  exists (fun t => t mod 2), [mkWr 0 7 11; mkWr 2 7 22], 0, 7. vm_compute. discriminate.
Qed.

(* numbering the tubes of the whole receiver consecutively is injective; numbering them within
   each panel is not *)
Definition global_number (sizes : list nat) (p q : nat) : nat := fold_right Nat.add 0 (firstn p sizes) + q.

Theorem global_number_injective sizes p q p' q' :
  p < length sizes -> p' < length sizes -> q < nth p sizes 0 -> q' < nth p' sizes 0 ->
  global_number sizes p q = global_number sizes p' q' -> p = p' /\ q = q'.
Proof.
  unfold global_number.
  assert (Mono : forall a b, a < b -> b < length sizes ->
            fold_right Nat.add 0 (firstn a sizes) + nth a sizes 0 <= fold_right Nat.add 0 (firstn b sizes)).
  { intros a b Hab Hb. revert a b Hab Hb. induction sizes as [|s r IH]; intros a b Hab Hb; [cbn in Hb; lia|].
    destruct b as [|b]; [lia|]. destruct a as [|a]; cbn [firstn fold_right nth].
    - lia.
    - cbn [length] in Hb. specialize (IH a b ltac:(lia) ltac:(lia)). lia. }
  intros Hp Hp' Hq Hq' E.
  destruct (Nat.lt_trichotomy p p') as [L | [-> | G]].
  - specialize (Mono p p' L Hp'). lia.
  - split; [reflexivity | lia].
  - specialize (Mono p' p G Hp). lia.
Qed.
