(* Discrete maximum principle, linearity and uniqueness for one backward-Euler
   step of the model (model/Thermal.v), for every step size dt > 0. *)
From Coq Require Import QArith Qabs List Bool ZArith Lia Lqa.
From SV Require Import theory.Sums model.Thermal proofs.ThermalConservation.
Import ListNotations.
Open Scope Q_scope.

Definition real (c : cfg) (i j k : nat) : Prop :=
  In i (irange c) /\ In j (jrange c) /\ In k (krange c).

Definition nodes (c : cfg) : list (nat * nat * nat) :=
  flat_map (fun i => flat_map (fun j => map (fun k => (i, j, k)) (krange c)) (jrange c)) (irange c).

Lemma nodes_real c i j k : In (i, j, k) (nodes c) <-> real c i j k.
Proof.
  unfold nodes, real. rewrite in_flat_map. split.
  - intros (i' & Hi & H). rewrite in_flat_map in H. destruct H as (j' & Hj & H).
    rewrite in_map_iff in H. destruct H as (k' & E & Hk). inversion E; subst. auto.
  - intros (Hi & Hj & Hk). exists i. split; [exact Hi|]. rewrite in_flat_map. exists j. split; [exact Hj|].
    rewrite in_map_iff. exists k. split; [reflexivity | exact Hk].
Qed.

(* standing assumptions on a configuration *)
Record good (c : cfg) : Prop := {
  g_transient : steady c = false;
  g_dt : 0 < dt c;
  g_dr : 0 < dr c;
  g_dth : 0 < dth c;
  g_dz : 0 < dz c;
  g_H1 : dr c < 2 * ri c;                 (* inner half-node radius positive *)
  g_coeffs : coeffs_pos c;
  g_nr : (1 <= nr c)%nat; g_nt : (1 <= nt c)%nat; g_nz : (1 <= nz c)%nat
}.

Lemma good_rad_pos c : good c -> rad_pos c.
Proof.
  intros G i Hi. unfold irange in Hi. apply in_seq in Hi. unfold rad.
  assert (1 <= inject_Z (Z.of_nat i)).
  { change 1 with (inject_Z 1). rewrite <- Zle_Qle. lia. }
  pose proof (g_dr c G). pose proof (g_H1 c G). nra.
Qed.

Lemma g_r_pos c j k : good c -> forall i, 0 < g_r c i j k.
Proof.
  intros G i. unfold g_r.
  pose proof (rh_pos_all c (g_dr c G) (g_H1 c G) i) as Hrh.
  assert (Hch : 0 < ch_r c i j k).
  { unfold ch_r. destruct (g_coeffs c G i j k) as [A _]. destruct (g_coeffs c G (S i) j k) as [B _].
    apply Qlt_shift_div_l; lra. }
  pose proof (g_dr c G).
  apply Qlt_shift_div_l; [nra|]. rewrite Qmult_0_l. apply Qmult_lt_0_compat; assumption.
Qed.

Lemma g_t_pos c i k : good c -> forall j, 0 < g_t c i j k.
Proof.
  intros G j. unfold g_t, ch_t. destruct (g_coeffs c G i j k) as [A _]. destruct (g_coeffs c G i (S j) k) as [B _].
  pose proof (g_dth c G). apply Qlt_shift_div_l; [nra|]. rewrite Qmult_0_l. apply Qlt_shift_div_l; lra.
Qed.

Lemma g_z_pos c i j : good c -> forall k, 0 < g_z c i j k.
Proof.
  intros G k. unfold g_z, ch_z. destruct (g_coeffs c G i j k) as [A _]. destruct (g_coeffs c G i j (S k)) as [B _].
  pose proof (g_dz c G). apply Qlt_shift_div_l; [nra|]. rewrite Qmult_0_l. apply Qlt_shift_div_l; lra.
Qed.

(* what a wall may contribute without raising the temperature above B *)
Definition wall_upper (c : cfg) (w : wall) (B : Q) : Prop :=
  match w with
  | Ins => True
  | Fixed g => forall j k, In j (jrange c) -> In k (krange c) -> g j k <= B
  | Flux q => forall j k, In j (jrange c) -> In k (krange c) -> q j k <= 0
  | Conv h tf => forall j k, In j (jrange c) -> In k (krange c) -> 0 <= h j k /\ tf j k <= B
  end.

Section Upper.
Variable c : cfg.
Variables T0 T : field.
Variable B : Q.
Hypothesis G : good c.
Hypothesis HE : Eqs c T0 T.
Hypothesis H0 : forall i j k, real c i j k -> T0 i j k <= B.
Hypothesis Hin : wall_upper c (inner c) B.
Hypothesis Hout : wall_upper c (outer c) B.

(* at a real node that is a maximiser of T over the real nodes and exceeds B,
   no neighbour (real or ghost) is hotter *)
Section AtMax.
Variables i j k : nat.
Hypothesis Hr : real c i j k.
Hypothesis Hmax : forall i' j' k', real c i' j' k' -> T i' j' k' <= T i j k.
Hypothesis Hgt : B < T i j k.

Lemma i_ge1 : (1 <= i <= nr c)%nat.
Proof. destruct Hr as (Hi & _). unfold irange in Hi. apply in_seq in Hi. lia. Qed.

Lemma nb_r_plus : T (S i) j k <= T i j k.
Proof.
  destruct Hr as (Hi & Hj & Hk). pose proof i_ge1 as I.
  destruct (Nat.eq_dec i (nr c)) as [E | NE].
  - subst i. destruct HE as (_ & Hw & _). destruct (Hw j k Hj Hk) as [_ Ho].
    unfold res_outer in Ho. unfold wall_upper in Hout.
    destruct (g_coeffs c G (nr c) j k) as [_ Kp]. pose proof (g_dr c G) as Dp.
    destruct (outer c) as [|g|q|h tf].
    + lra.
    + specialize (Hout j k Hj Hk). lra.
    + specialize (Hout j k Hj Hk).
      assert (dr c * q j k / kk c (nr c) j k <= 0).
      { apply Qle_shift_div_r; [exact Kp|]. rewrite Qmult_0_l. nra. }
      lra.
    + destruct (Hout j k Hj Hk) as [Hh Htf].
      assert (0 <= dr c * h j k * (T (nr c) j k - tf j k) / kk c (nr c) j k).
      { apply Qle_shift_div_l; [exact Kp|]. rewrite Qmult_0_l.
        apply Qmult_le_0_compat; [apply Qmult_le_0_compat; lra | lra]. }
      lra.
  - apply Hmax. split; [|split; assumption]. unfold irange. apply in_seq. lia.
Qed.

Lemma nb_r_minus : T (pred i) j k <= T i j k.
Proof.
  destruct Hr as (Hi & Hj & Hk). pose proof i_ge1 as I.
  destruct (Nat.eq_dec i 1%nat) as [E | NE].
  - subst i. cbn [pred]. destruct HE as (_ & Hw & _). destruct (Hw j k Hj Hk) as [Hi' _].
    unfold res_inner in Hi'. unfold wall_upper in Hin.
    destruct (g_coeffs c G 1%nat j k) as [_ Kp]. pose proof (g_dr c G) as Dp.
    destruct (inner c) as [|g|q|h tf].
    + lra.
    + specialize (Hin j k Hj Hk). lra.
    + specialize (Hin j k Hj Hk).
      assert (dr c * q j k / kk c 1%nat j k <= 0).
      { apply Qle_shift_div_r; [exact Kp|]. rewrite Qmult_0_l. nra. }
      lra.
    + destruct (Hin j k Hj Hk) as [Hh Htf].
      assert (0 <= dr c * h j k * (T 1%nat j k - tf j k) / kk c 1%nat j k).
      { apply Qle_shift_div_l; [exact Kp|]. rewrite Qmult_0_l.
        apply Qmult_le_0_compat; [apply Qmult_le_0_compat; lra | lra]. }
      lra.
  - apply Hmax. split; [|split; assumption]. unfold irange. apply in_seq. lia.
Qed.

Lemma nb_t_plus : has_t c = true -> T i (S j) k <= T i j k.
Proof.
  intros Ht. destruct Hr as (Hi & Hj & Hk).
  assert (J : (1 <= j <= nt c)%nat) by (unfold jrange in Hj; rewrite Ht in Hj; apply in_seq in Hj; lia).
  destruct (Nat.eq_dec j (nt c)) as [E | NE].
  - subst j. destruct HE as (_ & _ & Hper & _). destruct (Hper Ht i k Hi Hk) as [_ P1]. rewrite P1.
    apply Hmax. split; [exact Hi|]. split; [|exact Hk]. unfold jrange. rewrite Ht. apply in_seq.
    pose proof (g_nt c G). lia.
  - apply Hmax. split; [exact Hi|]. split; [|exact Hk]. unfold jrange. rewrite Ht. apply in_seq. lia.
Qed.

Lemma nb_t_minus : has_t c = true -> T i (pred j) k <= T i j k.
Proof.
  intros Ht. destruct Hr as (Hi & Hj & Hk).
  assert (J : (1 <= j <= nt c)%nat) by (unfold jrange in Hj; rewrite Ht in Hj; apply in_seq in Hj; lia).
  destruct (Nat.eq_dec j 1%nat) as [E | NE].
  - subst j. cbn [pred]. destruct HE as (_ & _ & Hper & _). destruct (Hper Ht i k Hi Hk) as [P0 _]. rewrite P0.
    apply Hmax. split; [exact Hi|]. split; [|exact Hk]. unfold jrange. rewrite Ht. apply in_seq.
    pose proof (g_nt c G). lia.
  - apply Hmax. split; [exact Hi|]. split; [|exact Hk]. unfold jrange. rewrite Ht. apply in_seq. lia.
Qed.

Lemma nb_z_plus : has_z c = true -> T i j (S k) <= T i j k.
Proof.
  intros Hz. destruct Hr as (Hi & Hj & Hk).
  assert (K : (1 <= k <= nz c)%nat) by (unfold krange in Hk; rewrite Hz in Hk; apply in_seq in Hk; lia).
  destruct (Nat.eq_dec k (nz c)) as [E | NE].
  - subst k. destruct HE as (_ & _ & _ & Hax). destruct (Hax Hz i j Hi Hj) as [_ A1]. rewrite A1. lra.
  - apply Hmax. split; [exact Hi|]. split; [exact Hj|]. unfold krange. rewrite Hz. apply in_seq. lia.
Qed.

Lemma nb_z_minus : has_z c = true -> T i j (pred k) <= T i j k.
Proof.
  intros Hz. destruct Hr as (Hi & Hj & Hk).
  assert (K : (1 <= k <= nz c)%nat) by (unfold krange in Hk; rewrite Hz in Hk; apply in_seq in Hk; lia).
  destruct (Nat.eq_dec k 1%nat) as [E | NE].
  - subst k. cbn [pred]. destruct HE as (_ & _ & _ & Hax). destruct (Hax Hz i j Hi Hj) as [A0 _]. rewrite A0. lra.
  - apply Hmax. split; [exact Hi|]. split; [exact Hj|]. unfold krange. rewrite Hz. apply in_seq. lia.
Qed.

Lemma lap_nonpos : Lap c T i j k <= 0.
Proof.
  pose proof (good_rad_pos c G i (proj1 Hr)) as Rp.
  unfold Lap.
  assert (A : L_r c T i j k <= 0).
  { unfold L_r. apply Qle_shift_div_r; [exact Rp|]. rewrite Qmult_0_l.
    pose proof (g_r_pos c j k G i). pose proof (g_r_pos c j k G (pred i)).
    pose proof nb_r_plus. pose proof nb_r_minus. nra. }
  assert (Bt : L_t c T i j k <= 0).
  { unfold L_t. destruct (has_t c) eqn:Ht; [|lra].
    apply Qle_shift_div_r; [nra|]. rewrite Qmult_0_l.
    pose proof (g_t_pos c i k G j). pose proof (g_t_pos c i k G (pred j)).
    pose proof (nb_t_plus Ht). pose proof (nb_t_minus Ht). nra. }
  assert (Cz : L_z c T i j k <= 0).
  { unfold L_z. destruct (has_z c) eqn:Hz; [|lra].
    pose proof (g_z_pos c i j G k). pose proof (g_z_pos c i j G (pred k)).
    pose proof (nb_z_plus Hz). pose proof (nb_z_minus Hz). nra. }
  lra.
Qed.

Lemma at_max_contradiction : False.
Proof.
  destruct HE as (Hn & _). destruct Hr as (Hi & Hj & Hk).
  specialize (Hn i j k Hi Hj Hk). unfold res_node in Hn. rewrite (g_transient c G) in Hn.
  pose proof lap_nonpos as L. pose proof (g_dt c G) as Dt.
  pose proof (H0 i j k Hr).
  assert (dt c * Lap c T i j k <= 0) by nra. lra.
Qed.
End AtMax.

Theorem upper_bound : forall i j k, real c i j k -> T i j k <= B.
Proof.
  intros i j k Hr.
  destruct (Qlt_le_dec B (T i j k)) as [Hgt | Hle]; [|exact Hle]. exfalso.
  destruct (argmax_exists (fun p : nat * nat * nat => let '(a, b, d) := p in T a b d) (nodes c))
    as ([[a b] d] & Hin' & Hmax).
  { intros E. assert (X : In (i, j, k) (nodes c)) by (apply nodes_real; exact Hr). rewrite E in X. destruct X. }
  apply nodes_real in Hin'.
  apply (at_max_contradiction a b d Hin').
  - intros i' j' k' Hr'. apply (Hmax (i', j', k')). apply nodes_real. exact Hr'.
  - assert (T i j k <= T a b d) by (apply (Hmax (i, j, k)); apply nodes_real; exact Hr). lra.
Qed.
End Upper.

(* ---- linearity --------------------------------------------------------- *)
Definition with_walls (c : cfg) (wi wo : wall) : cfg :=
  mkCfg (nr c) (nt c) (nz c) (has_t c) (has_z c) (dr c) (dth c) (dz c) (dt c) (ri c) (steady c)
        (cc c) (kk c) wi wo.

Definition neg_wall (w : wall) : wall :=
  match w with
  | Ins => Ins
  | Fixed g => Fixed (fun j k => - g j k)
  | Flux q => Flux (fun j k => - q j k)
  | Conv h tf => Conv h (fun j k => - tf j k)
  end.

Definition negF (T : field) : field := fun i j k => - T i j k.
Definition addF (A B : field) : field := fun i j k => A i j k + B i j k.

Lemma Lap_neg c wi wo T i j k : Lap (with_walls c wi wo) (negF T) i j k == - Lap c T i j k.
Proof.
  unfold Lap, L_r, L_t, L_z, negF, g_r, g_t, g_z, ch_r, ch_t, ch_z, rh, rad, with_walls; cbn [has_t has_z cc dr dth dz ri].
  destruct (has_t c), (has_z c); unfold Qdiv; ring.
Qed.

Lemma Lap_add c wi wo A B i j k :
  Lap (with_walls c wi wo) (addF A B) i j k == Lap c A i j k + Lap c B i j k.
Proof.
  unfold Lap, L_r, L_t, L_z, addF, g_r, g_t, g_z, ch_r, ch_t, ch_z, rh, rad, with_walls; cbn [has_t has_z cc dr dth dz ri].
  destruct (has_t c), (has_z c); unfold Qdiv; ring.
Qed.

Lemma Eqs_neg c T0 T :
  Eqs c T0 T -> Eqs (with_walls c (neg_wall (inner c)) (neg_wall (outer c))) (negF T0) (negF T).
Proof.
  intros (Hn & Hw & Hp & Ha). repeat split.
  - intros i j k Hi Hj Hk. specialize (Hn i j k Hi Hj Hk).
    unfold res_node in *. change (steady (with_walls c _ _)) with (steady c).
    change (dt (with_walls c (neg_wall (inner c)) (neg_wall (outer c)))) with (dt c).
    pose proof (Lap_neg c (neg_wall (inner c)) (neg_wall (outer c)) T i j k) as LN.
    set (X := Lap (with_walls c (neg_wall (inner c)) (neg_wall (outer c))) (negF T) i j k) in *.
    destruct (steady c); unfold negF; rewrite LN; lra.
  - destruct (Hw j k H H0) as [Hi _]. unfold res_inner in *. cbn [with_walls inner dr kk].
    destruct (inner c) as [|g|q|h tf]; cbn [neg_wall]; unfold negF.
    + lra.
    + lra.
    + assert (E : dr c * - q j k / kk c 1%nat j k == - (dr c * q j k / kk c 1%nat j k)) by (unfold Qdiv; ring).
      rewrite E. lra.
    + assert (E : dr c * h j k * (- T 1%nat j k - - tf j k) / kk c 1%nat j k ==
                  - (dr c * h j k * (T 1%nat j k - tf j k) / kk c 1%nat j k)) by (unfold Qdiv; ring).
      rewrite E. lra.
  - destruct (Hw j k H H0) as [_ Ho]. unfold res_outer in *. cbn [with_walls outer dr kk nr].
    destruct (outer c) as [|g|q|h tf]; cbn [neg_wall]; unfold negF.
    + lra.
    + lra.
    + assert (E : dr c * - q j k / kk c (nr c) j k == - (dr c * q j k / kk c (nr c) j k)) by (unfold Qdiv; ring).
      rewrite E. lra.
    + assert (E : dr c * h j k * (- T (nr c) j k - - tf j k) / kk c (nr c) j k ==
                  - (dr c * h j k * (T (nr c) j k - tf j k) / kk c (nr c) j k)) by (unfold Qdiv; ring).
      rewrite E. lra.
  - destruct (Hp H i k H0 H1) as [P0 _]. unfold negF. cbn [with_walls nt]. rewrite P0. reflexivity.
  - destruct (Hp H i k H0 H1) as [_ P1]. unfold negF. cbn [with_walls nt]. rewrite P1. reflexivity.
  - destruct (Ha H i j H0 H1) as [A0 _]. unfold negF. rewrite A0. reflexivity.
  - destruct (Ha H i j H0 H1) as [_ A1]. unfold negF. cbn [with_walls nz]. rewrite A1. reflexivity.
Qed.

(* data of two walls of the same kind add; convective walls must share h *)
Inductive walls_add : wall -> wall -> wall -> Prop :=
| wa_ins : walls_add Ins Ins Ins
| wa_fixed g1 g2 : walls_add (Fixed g1) (Fixed g2) (Fixed (fun j k => g1 j k + g2 j k))
| wa_flux q1 q2 : walls_add (Flux q1) (Flux q2) (Flux (fun j k => q1 j k + q2 j k))
| wa_conv h tf1 tf2 : walls_add (Conv h tf1) (Conv h tf2) (Conv h (fun j k => tf1 j k + tf2 j k)).

(* superposition: for fixed coefficient tables the step is additive in
   (previous field, wall data) *)
Theorem Eqs_add c wi1 wo1 wi2 wo2 wi wo A0 A B0 B :
  walls_add wi1 wi2 wi -> walls_add wo1 wo2 wo ->
  Eqs (with_walls c wi1 wo1) A0 A -> Eqs (with_walls c wi2 wo2) B0 B ->
  Eqs (with_walls c wi wo) (addF A0 B0) (addF A B).
Proof.
  intros Wi Wo (Hn1 & Hw1 & Hp1 & Ha1) (Hn2 & Hw2 & Hp2 & Ha2). repeat split.
  - intros i j k Hi Hj Hk. specialize (Hn1 i j k Hi Hj Hk). specialize (Hn2 i j k Hi Hj Hk).
    unfold res_node in *. cbn [with_walls steady dt] in *.
    pose proof (Lap_add c wi wo A B i j k) as LA.
    set (X := Lap (with_walls c wi wo) (addF A B) i j k) in *.
    change (Lap (with_walls c wi1 wo1) A i j k) with (Lap c A i j k) in Hn1.
    change (Lap (with_walls c wi2 wo2) B i j k) with (Lap c B i j k) in Hn2.
    destruct (steady c); unfold addF; rewrite LA; lra.
  - destruct (Hw1 j k H H0) as [I1 _]. destruct (Hw2 j k H H0) as [I2 _].
    unfold res_inner in *. cbn [with_walls inner dr kk] in *. unfold addF.
    destruct Wi; try lra.
    + assert (E : dr c * (q1 j k + q2 j k) / kk c 1%nat j k ==
                  dr c * q1 j k / kk c 1%nat j k + dr c * q2 j k / kk c 1%nat j k) by (unfold Qdiv; ring).
      rewrite E. lra.
    + assert (E : dr c * h j k * (A 1%nat j k + B 1%nat j k - (tf1 j k + tf2 j k)) / kk c 1%nat j k ==
                  dr c * h j k * (A 1%nat j k - tf1 j k) / kk c 1%nat j k
                  + dr c * h j k * (B 1%nat j k - tf2 j k) / kk c 1%nat j k) by (unfold Qdiv; ring).
      rewrite E. lra.
  - destruct (Hw1 j k H H0) as [_ O1]. destruct (Hw2 j k H H0) as [_ O2].
    unfold res_outer in *. cbn [with_walls outer dr kk nr] in *. unfold addF.
    destruct Wo; try lra.
    + assert (E : dr c * (q1 j k + q2 j k) / kk c (nr c) j k ==
                  dr c * q1 j k / kk c (nr c) j k + dr c * q2 j k / kk c (nr c) j k) by (unfold Qdiv; ring).
      rewrite E. lra.
    + assert (E : dr c * h j k * (A (nr c) j k + B (nr c) j k - (tf1 j k + tf2 j k)) / kk c (nr c) j k ==
                  dr c * h j k * (A (nr c) j k - tf1 j k) / kk c (nr c) j k
                  + dr c * h j k * (B (nr c) j k - tf2 j k) / kk c (nr c) j k) by (unfold Qdiv; ring).
      rewrite E. lra.
  - destruct (Hp1 H i k H0 H1) as [P _]. destruct (Hp2 H i k H0 H1) as [P' _].
    unfold addF. cbn [with_walls nt] in *. rewrite P, P'. reflexivity.
  - destruct (Hp1 H i k H0 H1) as [_ P]. destruct (Hp2 H i k H0 H1) as [_ P'].
    unfold addF. cbn [with_walls nt] in *. rewrite P, P'. reflexivity.
  - destruct (Ha1 H i j H0 H1) as [P _]. destruct (Ha2 H i j H0 H1) as [P' _].
    unfold addF. rewrite P, P'. reflexivity.
  - destruct (Ha1 H i j H0 H1) as [_ P]. destruct (Ha2 H i j H0 H1) as [_ P'].
    unfold addF. cbn [with_walls nz] in *. rewrite P, P'. reflexivity.
Qed.

(* ---- lower bound, two-sided bound, uniform fields, uniqueness ------------- *)
Definition wall_lower (c : cfg) (w : wall) (b : Q) : Prop :=
  match w with
  | Ins => True
  | Fixed g => forall j k, In j (jrange c) -> In k (krange c) -> b <= g j k
  | Flux q => forall j k, In j (jrange c) -> In k (krange c) -> 0 <= q j k
  | Conv h tf => forall j k, In j (jrange c) -> In k (krange c) -> 0 <= h j k /\ b <= tf j k
  end.

Lemma good_with_walls c wi wo : good c -> good (with_walls c wi wo).
Proof. intros [A B C D E F H I J K]. constructor; assumption. Qed.

Lemma wall_lower_neg c wi wo w b :
  wall_lower c w b -> wall_upper (with_walls c wi wo) (neg_wall w) (- b).
Proof.
  destruct w as [|g|q|h tf]; cbn [wall_lower wall_upper neg_wall]; auto.
  - intros H j k Hj Hk. specialize (H j k Hj Hk). lra.
  - intros H j k Hj Hk. specialize (H j k Hj Hk). lra.
  - intros H j k Hj Hk. destruct (H j k Hj Hk). split; lra.
Qed.

Theorem lower_bound c T0 T b :
  good c -> Eqs c T0 T ->
  (forall i j k, real c i j k -> b <= T0 i j k) ->
  wall_lower c (inner c) b -> wall_lower c (outer c) b ->
  forall i j k, real c i j k -> b <= T i j k.
Proof.
  intros G HE H0 Hi Ho i j k Hr.
  pose proof (Eqs_neg c T0 T HE) as HN.
  set (c' := with_walls c (neg_wall (inner c)) (neg_wall (outer c))) in *.
  assert (U : negF T i j k <= - b).
  { apply (upper_bound c' (negF T0) (negF T) (- b)).
    - apply good_with_walls. exact G.
    - exact HN.
    - intros a b' d Hr'. unfold negF. specialize (H0 a b' d Hr'). lra.
    - apply (wall_lower_neg c _ _ (inner c) b Hi).
    - apply (wall_lower_neg c _ _ (outer c) b Ho).
    - exact Hr. }
  unfold negF in U. lra.
Qed.

(* walls that exchange heat only with temperatures inside [b, B] *)
Definition wall_within (c : cfg) (w : wall) (b B : Q) : Prop :=
  match w with
  | Ins => True
  | Fixed g => forall j k, In j (jrange c) -> In k (krange c) -> b <= g j k <= B
  | Flux q => False
  | Conv h tf => forall j k, In j (jrange c) -> In k (krange c) -> 0 <= h j k /\ b <= tf j k <= B
  end.

Theorem max_principle c T0 T b B :
  good c -> Eqs c T0 T ->
  (forall i j k, real c i j k -> b <= T0 i j k <= B) ->
  wall_within c (inner c) b B -> wall_within c (outer c) b B ->
  forall i j k, real c i j k -> b <= T i j k <= B.
Proof.
  intros G HE H0 Hi Ho i j k Hr. split.
  - apply (lower_bound c T0 T b G HE); auto.
    + intros a b' d Hr'. apply (H0 a b' d Hr').
    + destruct (inner c); cbn in *; auto; try contradiction; intros; edestruct Hi; eauto; try split; try lra; tauto.
    + destruct (outer c); cbn in *; auto; try contradiction; intros; edestruct Ho; eauto; try split; try lra; tauto.
  - apply (upper_bound c T0 T B G HE); auto.
    + intros a b' d Hr'. apply (H0 a b' d Hr').
    + destruct (inner c); cbn in *; auto; try contradiction; intros; edestruct Hi; eauto; try split; try lra; tauto.
    + destruct (outer c); cbn in *; auto; try contradiction; intros; edestruct Ho; eauto; try split; try lra; tauto.
Qed.

(* an insulated tube keeps a uniform field uniform, for any step size *)
Theorem uniform_stays_uniform c T0 T u :
  good c -> Eqs c T0 T -> inner c = Ins -> outer c = Ins ->
  (forall i j k, real c i j k -> T0 i j k == u) ->
  forall i j k, real c i j k -> T i j k == u.
Proof.
  intros G HE Hi Ho H0 i j k Hr.
  destruct (max_principle c T0 T u u G HE) with (i := i) (j := j) (k := k) as [A B]; auto.
  - intros a b d Hr'. rewrite (H0 a b d Hr'). lra.
  - rewrite Hi. exact I.
  - rewrite Ho. exact I.
  - lra.
Qed.

(* ... and for ever: any number of steps, each with its own step size and
   coefficient tables *)
Theorem uniform_for_ever (cs : list cfg) (Ts : nat -> field) (u : Q) :
  (forall n c, nth_error cs n = Some c ->
      good c /\ inner c = Ins /\ outer c = Ins /\ Eqs c (Ts n) (Ts (S n)) /\
      (forall c', In c' cs -> forall i j k, real c' i j k <-> real c i j k)) ->
  (forall c, In c cs -> forall i j k, real c i j k -> Ts 0%nat i j k == u) ->
  forall n c, (n <= length cs)%nat -> In c cs -> forall i j k, real c i j k -> Ts n i j k == u.
Proof.
  intros Hstep H0 n. induction n as [|n IH]; intros c Hn Hc i j k Hr.
  - apply (H0 c Hc i j k Hr).
  - destruct (nth_error cs n) as [cn|] eqn:En.
    2:{ apply nth_error_None in En. lia. }
    destruct (Hstep n cn En) as (G & Hi & Ho & HE & Hsame).
    apply (uniform_stays_uniform cn (Ts n) (Ts (S n)) u G HE Hi Ho).
    + intros a b d Hr'. apply (IH cn); [lia | eapply nth_error_In; eauto | exact Hr'].
    + apply (Hsame c Hc). exact Hr.
Qed.

(* zero data *)
Definition zero_wall (w : wall) : wall :=
  match w with
  | Ins => Ins
  | Fixed _ => Fixed (fun _ _ => 0)
  | Flux _ => Flux (fun _ _ => 0)
  | Conv h _ => Conv h (fun _ _ => 0)
  end.

Definition wall_h_nonneg (c : cfg) (w : wall) : Prop :=
  match w with
  | Conv h _ => forall j k, In j (jrange c) -> In k (krange c) -> 0 <= h j k
  | _ => True
  end.

Lemma walls_add_neg w : exists w0, walls_add w (neg_wall w) w0 /\
  forall c, wall_h_nonneg c w -> wall_upper c w0 0 /\ wall_lower c w0 0.
Proof.
  destruct w as [|g|q|h tf]; cbn [neg_wall]; eexists; (split; [constructor|]); intros c Hh;
    cbn [wall_upper wall_lower]; split; auto; intros j k Hj Hk; try lra.
  - split; [apply Hh; assumption | lra].
  - split; [apply Hh; assumption | lra].
Qed.

(* two solutions of the same step (same previous field, same data) agree on
   every real node: the linear system has at most one solution there *)
Theorem unique_solution c T0 Ta Tb :
  good c -> wall_h_nonneg c (inner c) -> wall_h_nonneg c (outer c) ->
  Eqs c T0 Ta -> Eqs c T0 Tb ->
  forall i j k, real c i j k -> Ta i j k == Tb i j k.
Proof.
  intros G Hhi Hho Ea Eb i j k Hr.
  pose proof (Eqs_neg c T0 Tb Eb) as En.
  destruct (walls_add_neg (inner c)) as (wi & Wi & Bi).
  destruct (walls_add_neg (outer c)) as (wo & Wo & Bo).
  assert (Ea' : Eqs (with_walls c (inner c) (outer c)) T0 Ta) by (destruct c; exact Ea).
  assert (En' : Eqs (with_walls c (neg_wall (inner c)) (neg_wall (outer c))) (negF T0) (negF Tb)) by exact En.
  pose proof (Eqs_add c _ _ _ _ wi wo T0 Ta (negF T0) (negF Tb) Wi Wo Ea' En') as Ed.
  set (cd := with_walls c wi wo) in *.
  assert (Gd : good cd) by (apply good_with_walls; exact G).
  destruct (Bi c Hhi) as [Ui Li]. destruct (Bo c Hho) as [Uo Lo].
  assert (Z0 : forall a b d, real cd a b d -> addF T0 (negF T0) a b d == 0).
  { intros a b d _. unfold addF, negF. ring. }
  assert (U : addF Ta (negF Tb) i j k <= 0).
  { apply (upper_bound cd _ _ 0 Gd Ed); auto. intros a b d Hr'. rewrite (Z0 a b d Hr'). lra. }
  assert (L : 0 <= addF Ta (negF Tb) i j k).
  { apply (lower_bound cd _ _ 0 Gd Ed); auto. intros a b d Hr'. rewrite (Z0 a b d Hr'). lra. }
  unfold addF, negF in U, L. lra.
Qed.
