(* Static condensation: the reaction of the eliminated system is an affine
   function of the imposed boundary displacements whose slope is the Schur
   complement -- the "stiffness" the structural solver reports -- and that slope
   is positive when the system's energy is.  Any field, any sizes (MathComp). *)
From mathcomp Require Import all_ssreflect all_algebra.
Set Implicit Arguments.
Unset Strict Implicit.
Unset Printing Implicit Defensive.
Import GRing.Theory.
Local Open Scope ring_scope.

Section Schur.
Variable F : fieldType.
Variables n m : nat.
Variables (A : 'M[F]_n) (B : 'M[F]_(n, m)) (C : 'M[F]_(m, n)) (D : 'M[F]_m) (f : 'cV[F]_n) (g : 'cV[F]_m).
Hypothesis HA : A \in unitmx.

Definition usol (d : 'cV[F]_m) : 'cV[F]_n := invmx A *m (f - B *m d).
Definition react (d : 'cV[F]_m) : 'cV[F]_m := C *m usol d + D *m d - g.
Definition schur : 'M[F]_m := D - C *m invmx A *m B.

Lemma usol_equilibrium d : A *m usol d + B *m d = f.
Proof. by rewrite /usol mulmxA mulmxV // mul1mx subrK. Qed.

Lemma usol_unique d u : A *m u + B *m d = f -> u = usol d.
Proof.
move=> H; rewrite /usol -H addrK mulmxA mulVmx // mul1mx //.
Qed.

Lemma usol_diff d1 d2 : usol d2 - usol d1 = - (invmx A *m B *m (d2 - d1)).
Proof.
rewrite /usol -mulmxBr opprB addrC addrA subrK -mulmxA -mulmxN.
by rewrite -mulmxDr -!mulmxN opprB.
Qed.

Theorem react_affine d1 d2 : react d2 - react d1 = schur *m (d2 - d1).
Proof.
rewrite /react /schur opprB addrA [_ - g + g]subrK opprD addrACA.
rewrite -[C *m _ - _]mulmxBr usol_diff -[D *m _ - _]mulmxBr.
by rewrite mulmxN mulmxBl !mulmxA addrC.
Qed.

(* one imposed scalar (the top displacement, spread over the top dofs by e): the reported
   number e^T S e is the difference quotient of the summed reaction, exactly *)
Corollary react_scalar (e : 'cV[F]_m) (s1 s2 : F) :
  e^T *m (react (s2 *: e) - react (s1 *: e)) = (s2 - s1) *: (e^T *m schur *m e).
Proof. by rewrite react_affine -scalerBl -scalemxAr -scalemxAr mulmxA. Qed.
End Schur.

Section Positive.
Variable F : numFieldType.
Variables n m : nat.
Variables (A : 'M[F]_n) (B : 'M[F]_(n, m)) (C : 'M[F]_(m, n)) (D : 'M[F]_m).
Hypothesis HA : A \in unitmx.
(* the energy of the whole system is positive whenever the boundary part moves *)
Hypothesis Hpos : forall (u : 'cV[F]_n) (d : 'cV[F]_m), d != 0 ->
  0 < (u^T *m (A *m u + B *m d) + d^T *m (C *m u + D *m d)) 0 0.

Theorem schur_positive (d : 'cV[F]_m) : d != 0 -> 0 < (d^T *m schur A B C D *m d) 0 0.
Proof.
move=> dn0; have := Hpos (- (invmx A *m B *m d)) dn0.
have -> : A *m - (invmx A *m B *m d) + B *m d = 0.
  by rewrite mulmxN !mulmxA mulmxV // mul1mx addNr.
rewrite mulmx0 add0r.
have -> : C *m - (invmx A *m B *m d) + D *m d = schur A B C D *m d.
  by rewrite /schur mulmxBl mulmxN !mulmxA addrC.
by rewrite mulmxA.
Qed.
End Positive.
