(* Facts about the shipped damage correlations (coq/gen/MaterialData.v): real
   polynomials, sign conditions by interval arithmetic (Coq-Interval), mean
   value theorem from Coquelicot. *)
From Coq Require Import Reals List String Lra.
From Interval Require Import Tactic.
From SV Require Import theory.PolyMono gen.MaterialData.
Import ListNotations.

(* ---- damage correlations -------------------------------------------------------------------- *)
Open Scope R_scope.

(* rupture: the numerator polynomial P(x), x = log10 stress in [0, 3], is
   positive and strictly decreasing: rupture time decreases with stress and,
   P being positive, with temperature *)
Definition rupture_ok (p : string * (R * R * R * R)) : Prop :=
  let '(_, (c0, c1, c2, c3)) := p in
  forall x, stress_lo <= x <= stress_hi -> 0 < q4 c0 c1 c2 c3 0 x /\ dq4 c1 c2 c3 0 x < 0.

Lemma rupture_all_ok : Forall rupture_ok rupture_polys.
Proof.
  unfold rupture_polys.
  repeat (constructor; [unfold rupture_ok, q4, dq4, stress_lo, stress_hi; intros x Hx; split; interval with (i_bisect x, i_prec 50) | ]).
  constructor.
Qed.

(* fatigue: Q'(y) < 0 from (below) the cut-off to a strain range of 5e-2 *)
Definition fatigue_ok (p : string * (R * R * R * R * R) * R) : Prop :=
  let '(_, (c0, c1, c2, c3, c4), ylo) := p in
  forall y, ylo <= y <= strain_hi -> dq4 c1 c2 c3 c4 y < 0.

Lemma fatigue_all_ok : Forall fatigue_ok fatigue_polys.
Proof.
  unfold fatigue_polys.
  repeat (constructor; [unfold fatigue_ok, dq4, strain_hi; intros y Hy; interval with (i_bisect y, i_prec 50) | ]).
  constructor.
Qed.

Theorem rupture_decreasing_in_stress :
  Forall (fun p => let '(_, (c0, c1, c2, c3)) := p in
          forall x y, stress_lo <= x -> x < y -> y <= stress_hi -> q4 c0 c1 c2 c3 0 y < q4 c0 c1 c2 c3 0 x) rupture_polys.
Proof.
  eapply Forall_impl; [|exact rupture_all_ok].
  intros [l [[[c0 c1] c2] c3]] H x y Hx Hxy Hy. apply (q4_decreasing c0 c1 c2 c3 0 stress_lo stress_hi); auto.
  intros t Ht. apply (H t Ht).
Qed.

Theorem rupture_decreasing_in_temperature :
  Forall (fun p => let '(_, (c0, c1, c2, c3)) := p in
          forall x T1 T2, stress_lo <= x <= stress_hi -> 0 < T1 -> T1 < T2 ->
          q4 c0 c1 c2 c3 0 x / T2 < q4 c0 c1 c2 c3 0 x / T1) rupture_polys.
Proof.
  eapply Forall_impl; [|exact rupture_all_ok].
  intros [l [[[c0 c1] c2] c3]] H x T1 T2 Hx H1 H12. apply ratio_decreasing_in_T; auto. apply (H x Hx).
Qed.

Theorem fatigue_decreasing_in_range :
  Forall (fun p => let '(_, (c0, c1, c2, c3, c4), ylo) := p in
          forall x y, ylo <= x -> x < y -> y <= strain_hi -> q4 c0 c1 c2 c3 c4 y < q4 c0 c1 c2 c3 c4 x) fatigue_polys.
Proof.
  eapply Forall_impl; [|exact fatigue_all_ok].
  intros [[l [[[[c0 c1] c2] c3] c4]] ylo] H x y Hx Hxy Hy. apply (q4_decreasing c0 c1 c2 c3 c4 ylo strain_hi); auto.
Qed.

