(* The generalised-plane-strain thick cylinder: for any wall temperature profile
   T(r) (differentiable, with J an antiderivative of r T), internal constants C1,
   C2 and axial strain ez, the displacement field
       u(r) = k J(r) / r + C1 r + C2 / r,   k = (3 lam + 2 mu) alpha / (lam + 2 mu)
   with the Hooke stresses of its strains satisfies radial equilibrium
       d(srr)/dr + (srr - stt) / r = 0
   at every r > 0; the constants are fixed by the two surface conditions; the
   axial stress is linear in ez with slope lam + 2 mu - lam^2/(lam + mu) = E.
   Over the classical reals (Coquelicot derivatives). *)
From Coq Require Import Reals Lra.
From Coquelicot Require Import Coquelicot.
Open Scope R_scope.

Lemma sq_times_derive (f : R -> R) r d : is_derive f r d -> is_derive (fun x => x * x * f x) r (2 * r * f r + r * r * d).
Proof.
  intros H. assert (Ef : ex_derive (fun x => f x) r) by (exists d; exact H).
  assert (Df : Derive (fun x => f x) r = d) by (apply is_derive_unique; exact H).
  auto_derive; [exact Ef|]. rewrite Df. ring.
Qed.

Section Lame.
  Variables lam mu alpha : R.
  Hypothesis Hstiff : lam + 2 * mu <> 0.
  Variables T T' J : R -> R.
  Hypothesis HT : forall r, 0 < r -> is_derive T r (T' r).
  Hypothesis HJ : forall r, 0 < r -> is_derive J r (r * T r).
  Variables C1 C2 ez : R.

  Definition beta := (3 * lam + 2 * mu) * alpha.
  Definition kk := beta / (lam + 2 * mu).
  Definition u (r : R) := kk * J r / r + C1 * r + C2 / r.
  Definition du (r : R) := kk * (T r - J r / (r * r)) + C1 - C2 / (r * r).
  Definition err (r : R) := du r.
  Definition ett (r : R) := u r / r.
  Definition srr (r : R) := lam * (err r + ett r + ez) + 2 * mu * err r - beta * T r.
  Definition stt (r : R) := lam * (err r + ett r + ez) + 2 * mu * ett r - beta * T r.
  Definition szz (r : R) := lam * (err r + ett r + ez) + 2 * mu * ez - beta * T r.

  Lemma u_derive r : 0 < r -> is_derive u r (du r).
  Proof.
    intros Hr. unfold u, du.
    assert (EJ : ex_derive J r) by (eexists; apply HJ; exact Hr).
    assert (DJ : Derive (fun x => J x) r = r * T r) by (apply is_derive_unique; apply HJ; exact Hr).
    auto_derive; [repeat split; try exact EJ; try lra; apply Rgt_not_eq; nra|]. rewrite DJ. field. lra.
  Qed.

  Theorem radial_equilibrium r : 0 < r -> is_derive srr r (- (srr r - stt r) / r).
  Proof.
    intros Hr. unfold srr, stt, err, ett, u, du.
    assert (EJ : ex_derive J r) by (eexists; apply HJ; exact Hr).
    assert (DJ : Derive (fun x => J x) r = r * T r) by (apply is_derive_unique; apply HJ; exact Hr).
    assert (ET : ex_derive T r) by (eexists; apply HT; exact Hr).
    assert (DT : Derive (fun x => T x) r = T' r) by (apply is_derive_unique; apply HT; exact Hr).
    auto_derive; [repeat split; try exact EJ; try exact ET; try lra; apply Rgt_not_eq; nra|].
    rewrite DJ, DT. unfold kk, beta. field. repeat split; first [exact Hstiff | lra].
  Qed.

  (* closed forms used by the check *)
  Lemma srr_closed r : 0 < r -> srr r = 2 * (lam + mu) * C1 + lam * ez - 2 * mu * (kk * J r + C2) / (r * r).
  Proof. intros Hr. unfold srr, err, ett, u, du, kk, beta. field. repeat split; first [exact Hstiff | lra]. Qed.

  Lemma stt_closed r : 0 < r -> stt r = 2 * (lam + mu) * C1 + lam * ez + 2 * mu * (kk * J r + C2) / (r * r) - 2 * mu * kk * T r.
  Proof. intros Hr. unfold stt, err, ett, u, du, kk, beta. field. repeat split; first [exact Hstiff | lra]. Qed.

  Lemma szz_closed r : 0 < r -> szz r = lam * (2 * C1 + ez) + 2 * mu * ez - 2 * mu * kk * T r.
  Proof. intros Hr. unfold szz, err, ett, u, du, kk, beta. field. repeat split; first [exact Hstiff | lra]. Qed.

  (* r^2 srr has derivative r (srr + stt): the in-plane stresses integrate to the
     boundary tractions, whatever the temperature profile *)
  Theorem plane_stress_sum r : 0 < r -> is_derive (fun x => x * x * srr x) r (r * (srr r + stt r)).
  Proof.
    intros Hr. assert (E := radial_equilibrium r Hr).
    evar_last; [apply (sq_times_derive srr r _ E)|]. field. lra.
  Qed.
End Lame.

(* the two surface conditions fix C1 and C2: srr(ri) = -p, srr(ro) = 0 (with J(ri) = 0) *)
Theorem lame_constants (mu kJo p ri ro A B : R) :
  0 < ri < ro -> mu <> 0 ->
  B = (p + 2 * mu * kJo / (ro * ro)) * (ri * ri) * (ro * ro) / (ro * ro - ri * ri) ->
  A = (2 * mu * kJo + B) / (ro * ro) ->
  (* A = 2 (lam + mu) C1 + lam ez,  B = 2 mu C2 *)
  A - B / (ri * ri) = - p /\ A - (2 * mu * kJo + B) / (ro * ro) = 0.
Proof.
  intros Hr Hmu HB HA. assert (ro * ro - ri * ri <> 0) by nra. assert (ro * ro <> 0) by nra. assert (ri * ri <> 0) by nra.
  split.
  - rewrite HA, HB. field. repeat split; first [assumption | lra].
  - rewrite HA. field. repeat split; first [assumption | lra].
Qed.

(* Young's modulus: the axial stress responds to the axial strain with slope E once the
   in-plane constants follow the lateral contraction *)
Theorem axial_slope (lam mu : R) : lam + mu <> 0 ->
  let E := mu * (3 * lam + 2 * mu) / (lam + mu) in
  forall A ez T2, (* A = 2 (lam + mu) C1 + lam ez is fixed by the surface conditions *)
  lam * ((A - lam * ez) / (lam + mu) + ez) + 2 * mu * ez - T2 = E * ez + lam * A / (lam + mu) - T2.
Proof. intros H E A ez T2. unfold E. field. exact H. Qed.

(* geometry of the polygonal mesh: the midpoint of the chord between the angles a and b
   on the circle of radius rho lies at radius rho * |cos((a - b) / 2)| *)
Theorem chord_midpoint_radius rho a b :
  ((rho * cos a + rho * cos b) / 2) ^ 2 + ((rho * sin a + rho * sin b) / 2) ^ 2 = (rho * cos ((a - b) / 2)) ^ 2.
Proof.
  assert (C : cos (a - b) = 2 * cos ((a - b) / 2) * cos ((a - b) / 2) - 1).
  { rewrite <- cos_2a_cos. f_equal. field. }
  rewrite cos_minus in C.
  assert (Sa := sin2_cos2 a). assert (Sb := sin2_cos2 b). unfold Rsqr in Sa, Sb.
  nra.
Qed.

(* the centre of a top/bottom face of the element between the radii r1, r2 and the angles a, b *)
Theorem face_centre_radius r1 r2 a b :
  ((r1 * cos a + r1 * cos b + r2 * cos a + r2 * cos b) / 4) ^ 2 + ((r1 * sin a + r1 * sin b + r2 * sin a + r2 * sin b) / 4) ^ 2
  = ((r1 + r2) / 2 * cos ((a - b) / 2)) ^ 2.
Proof.
  rewrite <- (chord_midpoint_radius ((r1 + r2) / 2) a b). field.
Qed.

(* Tube.element_volumes: the cross-section of an element of the polygonal mesh between the radii
   ri < ro over the angle th is the trapezoid with parallel sides a = 2 ri sin(th/2), b = 2 ro sin(th/2)
   and legs ro - ri; the formula of the code, (a + b)/2 * sqrt(leg^2 - ((b - a)/2)^2), is the difference
   of the two polygon sectors, (ro^2 - ri^2)/2 * sin th *)
Theorem element_area_formula ri ro th : 0 <= ri <= ro -> 0 <= th <= PI ->
  let a := 2 * ri * sin (th / 2) in let b := 2 * ro * sin (th / 2) in
  (a + b) / 2 * sqrt ((ro - ri) * (ro - ri) - ((b - a) / 2) * ((b - a) / 2)) = (ro * ro - ri * ri) / 2 * sin th.
Proof.
  intros Hr Ht a b.
  assert (C : 0 <= cos (th / 2)) by (apply cos_ge_0; lra).
  assert (S2 := sin2_cos2 (th / 2)). unfold Rsqr in S2.
  assert (E : (ro - ri) * (ro - ri) - ((b - a) / 2) * ((b - a) / 2) = ((ro - ri) * cos (th / 2)) * ((ro - ri) * cos (th / 2))).
  { unfold a, b. set (s := sin (th / 2)) in *. set (c := cos (th / 2)) in *.
    replace ((2 * ro * s - 2 * ri * s) / 2) with ((ro - ri) * s) by field.
    replace ((ro - ri) * c * ((ro - ri) * c)) with ((ro - ri) * (ro - ri) * (c * c)) by ring.
    replace (c * c) with (1 - s * s) by lra. ring. }
  rewrite E, sqrt_square by (apply Rmult_le_pos; lra).
  assert (D : sin th = 2 * sin (th / 2) * cos (th / 2)) by (replace th with (2 * (th / 2)) at 1 by field; apply sin_2a).
  rewrite D. unfold a, b. field.
Qed.
