(* Uniqueness: with positive stiffnesses any two equilibria of the receiver network
   give every tube the same top displacement (manifolds that nothing ties to a tube
   may float).  The network seen from above a panel is a spring of stiffness
   S_p = sum over its tubes of k kt / (k + kt) (numeric), kt (rigid) or 0 (cut). *)
From Coq Require Import QArith Qabs List Bool ZArith Lia Lqa.
From SV Require Import model.Spring.
Import ListNotations.
Open Scope Q_scope.

Lemma sumQ_cons x l : sumQ (x :: l) = x + sumQ l.
Proof. reflexivity. Qed.

(* ---- one panel -------------------------------------------------------------------------- *)
Definition kappa (o : opt) (t : tube) : Q :=
  match o with Lin k => k * kt t / (k + kt t) | Rigid => kt t | Cut => 0 end.
Definition panel_stiffness (pn : panel) : Q := sumQ (map (kappa (popt pn)) (tubes pn)).

Definition good_opt (o : opt) : Prop := match o with Lin k => 0 < k | _ => True end.
Definition good_panel (pn : panel) : Prop := good_opt (popt pn) /\ forall t, In t (tubes pn) -> 0 < kt t.

Lemma kappa_nonneg o t : good_opt o -> 0 < kt t -> 0 <= kappa o t.
Proof.
  intros Ho Ht. destruct o as [k| |]; cbn in *; try lra.
  apply Qle_shift_div_l; [lra|]. assert (0 < k * kt t) by (apply Qmult_lt_0_compat; assumption). lra.
Qed.

Lemma panel_stiffness_nonneg pn : good_panel pn -> 0 <= panel_stiffness pn.
Proof.
  intros [Ho Ht]. unfold panel_stiffness. induction (tubes pn) as [|t ts IH]; [cbn; lra|].
  cbn [map]. rewrite sumQ_cons. pose proof (kappa_nonneg (popt pn) t Ho (Ht t (or_introl eq_refl))).
  assert (0 <= sumQ (map (kappa (popt pn)) ts)) by (apply IH; intros x Hx; apply Ht; right; exact Hx). lra.
Qed.

(* the tube-level conditions of Equil for one panel, with the tops given as a function of q *)
Definition tops_ok (pn : panel) (um : Q) (U : nat -> Q) (i : nat) (ts : list tube) : Prop :=
  forall j t, nth_error ts j = Some t ->
    top_residual pn um (U (i + j)%nat) t == 0 /\ (popt pn = Rigid -> U (i + j)%nat == um).

Lemma tops_ok_tl pn um U i t ts : tops_ok pn um U i (t :: ts) -> tops_ok pn um U (S i) ts.
Proof. intros H j x Hj. replace (S i + j)%nat with (i + S j)%nat by lia. apply H. exact Hj. Qed.

(* what hangs below the manifold, written over an arbitrary tail of the tube list *)
Definition below_tail (pn : panel) (um : Q) (U : nat -> Q) (i : nat) (ts : list tube) : Q :=
  match popt pn with
  | Lin k => sumQ (map (fun ut => k * (ut - um)) (mapi_from (fun q _ => U q) i ts))
  | Rigid => sumQ (map (fun tu => tube_force (fst tu) (snd tu)) (combine ts (mapi_from (fun q _ => U q) i ts)))
  | Cut => 0
  end.

Lemma below_tail_is_below pn um (u : field) p :
  below_manifold pn um (tops u p pn) = below_tail pn um (u_top u p) 0 (tubes pn).
Proof. reflexivity. Qed.

Lemma below_tail_diff pn um vm U V : good_opt (popt pn) -> forall ts i,
  (forall t, In t ts -> 0 < kt t) -> tops_ok pn um U i ts -> tops_ok pn vm V i ts ->
  below_tail pn um U i ts - below_tail pn vm V i ts == - sumQ (map (kappa (popt pn)) ts) * (um - vm).
Proof.
  intros Ho. induction ts as [|t ts IH]; intros i Hk HU HV.
  - unfold below_tail. cbn [mapi_from map combine]. change (sumQ []) with 0. destruct (popt pn); ring.
  - assert (Ht : 0 < kt t) by (apply Hk; left; reflexivity).
    specialize (IH (S i) (fun x Hx => Hk x (or_intror Hx)) (tops_ok_tl _ _ _ _ _ _ HU) (tops_ok_tl _ _ _ _ _ _ HV)).
    destruct (HU 0%nat t eq_refl) as [RU CU]. destruct (HV 0%nat t eq_refl) as [RV CV].
    rewrite Nat.add_0_r in RU, RV, CU, CV.
    unfold below_tail in *. unfold top_residual, tube_force in RU, RV.
    destruct (popt pn) as [k| |] eqn:E; cbn [good_opt] in Ho.
    + cbn [mapi_from map kappa] in *. rewrite !sumQ_cons.
      assert (X : k * (U i - um) - k * (V i - vm) == - (k * kt t / (k + kt t)) * (um - vm)).
      { assert (P : 0 < k + kt t) by lra.
        assert (A : (k + kt t) * (U i - V i) == k * (um - vm)) by lra.
        assert (B : U i - V i == k * (um - vm) / (k + kt t)) by (field_simplify_eq; [lra | lra]).
        assert (C : k * (U i - um) - k * (V i - vm) == k * (U i - V i) - k * (um - vm)) by ring.
        rewrite C, B. field. lra. }
      lra.
    + cbn [mapi_from map combine kappa fst snd] in *. rewrite !sumQ_cons.
      assert (TU : tube_force t (U i) == - (kt t * um + f0 t)) by (unfold tube_force; rewrite (CU eq_refl); reflexivity).
      assert (TV : tube_force t (V i) == - (kt t * vm + f0 t)) by (unfold tube_force; rewrite (CV eq_refl); reflexivity).
      lra.
    + cbn [map kappa]. rewrite sumQ_cons. lra.
Qed.

(* with equal manifold displacements (or a cut panel) the tops agree *)
Lemma tops_agree pn um vm (U V : nat -> Q) (q : nat) t : good_opt (popt pn) -> 0 < kt t ->
  top_residual pn um (U q) t == 0 -> (popt pn = Rigid -> U q == um) ->
  top_residual pn vm (V q) t == 0 -> (popt pn = Rigid -> V q == vm) ->
  (popt pn <> Cut -> um == vm) -> U q == V q.
Proof.
  intros Ho Ht RU CU RV CV Hm. unfold top_residual, tube_force in *.
  destruct (popt pn) as [k| |]; cbn [good_opt] in Ho.
  - assert (E : um == vm) by (apply Hm; discriminate). assert (P : 0 < k + kt t) by lra.
    assert (E2 : k * um == k * vm) by (rewrite E; reflexivity).
    assert (A : (k + kt t) * (U q - V q) == 0) by lra.
    destruct (Qmult_integral _ _ A); lra.
  - rewrite (CU eq_refl), (CV eq_refl). apply Hm. discriminate.
  - assert (A : kt t * (U q - V q) == 0) by lra. destruct (Qmult_integral _ _ A); lra.
Qed.

(* ---- the receiver --------------------------------------------------------------------------- *)
Definition good_receiver (r : receiver) : Prop := good_opt (ropt r) /\ forall pn, In pn (panels r) -> good_panel pn.

Lemma sum_mapi_rel {A} (h : A -> Q) (c : Q) : forall (l : list A) (i : nat) (f g : nat -> A -> Q),
  (forall j x, nth_error l j = Some x -> f (i + j)%nat x - g (i + j)%nat x == h x * c) ->
  sumQ (mapi_from f i l) - sumQ (mapi_from g i l) == sumQ (map h l) * c.
Proof.
  induction l as [|x l IH]; intros i f g H; [cbn [mapi_from map]; change (sumQ []) with 0; ring|].
  cbn [mapi_from map]. rewrite !sumQ_cons.
  assert (H0 := H 0%nat x eq_refl). rewrite Nat.add_0_r in H0.
  assert (IH' : sumQ (mapi_from f (S i) l) - sumQ (mapi_from g (S i) l) == sumQ (map h l) * c).
  { apply IH. intros j y Hj. replace (S i + j)%nat with (i + S j)%nat by lia. apply H. exact Hj. }
  lra.
Qed.

Lemma sum_nonneg_member {A} (h : A -> Q) (l : list A) x :
  (forall y, In y l -> 0 <= h y) -> In x l -> h x <= sumQ (map h l).
Proof.
  induction l as [|y l IH]; intros Hn Hx; [destruct Hx|]. cbn [map]. rewrite sumQ_cons.
  assert (Hs : 0 <= sumQ (map h l)).
  { clear - Hn. induction l as [|z l IH]; [cbn; lra|]. cbn [map]. rewrite sumQ_cons.
    assert (0 <= h z) by (apply Hn; right; left; reflexivity).
    assert (0 <= sumQ (map h l)) by (apply IH; intros w Hw; apply Hn; destruct Hw as [-> | Hw]; [left; reflexivity | right; right; exact Hw]). lra. }
  destruct Hx as [-> | Hx]; [lra|].
  assert (0 <= h y) by (apply Hn; left; reflexivity).
  specialize (IH (fun w Hw => Hn w (or_intror Hw)) Hx). lra.
Qed.

Lemma sumQ_map_opp {A} (h : A -> Q) l : sumQ (map (fun x => - h x) l) == - sumQ (map h l).
Proof. induction l as [|a l IH]; cbn [map]; [change (sumQ []) with 0; ring|]. rewrite !sumQ_cons, IH. ring. Qed.

Section TwoEquilibria.
Variable r : receiver.
Variables u v : field.
Hypothesis Hgood : good_receiver r.
Hypothesis Eu : Equil r u.
Hypothesis Ev : Equil r v.

Lemma equil_tops_ok (w : field) p pn : Equil r w -> nth_error (panels r) p = Some pn ->
  tops_ok pn (u_man w p) (u_top w p) 0 (tubes pn).
Proof.
  intros ((_ & C) & TB & _) Hp j t Hj. cbn [Nat.add]. split; [apply (TB p pn j t Hp Hj)|].
  intros Hr. apply (C p pn Hp Hr). apply nth_error_Some. congruence.
Qed.

Definition Dm (p : nat) : Q := u_man u p - u_man v p.
Definition Dr : Q := u_root u - u_root v.

Lemma panel_good p pn : nth_error (panels r) p = Some pn -> good_panel pn.
Proof. intros Hp. apply (proj2 Hgood). apply (nth_error_In _ _ Hp). Qed.

Lemma below_diff p pn : nth_error (panels r) p = Some pn ->
  below_manifold pn (u_man u p) (tops u p pn) - below_manifold pn (u_man v p) (tops v p pn) == - panel_stiffness pn * Dm p.
Proof.
  intros Hp. destruct (panel_good p pn Hp) as [Ho Hk]. rewrite !below_tail_is_below.
  apply below_tail_diff; [exact Ho | exact Hk | apply equil_tops_ok; assumption | apply equil_tops_ok; assumption].
Qed.

(* manifold level *)
Lemma manifold_relation p pn : nth_error (panels r) p = Some pn ->
  match ropt r with
  | Lin K => (K + panel_stiffness pn) * Dm p == K * Dr
  | Rigid => Dm p == Dr
  | Cut => panel_stiffness pn * Dm p == 0
  end.
Proof.
  intros Hp. pose proof (below_diff p pn Hp) as B.
  destruct Eu as ((CRu & _) & _ & MBu & _). destruct Ev as ((CRv & _) & _ & MBv & _).
  specialize (MBu p pn Hp). specialize (MBv p pn Hp). unfold manifold_residual in MBu, MBv. unfold Dm, Dr in *.
  destruct (ropt r) as [K| |] eqn:E.
  - lra.
  - assert (p < length (panels r))%nat by (apply nth_error_Some; congruence).
    rewrite (CRu eq_refl p H), (CRv eq_refl p H). reflexivity.
  - lra.
Qed.

Lemma root_relation :
  match ropt r with
  | Lin K => sumQ (map (fun pn => K * panel_stiffness pn / (K + panel_stiffness pn)) (panels r)) * Dr == 0
  | Rigid => sumQ (map panel_stiffness (panels r)) * Dr == 0
  | Cut => True
  end.
Proof.
  destruct Eu as (_ & _ & _ & RRu). destruct Ev as (_ & _ & _ & RRv). unfold root_residual in RRu, RRv.
  pose proof manifold_relation as MR. destruct Hgood as [Hro Hpan].
  destruct (ropt r) as [K| |] eqn:E; [| |exact I]; cbn [good_opt] in Hro.
  - assert (S := sum_mapi_rel (fun pn => - (K * panel_stiffness pn / (K + panel_stiffness pn))) Dr (panels r) 0
                   (fun p _ => K * (u_man u p - u_root u)) (fun p _ => K * (u_man v p - u_root v))).
    unfold mapi in RRu, RRv. rewrite RRu, RRv in S.
    assert (X : sumQ (map (fun pn => - (K * panel_stiffness pn / (K + panel_stiffness pn))) (panels r)) * Dr == 0).
    { rewrite <- S; [ring|]. intros j pn Hj. cbn [Nat.add]. specialize (MR j pn Hj). cbn beta iota in MR.
      pose proof (panel_stiffness_nonneg pn (Hpan pn (nth_error_In _ _ Hj))) as Sp.
      unfold Dm, Dr in *. set (Sp' := panel_stiffness pn) in *.
      assert (P : 0 < K + Sp') by lra.
      assert (Q1 : u_man u j - u_man v j == K * (u_root u - u_root v) / (K + Sp')) by (field_simplify_eq; [lra | lra]).
      assert (Q2 : K * (u_man u j - u_root u) - K * (u_man v j - u_root v) == K * (u_man u j - u_man v j) - K * (u_root u - u_root v)) by ring.
      rewrite Q2, Q1. field. lra. }
    rewrite (sumQ_map_opp (fun pn => K * panel_stiffness pn / (K + panel_stiffness pn))) in X. lra.
  - assert (S := sum_mapi_rel (fun pn => - panel_stiffness pn) Dr (panels r) 0
                   (fun p pn => below_manifold pn (u_man u p) (tops u p pn)) (fun p pn => below_manifold pn (u_man v p) (tops v p pn))).
    unfold mapi in RRu, RRv. rewrite RRu, RRv in S.
    assert (X : sumQ (map (fun pn => - panel_stiffness pn) (panels r)) * Dr == 0).
    { rewrite <- S; [ring|]. intros j pn Hj. cbn [Nat.add]. rewrite (below_diff j pn Hj).
      specialize (MR j pn Hj). cbn beta iota in MR. rewrite MR. ring. }
    rewrite (sumQ_map_opp panel_stiffness) in X. lra.
Qed.

(* a panel that carries a tube through a connection pins its manifold *)
Lemma stiff_panel_pinned p pn : nth_error (panels r) p = Some pn -> 0 < panel_stiffness pn -> Dm p == 0.
Proof.
  intros Hp HS. pose proof (manifold_relation p pn Hp) as MR. pose proof root_relation as RR.
  destruct Hgood as [Hro Hpan]. pose proof (nth_error_In _ _ Hp) as Hin.
  destruct (ropt r) as [K| |] eqn:E; cbn [good_opt] in Hro.
  - set (h := fun pn0 => K * panel_stiffness pn0 / (K + panel_stiffness pn0)) in *.
    assert (Hh : forall y, In y (panels r) -> 0 <= h y).
    { intros y Hy. unfold h. pose proof (panel_stiffness_nonneg y (Hpan y Hy)).
      apply Qle_shift_div_l; [lra|]. assert (0 <= K * panel_stiffness y) by (apply Qmult_le_0_compat; lra). lra. }
    assert (Hp0 : 0 < h pn).
    { unfold h. apply Qlt_shift_div_l; [lra|]. assert (0 < K * panel_stiffness pn) by (apply Qmult_lt_0_compat; lra). lra. }
    pose proof (sum_nonneg_member h (panels r) pn Hh Hin).
    assert (R0 : Dr == 0) by (destruct (Qmult_integral _ _ RR); lra).
    assert (A : (K + panel_stiffness pn) * Dm p == 0) by (rewrite MR, R0; ring).
    destruct (Qmult_integral _ _ A); lra.
  - assert (Hh : forall y, In y (panels r) -> 0 <= panel_stiffness y) by (intros y Hy; apply panel_stiffness_nonneg; apply Hpan; exact Hy).
    pose proof (sum_nonneg_member panel_stiffness (panels r) pn Hh Hin).
    assert (R0 : Dr == 0) by (destruct (Qmult_integral _ _ RR); lra). lra.
  - destruct (Qmult_integral _ _ MR); lra.
Qed.

(* every tube sees the same top displacement in both equilibria *)
Theorem tube_tops_unique p pn q t :
  nth_error (panels r) p = Some pn -> nth_error (tubes pn) q = Some t -> u_top u p q == u_top v p q.
Proof.
  intros Hp Hq. destruct (panel_good p pn Hp) as [Ho Hk].
  assert (Ht : 0 < kt t) by (apply Hk; apply (nth_error_In _ _ Hq)).
  destruct (equil_tops_ok u p pn Eu Hp q t Hq) as [RU CU]. destruct (equil_tops_ok v p pn Ev Hp q t Hq) as [RV CV].
  cbn [Nat.add] in *.
  apply (tops_agree pn (u_man u p) (u_man v p) (u_top u p) (u_top v p) q t Ho Ht RU CU RV CV).
  intros NC. assert (HS : 0 < panel_stiffness pn).
  { unfold panel_stiffness.
    assert (Kp : 0 < kappa (popt pn) t).
    { destruct (popt pn) as [k| |]; cbn in *; [|lra|congruence].
      apply Qlt_shift_div_l; [lra|]. assert (0 < k * kt t) by (apply Qmult_lt_0_compat; assumption). lra. }
    pose proof (sum_nonneg_member (kappa (popt pn)) (tubes pn) t
                  (fun y Hy => kappa_nonneg (popt pn) y Ho (Hk y Hy)) (nth_error_In _ _ Hq)). lra. }
  pose proof (stiff_panel_pinned p pn Hp HS) as D0. unfold Dm in D0. lra.
Qed.
End TwoEquilibria.

Lemma panel_is_spring r u v : good_receiver r -> Equil r u -> Equil r v ->
  forall p pn, nth_error (panels r) p = Some pn ->
  below_manifold pn (u_man u p) (tops u p pn) - below_manifold pn (u_man v p) (tops v p pn)
    == - panel_stiffness pn * (u_man u p - u_man v p) /\ 0 <= panel_stiffness pn.
Proof.
  intros G Eu Ev p pn Hp. split; [exact (below_diff r u v G Eu Ev p pn Hp) | apply panel_stiffness_nonneg; apply (panel_good r G p pn Hp)].
Qed.

(* non-vacuity: a receiver with a numeric, a rigid and a cut panel in equilibrium *)
Definition ex_receiver : receiver :=
  mkRec (Lin 2) [mkPanel (Lin 1) [mkTube 1 (-1)]; mkPanel Rigid [mkTube 2 0]; mkPanel Cut [mkTube 3 (-3)]].
Lemma ex_receiver_good : good_receiver ex_receiver.
Proof.
  split; [cbn; lra|]. intros pn [<- | [<- | [<- | []]]]; (split; [cbn; try lra; exact I | intros t [<- | []]; cbn; lra]).
Qed.
