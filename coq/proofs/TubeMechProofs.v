(* Theorems about the tube mesh ordering, the generated connectivity
   (coq/gen/TubeMesh.v) and the pressure load model. *)
From Coq Require Import QArith Qabs List Bool ZArith Arith Lia Lqa.
From SV Require Import model.TubeMech gen.TubeMesh.
Import ListNotations.

(* ---- numbering --------------------------------------------------------------------------- *)
Lemma idx3_bound nr nt nz i j k : (i < nr -> j < nt -> k < nz -> idx3 nt nz i j k < nr * nt * nz)%nat.
Proof.
  unfold idx3. intros Hi Hj Hk.
  assert (A : (j * nz + k < nt * nz)%nat).
  { assert ((S j) * nz <= nt * nz)%nat by (apply Nat.mul_le_mono_r; lia). lia. }
  assert (B : ((S i) * (nt * nz) <= nr * (nt * nz))%nat) by (apply Nat.mul_le_mono_r; lia).
  lia.
Qed.

Lemma idx3_decode nt nz i j k : (j < nt -> k < nz ->
  idx3 nt nz i j k mod nz = k /\ (idx3 nt nz i j k / nz) mod nt = j /\ idx3 nt nz i j k / (nt * nz) = i)%nat.
Proof.
  intros Hj Hk. unfold idx3.
  assert (E : (i * (nt * nz) + j * nz + k = (i * nt + j) * nz + k)%nat) by lia.
  rewrite E. repeat split.
  - rewrite Nat.add_comm, Nat.mod_add by lia. apply Nat.mod_small; exact Hk.
  - rewrite Nat.div_add_l by lia. rewrite (Nat.div_small k nz) by exact Hk. rewrite Nat.add_0_r.
    rewrite Nat.add_comm, Nat.mod_add by lia. apply Nat.mod_small; exact Hj.
  - rewrite <- E. replace (i * (nt * nz) + j * nz + k)%nat with (i * (nt * nz) + (j * nz + k))%nat by lia.
    rewrite Nat.div_add_l by nia. rewrite (Nat.div_small (j * nz + k)) by nia. lia.
Qed.

Theorem idx3_injective nt nz i j k i' j' k' : (j < nt -> k < nz -> j' < nt -> k' < nz ->
  idx3 nt nz i j k = idx3 nt nz i' j' k' -> i = i' /\ j = j' /\ k = k')%nat.
Proof.
  intros Hj Hk Hj' Hk' E.
  destruct (idx3_decode nt nz i j k Hj Hk) as (A & B & C).
  destruct (idx3_decode nt nz i' j' k' Hj' Hk') as (A' & B' & C').
  rewrite E in A, B, C. repeat split; congruence.
Qed.

Lemma idx2_is_idx3 nt i j : idx2 nt i j = idx3 nt 1 i j 0.
Proof. unfold idx2, idx3. lia. Qed.

(* ---- the generated connectivity is the cell table -------------------------------------------- *)
Lemma gen_mapper_idx nt nz r c h : gen_mapper nt nz r c h = idx3 nt nz r (c mod nt) h.
Proof. reflexivity. Qed.

Lemma gen_cell3 nt nz i j k : (j < nt)%nat ->
  [gen_mapper nt nz (i + 1) (j + 1) k; gen_mapper nt nz i (j + 1) k; gen_mapper nt nz (i + 1) (j + 1) (k + 1);
   gen_mapper nt nz (i + 1) j k; gen_mapper nt nz i (j + 1) (k + 1); gen_mapper nt nz i j k;
   gen_mapper nt nz (i + 1) j (k + 1); gen_mapper nt nz i j (k + 1)] = cell3 nt nz i j k.
Proof.
  intros Hj. unfold cell3. rewrite !gen_mapper_idx, !Nat.add_1_r, (Nat.mod_small j nt Hj). reflexivity.
Qed.

Theorem gen_conn3d_cells nr nt nz el :
  In el (gen_conn3d nr nt nz) <-> exists i j k, (i < nr - 1 /\ j < nt /\ k < nz - 1)%nat /\ el = cell3 nt nz i j k.
Proof.
  unfold gen_conn3d. rewrite in_flat_map. split.
  - intros (i & Hi & H). apply in_flat_map in H. destruct H as (j & Hj & H). apply in_map_iff in H. destruct H as (k & E & Hk).
    apply in_seq in Hi, Hj, Hk. exists i, j, k. split; [lia|]. rewrite <- E. apply gen_cell3. lia.
  - intros (i & j & k & (Hi & Hj & Hk) & E). exists i. split; [apply in_seq; lia|].
    apply in_flat_map. exists j. split; [apply in_seq; lia|]. apply in_map_iff. exists k. split; [|apply in_seq; lia].
    rewrite E. apply gen_cell3. exact Hj.
Qed.

Lemma gen_cell2 nt i j : (j < nt)%nat ->
  [i * nt + j; i * nt + (j + 1) mod nt; (i + 1) * nt + (j + 1) mod nt; (i + 1) * nt + j]%nat = cell2 nt i j.
Proof. intros _. unfold cell2, idx2. rewrite !Nat.add_1_r. reflexivity. Qed.

Theorem gen_conn2d_cells nr nt el :
  In el (gen_conn2d nr nt) <-> exists i j, (i < nr - 1 /\ j < nt)%nat /\ el = cell2 nt i j.
Proof.
  unfold gen_conn2d. rewrite in_flat_map. split.
  - intros (i & Hi & H). apply in_map_iff in H. destruct H as (j & E & Hj). apply in_seq in Hi, Hj.
    exists i, j. split; [lia|]. rewrite <- E. apply gen_cell2. lia.
  - intros (i & j & (Hi & Hj) & E). exists i. split; [apply in_seq; lia|]. apply in_map_iff. exists j.
    split; [|apply in_seq; lia]. rewrite E. apply gen_cell2. exact Hj.
Qed.

(* ... as whole lists, in element order *)
Lemma flat_map_ext_in {A B} (f g : A -> list B) l : (forall a, In a l -> f a = g a) -> flat_map f l = flat_map g l.
Proof.
  induction l as [|x l IH]; intros H; [reflexivity|]. cbn [flat_map].
  rewrite (H x (or_introl eq_refl)), IH; [reflexivity|]. intros a Ha. apply H. right. exact Ha.
Qed.

Theorem gen_conn3d_is_model nr nt nz : gen_conn3d nr nt nz = conn3d nr nt nz.
Proof.
  unfold gen_conn3d, conn3d. apply flat_map_ext_in. intros i _. apply flat_map_ext_in. intros j Hj.
  apply in_seq in Hj. apply map_ext. intros k. apply gen_cell3. lia.
Qed.

Theorem gen_conn2d_is_model nr nt : gen_conn2d nr nt = conn2d nr nt.
Proof.
  unfold gen_conn2d, conn2d. apply flat_map_ext_in. intros i _. apply map_ext_in. intros j Hj.
  apply in_seq in Hj. apply gen_cell2. lia.
Qed.

(* every node an element names exists, and the eight corners of a cell are distinct nodes *)
Theorem cell3_in_range nr nt nz i j k n : (i < nr - 1 -> j < nt -> k < nz - 1 ->
  In n (cell3 nt nz i j k) -> n < nr * nt * nz)%nat.
Proof.
  intros Hi Hj Hk H.
  assert (M : (S j mod nt < nt)%nat) by (apply Nat.mod_upper_bound; lia).
  unfold cell3 in H. cbn [In] in H.
  repeat (destruct H as [<- | H]; [apply idx3_bound; lia|]). destruct H.
Qed.

Theorem cell3_distinct nt nz i j k : (2 <= nt)%nat -> (j < nt)%nat -> (S k < nz)%nat -> NoDup (cell3 nt nz i j k).
Proof.
  intros Hnt Hj Hk.
  assert (M : (S j mod nt < nt)%nat) by (apply Nat.mod_upper_bound; lia).
  assert (D : (S j mod nt <> j)%nat).
  { destruct (Nat.eq_dec (S j) nt) as [E | NE].
    - rewrite E, Nat.mod_same by lia. lia.
    - rewrite Nat.mod_small by lia. lia. }
  unfold cell3. set (j' := (S j mod nt)%nat) in *. clearbody j'.
  repeat constructor; cbn [In]; intros H;
    repeat (destruct H as [H | H]; [apply idx3_injective in H; lia|]); destruct H.
Qed.

Open Scope Q_scope.

(* ---- pressure load ------------------------------------------------------------------------------ *)
Lemma rot1_length {A} (l : list A) : length (rot1 l) = length l.
Proof. destruct l as [|x r]; [reflexivity|]. cbn [rot1]. rewrite app_length. cbn. lia. Qed.

Lemma sumQ_app a b : sumQ (a ++ b) == sumQ a + sumQ b.
Proof.
  induction a as [|x a IH].
  - change (sumQ ([] ++ b)) with (sumQ b). change (sumQ []) with 0. ring.
  - change (sumQ ((x :: a) ++ b)) with (x + sumQ (a ++ b)). change (sumQ (x :: a)) with (x + sumQ a). rewrite IH. ring.
Qed.

Lemma sumQ_cons x l : sumQ (x :: l) = x + sumQ l.
Proof. reflexivity. Qed.

Lemma sumQ_rot1 {A} (g : A -> Q) l : sumQ (map g (rot1 l)) == sumQ (map g l).
Proof.
  destruct l as [|x r]; [reflexivity|]. cbn [rot1]. rewrite map_app, sumQ_app. cbn [map]. rewrite !sumQ_cons.
  change (sumQ []) with 0. ring.
Qed.

Lemma sum_combine_diff {A} (g : A -> Q) : forall a b : list A, length a = length b ->
  sumQ (map (fun ab => g (snd ab) - g (fst ab)) (combine a b)) == sumQ (map g b) - sumQ (map g a).
Proof.
  induction a as [|x a IH]; intros [|y b] L; try discriminate.
  - cbn [combine map]. change (sumQ []) with 0. ring.
  - cbn [combine map fst snd]. rewrite !sumQ_cons. injection L as L. rewrite (IH b L). ring.
Qed.

(* the edges of a closed polygon add up to nothing ... *)
Lemma edges_close ps : veq (vsum (edges ps)) (0, 0).
Proof.
  unfold veq, vsum, edges. cbn [fst snd]. rewrite !map_map. unfold vsub. cbn [fst snd].
  split.
  - rewrite (sum_combine_diff (fun v : vec => fst v) ps (rot1 ps) (eq_sym (rot1_length ps))), sumQ_rot1. ring.
  - rewrite (sum_combine_diff (fun v : vec => snd v) ps (rot1 ps) (eq_sym (rot1_length ps))), sumQ_rot1. ring.
Qed.

Lemma sumQ_scale c l : sumQ (map (fun x => c * x) l) == c * sumQ l.
Proof. induction l as [|x l IH]; cbn [map]; [change (sumQ []) with 0; ring|]. rewrite !sumQ_cons, IH. ring. Qed.

Lemma vsum_facet p es : veq (vsum (map (facet_force p) es)) (facet_force p (vsum es)).
Proof.
  unfold veq, vsum, facet_force. cbn [fst snd]. rewrite !map_map. cbn [fst snd]. split.
  - rewrite <- (sumQ_scale p (map snd es)), map_map. reflexivity.
  - rewrite <- (sumQ_scale (- p) (map fst es)), map_map. reflexivity.
Qed.

(* ... so the pressure on a closed surface has no net force *)
Theorem pressure_resultant_zero p ps : veq (vsum (map (facet_force p) (edges ps))) (0, 0).
Proof.
  destruct (vsum_facet p (edges ps)) as [A B]. destruct (edges_close ps) as [C D].
  split; [rewrite A | rewrite B]; unfold facet_force; cbn [fst snd] in *; [rewrite D | rewrite C]; ring.
Qed.

(* each facet carries pressure times its length, along its normal, pointing away from the axis *)
Theorem facet_force_magnitude p e : dot (facet_force p e) (facet_force p e) == p * p * dot e e.
Proof. unfold dot, facet_force. cbn [fst snd]. ring. Qed.

Theorem facet_force_normal p e : dot (facet_force p e) e == 0.
Proof. unfold dot, facet_force. cbn [fst snd]. ring. Qed.

Theorem facet_force_outward p a b : dot (facet_force p (vsub b a)) (vscale (1 # 2) (vadd a b)) == p * cross a b.
Proof. unfold dot, facet_force, vsub, vscale, vadd, cross. cbn [fst snd]. ring. Qed.

(* the nodal load is half of each of the two facets meeting at the node: nothing is lost or added *)
Theorem nodal_is_half_of_neighbours p a b c :
  veq (nodal_force p a c) (vadd (vscale (1 # 2) (facet_force p (vsub b a))) (vscale (1 # 2) (facet_force p (vsub c b)))).
Proof. unfold veq, nodal_force, vadd, vscale, facet_force, vsub. cbn [fst snd]. split; ring. Qed.

(* axial weights add up to the height *)
Lemma sumQ_zipadd : forall a b, length a = length b -> sumQ (zipadd a b) == sumQ a + sumQ b.
Proof.
  induction a as [|x a IH]; intros [|y b] L; try discriminate; [cbn [zipadd]; change (sumQ []) with 0; ring|].
  cbn [zipadd]. rewrite !sumQ_cons. injection L as L. rewrite (IH b L). ring.
Qed.

Lemma sumQ_half l : sumQ (map (fun w => w / 2) l) == sumQ l / 2.
Proof. induction l as [|x l IH]; cbn [map]; [change (sumQ []) with 0; field|]. rewrite !sumQ_cons, IH. field. Qed.

Lemma last_nonempty_default {A} (x : A) l d d' : last (x :: l) d = last (x :: l) d'.
Proof. revert x; induction l as [|y l IH]; intros x; [reflexivity|]. change (last (y :: l) d = last (y :: l) d'). apply IH. Qed.

Lemma sumQ_diffs : forall zs z0, sumQ (diffs (z0 :: zs)) == last zs z0 - z0.
Proof.
  induction zs as [|z1 r IH]; intros z0; [change (sumQ (diffs [z0])) with 0; cbn [last]; ring|].
  change (diffs (z0 :: z1 :: r)) with ((z1 - z0) :: diffs (z1 :: r)).
  rewrite sumQ_cons, IH.
  destruct r as [|z2 r']; [cbn [last]; ring|].
  change (last (z1 :: z2 :: r') z0) with (last (z2 :: r') z0). rewrite (last_nonempty_default z2 r' z1 z0). ring.
Qed.

Theorem trap_weights_total z0 zs : sumQ (trap_weights (z0 :: zs)) == last zs z0 - z0.
Proof.
  unfold trap_weights. rewrite sumQ_half, sumQ_zipadd.
  - rewrite sumQ_cons, sumQ_app, sumQ_cons. change (sumQ []) with 0. rewrite sumQ_diffs. field.
  - cbn [length]. rewrite app_length. cbn. lia.
Qed.

(* ---- which facets carry the pressure ---------------------------------------------------------------- *)
(* with c = cos(pi/nt): the limit lies strictly between the midpoint radius of an inner-surface
   facet (ri * c) and that of any other boundary facet (at least (ri + dr/2) * c) *)
Theorem limit_separates r t nr c : 0 < c -> 0 < t -> 1 < nr ->
  let ri := r - t in let dr := t / (nr - 1) in
  ri * c < gen_limit r t gen_tol nr c /\ gen_limit r t gen_tol nr c < (ri + dr / 2) * c.
Proof.
  intros Hc Ht Hn ri dr. unfold gen_limit, gen_tol.
  assert (Hd : 0 < dr) by (unfold dr; apply Qlt_shift_div_l; lra).
  assert (E : (r - t + (1 # 2) * (1 # 2) * t / (nr - (1 # 1))) * c == ri * c + (1 # 4) * (dr * c)).
  { unfold ri, dr. field. lra. }
  rewrite E. assert (P : 0 < dr * c) by (apply Qmult_lt_0_compat; assumption).
  split; [lra|]. assert (F : (ri + dr / 2) * c == ri * c + (1 # 2) * (dr * c)) by field. rewrite F. lra.
Qed.

Theorem selection_is_inner_surface r t nr c rho : 0 < c -> 0 < t -> 1 < nr ->
  let ri := r - t in let dr := t / (nr - 1) in
  (rho == ri * c -> selected (gen_limit r t gen_tol nr c) rho = true) /\
  ((ri + dr / 2) * c <= rho -> selected (gen_limit r t gen_tol nr c) rho = false).
Proof.
  intros Hc Ht Hn ri dr. destruct (limit_separates r t nr c Hc Ht Hn) as [A B]. fold ri dr in A, B.
  unfold selected. split; intros H.
  - destruct (Qle_bool (gen_limit r t gen_tol nr c) rho) eqn:E; [|reflexivity]. apply Qle_bool_iff in E. lra.
  - assert (L : gen_limit r t gen_tol nr c <= rho) by lra. apply Qle_bool_iff in L. rewrite L. reflexivity.
Qed.

(* 1D: the pressure window holds the inner node and no other node of a mesh with dr <= t *)
Theorem window_1d r t x : 0 < t ->
  (x == r - t -> gen_lo1d r t gen_tol < x /\ x < gen_hi1d r t gen_tol) /\
  (r - t + t * gen_tol <= x -> ~ x < gen_hi1d r t gen_tol).
Proof. intros Ht. unfold gen_lo1d, gen_hi1d, gen_tol. split; intros H; [split; lra | lra]. Qed.

(* the traction integrated by the external force form is -p n *)
Theorem traction_is_minus_pn p n : gen_traction p n == - (p * n).
Proof. unfold gen_traction. ring. Qed.
