(* Rotation equivariance by whole circumferential cells, consistency of the
   1D / 2D / 3D abstractions and the flattened numbering, for the model of
   model/Thermal.v. *)
From Coq Require Import QArith Qabs List Bool ZArith Lia Lqa.
From SV Require Import theory.Sums model.Thermal proofs.ThermalConservation proofs.ThermalMaxPrinciple.
Import ListNotations.
Open Scope Q_scope.

(* ---- rotation by one cell ------------------------------------------------ *)
(* column read by the rotated problem at ghosted column j *)
Definition sg (n j : nat) : nat := if (j <? n)%nat then S j else if (j =? n)%nat then 1%nat else 2%nat.

Definition shF (n : nat) (F : field) : field := fun i j k => F i (sg n j) k.
Definition shW (n : nat) (w : wdata) : wdata := fun j k => w (sg n j) k.

Definition map_wall (f : wdata -> wdata) (w : wall) : wall :=
  match w with
  | Ins => Ins
  | Fixed g => Fixed (f g)
  | Flux q => Flux (f q)
  | Conv h tf => Conv (f h) (f tf)
  end.

Definition shift (c : cfg) : cfg :=
  mkCfg (nr c) (nt c) (nz c) (has_t c) (has_z c) (dr c) (dth c) (dz c) (dt c) (ri c) (steady c)
        (shF (nt c) (cc c)) (shF (nt c) (kk c))
        (map_wall (shW (nt c)) (inner c)) (map_wall (shW (nt c)) (outer c)).

(* a field (or table) whose theta ghosts are the periodic images, on row i *)
Definition periodic_at (c : cfg) (F : field) (i k : nat) : Prop :=
  F i 0%nat k == F i (nt c) k /\ F i (S (nt c)) k == F i 1%nat k.

Lemma sg_real n j : (2 <= n)%nat -> (1 <= j <= n)%nat -> (1 <= sg n j <= n)%nat.
Proof.
  intros Hn Hj. unfold sg. destruct (Nat.ltb_spec j n); [lia|].
  destruct (Nat.eqb_spec j n); lia.
Qed.

Lemma sg_succ c F i k j : (2 <= nt c)%nat -> (1 <= j <= nt c)%nat -> periodic_at c F i k ->
  F i (sg (nt c) (S j)) k == F i (S (sg (nt c) j)) k.
Proof.
  intros Hn Hj [P0 P1]. unfold sg.
  destruct (Nat.ltb_spec (S j) (nt c)); destruct (Nat.ltb_spec j (nt c));
    destruct (Nat.eqb_spec (S j) (nt c)); destruct (Nat.eqb_spec j (nt c)); try lia; try reflexivity.
  - (* S j = nt *) rewrite e. symmetry. exact P1.
Qed.

Lemma sg_pred c F i k j : (2 <= nt c)%nat -> (1 <= j <= nt c)%nat -> periodic_at c F i k ->
  F i (sg (nt c) (pred j)) k == F i (pred (sg (nt c) j)) k.
Proof.
  intros Hn Hj [P0 P1]. unfold sg.
  destruct (Nat.ltb_spec (pred j) (nt c)); destruct (Nat.ltb_spec j (nt c));
    destruct (Nat.eqb_spec (pred j) (nt c)); destruct (Nat.eqb_spec j (nt c)); try lia.
  - replace (S (pred j)) with j by lia. reflexivity.
  - (* j = nt *) replace (S (pred j)) with (nt c) by lia. cbn [pred]. symmetry. exact P0.
Qed.

Lemma sg_Spred (n j : nat) : (1 <= j)%nat -> S (pred j) = j.
Proof. lia. Qed.

Section Shift.
Variable c : cfg.
Variables T0 T : field.
Hypothesis Ht : has_t c = true.
Hypothesis Hn : (2 <= nt c)%nat.
Hypothesis HE : Eqs c T0 T.
(* H2: the coefficient tables are periodic in their theta ghosts on real rows *)
Hypothesis Hcc : forall i k, In i (irange c) -> In k (krange c) -> periodic_at c (cc c) i k.

Let n := nt c.

Lemma T_periodic i k : In i (irange c) -> In k (krange c) -> periodic_at c T i k.
Proof. intros Hi Hk. destruct HE as (_ & _ & Hp & _). exact (Hp Ht i k Hi Hk). Qed.

Lemma jrange_bounds j : In j (jrange c) -> (1 <= j <= nt c)%nat.
Proof. unfold jrange. rewrite Ht. intros H. apply in_seq in H. lia. Qed.

Lemma sg_in_jrange j : In j (jrange c) -> In (sg n j) (jrange c).
Proof.
  intros Hj. pose proof (jrange_bounds j Hj) as B. pose proof (sg_real (nt c) j Hn B).
  unfold jrange. rewrite Ht. apply in_seq. unfold n. lia.
Qed.

Lemma Lap_shift i j k : In i (irange c) -> In j (jrange c) -> In k (krange c) ->
  Lap (shift c) (shF n T) i j k == Lap c T i (sg n j) k.
Proof.
  intros Hi Hj Hk. pose proof (jrange_bounds j Hj) as B.
  pose proof (T_periodic i k Hi Hk) as PT. pose proof (Hcc i k Hi Hk) as PC.
  pose proof (sg_real (nt c) j Hn B) as SR.
  unfold n in *.
  unfold Lap, L_r, L_t, L_z.
  change (has_t (shift c)) with (has_t c). change (has_z (shift c)) with (has_z c).
  rewrite Ht.
  unfold g_r, g_t, g_z, ch_r, ch_t, ch_z, rh, rad, shift, shF; cbn [cc dr dth dz ri].
  rewrite (sg_succ c T i k j Hn B PT), (sg_pred c T i k j Hn B PT).
  rewrite (sg_succ c (cc c) i k j Hn B PC), (sg_pred c (cc c) i k j Hn B PC).
  rewrite (sg_Spred (nt c) j) by lia.
  replace (S (pred (sg (nt c) j))) with (sg (nt c) j) by lia.
  destruct (has_z c); reflexivity.
Qed.

Theorem shift_equivariant : Eqs (shift c) (shF n T0) (shF n T).
Proof.
  destruct HE as (HN & HW & HP & HA). repeat split.
  - intros i j k Hi Hj Hk. change (irange (shift c)) with (irange c) in Hi.
    change (jrange (shift c)) with (jrange c) in Hj. change (krange (shift c)) with (krange c) in Hk.
    pose proof (HN i (sg n j) k Hi (sg_in_jrange j Hj) Hk) as E.
    unfold res_node in *. change (steady (shift c)) with (steady c). change (dt (shift c)) with (dt c).
    pose proof (Lap_shift i j k Hi Hj Hk) as LS.
    set (X := Lap (shift c) (shF n T) i j k) in *.
    destruct (steady c); [rewrite LS; exact E | unfold shF; rewrite LS; exact E].
  - change (jrange (shift c)) with (jrange c) in H. change (krange (shift c)) with (krange c) in H0.
    destruct (HW (sg n j) k (sg_in_jrange j H) H0) as [I _].
    unfold res_inner in *. unfold shift; cbn [inner dr kk]. unfold shF, shW.
    destruct (inner c); cbn [map_wall]; exact I.
  - change (jrange (shift c)) with (jrange c) in H. change (krange (shift c)) with (krange c) in H0.
    destruct (HW (sg n j) k (sg_in_jrange j H) H0) as [_ O].
    unfold res_outer in *. unfold shift; cbn [outer dr kk nr]. unfold shF, shW.
    destruct (outer c); cbn [map_wall]; exact O.
  - unfold shF, sg. change (nt (shift c)) with (nt c). fold n.
    destruct (Nat.ltb_spec 0 n); [|unfold n in *; lia].
    destruct (Nat.ltb_spec n n); [lia|]. rewrite Nat.eqb_refl. reflexivity.
  - unfold shF, sg. change (nt (shift c)) with (nt c). fold n.
    destruct (Nat.ltb_spec (S n) n); [lia|]. destruct (Nat.eqb_spec (S n) n); [lia|].
    destruct (Nat.ltb_spec 1 n); [reflexivity | unfold n in *; lia].
  - change (irange (shift c)) with (irange c) in H0. change (jrange (shift c)) with (jrange c) in H1.
    destruct (HA H i (sg n j) H0 (sg_in_jrange j H1)) as [A0 _]. unfold shF. exact A0.
  - change (irange (shift c)) with (irange c) in H0. change (jrange (shift c)) with (jrange c) in H1.
    destruct (HA H i (sg n j) H0 (sg_in_jrange j H1)) as [_ A1]. unfold shF. change (nz (shift c)) with (nz c). exact A1.
Qed.
End Shift.

(* the rotated problem has no other solution on the real nodes: rotating the
   data rotates the solution and changes nothing else *)
Theorem shift_solution_is_shifted c T0 T T' :
  has_t c = true -> (2 <= nt c)%nat -> good c ->
  wall_h_nonneg c (inner c) -> wall_h_nonneg c (outer c) ->
  (forall i k, In i (irange c) -> In k (krange c) -> periodic_at c (cc c) i k) ->
  (forall i j k, 0 < cc c i (sg (nt c) j) k /\ 0 < kk c i (sg (nt c) j) k) ->
  Eqs c T0 T -> Eqs (shift c) (shF (nt c) T0) T' ->
  forall i j k, real c i j k -> T' i j k == T i (sg (nt c) j) k.
Proof.
  intros Ht Hn G Hi Ho Hcc Hpos HE HE' i j k Hr.
  pose proof (shift_equivariant c T0 T Ht Hn HE Hcc) as HS.
  assert (Gs : good (shift c)).
  { destruct G as [A B C D E F H I J K]. constructor; try assumption. }
  assert (Wi : wall_h_nonneg (shift c) (inner (shift c))).
  { unfold shift; cbn [inner]. destruct (inner c); cbn [map_wall wall_h_nonneg] in *; auto.
    intros j' k' Hj' Hk'. unfold shW. apply Hi; [|exact Hk'].
    change (jrange (shift c)) with (jrange c) in Hj'.
    apply (sg_in_jrange c Ht Hn j' Hj'). }
  assert (Wo : wall_h_nonneg (shift c) (outer (shift c))).
  { unfold shift; cbn [outer]. destruct (outer c); cbn [map_wall wall_h_nonneg] in *; auto.
    intros j' k' Hj' Hk'. unfold shW. apply Ho; [|exact Hk'].
    change (jrange (shift c)) with (jrange c) in Hj'.
    apply (sg_in_jrange c Ht Hn j' Hj'). }
  apply (unique_solution (shift c) (shF (nt c) T0) T' (shF (nt c) T) Gs Wi Wo HE' HS i j k Hr).
Qed.

(* ---- 2D with axisymmetric data = 1D on every ray -------------------------- *)
Definition lift_t (F : field) : field := fun i _ k => F i 0%nat k.
Definition lift_tw (w : wdata) : wdata := fun _ k => w 0%nat k.

Definition axisym_of (c1 : cfg) (nt' : nat) (dth' : Q) : cfg :=
  mkCfg (nr c1) nt' (nz c1) true (has_z c1) (dr c1) dth' (dz c1) (dt c1) (ri c1) (steady c1)
        (lift_t (cc c1)) (lift_t (kk c1))
        (map_wall lift_tw (inner c1)) (map_wall lift_tw (outer c1)).

Theorem axisym_2D_is_1D c1 T0 T nt' dth' :
  has_t c1 = false -> Eqs c1 T0 T -> Eqs (axisym_of c1 nt' dth') (lift_t T0) (lift_t T).
Proof.
  intros Ht (HN & HW & HP & HA).
  assert (J0 : In 0%nat (jrange c1)) by (unfold jrange; rewrite Ht; left; reflexivity).
  repeat split.
  - intros i j k Hi Hj Hk. change (irange (axisym_of c1 nt' dth')) with (irange c1) in Hi.
    change (krange (axisym_of c1 nt' dth')) with (krange c1) in Hk.
    pose proof (HN i 0%nat k Hi J0 Hk) as E.
    unfold res_node in *. change (steady (axisym_of c1 nt' dth')) with (steady c1).
    change (dt (axisym_of c1 nt' dth')) with (dt c1).
    assert (L : Lap (axisym_of c1 nt' dth') (lift_t T) i j k == Lap c1 T i 0%nat k).
    { unfold Lap, L_r, L_t, L_z. change (has_t (axisym_of c1 nt' dth')) with true.
      change (has_z (axisym_of c1 nt' dth')) with (has_z c1). rewrite Ht.
      unfold g_r, g_t, g_z, ch_r, ch_t, ch_z, rh, rad, axisym_of, lift_t; cbn [cc dr dth dz ri].
      destruct (has_z c1); unfold Qdiv; ring. }
    set (X := Lap (axisym_of c1 nt' dth') (lift_t T) i j k) in *.
    destruct (steady c1); [rewrite L; exact E | unfold lift_t; rewrite L; exact E].
  - change (krange (axisym_of c1 nt' dth')) with (krange c1) in H0.
    destruct (HW 0%nat k J0 H0) as [I _]. unfold res_inner in *. unfold axisym_of; cbn [inner dr kk].
    unfold lift_t, lift_tw. destruct (inner c1); cbn [map_wall]; exact I.
  - change (krange (axisym_of c1 nt' dth')) with (krange c1) in H0.
    destruct (HW 0%nat k J0 H0) as [_ O]. unfold res_outer in *. unfold axisym_of; cbn [outer dr kk nr].
    unfold lift_t, lift_tw. destruct (outer c1); cbn [map_wall]; exact O.
  - change (irange (axisym_of c1 nt' dth')) with (irange c1) in H0.
    change (has_z (axisym_of c1 nt' dth')) with (has_z c1) in H.
    destruct (HA H i 0%nat H0 J0) as [A0 _]. unfold lift_t. exact A0.
  - change (irange (axisym_of c1 nt' dth')) with (irange c1) in H0.
    change (has_z (axisym_of c1 nt' dth')) with (has_z c1) in H.
    destruct (HA H i 0%nat H0 J0) as [_ A1]. unfold lift_t. change (nz (axisym_of c1 nt' dth')) with (nz c1). exact A1.
Qed.

(* ---- 3D with axially uniform data = 2D on every plane ---------------------- *)
Definition lift_z (F : field) : field := fun i j _ => F i j 0%nat.
Definition lift_zw (w : wdata) : wdata := fun j _ => w j 0%nat.

Definition zuniform_of (c2 : cfg) (nz' : nat) (dz' : Q) : cfg :=
  mkCfg (nr c2) (nt c2) nz' (has_t c2) true (dr c2) (dth c2) dz' (dt c2) (ri c2) (steady c2)
        (lift_z (cc c2)) (lift_z (kk c2))
        (map_wall lift_zw (inner c2)) (map_wall lift_zw (outer c2)).

Theorem uniform_3D_is_2D c2 T0 T nz' dz' :
  has_z c2 = false -> Eqs c2 T0 T -> Eqs (zuniform_of c2 nz' dz') (lift_z T0) (lift_z T).
Proof.
  intros Hz (HN & HW & HP & HA).
  assert (K0 : In 0%nat (krange c2)) by (unfold krange; rewrite Hz; left; reflexivity).
  repeat split.
  - intros i j k Hi Hj Hk. change (irange (zuniform_of c2 nz' dz')) with (irange c2) in Hi.
    change (jrange (zuniform_of c2 nz' dz')) with (jrange c2) in Hj.
    pose proof (HN i j 0%nat Hi Hj K0) as E.
    unfold res_node in *. change (steady (zuniform_of c2 nz' dz')) with (steady c2).
    change (dt (zuniform_of c2 nz' dz')) with (dt c2).
    assert (L : Lap (zuniform_of c2 nz' dz') (lift_z T) i j k == Lap c2 T i j 0%nat).
    { unfold Lap, L_r, L_t, L_z. change (has_z (zuniform_of c2 nz' dz')) with true.
      change (has_t (zuniform_of c2 nz' dz')) with (has_t c2). rewrite Hz.
      unfold g_r, g_t, g_z, ch_r, ch_t, ch_z, rh, rad, zuniform_of, lift_z; cbn [cc dr dth dz ri].
      destruct (has_t c2); unfold Qdiv; ring. }
    set (X := Lap (zuniform_of c2 nz' dz') (lift_z T) i j k) in *.
    destruct (steady c2); [rewrite L; exact E | unfold lift_z; rewrite L; exact E].
  - change (jrange (zuniform_of c2 nz' dz')) with (jrange c2) in H.
    destruct (HW j 0%nat H K0) as [I _]. unfold res_inner in *. unfold zuniform_of; cbn [inner dr kk].
    unfold lift_z, lift_zw. destruct (inner c2); cbn [map_wall]; exact I.
  - change (jrange (zuniform_of c2 nz' dz')) with (jrange c2) in H.
    destruct (HW j 0%nat H K0) as [_ O]. unfold res_outer in *. unfold zuniform_of; cbn [outer dr kk nr].
    unfold lift_z, lift_zw. destruct (outer c2); cbn [map_wall]; exact O.
  - change (irange (zuniform_of c2 nz' dz')) with (irange c2) in H0.
    change (has_t (zuniform_of c2 nz' dz')) with (has_t c2) in H.
    destruct (HP H i 0%nat H0 K0) as [P0 _]. unfold lift_z. change (nt (zuniform_of c2 nz' dz')) with (nt c2). exact P0.
  - change (irange (zuniform_of c2 nz' dz')) with (irange c2) in H0.
    change (has_t (zuniform_of c2 nz' dz')) with (has_t c2) in H.
    destruct (HP H i 0%nat H0 K0) as [_ P1]. unfold lift_z. change (nt (zuniform_of c2 nz' dz')) with (nt c2). exact P1.
Qed.

(* ---- flattened numbering --------------------------------------------------- *)
Lemma dof_bound NR NT NZ i j k :
  (i < NR)%nat -> (j < NT)%nat -> (k < NZ)%nat -> (dof NT NZ i j k < NR * NT * NZ)%nat.
Proof.
  intros Hi Hj Hk. unfold dof.
  assert (A : (S i * (NT * NZ) <= NR * (NT * NZ))%nat) by (apply Nat.mul_le_mono_r; lia).
  assert (B : (S j * NZ <= NT * NZ)%nat) by (apply Nat.mul_le_mono_r; lia).
  lia.
Qed.

Lemma dof_injective NT NZ i j k i' j' k' :
  (j < NT)%nat -> (k < NZ)%nat -> (j' < NT)%nat -> (k' < NZ)%nat ->
  dof NT NZ i j k = dof NT NZ i' j' k' -> i = i' /\ j = j' /\ k = k'.
Proof.
  unfold dof. intros Hj Hk Hj' Hk' E.
  assert (E2 : ((i * NT + j) * NZ + k = (i' * NT + j') * NZ + k')%nat) by lia.
  assert (A : (i * NT + j = i' * NT + j')%nat /\ k = k').
  { assert (Hz : NZ <> 0%nat) by lia.
    pose proof (Nat.div_mod_unique NZ (i * NT + j) (i' * NT + j') k k' Hk Hk').
    replace (NZ * (i * NT + j) + k)%nat with ((i * NT + j) * NZ + k)%nat in H by lia.
    replace (NZ * (i' * NT + j') + k')%nat with ((i' * NT + j') * NZ + k')%nat in H by lia.
    exact (H E2). }
  destruct A as [A1 A2].
  pose proof (Nat.div_mod_unique NT i i' j j' Hj Hj').
  replace (NT * i + j)%nat with (i * NT + j)%nat in H by lia.
  replace (NT * i' + j')%nat with (i' * NT + j')%nat in H by lia.
  destruct (H A1). auto.
Qed.

Lemma dof_surjective NR NT NZ d :
  (d < NR * NT * NZ)%nat -> exists i j k, (i < NR)%nat /\ (j < NT)%nat /\ (k < NZ)%nat /\ dof NT NZ i j k = d.
Proof.
  intros Hd.
  assert (NZ <> 0)%nat by (intros E; subst; lia).
  assert (NT <> 0)%nat by (intros E; subst; lia).
  exists ((d / NZ) / NT)%nat, ((d / NZ) mod NT)%nat, (d mod NZ)%nat.
  pose proof (Nat.div_mod d NZ H). pose proof (Nat.div_mod (d / NZ) NT H0).
  pose proof (Nat.mod_upper_bound d NZ H). pose proof (Nat.mod_upper_bound (d / NZ) NT H0).
  repeat split; try assumption.
  - apply Nat.div_lt_upper_bound; [assumption|]. apply Nat.div_lt_upper_bound; [assumption|]. lia.
  - unfold dof. nia.
Qed.
