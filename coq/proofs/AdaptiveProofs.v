From Coq Require Import ZArith List Bool Lia.
From SV Require Import model.Adaptive.
Import ListNotations.
Open Scope Z_scope.

(* Loop invariant of the fixed model. *)
Definition Inv (n : Z) (s : st) : Prop :=
  exists e q, 1 <= e <= n + 1 /\ inc s = 2 ^ e /\ n <= e + mdiv s /\
              0 <= mdiv s < n /\ cprog s = q * 2 ^ e /\ 0 <= cprog s <= total n /\
              tlast s = cprog s.

Lemma total_pow n : 0 <= n -> total n = 2 ^ (n + 1).
Proof. intros H. unfold total. replace (n + 1) with (Z.succ n) by lia. rewrite Z.pow_succ_r by lia. reflexivity. Qed.

Lemma pow_split e : 1 <= e -> 2 ^ e = 2 * 2 ^ (e - 1).
Proof. intros H. replace e with (Z.succ (e - 1)) at 1 by lia. rewrite Z.pow_succ_r by lia. reflexivity. Qed.

Lemma pow_pos e : 0 <= e -> 0 < 2 ^ e.
Proof. intros. apply Z.pow_pos_nonneg; lia. Qed.

Lemma init_inv n forced : 1 <= n -> Inv n (init n forced).
Proof.
  intros Hn. destruct forced; unfold init, Inv; cbn [inc mdiv cprog tlast].
  - exists 1, 0. rewrite total_pow by lia. pose proof (pow_pos (n + 1)). repeat split; try lia.
  - exists (n + 1), 0. rewrite total_pow by lia. pose proof (pow_pos (n + 1)). repeat split; lia.
Qed.

(* one more increment of the current size fits exactly *)
Lemma step_fits n e q :
  1 <= e <= n + 1 -> q * 2 ^ e < 2 ^ (n + 1) -> 0 <= q * 2 ^ e -> (q + 1) * 2 ^ e <= 2 ^ (n + 1).
Proof.
  intros He Hlt Hge.
  replace (n + 1) with (e + (n + 1 - e)) in * by lia.
  rewrite Z.pow_add_r in * by lia.
  pose proof (pow_pos e ltac:(lia)) as Pe.
  pose proof (pow_pos (n + 1 - e) ltac:(lia)) as Pr.
  assert (q < 2 ^ (n + 1 - e)) by nia.
  nia.
Qed.

Lemma inv_ok n s k :
  1 <= n -> Inv n s -> cprog s < total n ->
  Inv n (mkSt (cprog s + inc s) (inc s) (mdiv s) k (cprog s + inc s))
  /\ cprog s < cprog s + inc s <= total n.
Proof.
  intros Hn (e & q & He & Hinc & Hem & Hm & Hc & Hr & Ht) Hlt.
  rewrite total_pow in * by lia.
  pose proof (pow_pos e ltac:(lia)) as Pe.
  assert (Hfit : (q + 1) * 2 ^ e <= 2 ^ (n + 1)) by (apply step_fits; lia).
  split.
  - exists e, (q + 1). cbn [inc mdiv cprog tlast]. rewrite total_pow by lia. repeat split; try lia.
  - lia.
Qed.

Lemma inv_fail n s :
  1 <= n -> Inv n s -> mdiv s + 1 < n ->
  Inv n (mkSt (cprog s) (inc s / 2) (mdiv s + 1) (last s) (tlast s)).
Proof.
  intros Hn (e & q & He & Hinc & Hem & Hm & Hc & Hr & Ht) Hlt.
  assert (2 <= e) by lia.
  exists (e - 1), (2 * q). cbn [inc mdiv cprog tlast].
  rewrite Hinc. rewrite (pow_split e) by lia.
  replace (2 * 2 ^ (e - 1)) with (2 ^ (e - 1) * 2) by lia.
  rewrite Z.div_mul by lia.
  repeat split; try lia.
  rewrite Hc, (pow_split e) by lia. lia.
Qed.

Lemma count_failed_cons a tr :
  count_failed (a :: tr) = (if a_ok a then count_failed tr else S (count_failed tr)).
Proof. unfold count_failed. cbn [filter]. destruct (a_ok a); reflexivity. Qed.

Definition post (n : Z) (k : nat) (s : st) (o : outcome) (tr : list attempt) : Prop :=
  match o with
  | Return f => Chain (total n) (last s) (cprog s) tr f
                /\ Z.of_nat (count_failed tr) < n - mdiv s
  | Raise => Z.of_nat (count_failed tr) = n - mdiv s
  | OutOfFuel => False
  end.

Lemma loop_post n fails : 1 <= n -> forall fuel k s o tr,
  Inv n s -> (cprog s = total n -> last s = k) ->
  (total n - cprog s) + (n - mdiv s) < Z.of_nat fuel ->
  loop true n fails fuel k s = (o, tr) ->
  post n k s o tr.
Proof.
  intros Hn. induction fuel as [|fuel IH]; intros k s o tr HI Hk Hfuel Hrun.
  - destruct HI as (e & q & ? & ? & ? & ? & ? & ? & ?). lia.
  - cbn [loop] in Hrun.
    destruct (cprog s <? total n) eqn:Hlt.
    + apply Z.ltb_lt in Hlt.
      destruct (fails k) eqn:Hf.
      * (* failed attempt *)
        destruct (mdiv s + 1 >=? n) eqn:Hm.
        -- apply Z.geb_le in Hm. inversion Hrun; subst o tr. unfold post.
           rewrite count_failed_cons. cbn [a_ok negb]. unfold count_failed. cbn [filter length].
           destruct HI as (e & q & ? & ? & ? & ? & ? & ? & ?). lia.
        -- assert (Hm' : mdiv s + 1 < n).
           { destruct (Z.geb_spec (mdiv s + 1) n); [discriminate | lia]. }
           pose proof (inv_fail n s Hn HI Hm') as HI'.
           destruct (loop true n fails fuel (S k) _) as [o' tr'] eqn:Hrec in Hrun.
           inversion Hrun; subst o tr. clear Hrun.
           apply IH in Hrec; [ | exact HI' | cbn [cprog]; lia | cbn [cprog mdiv]; lia ].
           destruct HI as (e & q & ? & Hinc & ? & ? & ? & ? & Ht).
           pose proof (pow_pos e ltac:(lia)).
           destruct (inv_ok n s k Hn) as [_ Hrange];
             [ exists e, q; repeat split; lia | lia | ].
           unfold post in *. cbn [cprog mdiv last] in Hrec.
           destruct o'; try exact Hrec.
           ++ destruct Hrec as [Hch Hcnt]. split.
              ** apply ch_fail; cbn [a_ok a_from_state a_from a_to negb]; try reflexivity; try lia.
                 exact Hch.
              ** rewrite count_failed_cons. cbn [a_ok negb]. lia.
           ++ rewrite count_failed_cons. cbn [a_ok negb]. lia.
      * (* converged attempt *)
        destruct (inv_ok n s (S k) Hn HI Hlt) as [HI' Hrange].
        destruct (loop true n fails fuel (S k) _) as [o' tr'] eqn:Hrec in Hrun.
        inversion Hrun; subst o tr. clear Hrun.
        destruct HI as (e & q & ? & Hinc & ? & ? & ? & ? & Ht).
        pose proof (pow_pos e ltac:(lia)).
        apply IH in Hrec; [ | exact HI' | cbn [last]; reflexivity | cbn [cprog mdiv]; lia ].
        unfold post in *. cbn [cprog mdiv last] in Hrec.
        destruct o'; try exact Hrec.
        -- destruct Hrec as [Hch Hcnt]. split.
           ++ apply ch_ok; cbn [a_ok a_from_state a_from a_to a_idx negb]; try reflexivity; try lia.
              exact Hch.
           ++ rewrite count_failed_cons. cbn [a_ok negb]. lia.
    + apply Z.ltb_ge in Hlt.
      destruct HI as (e & q & ? & Hinc & ? & Hmd & ? & ? & Ht).
      assert (Hge : (mdiv s >=? n) = false).
      { destruct (Z.geb_spec (mdiv s) n); [lia | reflexivity]. }
      rewrite Hge in Hrun. inversion Hrun; subst o tr. unfold post.
      assert (Hfin : cprog s = total n) by lia.
      split.
      * rewrite (Hk Hfin). rewrite Hfin. apply ch_done.
      * unfold count_failed. cbn. lia.
Qed.

Lemma run_post n forced fails o tr : 1 <= n ->
  run true n forced fails = (o, tr) -> post n 0%nat (init n forced) o tr.
Proof.
  intros Hn Hrun. unfold run in Hrun.
  eapply loop_post; eauto.
  - apply init_inv; assumption.
  - intros H. pose proof (pow_pos n ltac:(lia)). destruct forced; cbn [init cprog] in H; unfold total in H; lia.
  - unfold fuel_for. pose proof (pow_pos n ltac:(lia)).
    rewrite Z2Nat.id by (unfold total; lia).
    destruct forced; cbn [init cprog mdiv]; lia.
Qed.

(* ---- the property theorems, for every n >= 1, mode and failure pattern --- *)

Lemma success_is_converged_contiguous n forced fails f tr : 1 <= n ->
  run true n forced fails = (Return f, tr) ->
  Chain (total n) 0%nat 0 tr f.
Proof.
  intros Hn Hrun. pose proof (run_post n forced fails _ _ Hn Hrun) as H.
  unfold post in H. destruct H as [H _]. destruct forced; exact H.
Qed.

Lemma never_out_of_fuel n forced fails tr : 1 <= n ->
  run true n forced fails <> (OutOfFuel, tr).
Proof.
  intros Hn Hrun. pose proof (run_post n forced fails _ _ Hn Hrun) as H. exact H.
Qed.

Lemma raise_iff_exhausted n forced fails o tr : 1 <= n ->
  run true n forced fails = (o, tr) ->
  let allowed := if forced then 1 else n in
  (o = Raise <-> Z.of_nat (count_failed tr) = allowed) /\
  ((exists f, o = Return f) <-> Z.of_nat (count_failed tr) < allowed).
Proof.
  intros Hn Hrun allowed. pose proof (run_post n forced fails _ _ Hn Hrun) as H.
  assert (Ha : n - mdiv (init n forced) = allowed).
  { unfold allowed. destruct forced; cbn; lia. }
  unfold post in H. rewrite Ha in H.
  destruct o.
  - destruct H as [_ H]. split; split; intros X; try discriminate; try lia. eauto.
  - split; split; intros X; try reflexivity; try lia. destruct X as [f X]; discriminate.
  - contradiction.
Qed.

(* Readable consequences of Chain: what the accepted (converged) attempts look
   like on their own. *)
Definition accepted (tr : list attempt) : list attempt := filter a_ok tr.

Inductive Contig (T : Z) : nat -> Z -> list attempt -> nat -> Prop :=
| cg_done : forall st, Contig T st T [] st
| cg_step : forall st pos a tr f,
    a_from_state a = st -> a_from a = pos -> pos < a_to a -> a_to a <= T ->
    Contig T (S (a_idx a)) (a_to a) tr f -> Contig T st pos (a :: tr) f.

Lemma chain_accepted T st pos tr f :
  Chain T st pos tr f -> Contig T st pos (accepted tr) f.
Proof.
  induction 1 as [st | st pos a tr f Hok Hs Hp Hlt Hle _ IH | st pos a tr f Hok Hs Hp Hlt Hle _ IH];
    unfold accepted in *; cbn [filter].
  - constructor.
  - rewrite Hok. constructor; assumption.
  - rewrite Hok. exact IH.
Qed.

(* every attempt, converged or not, starts from the step start or from the
   result of a converged attempt *)
Lemma chain_starts_converged T st pos tr f :
  Chain T st pos tr f ->
  forall a, In a tr ->
    a_from_state a = st \/ exists b, In b tr /\ a_ok b = true /\ a_from_state a = S (a_idx b).
Proof.
  induction 1 as [st | st pos a0 tr f Hok Hs Hp Hlt Hle _ IH | st pos a0 tr f Hok Hs Hp Hlt Hle _ IH];
    intros a Hin.
  - destruct Hin.
  - destruct Hin as [<- | Hin]; [left; assumption|].
    destruct (IH a Hin) as [H1 | (b & Hb & Hbok & Hbs)].
    + right. exists a0. repeat split; auto. left; reflexivity.
    + right. exists b. repeat split; auto. right; assumption.
  - destruct Hin as [<- | Hin]; [left; assumption|].
    destruct (IH a Hin) as [H1 | (b & Hb & Hbok & Hbs)].
    + left; assumption.
    + right. exists b. repeat split; auto. right; assumption.
Qed.

Lemma chainb_sound T : forall tr st pos f, chainb T st pos tr f = true -> Chain T st pos tr f.
Proof.
  induction tr as [|a tr IH]; intros st pos f H; cbn [chainb] in H.
  - apply andb_prop in H. destruct H as [H1 H2].
    apply Z.eqb_eq in H1. apply Nat.eqb_eq in H2. subst. constructor.
  - rewrite !andb_true_iff in H. destruct H as [[[[H1 H2] H3] H4] H5].
    apply Nat.eqb_eq in H1. apply Z.eqb_eq in H2. apply Z.ltb_lt in H3. apply Z.leb_le in H4.
    destruct (a_ok a) eqn:Hok.
    + apply ch_ok; auto.
    + apply ch_fail; auto.
Qed.

(* ---- the pinned (literal) code violates the property ------------------- *)
Lemma literal_refuted :
  exists fails f tr, run false 4 false fails = (Return f, tr) /\ chainb (total 4) 0%nat 0 tr f = false.
Proof.
  exists (fails_of [0%nat]).
  eexists. eexists. split.
  - vm_compute. reflexivity.
  - vm_compute. reflexivity.
Qed.

(* non-vacuity: a run with failures that still succeeds *)
Example run_nontrivial :
  exists f tr, run true 3 false (fails_of [0; 2]%nat) = (Return f, tr)
               /\ count_failed tr = 2%nat /\ length (accepted tr) = 3%nat.
Proof. eexists. eexists. vm_compute. repeat split. Qed.
