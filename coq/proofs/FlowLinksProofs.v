(* The link equations as they stand in flowpath.py (coq/gen/FlowLinks.v, regenerated
   from the source on every run) are the hand-written model of model/FlowPath.v,
   definition by definition.  The equalities are syntactic (Leibniz): the model was
   written after the code, so any edit of the source expressions shows up here. *)
From Coq Require Import QArith List Bool String.
From SV Require Import model.FlowPath gen.FlowLinks.
Import ListNotations.
Open Scope Q_scope.

Lemma gen_ntube_is_model p : gen_ntube p = ntube p.
Proof. reflexivity. Qed.

Lemma gen_cells_are_model pi p : gen_dz p = dz p /\ gen_dtheta pi p = dtheta pi p.
Proof. split; reflexivity. Qed.

Lemma gen_tmean_is_model tin tout : gen_tmean tin tout = tmean tin tout.
Proof. reflexivity. Qed.

Lemma gen_velocity_is_model pi f p mdot tin tout : gen_velocity pi f p mdot tin tout = velocity pi f p mdot tin tout.
Proof. reflexivity. Qed.

Lemma gen_fluid_temps_is_model p tin tout : gen_fluid_temps p tin tout = fluid_temps p tin tout.
Proof. reflexivity. Qed.

Lemma gen_q_mass_is_model f p mdot tin w tout : gen_q_mass f p mdot tin w tout = q_mass f p mdot tin w tout.
Proof. reflexivity. Qed.

Lemma gen_q_conv_is_model pi f p mdot tin w tout tm : gen_q_conv pi f p mdot tin w tout tm = q_conv pi f p mdot tin w tout tm.
Proof. reflexivity. Qed.

Lemma gen_panel_residual_is_model pi f p mdot tin touts :
  panel_residual pi f p mdot tin touts =
  map (fun t => let '(w, tout, tm) := t in gen_panel_residual pi f p mdot tin w tout tm) (zip3 (weights p) touts (metal p)).
Proof. reflexivity. Qed.

Lemma gen_manifold_residual_is_model p touts tman : gen_manifold_residual p touts tman = manifold_residual p touts tman.
Proof. reflexivity. Qed.

Lemma gen_start_residual_is_model pi f mdot inlet panels t0 rest :
  path_residual pi f mdot inlet panels (t0 :: rest) = gen_start_residual inlet t0 :: chain_residual pi f mdot panels t0 rest.
Proof. reflexivity. Qed.

(* the axial stations of a panel link: nz points from 0 to the tube height, both ends included *)
Lemma gen_zs_are_linspace : gen_zs_source = "np.linspace(0, self.h, self.metal_temp.shape[3])"%string.
Proof. reflexivity. Qed.

(* which entries of the wall solver's ghosted temperature field the flow path reads: radial index 1 (the first real
   node, the inner wall; the field T 1 j k of model/Thermal.v and metal_of in proofs/CoupledEnergy.v), the real
   circumferential and axial nodes 1 .. n (slice 1:-1), reduced abstractions broadcast over the missing directions *)
Definition radial_index (sl : list string) : option string := nth_error sl 1.

Lemma gen_metal_is_inner_wall :
  forallb (fun r => match radial_index (snd r) with Some i => String.eqb i "1" | None => false end) gen_metal_slices = true
  /\ map fst gen_metal_slices = ["3D"; "2D"; "1D"]%string.
Proof. split; vm_compute; reflexivity. Qed.

Lemma gen_metal_real_nodes :
  gen_metal_slices = [("3D", ["..."; "1"; "1:-1"; "1:-1"]); ("2D", [":"; "1"; "1:-1"; "None"]); ("1D", [":"; "1"; "None"; "None"])]%string.
Proof. reflexivity. Qed.

Lemma gen_panel_inputs_are_documented :
  gen_panel_inputs = [("weights", "np.array([float(tube.multiplier) for tube in panel.tubes.values()])");
                      ("ri", "np.array([tube.r - tube.t for tube in panel.tubes.values()])[0]");
                      ("h", "np.array([tube.h for tube in panel.tubes.values()])[0]");
                      ("metal_temps", "np.swapaxes(np.array(metal_temps), 0, 1)")]%string.
Proof. reflexivity. Qed.
