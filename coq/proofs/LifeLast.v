(* The last-cycle extrapolation rule, completed: with non-negative per-day damages
   the extrapolated damages grow with the repetition count, so envelope membership
   is antitone in the count and the reported life is exactly the first integer
   count outside the envelope. *)
From Coq Require Import QArith Qabs List Bool ZArith Lia Lqa.
From SV Require Import model.Life proofs.LifeProofs proofs.LifeInvariance.
Import ListNotations.
Open Scope Q_scope.

Definition nonneg (l : list Q) : Prop := forall d, In d l -> 0 <= d.

Lemma firstn_In {A} (l : list A) n x : In x (firstn n l) -> In x l.
Proof. intros H. rewrite <- (firstn_skipn n l). apply in_or_app. left. exact H. Qed.

Lemma sumQ_nonneg l : nonneg l -> 0 <= sumQ l.
Proof.
  induction l as [|x r IH]; intros H; [cbn; lra|].
  change (sumQ (x :: r)) with (x + sumQ r).
  assert (0 <= x) by (apply H; left; reflexivity).
  assert (0 <= sumQ r) by (apply IH; intros d Hd; apply H; right; exact Hd). lra.
Qed.

Lemma sum_firstn_mono : forall l (a b : nat), nonneg l -> (a <= b)%nat -> sumQ (firstn a l) <= sumQ (firstn b l).
Proof.
  induction l as [|x r IH]; intros a b H Hab; [rewrite !firstn_nil; lra|].
  assert (Hx : 0 <= x) by (apply H; left; reflexivity).
  assert (Hr : nonneg r) by (intros d Hd; apply H; right; exact Hd).
  destruct a as [|a], b as [|b]; try lia; cbn [firstn].
  - lra.
  - change (sumQ []) with 0. change (sumQ (x :: firstn b r)) with (x + sumQ (firstn b r)).
    assert (0 <= sumQ (firstn b r)) by (apply sumQ_nonneg; intros d Hd; apply Hr; apply (firstn_In r b d Hd)). lra.
  - change (sumQ (x :: firstn a r)) with (x + sumQ (firstn a r)). change (sumQ (x :: firstn b r)) with (x + sumQ (firstn b r)).
    specialize (IH a b Hr ltac:(lia)). lra.
Qed.

Lemma last_In {A} (d : A) : forall l, l <> [] -> In (last l d) l.
Proof.
  induction l as [|x r IH]; intros H; [congruence|].
  destruct r as [|y r']; [left; reflexivity|]. right. apply IH. discriminate.
Qed.

Lemma last_nonneg l : nonneg l -> 0 <= last l 0.
Proof.
  intros H. destruct l as [|x r]; [cbn; lra|]. apply H. apply last_In. discriminate.
Qed.

Lemma inject_Z_le a b : (a <= b)%Z -> inject_Z a <= inject_Z b.
Proof. intros H. rewrite <- Zle_Qle. exact H. Qed.

(* the extrapolated damage grows with the repetition count *)
Theorem extrap_last_mono D a b : nonneg D -> (0 <= a <= b)%Z -> extrap_last D a <= extrap_last D b.
Proof.
  intros HD Hab. unfold extrap_last.
  assert (Hl := last_nonneg D HD).
  assert (Hrem : removelast D = firstn (pred (length D)) D) by apply removelast_firstn_len.
  destruct (a <? Z.of_nat (length D) - 1)%Z eqn:Ea, (b <? Z.of_nat (length D) - 1)%Z eqn:Eb.
  - apply sum_firstn_mono; [exact HD | lia].
  - apply Z.ltb_lt in Ea. apply Z.ltb_ge in Eb.
    assert (A : sumQ (firstn (Z.to_nat a) D) <= sumQ (removelast D)) by (rewrite Hrem; apply sum_firstn_mono; [exact HD | lia]).
    assert (B : 0 <= last D 0 * inject_Z b).
    { apply Qmult_le_0_compat; [exact Hl|]. change 0 with (inject_Z 0). apply inject_Z_le. lia. }
    lra.
  - apply Z.ltb_ge in Ea. apply Z.ltb_lt in Eb. lia.
  - assert (inject_Z a <= inject_Z b) by (apply inject_Z_le; lia).
    assert (last D 0 * inject_Z a <= last D 0 * inject_Z b).
    { rewrite (Qmult_comm _ (inject_Z a)), (Qmult_comm _ (inject_Z b)). apply Qmult_le_compat_r; assumption. }
    lra.
Qed.

Lemma extrap_last_nonneg D n : nonneg D -> (0 <= n)%Z -> 0 <= extrap_last D n.
Proof.
  intros HD Hn. unfold extrap_last. destruct (n <? Z.of_nat (length D) - 1)%Z.
  - apply sumQ_nonneg. intros d Hd. apply HD. apply (firstn_In D (Z.to_nat n) d Hd).
  - assert (0 <= sumQ (removelast D)).
    { apply sumQ_nonneg. intros d Hd. apply HD. rewrite removelast_firstn_len in Hd. apply (firstn_In D _ d Hd). }
    assert (0 <= last D 0 * inject_Z n).
    { apply Qmult_le_0_compat; [apply last_nonneg; exact HD|]. change 0 with (inject_Z 0). apply inject_Z_le. exact Hn. }
    lra.
Qed.

Section LastCycle.
Variables xk yk : Q.
Hypothesis Hx : 0 < xk < 1.
Hypothesis Hy : 0 < yk < 1.
Variables Dc Df : list Q.
Hypothesis HDc : nonneg Dc.
Hypothesis HDf : nonneg Df.

Definition member (n : Z) : bool := inside xk yk (extrap_last Df n) (extrap_last Dc n).

Lemma member_antitone a b : (0 <= a <= b)%Z -> member b = true -> member a = true.
Proof.
  intros Hab H. unfold member in *.
  apply (inside_mono xk yk Hx Hy _ _ (extrap_last Df b) (extrap_last Dc b)); try exact H.
  - apply extrap_last_nonneg; [exact HDc | lia].
  - apply extrap_last_mono; assumption.
  - apply extrap_last_mono; assumption.
Qed.

(* the life reported under the last-cycle rule is the first repetition count outside the
   envelope: every smaller non-negative count is inside, every larger one outside *)
Theorem last_cycle_life :
  member 1 = true -> member 1000000 = false ->
  exists r : Z, point_life_last xk yk Dc Df = Cross (inject_Z r) /\ (1 < r <= 1000000)%Z /\
    (forall n, (0 <= n < r)%Z -> member n = true) /\ (forall n, (r <= n)%Z -> member n = false).
Proof.
  intros H1 Hm.
  (* the predicate the bisection sees, made antitone on all of Z by clamping negative counts *)
  set (P := fun n : Z => member (Z.max n 0)).
  assert (PA : forall a b, (a <= b)%Z -> P b = true -> P a = true).
  { intros a b Hab Hb. unfold P in *. apply (member_antitone (Z.max a 0) (Z.max b 0)); [lia | exact Hb]. }
  assert (B := last_boundary P PA H1 Hm). cbv zeta in B. destruct B as (Br & Bt & Bf).
  assert (E : bisect P 1 1000000 40 = bisect member 1 1000000 40).
  { assert (G : forall fuel lo hi, (0 <= lo)%Z -> bisect P lo hi fuel = bisect member lo hi fuel).
    { induction fuel as [|f IH]; intros lo hi Hlo; [reflexivity|]. cbn [bisect].
      destruct (hi - lo <=? 1)%Z eqn:Es; [reflexivity|]. apply Z.leb_gt in Es.
      assert (Hmid : (0 <= (lo + hi) / 2)%Z) by (apply Z.div_pos; lia).
      unfold P at 1. rewrite Z.max_l by exact Hmid.
      destruct (member ((lo + hi) / 2)); apply IH; lia. }
    apply G. lia. }
  exists (bisect member 1 1000000 40). rewrite <- E. repeat split; try lia.
  - unfold point_life_last. cbv zeta.
    change (inside xk yk (extrap_last Df 1) (extrap_last Dc 1)) with (member 1). rewrite H1. cbn [negb].
    change (inside xk yk (extrap_last Df 1000000) (extrap_last Dc 1000000)) with (member 1000000). rewrite Hm.
    change (fun n : Z => inside xk yk (extrap_last Df n) (extrap_last Dc n)) with member. rewrite E. reflexivity.
  - intros n Hn. apply (member_antitone n (bisect P 1 1000000 40 - 1)); [lia|].
    change (member (Z.max (bisect P 1 1000000 40 - 1) 0) = true) in Bt. rewrite Z.max_l in Bt by lia. exact Bt.
  - intros n Hn. destruct (member n) eqn:Em; [|reflexivity].
    assert (X : member (bisect P 1 1000000 40) = true) by (apply (member_antitone _ n); [lia | exact Em]).
    change (member (Z.max (bisect P 1 1000000 40) 0) = false) in Bf. rewrite Z.max_l in Bf by lia. congruence.
Qed.
End LastCycle.
