(* The element formula of the crack-shape independent models over an abstract
   power function, and the aggregation over elements, tubes and panels (reals). *)
From Coq Require Import Reals List Lra.
Import ListNotations.
Open Scope R_scope.

Section Laws.
(* pw x m stands for x^m on x >= 0, m > 0 *)
Variable pw : R -> R -> R.
Hypothesis pw_nonneg : forall x m, 0 <= x -> 0 <= pw x m.
Hypothesis pw_zero : forall m, pw 0 m = 0.
Hypothesis pw_mono : forall x y m, 0 <= x -> x <= y -> pw x m <= pw y m.
Hypothesis pw_mult : forall l x m, 0 <= l -> 0 <= x -> pw (l * x) m = pw l m * pw x m.
Hypothesis pw_ge1 : forall l m, 1 <= l -> 1 <= pw l m.

Definition pos (x : R) : R := Rmax x 0.

Fixpoint sumR (l : list R) : R := match l with [] => 0 | x :: r => x + sumR r end.

(* PIA at zero service time: log R = - k * V * sum_i (max(p_i, 0))^m *)
Definition pia (k V m : R) (p : list R) : R := - k * V * sumR (map (fun x => pw (pos x) m) p).

Lemma pos_nonneg x : 0 <= pos x.
Proof. unfold pos. apply Rmax_r. Qed.

Lemma sum_pw_nonneg m p : 0 <= sumR (map (fun x => pw (pos x) m) p).
Proof. induction p as [|x r IH]; cbn; [lra|]. pose proof (pw_nonneg (pos x) m (pos_nonneg x)). lra. Qed.

Theorem pia_nonpos k V m p : 0 <= k -> 0 <= V -> pia k V m p <= 0.
Proof.
  intros Hk HV. unfold pia. pose proof (sum_pw_nonneg m p).
  assert (0 <= k * V * sumR (map (fun x => pw (pos x) m) p)) by (apply Rmult_le_pos; [apply Rmult_le_pos|]; assumption).
  lra.
Qed.

Theorem reliability_in_0_1 x : x <= 0 -> 0 < exp x <= 1.
Proof.
  intros H. split; [apply exp_pos|].
  destruct (Req_dec x 0) as [-> | N]; [rewrite exp_0; lra|].
  left. rewrite <- exp_0. apply exp_increasing. lra.
Qed.

Theorem pia_compressive_is_zero k V m p : (forall x, In x p -> x <= 0) -> pia k V m p = 0.
Proof.
  intros H. unfold pia.
  assert (E : sumR (map (fun x => pw (pos x) m) p) = 0).
  { induction p as [|x r IH]; cbn; [reflexivity|].
    assert (pos x = 0) by (unfold pos; apply Rmax_right; apply H; left; reflexivity).
    rewrite H0, pw_zero, IH; [lra|]. intros y Hy. apply H. right. exact Hy. }
  rewrite E. ring.
Qed.

Theorem pia_volume_linear k V V' m p : pia k (V + V') m p = pia k V m p + pia k V' m p.
Proof. unfold pia. ring. Qed.

Lemma pos_scale l x : 0 <= l -> pos (l * x) = l * pos x.
Proof.
  intros Hl. unfold pos. destruct (Rle_dec x 0) as [N | P].
  - rewrite (Rmax_right x 0 N). rewrite Rmax_right; [ring|]. rewrite <- (Rmult_0_r l). apply Rmult_le_compat_l; assumption.
  - assert (0 <= x) by lra. rewrite (Rmax_left x 0 H). rewrite Rmax_left; [ring|]. apply Rmult_le_pos; assumption.
Qed.

(* zero service time: scaling the stresses by l scales log R by l^m *)
Theorem pia_homogeneous k V m p l : 0 <= l -> pia k V m (map (Rmult l) p) = pw l m * pia k V m p.
Proof.
  intros Hl. unfold pia.
  assert (E : sumR (map (fun x => pw (pos x) m) (map (Rmult l) p)) = pw l m * sumR (map (fun x => pw (pos x) m) p)).
  { induction p as [|x r IH]; cbn; [ring|]. rewrite IH, (pos_scale l x Hl), (pw_mult l (pos x) m Hl (pos_nonneg x)). ring. }
  rewrite E. ring.
Qed.

(* scaling stresses up never increases the reliability *)
Theorem pia_scale_antitone k V m p l : 0 <= k -> 0 <= V -> 1 <= l -> pia k V m (map (Rmult l) p) <= pia k V m p.
Proof.
  intros Hk HV Hl. rewrite pia_homogeneous by lra.
  pose proof (pw_ge1 l m Hl). pose proof (pia_nonpos k V m p Hk HV).
  set (P := pia k V m p) in *. set (L := pw l m) in *.
  assert (0 <= (L - 1) * (- P)) by (apply Rmult_le_pos; lra). lra.
Qed.
End Laws.

(* ---- aggregation -------------------------------------------------------------------------- *)
(* panel reliability = product of tube reliabilities raised to their multipliers;
   overall = product over panels *)
Fixpoint prodR (l : list R) : R := match l with [] => 1 | x :: r => x * prodR r end.

Theorem exp_weighted_sum (l : list (nat * R)) :
  exp (sumR (map (fun mx => INR (fst mx) * snd mx) l)) = prodR (map (fun mx => exp (snd mx) ^ fst mx) l).
Proof.
  induction l as [|[m x] r IH]; cbn [map sumR prodR fst snd]; [apply exp_0|].
  rewrite exp_plus, IH. f_equal.
  induction m as [|m IHm]; [cbn; rewrite Rmult_0_l; apply exp_0|].
  rewrite S_INR. replace ((INR m + 1) * x) with (INR m * x + x) by ring. rewrite exp_plus, IHm. cbn. ring.
Qed.

Theorem exp_sum (l : list R) : exp (sumR l) = prodR (map exp l).
Proof. induction l as [|x r IH]; cbn; [apply exp_0 | rewrite exp_plus, IH; reflexivity]. Qed.
